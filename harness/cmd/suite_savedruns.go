//go:build verif

package main

// Property C12, output side.
//
// `save` lines (shared by the suites `naming` and `saved-runs`): a directory written by crem's
// REAL Saver is parsed back and reported as one protocol line; the Lean model predicts the same
// line from (family, output type, level, scenario name, runs, per run: the key the summary map
// happened to yield + the solutions that exist + the decision-variable values of a FRESH model
// evaluated at each solution's action encoding).  So the diff decides at once: file names, set
// name, labels, notes, row order, number rendering and that every row carries the fresh model's
// values.  The same clauses are evaluated directly on the implementation (Ctx.Fail).
//
//   naming     : Saver.ObserveEvent called in-process on harness-built archives (set sizes 0..40,
//                both families), each case repeated in fresh directories.  ONE Saver observes every
//                run of a case and writes them into ONE directory, as the scenario runner does:
//                single runs (r of R) and ALL runs of scenarios of 2, 3, 5 runs (a few of 11, 12).
//                Clean and adversarial scenario names alike (`..`, `/`, parentheses, newlines,
//                `As-Is`, `Solution`; the audit's witnesses `trial (1/1)`, `As-Is baseline`,
//                `Best Solution` x 3 runs first); left out are only names the filesystem cannot
//                carry (fsCanCarry).  Nothing may appear beside the output directory.
//   saved-runs : whole scenarios built from generated TOML text by crem's own config interpreters
//                and run by Scenario.Run() in CHILD processes (each in a scratch working directory),
//                both annealer families over the catchment model with the shipped CSV data, runs 1-4
//                (thorough: 10, 11, 100), CSV/JSON, Summary/Detail, each configuration repeated >= 8
//                times; adversarial names (3 runs of `Best Solution`, `Run 3/4 test`, ...); scenarios
//                with a Maximum<Variable> limit on each of the six variables (C03's output side:
//                every written row except the As-Is row respects the limit); scenarios that leave
//                out OutputType / OutputLevel / OutputPath.
//
// Direct failures are reported for every scenario name and every repetition (the round-3 repairs make
// the clauses hold for every name), identical ones once per case (failSink).  C11's output side is
// evaluated on every written detail file: total = sum of the per-planning-unit figures (within half a
// grid unit, and exactly as whole numbers of grid units) and TN = PN + DN per catchment and per unit.

import (
	"encoding/json"
	"fmt"
	"math"
	"os"
	"os/exec"
	"path/filepath"
	"sort"
	"strconv"
	"strings"
	"sync"
	"syscall"
	"time"

	explorerdata "github.com/LindsayBradford/crem/cmd/cremexplorer/config/data"
	explorerinterp "github.com/LindsayBradford/crem/cmd/cremexplorer/config/interpreter"
	"github.com/LindsayBradford/crem/internal/pkg/annealing/solution"
	"github.com/LindsayBradford/crem/internal/pkg/annealing/solution/encoding"
	"github.com/LindsayBradford/crem/internal/pkg/config/interpreter"
	"github.com/LindsayBradford/crem/internal/pkg/model"
	marchive "github.com/LindsayBradford/crem/internal/pkg/model/archive"
	"github.com/LindsayBradford/crem/internal/pkg/model/models/catchment"
	"github.com/LindsayBradford/crem/internal/pkg/observer"
	"github.com/LindsayBradford/crem/internal/pkg/parameters"
	"github.com/LindsayBradford/crem/internal/pkg/scenario"
	"github.com/LindsayBradford/crem/pkg/archive"
	"github.com/LindsayBradford/crem/pkg/logging/loggers"
)

func init() {
	register("saved-runs", suiteSavedRuns)
	register("saved-run-child", savedRunChild)
}

// ---------------------------------------------------------------- ground truth of one scenario execution

type runTruth struct {
	R       int      `json:"r"`       // run number (1-based)
	Id      string   `json:"id"`      // id the run carried (archive / compressed model id)
	Members []string `json:"members"` // action encodings of the solutions, in archive order
}

type saveCase struct {
	fam, otype, level, name string
	R                       int
	runs                    []runTruth
	// the scenario's limit (saved-runs only): Maximum<varNames[limVar]> = limit.  It does not change the `save` line:
	// the model predicts names and rows from the recorded encodings.
	limOn  bool
	limVar int
	limit  float64
	// the directory already held the results of an earlier execution of the same scenario: detail files of that
	// execution's (differently sized) solution sets may remain; everything this execution writes is judged as usual
	reexec bool
}

func (sc saveCase) ext() string { return strings.ToLower(sc.otype) }

// sorted decision-variable names and their index into varNames
func sortedVars() ([]string, []int) {
	names := append([]string(nil), varNames...)
	sort.Strings(names)
	idx := make([]int, len(names))
	for i, n := range names {
		for j, m := range varNames {
			if n == m {
				idx[i] = j
			}
		}
	}
	return names, idx
}

func encodingOf(bits []bool) string {
	ba := archive.New(len(bits))
	for i, b := range bits {
		ba.SetValue(i, b)
	}
	return ba.Encoding()
}

func decodeBits(enc string, n int) ([]bool, error) {
	ba := archive.New(n)
	var err error
	if p := protect(func() { err = ba.Decode(enc) }); p != "" {
		return nil, fmt.Errorf("decode panic: %s", p)
	}
	if err != nil {
		return nil, err
	}
	out := make([]bool, n)
	for i := range out {
		out[i] = ba.Value(i)
	}
	return out, nil
}

// ---------------------------------------------------------------- parsing a written summary

type sumRow struct {
	label, actions, note string
	names                []string
	vals                 []float64
	valTexts             []string
}

type parsedSummary struct {
	setName string // JSON only
	header  []string
	rows    []sumRow
	text    string
}

func parseCsvSummary(text string) (*parsedSummary, error) {
	ps := &parsedSummary{text: text}
	lines := strings.Split(text, "\n")
	if len(lines) < 2 || lines[len(lines)-1] != "" {
		return nil, fmt.Errorf("summary does not end in a newline")
	}
	lines = lines[:len(lines)-1]
	ps.header = strings.Split(lines[0], ", ")
	nv := len(ps.header) - 3
	if nv < 0 {
		return nil, fmt.Errorf("short header")
	}
	for _, l := range lines[1:] {
		f := strings.Split(l, ", ")
		if len(f) != len(ps.header) {
			return nil, fmt.Errorf("row with %d fields under a header of %d: %q", len(f), len(ps.header), l)
		}
		row := sumRow{label: f[0], actions: f[nv+1], note: f[nv+2], names: ps.header[1 : nv+1]}
		for _, t := range f[1 : nv+1] {
			v, err := strconv.ParseFloat(t, 64)
			if err != nil {
				return nil, err
			}
			row.vals = append(row.vals, v)
			row.valTexts = append(row.valTexts, t)
		}
		ps.rows = append(ps.rows, row)
	}
	return ps, nil
}

func parseJsonSummary(text string) (*parsedSummary, error) {
	var raw struct {
		SolutionSet string
		Solutions   []struct {
			Id        string
			Variables []struct {
				Name  string
				Value float64
			}
			Actions string
			Note    string
		}
	}
	if err := json.Unmarshal([]byte(text), &raw); err != nil {
		return nil, err
	}
	ps := &parsedSummary{text: text, setName: raw.SolutionSet}
	for _, s := range raw.Solutions {
		row := sumRow{label: s.Id, actions: s.Actions, note: s.Note}
		for _, v := range s.Variables {
			row.names = append(row.names, v.Name)
			row.vals = append(row.vals, v.Value)
		}
		ps.rows = append(ps.rows, row)
	}
	return ps, nil
}

// canonical JSON content: set name, rows (label, name/value pairs at 3 places, actions, note)
func (ps *parsedSummary) jsonCanon() string {
	var sb strings.Builder
	fmt.Fprintf(&sb, "%s %d", pct(ps.setName), len(ps.rows))
	for _, r := range ps.rows {
		fmt.Fprintf(&sb, " %s %d", pct(r.label), len(r.vals))
		for i := range r.vals {
			fmt.Fprintf(&sb, " %s %s", pct(r.names[i]), gridFmt(r.vals[i], 3))
		}
		fmt.Fprintf(&sb, " %s %s", pct(r.actions), pct(r.note))
	}
	return sb.String()
}

// ---------------------------------------------------------------- the shared check of one written directory

type saveOutcome struct {
	op, res      string
	summaryFiles []string // base names of the summary files found, in run order ("" = none)
	setNames     []string
}

// failSink reports the direct failures of ONE case (one finished scenario, saved / executed several times).  Every
// repetition and every scenario name is reported - since the round-3 repairs the clauses hold for every name - but
// an identical failure (same signature, same detail) is reported once per case, so that one defect prints once.
// The histogram keeps the streams apart (`clean save` / `adv save` / `saved-runs`).
type failSink struct {
	c       *Ctx
	stream  string
	seen    map[string]bool
	context []string // comment lines ("# ...") put in front of every failing input
}

func newFailSink(c *Ctx, stream string) *failSink {
	return &failSink{c: c, stream: stream, seen: map[string]bool{}}
}

func (fs *failSink) fail(pred, sig, detail string, ops []string) {
	key := sig + "\x00" + detail
	if fs.seen[key] {
		fs.c.Stat(fs.stream + ": direct failure seen again in another repetition of the case (reported once): " + sig)
		return
	}
	fs.seen[key] = true
	if len(fs.context) > 0 {
		ops = append(append([]string(nil), fs.context...), ops...)
	}
	fs.c.Fail(pred, sig, detail, ops)
	fs.c.Stat(fs.stream + ": direct failure " + sig)
}

// examineSaved parses `dir`, evaluates the property's clauses directly and returns the protocol line.
// `died` = the writing execution panicked (in-process: recovered; child: process died), with its message.
// Direct failures go to `sink` with the case's `save` line as the failing input.
func examineSaved(c *Ctx, nm *namer, ref *Ref, sc saveCase, dir string, died string, sink *failSink) saveOutcome {
	vnames, vidx := sortedVars()
	nAct := ref.cm.n()
	ents, _ := os.ReadDir(dir)
	var listing []string
	for _, e := range ents {
		listing = append(listing, e.Name())
	}
	sort.Strings(listing)
	have := map[string]bool{}
	for _, f := range listing {
		have[f] = true
	}
	suffix := "-Summary." + sc.ext()
	claimed := map[string]bool{}

	var op strings.Builder
	fmt.Fprintf(&op, "save %s %s %s %s %d %d", sc.fam, sc.ext(), strings.ToLower(sc.level), pct(sc.name), sc.R, len(vnames))
	for _, v := range vnames {
		op.WriteString(" " + pct(v))
	}
	fmt.Fprintf(&op, " %d", len(sc.runs))
	var contents []string
	out := saveOutcome{}
	// failures are collected and sent off with the complete `save` line, which is only known at the end
	type pendingFailure struct{ pred, sig, detail string }
	var pending []pendingFailure
	fail := func(pred, sig, detail string) { pending = append(pending, pendingFailure{pred, sig, detail}) }
	claimedBy := map[string]int{} // summary file -> the run it was attributed to

	for _, run := range sc.runs {
		rid := realRunId(sc.name, run.R, sc.R)
		if rid != run.Id {
			fail("C12: the run id is name or name (r/R)", "saved:run-id", fmt.Sprintf("run %d carried id %q, Runner.generateCloneId gives %q", run.R, run.Id, rid))
		}
		keys := nm.realKeys(sc.fam, rid, len(run.Members))
		dummy := nm.realSummary(keys)
		keyIdx, file := "none", ""
		panicIdx := "none"
		var candidates []string
		for i, k := range keys {
			im := imageOfKey(dummy, k)
			cand := im.safe + suffix
			candidates = append(candidates, cand)
			if have[cand] && file == "" {
				keyIdx, file = strconv.Itoa(i), cand
			}
			if sc.otype == "JSON" && strings.HasPrefix(im.js, "panic") && panicIdx == "none" {
				panicIdx = strconv.Itoa(i)
			}
		}
		nFound := 0
		for _, cnd := range uniq(candidates) {
			if have[cnd] {
				nFound++
				claimed[cnd] = true
			}
		}
		if died == "" && nFound != 1 {
			fail("C12: for every finished run the explorer writes one summary", "saved:summary-count",
				fmt.Sprintf("run %q: %d summary files among the candidates %q; directory: %q", rid, nFound, uniq(candidates), listing))
		}
		if file != "" {
			// one summary PER run: a file that two runs of the scenario take for theirs was written twice, the later
			// save overwrote the earlier one
			if other, shared := claimedBy[file]; shared && died == "" {
				fail("C12: for every finished run the explorer writes one summary (the runs of one scenario do not share a summary file)", "saved:summary-count",
					fmt.Sprintf("runs %d and %d of scenario %q (%d runs) both have %q as their summary file: one save overwrote the other; directory: %q", other, run.R, sc.name, sc.R, file, listing))
			} else if !shared {
				claimedBy[file] = run.R
			}
		}
		// the JSON set name is derived from ANOTHER, independent iteration of the same map
		setIdx := "none"
		if died != "" && file == "" {
			setIdx = panicIdx
		}
		out.summaryFiles = append(out.summaryFiles, file)

		// rows the run should have: as-is + each member, with a fresh model's values
		encs := append([]string{encodingOf(make([]bool, nAct))}, run.Members...)
		var rawSummary []byte
		var preParsed *parsedSummary
		if file != "" {
			var err error
			rawSummary, err = os.ReadFile(filepath.Join(dir, file))
			must(err)
			if sc.otype == "JSON" {
				if preParsed, err = parseJsonSummary(string(rawSummary)); err == nil {
					for i, k := range keys {
						if im := imageOfKey(dummy, k); im.js == pct(preParsed.setName) {
							setIdx = strconv.Itoa(i)
							break
						}
					}
				}
			}
		}
		fmt.Fprintf(&op, " %d %s %s %d", run.R, keyIdx, setIdx, len(encs))
		fresh := make([][6]float64, len(encs))
		freshBits := make([][]bool, len(encs))
		for i, e := range encs {
			bits, err := decodeBits(e, nAct)
			if err != nil {
				panic("harness: cannot decode a recorded encoding: " + err.Error())
			}
			freshBits[i] = bits
			fresh[i] = ref.at(bits).totals
			op.WriteString(" " + pct(e))
			for _, vi := range vidx {
				op.WriteString(" " + floatBits(fresh[i][vi]))
			}
		}
		if file == "" {
			contents = append(contents, "missing")
			out.setNames = append(out.setNames, "")
			continue
		}
		raw := rawSummary
		var err error
		var ps *parsedSummary
		// the free-text note of a row (last CSV column / "Note") is nothing the property talks about: whatever the code under
		// test writes there is replaced, by POSITION, with the wording of the pinned commit, which the model renders
		canonNote := func(i int) string {
			switch {
			case i == 0:
				return "As-is state; zero active management actions"
			case sc.fam == "single":
				return "Computationally optimised solution"
			}
			return fmt.Sprintf("Pareto front member %d of %d", i, len(run.Members))
		}
		if sc.otype == "CSV" {
			ps, err = parseCsvSummary(string(raw))
			text := string(raw)
			if err == nil {
				lines := strings.Split(text, "\n")
				for i, row := range ps.rows {
					if l := lines[i+1]; strings.HasSuffix(l, row.note) {
						if row.note != canonNote(i) {
							c.Stat("saved-runs: a row's note differs from the pinned wording (not compared)")
						}
						lines[i+1] = l[:len(l)-len(row.note)] + canonNote(i)
					}
				}
				text = strings.Join(lines, "\n")
			}
			contents = append(contents, pct(text))
		} else {
			ps, err = parseJsonSummary(string(raw))
			if err == nil {
				for i := range ps.rows {
					if ps.rows[i].note != canonNote(i) {
						c.Stat("saved-runs: a row's note differs from the pinned wording (not compared)")
					}
					ps.rows[i].note = canonNote(i)
				}
				contents = append(contents, ps.jsonCanon())
			} else {
				contents = append(contents, "unparsable")
			}
		}
		if err != nil {
			fail("C12: the summary parses back", "saved:summary-unparsable", fmt.Sprintf("%s: %v", file, err))
			out.setNames = append(out.setNames, "")
			continue
		}
		out.setNames = append(out.setNames, ps.setName)
		// ---- direct clauses
		if len(ps.rows) != len(encs) {
			fail("C12: rows are exactly the as-is state followed by each solution of that run", "saved:row-count",
				fmt.Sprintf("%s has %d rows, the run has as-is + %d solutions", file, len(ps.rows), len(run.Members)))
		}
		seen := map[string]int{}
		for i, row := range ps.rows {
			if j, dup := seen[row.label]; dup {
				fail("C12: row labels are unique within a summary", sigDupLabels,
					fmt.Sprintf("%s: rows %d and %d are both labelled %q", file, j, i, row.label))
				break
			}
			seen[row.label] = i
		}
		for i, row := range ps.rows {
			if i >= len(encs) {
				break
			}
			if row.actions != encs[i] {
				fail("C12: rows are exactly the as-is state followed by each solution of that run, in archive order", "saved:rows-not-asis-then-members",
					fmt.Sprintf("%s row %d has action encoding %q, expected %q", file, i, row.actions, encs[i]))
				if sc.fam != "single" && i > 0 {
					// C05: the solution set as finally REPORTED is the set the run held (seed C05n)
					fail("C05: the reported solution set is the set the run held: each member with its own action set", "saved:member-action-set-differs",
						fmt.Sprintf("%s member %d is reported with the action set %q, the run's solution set holds %q there", file, i, row.actions, encs[i]))
				}
				continue
			}
			if len(row.vals) != 6 {
				fail("C12: every row gives the six decision-variable values", "saved:row-variable-count", fmt.Sprintf("%s row %d has %d values", file, i, len(row.vals)))
				continue
			}
			for k, vi := range vidx {
				if row.names[k] != vnames[k] {
					fail("C12: every row gives the decision-variable values", "saved:row-variable-names", fmt.Sprintf("%s row %d column %d is %q, expected %q", file, i, k, row.names[k], vnames[k]))
				}
				if math.Abs(row.vals[k]-fresh[i][vi]) > 0.5e-3+1e-9 {
					fail("C12: every row gives the decision-variable values of the model evaluated at the row's action encoding", "saved:row-values-differ-from-fresh-model",
						fmt.Sprintf("%s row %d (%s, actions %s): %s = %v in the file, a fresh model gives %v", file, i, row.label, row.actions, vnames[k], row.vals[k], fresh[i][vi]))
					// C05's last clause, for the solution set of a multi-objective run as it is finally REPORTED (seed C05m)
					if sc.fam != "single" && i > 0 {
						fail("C05: each reported member's objective values are those of the model evaluated at that member's action set", "saved:member-values-differ-from-fresh-model",
							fmt.Sprintf("%s member %d (%s, actions %s): %s = %v as reported, a fresh model at that action set gives %v", file, i, row.label, row.actions, vnames[k], row.vals[k], fresh[i][vi]))
					}
				}
			}
		}
		// ---- C03, output side: under a limit on one variable, every solution written respects it.  Row 0, the As-Is row,
		// is EXCLUDED: it is not a solution of the run but the unoptimised reference state (no action active) that the
		// Saver writes in front of every summary for comparison; under a pollutant limit it exceeds the limit by design
		// (the limit asks for less than the untreated catchment produces) - that is counted as an observation and not
		// raised.  Every OTHER row (also a member whose encoding happens to be all-inactive) is held to the limit, both
		// in the exact value of a fresh model at the row's encoding and in the written cell at reporting precision.
		if sc.limOn {
			limName := varNames[sc.limVar]
			col := -1
			for k, n := range vnames {
				if n == limName {
					col = k
				}
			}
			for i, row := range ps.rows {
				bits, err := decodeBits(row.actions, nAct)
				if err != nil || len(row.vals) != len(vnames) {
					continue // reported by the clauses above
				}
				exact, cell := ref.at(bits).totals[sc.limVar], row.vals[col]
				if i == 0 {
					c.Stat(fmt.Sprintf("saved-runs: As-Is rows seen under a limit variable=%s", limName))
					if exact > sc.limit {
						c.Stat(fmt.Sprintf("saved-runs: As-Is row exceeds the scenario's limit (the reference state, excluded by design) variable=%s", limName))
					}
					continue
				}
				c.Stat(fmt.Sprintf("saved-runs: limited rows checked variable=%s family=%s", limName, sc.fam))
				if exact > sc.limit || cell > sc.limit+1e-9 {
					fail("C03: every solution written to the output files respects the scenario's limit: in every written summary the limited variable of every row except the As-Is row is <= the limit (the As-Is row is the unoptimised reference state with no action active; under a pollutant limit it exceeds the limit by design and is written for comparison only)",
						"saved:row-exceeds-limit",
						fmt.Sprintf("%s row %d (%s, actions %s): %s = %v in the file, a fresh model at that encoding gives %v; the scenario was configured with %s = %v",
							file, i, row.label, row.actions, limName, cell, exact, varMaxKey[sc.limVar], sc.limit))
				}
			}
		}
		// ---- detail files: totals re-summed from the per-planning-unit values; action flags
		if sc.level == "Detail" {
			for i, k := range keys {
				if i >= len(encs) {
					break
				}
				sid := (&solution.Solution{Id: k}).FileNameSafeId()
				checkDetail(c, ref, sc, dir, sid, have, freshBits[i], fresh[i], vnames, vidx, fail)
				for _, f := range detailNames(sc, sid) {
					claimed[f] = true
				}
			}
		}
	}
	if died == "" {
		for _, f := range listing {
			if !claimed[f] && !sc.reexec {
				fail("C12: the output directory holds the runs' summaries (and detail files) and nothing else", "saved:unexpected-file",
					fmt.Sprintf("file %q belongs to no run; directory: %q", f, listing))
				break
			}
		}
	}
	var res strings.Builder
	if died != "" {
		res.WriteString("panic")
	} else {
		shown := listing
		if sc.reexec { // files an earlier execution left behind are not this execution's: the model is shown what this one wrote
			shown = nil
			for _, f := range listing {
				if claimed[f] {
					shown = append(shown, f)
				}
			}
		}
		fmt.Fprintf(&res, "%d", len(shown))
		for _, f := range shown {
			res.WriteString(" " + pct(f))
		}
		for _, ct := range contents {
			res.WriteString(" | " + ct)
		}
	}
	out.op, out.res = op.String(), res.String()
	for _, pf := range pending {
		sink.fail(pf.pred, pf.sig, pf.detail, []string{out.op})
	}
	return out
}

func uniq(xs []string) []string {
	m := map[string]bool{}
	var out []string
	for _, x := range xs {
		if !m[x] {
			m[x] = true
			out = append(out, x)
		}
	}
	return out
}

func detailNames(sc saveCase, safeId string) []string {
	if sc.otype == "CSV" {
		return []string{safeId + "-ManagementActions.csv", safeId + "-NameMappedVariables.csv"}
	}
	return []string{safeId + ".json"}
}

// detailVar: one decision variable of a written detail file: its total and its per-planning-unit figures (keyed by
// the planning unit's id as written; a unit that is not listed has the value zero).
type detailVar struct {
	name  string
	total float64
	units map[string]float64
}

// gridUnits converts a written figure to a whole number of grid units (10^-prec); ok = it is within 1e-6 grid units of one.
func gridUnits(v float64, prec int) (int64, bool) {
	scaled := v * math.Pow10(prec)
	n := math.Round(scaled)
	return int64(n), math.Abs(scaled-n) <= 1e-6+math.Abs(n)*1e-12 && !math.IsNaN(scaled) && !math.IsInf(scaled, 0)
}

// checkDetail: the detail files of one solution.  C12: totals equal the fresh model's, active actions equal the
// encoding's bits.  C11's output side: each total equals the sum of its per-planning-unit figures, and
// TotalNitrogen = ParticulateNitrogen + DissolvedNitrogen for the catchment and for every planning unit.
func checkDetail(c *Ctx, ref *Ref, sc saveCase, dir, sid string, have map[string]bool, bits []bool, fresh [6]float64,
	vnames []string, vidx []int, fail func(pred, sig, detail string)) {
	prec := func(k int) int { return varPrec[vidx[k]] }
	indexOf := func(name string) int {
		for i, n := range vnames {
			if n == name {
				return i
			}
		}
		return -1
	}
	checkVars := func(file string, vars []detailVar) {
		byName := map[string]detailVar{}
		for _, dv := range vars {
			k := indexOf(dv.name)
			if k < 0 {
				fail("C12: detail files list the model's decision variables", "saved:detail-unknown-variable", file+": "+dv.name)
				continue
			}
			byName[dv.name] = dv
			p := prec(k)
			tol := 0.5*math.Pow10(-p) + 1e-9
			if math.Abs(dv.total-fresh[vidx[k]]) > tol {
				fail("C12: saved values are those of the model evaluated at the action encoding", "saved:detail-values-differ-from-fresh-model",
					fmt.Sprintf("%s: %s = %v, a fresh model gives %v", file, dv.name, dv.total, fresh[vidx[k]]))
			}
			sum := 0.0
			for _, u := range dv.units {
				sum += u
			}
			if math.Abs(sum-dv.total) > tol {
				fail("C11: totals in the saved files equal the sum of the per-planning-unit values (output side)", "saved:total-differs-from-sum-of-units",
					fmt.Sprintf("%s: %s total %v, per-planning-unit values sum to %v", file, dv.name, dv.total, sum))
			}
			c.Stat("save: detail variable re-summed")
			// the re-sum at the grid: every figure is written at the variable's reporting precision, i.e. it is a whole
			// number of grid units (10^-3 for the pollutant variables, 10^-2 for the costs)
			totalUnits, totalOnGrid := gridUnits(dv.total, p)
			unitSum, unitsOnGrid := int64(0), true
			for _, u := range dv.units {
				g, on := gridUnits(u, p)
				unitSum += g
				unitsOnGrid = unitsOnGrid && on
			}
			if !totalOnGrid || !unitsOnGrid {
				c.Stat("save: detail variable with a figure off its reporting grid")
				fail("C11: the figures of a saved detail file are written at the variable's reporting precision", "saved:detail-figure-off-grid",
					fmt.Sprintf("%s: %s: total on the 10^-%d grid: %v, every per-planning-unit figure on it: %v", file, dv.name, p, totalOnGrid, unitsOnGrid))
				continue
			}
			c.Stat("save: detail variable re-summed exactly at its reporting grid")
			if unitSum != totalUnits {
				fail("C11: totals in the saved files equal the sum of the per-planning-unit values EXACTLY at the reporting grid: every figure is a whole number of grid units (10^-3 pollutants, 10^-2 costs) and the whole numbers add up (output side)",
					"saved:total-differs-from-sum-of-units-at-grid",
					fmt.Sprintf("%s: %s total %v = %d grid units of 10^-%d, its %d per-planning-unit figures sum to %d grid units", file, dv.name, dv.total, totalUnits, p, len(dv.units), unitSum))
			}
		}
		// TotalNitrogen = ParticulateNitrogen + DissolvedNitrogen, for the catchment total and for every planning unit,
		// exactly at the 10^-3 grid all three are written on (a unit a variable does not list has the value zero)
		tn, okT := byName[varNames[3]]
		pn, okP := byName[varNames[1]]
		dn, okD := byName[varNames[2]]
		if okT && okP && okD {
			predTN := "C11: TotalNitrogen = ParticulateNitrogen + DissolvedNitrogen for the catchment and for every planning unit in every saved detail file, exactly at the 10^-3 reporting grid (output side)"
			grid := func(v float64) int64 { g, _ := gridUnits(v, 3); return g } // off-grid figures were reported above
			if t, pp, d := grid(tn.total), grid(pn.total), grid(dn.total); t != pp+d {
				fail(predTN, "saved:tn-differs-from-pn-plus-dn",
					fmt.Sprintf("%s: catchment totals: TotalNitrogen %v, ParticulateNitrogen %v + DissolvedNitrogen %v (%d vs %d + %d grid units)", file, tn.total, pn.total, dn.total, t, pp, d))
			}
			c.Stat("save: TN = PN + DN checked on a catchment total")
			pus := map[string]bool{}
			for _, m := range []map[string]float64{tn.units, pn.units, dn.units} {
				for pu := range m {
					pus[pu] = true
				}
			}
			for _, pu := range sortedKeys(pus) {
				if t, pp, d := grid(tn.units[pu]), grid(pn.units[pu]), grid(dn.units[pu]); t != pp+d {
					fail(predTN, "saved:tn-differs-from-pn-plus-dn",
						fmt.Sprintf("%s: planning unit %s: TotalNitrogen %v, ParticulateNitrogen %v + DissolvedNitrogen %v (%d vs %d + %d grid units)", file, pu, tn.units[pu], pn.units[pu], dn.units[pu], t, pp, d))
					break
				}
				c.Stat("save: TN = PN + DN checked on a planning unit")
			}
		} else if len(vars) > 0 {
			fail("C11: TotalNitrogen = ParticulateNitrogen + DissolvedNitrogen in every saved detail file (output side)", "saved:detail-nitrogen-variable-missing",
				fmt.Sprintf("%s lists TotalNitrogen: %v, ParticulateNitrogen: %v, DissolvedNitrogen: %v", file, okT, okP, okD))
		}
	}
	acts := ref.cm.m.ManagementActions()
	checkActive := func(file string, active map[string]bool) {
		for i, a := range acts {
			key := fmt.Sprintf("%d/%s", a.PlanningUnit(), a.Type())
			if active[key] != bits[i] {
				fail("C12: the saved management actions are those of the row's action encoding", "saved:detail-actions-differ-from-encoding",
					fmt.Sprintf("%s: action %s saved as active=%v, the encoding says %v", file, key, active[key], bits[i]))
				return
			}
		}
	}
	if sc.otype == "CSV" {
		f := sid + "-NameMappedVariables.csv"
		if have[f] {
			raw, _ := os.ReadFile(filepath.Join(dir, f))
			lines := strings.Split(strings.TrimSuffix(string(raw), "\n"), "\n")
			head := strings.Split(lines[0], ", ")
			var vars []detailVar
			for _, l := range lines[1:] {
				fs := strings.Split(l, ", ")
				if len(fs) < 3 {
					continue
				}
				dv := detailVar{name: fs[0], units: map[string]float64{}}
				dv.total, _ = strconv.ParseFloat(fs[1], 64)
				for j := 3; j < len(fs); j++ {
					u, err := strconv.ParseFloat(fs[j], 64)
					if err != nil {
						u = math.NaN()
					}
					// the column heading reads <planning-unit heading>-<id>
					pu := strconv.Itoa(j)
					if j < len(head) {
						pu = head[j][strings.LastIndex(head[j], "-")+1:]
					}
					dv.units[pu] = u
				}
				vars = append(vars, dv)
			}
			checkVars(f, vars)
		}
		f = sid + "-ManagementActions.csv"
		if have[f] {
			raw, _ := os.ReadFile(filepath.Join(dir, f))
			lines := strings.Split(strings.TrimSuffix(string(raw), "\n"), "\n")
			head := strings.Split(lines[0], ", ")
			active := map[string]bool{}
			for _, l := range lines[1:] {
				fs := strings.Split(l, ", ")
				for j := 1; j < len(fs) && j < len(head); j++ {
					if fs[j] == "1" {
						active[fs[0]+"/"+head[j]] = true
					}
				}
			}
			checkActive(f, active)
		}
		return
	}
	f := sid + ".json"
	if !have[f] {
		return
	}
	raw, _ := os.ReadFile(filepath.Join(dir, f))
	// the JSON marshaler renders numbers as (localised) strings and replaces the text "PlanningUnit" by
	// the model's planning-unit heading everywhere
	var sol map[string]interface{}
	if err := json.Unmarshal(raw, &sol); err != nil {
		fail("C12: detail files parse back", "saved:detail-unparsable", f+": "+err.Error())
		return
	}
	num := func(v interface{}) float64 {
		switch t := v.(type) {
		case float64:
			return t
		case string:
			x, err := strconv.ParseFloat(strings.ReplaceAll(t, ",", ""), 64)
			if err != nil {
				return math.NaN()
			}
			return x
		}
		return math.NaN()
	}
	dvs, _ := sol["DecisionVariables"].([]interface{})
	if len(dvs) != 6 {
		fail("C12: detail files list the model's decision variables", "saved:detail-variable-count", fmt.Sprintf("%s lists %d decision variables", f, len(dvs)))
	}
	var vars []detailVar
	for _, d := range dvs {
		dv, _ := d.(map[string]interface{})
		name, _ := dv["Name"].(string)
		out := detailVar{name: name, total: num(dv["Value"]), units: map[string]float64{}}
		for k, v := range dv {
			if strings.HasPrefix(k, "ValuePer") {
				items, _ := v.([]interface{})
				for n, it := range items {
					if m, ok := it.(map[string]interface{}); ok {
						// {"<planning-unit heading>": "<id>", "Value": "<figure>"}
						pu := "#" + strconv.Itoa(n)
						for mk, mv := range m {
							if mk != "Value" {
								pu = fmt.Sprint(mv)
							}
						}
						out.units[pu] = num(m["Value"])
					}
				}
			}
		}
		vars = append(vars, out)
	}
	checkVars(f, vars)
	active := map[string]bool{}
	if m, ok := sol["ActiveManagementActions"].(map[string]interface{}); ok {
		for pu, ts := range m {
			if l, ok := ts.([]interface{}); ok {
				for _, t := range l {
					active[pu+"/"+fmt.Sprint(t)] = true
				}
			}
		}
	}
	checkActive(f, active)
}

// ---------------------------------------------------------------- naming suite: the real Saver in-process

type saveRig struct {
	ref   *Ref
	model *catchment.Model
	ds    string
}

func newSaveRig(ds string) (*saveRig, error) {
	ref, err := newRef(ds, -1, 0)
	if err != nil {
		return nil, err
	}
	m := catchment.NewModel().WithParameters(parameters.Map{"DataSourcePath": relToCwd(ds)})
	if e := m.ParameterErrors(); e != nil {
		return nil, e
	}
	m.Initialise(model.AsIs)
	return &saveRig{ref: ref, model: m, ds: ds}, nil
}

// newSaver builds the ONE Saver of a scenario as the scenario runner does: it observes every run of the scenario
// and writes them all into one directory.
func (rig *saveRig) newSaver(sc saveCase, dir string) *scenario.Saver {
	saver := scenario.NewSaver().
		WithOutputType(encoding.OutputType(sc.otype)).
		WithOutputPath(dir).
		WithOutputLevel(scenario.OutputLevel(sc.level)).
		WithLogHandler(loggers.NewNullLogger())
	saver.SetDecompressionModel(rig.model)
	return saver
}

// observeFinish performs what one finished run makes the scenario's Saver do; returns the panic text ("" = none).
func (rig *saveRig) observeFinish(saver *scenario.Saver, sc saveCase, run runTruth) string {
	nAct := rig.ref.cm.n()
	ev := observer.NewEvent(observer.FinishedAnnealing)
	if sc.fam == "single" {
		bits, _ := decodeBits(run.Members[0], nAct)
		st := (&cand{vec: []float64{1}, bits: bits}).state()
		st.SetId(run.Id)
		ev.WithAttribute(scenario.CompressedModel, *st)
	} else {
		a := marchive.New()
		a.SetId(run.Id)
		n := len(run.Members)
		for i, e := range run.Members {
			bits, _ := decodeBits(e, nAct)
			// the Saver reads only the action encodings; the vectors just keep the members mutually non-dominated
			a.AttemptToArchiveState((&cand{vec: []float64{float64(i), float64(n - i)}, bits: bits}).state())
		}
		if a.Len() != n {
			panic("harness: archive did not take every member")
		}
		ev.WithAttribute(scenario.ModelArchive, *a)
	}
	return protect(func() { saver.ObserveEvent(*ev) })
}

func randomMembers(r *Rng, nAct, n int) []string {
	seen := map[string]bool{}
	var out []string
	for len(out) < n {
		bits := make([]bool, nAct)
		p := []float64{0.1, 0.5, 0.9}[r.Intn(3)]
		for i := range bits {
			bits[i] = r.Chance(p)
		}
		e := encodingOf(bits)
		if seen[e] {
			if len(seen) >= 1<<uint(nAct) {
				break
			}
			continue
		}
		seen[e] = true
		out = append(out, e)
	}
	return out
}

// oneSaveCase lets ONE Saver observe every run of the case (as the scenario runner does: one saver, one directory, all
// runs), `reps` times in fresh directories; emits the distinct protocol lines and checks that names do not vary
// between repetitions.  Direct failures are reported for every name and every repetition (de-duplicated per case).
func oneSaveCase(c *Ctx, nm *namer, rig *saveRig, sc saveCase, reps int, clean bool) {
	stream := "clean save"
	if !clean {
		stream = "adv save"
	}
	sink := newFailSink(c, stream)
	lines := map[string]string{}
	files, sets := map[string]bool{}, map[string]bool{}
	anyDied, anyOk := "", false
	for rep := 0; rep < reps; rep++ {
		// the output directory is the only entry of a fresh parent: anything else that appears there was written
		// outside the directory the Saver was given
		parent, err := os.MkdirTemp(c.Out, "save")
		must(err)
		dir := filepath.Join(parent, "out")
		died := ""
		saver := rig.newSaver(sc, dir)
		for _, run := range sc.runs {
			if p := rig.observeFinish(saver, sc, run); p != "" {
				died = p
				break
			}
		}
		o := examineSaved(c, nm, rig.ref, sc, dir, died, sink)
		if strays := entriesBeside(parent, "out"); len(strays) > 0 {
			sink.fail("C12: the summaries (and detail files) are written into the configured output directory", "saved:file-outside-directory",
				fmt.Sprintf("scenario %q: the Saver was given the directory <parent>/out and left %q in <parent>", sc.name, strays), []string{o.op})
		}
		lines[o.op] = o.res
		if died != "" {
			anyDied = died
		} else {
			anyOk = true
			files[strings.Join(o.summaryFiles, ",")] = true
			sets[strings.Join(o.setNames, ",")] = true
		}
		os.RemoveAll(parent)
	}
	var ops []string
	for op := range lines {
		ops = append(ops, op)
	}
	sort.Strings(ops)
	for _, op := range ops {
		c.Op(op, lines[op])
		c.Nontrivial(op)
	}
	maxSet := 0
	for _, run := range sc.runs {
		if len(run.Members) > maxSet {
			maxSet = len(run.Members)
		}
	}
	c.Stat(fmt.Sprintf("%s family=%s type=%s level=%s runs=%s saved-through-one-saver=%d setsize=%s", stream, sc.fam, sc.otype, sc.level, nbucket(sc.R), len(sc.runs), nbucket(maxSet)))
	c.Stat(fmt.Sprintf("%s: distinct outcomes of one case over %d repetitions = %d", stream, reps, len(lines)))
	if len(files) > 1 || len(sets) > 1 {
		c.Fail("C12: file name and set name are a deterministic function of scenario name, run number and output type", sigMapOrder,
			fmt.Sprintf("the same finished run(s) of %q (%s, %s, %d members in the first) saved %d times: summary files %q, set names %q", sc.runs[0].Id, sc.fam, sc.otype, len(sc.runs[0].Members), reps, sortedKeys(files), sortedKeys(sets)), ops)
	}
	if anyDied != "" {
		sig := "saved:writing-panicked"
		if strings.Contains(anyDied, "index out of range") {
			sig = sigJsonPanic
		}
		c.Fail("C12: writing never fails for some executions and succeeds for others of the same run", sig,
			fmt.Sprintf("saving the finished run(s) of %q (%s, %s, %d members in the first) panicked (%s) in some of %d executions; other executions succeeded: %v", sc.runs[0].Id, sc.fam, sc.otype, len(sc.runs[0].Members), clip(anyDied, 120), reps, anyOk), ops)
	}
}

// entriesBeside lists what `parent` holds apart from `keep`.
func entriesBeside(parent string, keep ...string) []string {
	ents, _ := os.ReadDir(parent)
	var out []string
	for _, e := range ents {
		kept := false
		for _, k := range keep {
			if e.Name() == k {
				kept = true
			}
		}
		if !kept {
			out = append(out, e.Name())
		}
	}
	return out
}

// fsCanCarry: the only scenario names left out of the `save` lines are those the FILESYSTEM cannot carry, whatever
// the naming functions do: a NUL byte (no file name may hold one) and names that lead to a file name of more than
// 255 bytes (NAME_MAX; a '/' of the scenario name becomes the four bytes `_of_`).  The encoders report such an
// open error to the log and carry on, so that the summary would simply be missing.  Every other name - `..`, `/`,
// parentheses, newlines, `As-Is`, `Solution` - is exercised: the naming functions replace every '/', so a file
// name is always a single path component ending in `-Summary.<type>`, `-ManagementActions.csv`,
// `-NameMappedVariables.csv` or `).json` and cannot leave the directory (checked directly: saved:file-outside-directory).
func fsCanCarry(nm *namer, sc saveCase) bool {
	if strings.ContainsRune(sc.name, 0) {
		return false
	}
	for _, run := range sc.runs {
		for _, k := range nm.realKeys(sc.fam, realRunId(sc.name, run.R, sc.R), len(run.Members)) {
			one := solutionsetSummaryOf(k)
			if len(one.FileNameSafeId()+"-Summary.json") > 255 || len((&solution.Solution{Id: k}).FileNameSafeId()+"-NameMappedVariables.csv") > 255 {
				return false
			}
		}
	}
	return true
}

func saveCases(c *Ctx, nm *namer, r *Rng) {
	var rigs []*saveRig
	for _, ds := range shippedDatasets() {
		if rig, err := newSaveRig(ds); err == nil {
			rigs = append(rigs, rig)
		} else {
			c.Note("save rig not built for " + ds + ": " + err.Error())
		}
	}
	if len(rigs) == 0 {
		c.Fail("correspondence", "naming:no-dataset", "no shipped dataset could be loaded", nil)
		return
	}
	// mkRuns: the runs `rs` of a scenario of R runs, each with its own random solution set of size sizeOf(run)
	mkRuns := func(rig *saveRig, fam, otype, level, name string, rs []int, R int, sizeOf func(rr int) int) saveCase {
		sc := saveCase{fam: fam, otype: otype, level: level, name: name, R: R}
		for _, rr := range rs {
			n := sizeOf(rr)
			if fam == "single" {
				n = 1
			}
			sc.runs = append(sc.runs, runTruth{R: rr, Id: realRunId(name, rr, R), Members: randomMembers(r, rig.ref.cm.n(), n)})
		}
		return sc
	}
	mk := func(rig *saveRig, fam, otype, level, name string, rr, R, n int) saveCase {
		return mkRuns(rig, fam, otype, level, name, []int{rr}, R, func(int) int { return n })
	}
	allRuns := func(R int) []int {
		out := make([]int, R)
		for i := range out {
			out[i] = i + 1
		}
		return out
	}
	reps := c.N(12, 32)
	fewReps := c.N(4, 8)
	types := []string{"CSV", "JSON"}
	levels := []string{"Summary", "Detail"}
	// ---- the audit's three witnesses, fixed, first, in every tier (see suiteNaming)
	for _, otype := range types {
		rig := rigs[0]
		oneSaveCase(c, nm, rig, mk(rig, "single", otype, "Summary", "trial (1/1)", 1, 1, 1), fewReps, false)
		oneSaveCase(c, nm, rig, mk(rig, "multi", otype, "Summary", "As-Is baseline", 1, 1, 3), fewReps, false)
		for _, level := range levels {
			// three runs of `Best Solution` through one Saver into one directory: three summaries
			oneSaveCase(c, nm, rig, mkRuns(rig, "multi", otype, level, "Best Solution", allRuns(3), 3, func(rr int) int { return []int{2, 0, 3}[rr-1] }), fewReps, false)
			oneSaveCase(c, nm, rig, mkRuns(rig, "single", otype, level, "Best Solution", allRuns(3), 3, func(int) int { return 1 }), fewReps, false)
		}
	}
	// systematic: both families x types x levels x (1 run, run 2 of 3) x small set sizes
	for _, fam := range []string{"single", "multi"} {
		for _, otype := range types {
			for _, level := range levels {
				for _, rR := range [][2]int{{1, 1}, {2, 3}} {
					sizes := []int{1}
					if fam == "multi" {
						sizes = []int{0, 1, 2, 5}
					}
					for _, n := range sizes {
						rig := rigs[r.Intn(len(rigs))]
						oneSaveCase(c, nm, rig, mk(rig, fam, otype, level, "Saved X", rR[0], rR[1], n), reps, true)
					}
				}
			}
		}
	}
	// systematic: ALL R runs of one scenario through ONE Saver into ONE directory, R in {2, 3, 5}; both families,
	// types and levels; clean and adversarial names (the witness names of suiteNaming); set sizes vary between the runs
	multiNames := append([]string{"Saved X", "Kirkpatrick - Black Box"}, witnessNames...)
	i := 0
	for _, R := range []int{2, 3, 5} {
		for _, fam := range []string{"single", "multi"} {
			for _, otype := range types {
				for _, level := range levels {
					picks := c.N(1, 4)
					for k := 0; k < picks; k++ {
						name := multiNames[i%len(multiNames)]
						i++
						rig := rigs[r.Intn(len(rigs))]
						sc := mkRuns(rig, fam, otype, level, name, allRuns(R), R, func(int) int { return []int{0, 1, 1, 2, 3, 6}[r.Intn(6)] })
						if !fsCanCarry(nm, sc) {
							continue
						}
						oneSaveCase(c, nm, rig, sc, fewReps, isCleanName(name))
					}
				}
			}
		}
	}
	for i := 0; i < c.N(16, 200); i++ {
		rig := rigs[r.Intn(len(rigs))]
		rr, R := pickRuns(r)
		fam := []string{"single", "multi", "multi"}[r.Intn(3)]
		n := []int{1, 2, 3, 7, 12, 40}[r.Intn(6)]
		if r.Chance(0.5) {
			n = r.Intn(20)
		}
		clean := r.Chance(0.6)
		name := cleanName(r)
		if !clean {
			name = advString(r)
			if r.Chance(0.15) {
				name = witnessNames[r.Intn(len(witnessNames))]
			}
			if strings.TrimSpace(name) == "" || isCleanName(name) {
				continue
			}
		}
		otype, level := types[r.Intn(2)], levels[r.Intn(2)]
		var sc saveCase
		if r.Chance(0.35) {
			// several runs (all of them, or a few of many) through the one Saver
			R = []int{2, 3, 5, 11, 12}[r.Intn(5)]
			rs := allRuns(R)
			if R > 5 {
				rs = uniqInts(1, 1+r.Intn(R), R-1, R)
				sort.Ints(rs)
			}
			sc = mkRuns(rig, fam, otype, level, name, rs, R, func(int) int { return r.Intn(1 + n%8) })
		} else {
			sc = mk(rig, fam, otype, level, name, rr, R, n)
		}
		if !fsCanCarry(nm, sc) {
			c.Stat("adv save: name skipped, the filesystem cannot carry it (NUL byte or a file name over 255 bytes)")
			continue
		}
		oneSaveCase(c, nm, rig, sc, c.N(6, 12), clean)
	}
}

// replaySave re-executes one `save` line through the in-process Saver (the recorded encodings
// are replayed; the values are recomputed).
func replaySave(c *Ctx, nm *namer, f []string) bool {
	if len(f) < 8 {
		return false
	}
	name, ok := unpct(f[4])
	R, e1 := strconv.Atoi(f[5])
	nv, e2 := strconv.Atoi(f[6])
	if !ok || e1 != nil || e2 != nil || len(f) < 8+nv {
		return false
	}
	sc := saveCase{fam: f[1], otype: strings.ToUpper(f[2]), level: strings.ToUpper(f[3][:1]) + f[3][1:], name: name, R: R}
	pos := 7 + nv
	nruns, e3 := strconv.Atoi(f[pos])
	if e3 != nil {
		return false
	}
	pos++
	for i := 0; i < nruns; i++ {
		if pos+3 > len(f) {
			return false
		}
		rr, e1 := strconv.Atoi(f[pos])
		if pos+3 >= len(f) {
			return false
		}
		nrows, e2 := strconv.Atoi(f[pos+3])
		if e1 != nil || e2 != nil {
			return false
		}
		pos += 4
		run := runTruth{R: rr, Id: realRunId(name, rr, R)}
		for j := 0; j < nrows; j++ {
			if pos+1+nv > len(f) {
				return false
			}
			enc, ok := unpct(f[pos])
			if !ok {
				return false
			}
			if j > 0 {
				run.Members = append(run.Members, enc)
			}
			pos += 1 + nv
		}
		sc.runs = append(sc.runs, run)
	}
	for _, ds := range shippedDatasets() {
		rig, err := newSaveRig(ds)
		if err != nil {
			continue
		}
		fits := true
		for _, run := range sc.runs {
			for _, e := range run.Members {
				if _, err := decodeBits(e, rig.ref.cm.n()); err != nil {
					fits = false
				}
			}
		}
		if fits {
			oneSaveCase(c, nm, rig, sc, 16, isCleanName(name))
			return true
		}
	}
	return false
}

// ---------------------------------------------------------------- saved-runs: whole scenarios in child processes

type childCase struct {
	Toml   string `json:"toml"`
	Record string `json:"record"` // file the recording observer appends one JSON line per finished run to
}

// finishRecorder is attached in front of every other observer; it notes, for each finished run,
// the id the run carried and the action encodings of its solutions in archive order - the
// ground truth of "each solution of that run" - before the Saver is reached.
type finishRecorder struct {
	mu   sync.Mutex
	path string
}

func (fr *finishRecorder) ObserveEvent(event observer.Event) {
	if event.EventType != observer.FinishedAnnealing {
		return
	}
	fr.mu.Lock()
	defer fr.mu.Unlock()
	var rec runTruth
	rec.Members = []string{}
	if event.HasAttribute(scenario.CompressedModel) {
		st := event.Attribute(scenario.CompressedModel).(marchive.CompressedModelState)
		rec.Id = st.Id()
		rec.Members = append(rec.Members, st.Encoding())
	} else if event.HasAttribute(scenario.ModelArchive) {
		a := event.Attribute(scenario.ModelArchive).(marchive.NonDominanceModelArchive)
		rec.Id = a.Id()
		for _, st := range a.Archive() {
			rec.Members = append(rec.Members, st.Encoding())
		}
	} else {
		return
	}
	b, _ := json.Marshal(rec)
	f, err := os.OpenFile(fr.path, os.O_APPEND|os.O_CREATE|os.O_WRONLY, 0o644)
	must(err)
	f.Write(append(b, '\n'))
	f.Close()
}

// savedRunChild: `harness saved-run-child -out DIR <case.json>`; builds the scenario from the TOML text
// with crem's own interpreters (as cmd/cremexplorer/bootstrap does) and runs it.
// childLifeline makes a child process of the harness unable to outlive its purpose: it ends itself as soon as the
// process that started it is gone (a harness killed by the check's own timeout would otherwise leave a child that
// spins in crem's limit-seeking loop running for ever) and, whatever happens, after `limit`.  crem's loops are
// preemptible, so the timers fire even while every run goroutine spins.
func childLifeline(limit time.Duration) {
	parent := os.Getppid()
	go func() {
		deadline := time.Now().Add(limit)
		for {
			time.Sleep(500 * time.Millisecond)
			if os.Getppid() != parent {
				os.Exit(46)
			}
			if time.Now().After(deadline) {
				os.Exit(45)
			}
		}
	}()
}

// killGroup ends a child started with Setpgid together with anything it started.
func killGroup(cmd *exec.Cmd) {
	if cmd.Process != nil {
		syscall.Kill(-cmd.Process.Pid, syscall.SIGKILL)
		cmd.Process.Kill()
	}
}

func savedRunChild(c *Ctx) {
	childLifeline(150 * time.Second)
	if len(c.Args) != 1 {
		fmt.Fprintln(os.Stderr, "saved-run-child: case file expected")
		os.Exit(42)
	}
	raw, err := os.ReadFile(c.Args[0])
	must(err)
	var cc childCase
	must(json.Unmarshal(raw, &cc))
	cfg, err := explorerdata.RetrieveConfigFromString(cc.Toml)
	if err != nil {
		fmt.Fprintln(os.Stderr, "config rejected:", err)
		os.Exit(43)
	}
	// the steps of ConfigInterpreter.Interpret, kept apart so that the recorder can be attached
	mi := interpreter.NewModelConfigInterpreter().Interpret(&cfg.Model)
	ai := interpreter.NewAnnealerConfigInterpreter().Interpret(&cfg.Annealer)
	si := explorerinterp.NewScenarioConfigInterpreter().Interpret(&cfg.Scenario)
	for _, e := range []error{mi.Errors(), ai.Errors(), si.Errors()} {
		if e != nil {
			fmt.Fprintln(os.Stderr, "config rejected:", e)
			os.Exit(43)
		}
	}
	annealer := ai.Annealer()
	annealer.SetModel(mi.Model())
	sc := si.Scenario()
	sc.SetAnnealer(annealer)
	annealer.AddObserverAsFirst(&finishRecorder{path: cc.Record})
	if err := sc.Run(); err != nil {
		fmt.Fprintln(os.Stderr, "run error:", err)
		os.Exit(44)
	}
}

func tomlString(s string) string {
	var sb strings.Builder
	sb.WriteByte('"')
	for _, ch := range s {
		switch {
		case ch == '"' || ch == '\\':
			sb.WriteByte('\\')
			sb.WriteRune(ch)
		case ch < 0x20 || ch == 0x7f:
			fmt.Fprintf(&sb, "\\u%04X", ch)
		default:
			sb.WriteRune(ch)
		}
	}
	sb.WriteByte('"')
	return sb.String()
}

type runConfig struct {
	fam, annealer, otype, level, name, ds string
	R, iters                              int
	conc                                  int // MaximumConcurrentRunNumber (0 = leave crem's default, 1)
	reuseWork                             string // executeScenario: run in this scratch directory again (set by oneSavedConfig)
	// a limit on one decision variable: [Model.Parameters] Maximum<variable> = limit
	limOn  bool
	limVar int
	limit  float64
	// keys left out of [Scenario]: crem's defaults apply (OutputType -> CSV, OutputLevel -> Summary); otype / level
	// hold the EFFECTIVE values
	omitType, omitLevel bool
	// where the results go: pathGiven = an absolute OutputPath; pathOmitted = no OutputPath key (the configuration's
	// default, the working directory "."); pathEmpty = OutputPath = "" (the Saver's default, `solutions` under the
	// working directory); pathRelative = a nested relative path that does not exist yet.  The child always runs in a
	// scratch working directory of its own.
	pathMode int
	reps     int // executions of this configuration (0 = the tier's default)
}

const (
	pathGiven = iota
	pathOmitted
	pathEmpty
	pathRelative
)

const relativeOutputPath = "results of/the run"

func savedTomlFloat(v float64) string {
	t := strconv.FormatFloat(v, 'f', -1, 64)
	if !strings.ContainsAny(t, ".") {
		t += ".0"
	}
	return t
}

// toml renders the scenario file; outDir = the absolute output directory (pathGiven), dsPath = the data source as
// seen from the child's working directory.
func (rc runConfig) toml(outDir, dsPath string) string {
	var sb strings.Builder
	fmt.Fprintf(&sb, "[Scenario]\nName = %s\nRunNumber = %d\n", tomlString(rc.name), rc.R)
	switch rc.pathMode {
	case pathGiven:
		fmt.Fprintf(&sb, "OutputPath = %s\n", tomlString(outDir))
	case pathEmpty:
		sb.WriteString("OutputPath = \"\"\n")
	case pathRelative:
		fmt.Fprintf(&sb, "OutputPath = %s\n", tomlString(relativeOutputPath))
	}
	if !rc.omitType {
		fmt.Fprintf(&sb, "OutputType = %q\n", rc.otype)
	}
	if !rc.omitLevel {
		fmt.Fprintf(&sb, "OutputLevel = %q\n", rc.level)
	}
	if rc.conc > 0 {
		fmt.Fprintf(&sb, "MaximumConcurrentRunNumber = %d\n", rc.conc)
	}
	sb.WriteString("[Scenario.Reporting]\nReportEveryNumberOfIterations = 1000\n[Scenario.Reporting.LogLevelDestinations]\nAnnealing = \"Discarded\"\n")
	fmt.Fprintf(&sb, "[Annealer]\nType = %q\n[Annealer.Parameters]\n", rc.annealer)
	if rc.fam == "single" {
		sb.WriteString("DecisionVariable = \"SedimentProduction\"\nOptimisationDirection = \"Minimising\"\n")
	}
	fmt.Fprintf(&sb, "StartingTemperature = 10.0\nCoolingFactor = 0.99\nMaximumIterations = %d\n", rc.iters)
	fmt.Fprintf(&sb, "[Model]\nType = \"CatchmentModel\"\n[Model.Parameters]\nDataSourcePath = %s\n", tomlString(dsPath))
	if rc.limOn {
		fmt.Fprintf(&sb, "%s = %s\n", varMaxKey[rc.limVar], savedTomlFloat(rc.limit))
	}
	return sb.String()
}

func (rc runConfig) line() string {
	l := fmt.Sprintf("%s %s %s %s %s %d %d %s conc=%d", rc.fam, rc.annealer, rc.otype, rc.level, pct(rc.name), rc.R, rc.iters, pct(filepath.Base(rc.ds)), rc.conc)
	if rc.limOn {
		l += fmt.Sprintf(" %s=%s", varMaxKey[rc.limVar], savedTomlFloat(rc.limit))
	}
	if rc.omitType {
		l += " OutputType-omitted"
	}
	if rc.omitLevel {
		l += " OutputLevel-omitted"
	}
	l += []string{"", " OutputPath-omitted", " OutputPath-empty", " OutputPath-relative"}[rc.pathMode]
	return l
}

// executeScenario runs one scenario in a child process; returns the ground truth, the output
// directory and the first panic line of a dead child ("" = exited normally).
// The layout of one execution: <work>/{case.json, record.jsonl, child/ (the child harness's own -out), cwd/ (the
// child's working directory), out/ (the output directory when an absolute OutputPath is configured)}.
func executeScenario(c *Ctx, rc runConfig, tag string) (runs []runTruth, work, dir string, died string, ok bool) {
	var err error
	cwd := ""
	if rc.reuseWork != "" {
		// a RE-EXECUTION of the scenario into the directories an earlier execution used (its result files are still there)
		work = rc.reuseWork
		cwd = filepath.Join(work, "cwd")
		os.Remove(filepath.Join(work, "record.jsonl"))
	} else {
		work, err = os.MkdirTemp(c.Out, "run")
		must(err)
		if abs, e := filepath.Abs(work); e == nil {
			work = abs
		}
		cwd = filepath.Join(work, "cwd")
		must(os.Mkdir(cwd, 0o755))
	}
	switch rc.pathMode {
	case pathGiven:
		dir = filepath.Join(work, "out")
	case pathOmitted:
		dir = cwd
	case pathEmpty:
		dir = filepath.Join(cwd, "solutions")
	case pathRelative:
		dir = filepath.Join(cwd, filepath.FromSlash(relativeOutputPath))
	}
	rec := filepath.Join(work, "record.jsonl")
	cf := filepath.Join(work, "case.json")
	dsAbs, _ := filepath.Abs(rc.ds)
	dsPath, e := filepath.Rel(cwd, dsAbs)
	if e != nil {
		dsPath = dsAbs
	}
	b, _ := json.Marshal(childCase{Toml: rc.toml(dir, dsPath), Record: rec})
	must(os.WriteFile(cf, b, 0o644))
	bin := os.Getenv("VERIF_HARNESS")
	if bin == "" {
		bin, _ = os.Executable()
	}
	if abs, e := filepath.Abs(bin); e == nil {
		bin = abs
	}
	cmd := exec.Command(bin, "saved-run-child", "-out", filepath.Join(work, "child"), cf)
	cmd.Dir = cwd
	cmd.Env = append(os.Environ(), "GOMEMLIMIT=2GiB")
	cmd.SysProcAttr = &syscall.SysProcAttr{Setpgid: true} // its own process group: the watchdog below kills the group
	var outBuf strings.Builder
	cmd.Stdout = &outBuf
	cmd.Stderr = &outBuf
	done := make(chan error, 1)
	must(cmd.Start())
	go func() { done <- cmd.Wait() }()
	var werr error
	select {
	case werr = <-done:
	case <-time.After(60 * time.Second):
		killGroup(cmd)
		werr = fmt.Errorf("timeout")
		<-done
	}
	if raw, err := os.ReadFile(rec); err == nil {
		for _, l := range strings.Split(string(raw), "\n") {
			if strings.TrimSpace(l) == "" {
				continue
			}
			var rt runTruth
			if json.Unmarshal([]byte(l), &rt) == nil {
				runs = append(runs, rt)
			}
		}
	}
	if werr != nil {
		text := outBuf.String()
		died = "child failed: " + werr.Error()
		for _, l := range strings.Split(text, "\n") {
			if strings.HasPrefix(l, "panic:") {
				died = strings.TrimSpace(l)
				break
			}
		}
		if ee, isExit := werr.(*exec.ExitError); isExit && (ee.ExitCode() == 43 || ee.ExitCode() == 42) {
			c.Note("scenario not started (" + tag + "): " + clip(text, 300))
			return nil, work, dir, died, false
		}
		// a limited model panics deliberately ("Attempt limit reached ...") when its random start never meets the limit
		// within as many draws as there are actions (C19's matter); the runner reports that run as failed and nothing
		// is saved for it: such an execution says nothing about saving
		if isGiveUp(text) {
			return nil, work, dir, "attempt-limit", false
		}
	}
	// which run number carried which id
	for i := range runs {
		runs[i].R = 0
		for rr := 1; rr <= rc.R; rr++ {
			if realRunId(rc.name, rr, rc.R) == runs[i].Id {
				runs[i].R = rr
			}
		}
	}
	sort.SliceStable(runs, func(i, j int) bool { return runs[i].R < runs[j].R })
	return runs, work, dir, died, true
}

func oneSavedConfig(c *Ctx, nm *namer, refs map[string]*Ref, rc runConfig, reps int) {
	ref := refs[rc.ds]
	fileSets, setNames := map[string]bool{}, map[string]bool{}
	var ops []string
	diedText, finished := "", 0
	sink := newFailSink(c, "saved-runs")
	// the `save` line does not hold the whole configuration (limit, omitted keys, concurrency): it goes along as a comment
	sink.context = []string{"# configuration: " + rc.line()}
	for rep := 0; rep < reps; rep++ {
		// every fourth repetition is a RE-EXECUTION: the same scenario first runs with a larger iteration budget (a bigger
		// solution set, longer documents) into the same directories; the files judged are those of the second execution
		rcx := rc
		if rep%4 == 3 {
			pre := rc
			pre.iters = rc.iters*3 + 250
			if _, w0, _, died0, ok0 := executeScenario(c, pre, pre.line()); ok0 && died0 == "" {
				rcx.reuseWork = w0
				c.Stat("saved-runs: re-execution into the directories of an earlier execution")
			} else if w0 != "" {
				os.RemoveAll(w0)
			}
		}
		runs, work, dir, died, ok := executeScenario(c, rcx, rc.line())
		if !ok {
			os.RemoveAll(work)
			if died == "attempt-limit" {
				c.Stat("saved-runs: BOUNDARY execution left out, the limited model's random start gave up (Attempt limit reached)")
				continue
			}
			c.Stat("saved-runs: scenario not started")
			return
		}
		if strings.Contains(died, "timeout") {
			// a scenario that does not come back is not executed again and again
			// BOUNDARY, not a violation of the saver: a run that does not come back never reaches its FinishedAnnealing
			// event.  Under a limit crem's Randomize() can spin when every remaining toggle stays valid (DESIGN.md 10.7,
			// C19's D18 matter), and the Saver is never asked to save anything.  Counted and noted; the configuration is
			// not executed again.
			os.RemoveAll(work)
			c.Stat("saved-runs: BOUNDARY execution left out, the scenario did not finish within 60 s (child process group killed)")
			c.Note(fmt.Sprintf("BOUNDARY saved-runs: configuration [%s] did not finish within 60 s (%d finish events were recorded); left out", rc.line(), len(runs)))
			return
		}
		sc := saveCase{fam: rc.fam, otype: rc.otype, level: rc.level, name: rc.name, R: rc.R, runs: runs, limOn: rc.limOn, limVar: rc.limVar, limit: rc.limit, reexec: rcx.reuseWork != ""}
		if died == "" {
			seenRuns := map[int]bool{}
			for _, rt := range runs {
				seenRuns[rt.R] = true
			}
			if len(runs) != rc.R || len(seenRuns) != rc.R || seenRuns[0] {
				c.Fail("C12: every configured run finishes and is saved once", "saved:runs-missing",
					fmt.Sprintf("%s: %d runs configured, finish events of runs %v", rc.line(), rc.R, runs), nil)
			}
		}
		o := examineSaved(c, nm, ref, sc, dir, died, sink)
		// nothing is written beside the output directory: the child's working directory holds the output directory
		// (or is it), the work directory holds what the harness put there
		var strays []string
		switch rc.pathMode {
		case pathGiven:
			strays = entriesBeside(filepath.Join(work, "cwd"))
		case pathEmpty:
			strays = entriesBeside(filepath.Join(work, "cwd"), "solutions")
		case pathRelative:
			strays = entriesBeside(filepath.Join(work, "cwd"), strings.Split(relativeOutputPath, "/")[0])
		}
		strays = append(strays, entriesBeside(work, "cwd", "out", "child", "case.json", "record.jsonl")...)
		if len(strays) > 0 && died == "" {
			sink.fail("C12: the summaries (and detail files) are written into the configured output directory", "saved:file-outside-directory",
				fmt.Sprintf("configuration [%s]: files beside the output directory: %q", rc.line(), strays), []string{o.op})
		}
		c.Op(o.op, o.res)
		c.Nontrivial(o.op)
		ops = append(ops, o.op)
		if died != "" {
			diedText = died
		} else {
			finished++
			fileSets[strings.Join(o.summaryFiles, ",")] = true
			setNames[strings.Join(o.setNames, ",")] = true
		}
		for _, rt := range runs {
			c.Stat(fmt.Sprintf("saved-runs: family=%s type=%s level=%s runs=%s concurrent=%v setsize=%s", rc.fam, rc.otype, rc.level, nbucket(rc.R), rc.conc > 1, nbucket(len(rt.Members))))
		}
		os.RemoveAll(work)
	}
	c.Stat("saved-runs: scenario name " + map[bool]string{true: "clean", false: "adversarial"}[isCleanName(rc.name)])
	if rc.limOn {
		c.Stat(fmt.Sprintf("saved-runs: limited scenario variable=%s family=%s", varNames[rc.limVar], rc.fam))
	}
	if rc.omitType || rc.omitLevel || rc.pathMode != pathGiven {
		c.Stat(fmt.Sprintf("saved-runs: defaults exercised OutputType-omitted=%v OutputLevel-omitted=%v OutputPath=%s", rc.omitType, rc.omitLevel,
			[]string{"given", "omitted (working directory)", "empty (solutions)", "relative, nested"}[rc.pathMode]))
	}
	c.Stat(fmt.Sprintf("saved-runs: distinct summary file-name sets over %d repetitions of one configuration = %d", reps, len(fileSets)))
	if len(ops) == 0 {
		return
	}
	if len(fileSets) > 1 || len(setNames) > 1 {
		c.Fail("C12: file names and the set name inside the file are a deterministic function of the scenario name, run number and output type", sigMapOrder,
			fmt.Sprintf("configuration [%s] executed %d times: summary file names (per run, comma separated) %q; set names %q", rc.line(), reps, sortedKeys(fileSets), sortedKeys(setNames)), ops[:1])
	}
	if diedText != "" {
		sig := "saved:run-panicked"
		if strings.Contains(diedText, "index out of range") {
			sig = sigJsonPanic
		}
		c.Fail("C12: writing never fails for some executions and succeeds for others of the same run", sig,
			fmt.Sprintf("configuration [%s]: %d of %d executions died with %q while saving (the panic is raised on the run's goroutine and kills the process); %d finished", rc.line(), reps-finished, reps, clip(diedText, 160), finished), ops[:1])
	}
}

func suiteSavedRuns(c *Ctx) {
	nm := newNamer()
	refs := map[string]*Ref{}
	var dss []string
	for _, ds := range shippedDatasets() {
		if ref, err := newRef(ds, -1, 0); err == nil {
			refs[ds] = ref
			dss = append(dss, ds)
		}
	}
	// the shipped engine data with every cost on an exact half cent: the Saver decompresses member k+1 into the model member k
	// left behind, so a rounding that does not mirror (+c / -c) leaves a cent in later rows (seed C12k); judged Go against Go
	{
		repo := os.Getenv("VERIF_REPO")
		if repo == "" {
			repo = "/repo"
		}
		tieDir := filepath.Join(c.Out, "tie-ds")
		if p := protect(func() { genTieDataset(repo, tieDir) }); p == "" {
			ds := filepath.Join(tieDir, "TieModel.csv")
			if ref, err := newRef(ds, -1, 0); err == nil {
				refs[ds] = ref
				dss = append(dss, ds)
			}
		}
	}
	if len(dss) == 0 {
		c.Fail("correspondence", "saved:no-dataset", "no shipped dataset could be loaded", nil)
		return
	}
	// The list of configurations is generated from the SEED ALONE (c.Rng also depends on the shard): every shard must
	// build the same list, of which it executes every Shards-th entry.
	// Fork(): util.go's NewRng(seed) streams of consecutive seeds are the same splitmix sequence shifted by a
	// draw or two; forking through one mixed output decorrelates the seeds
	r := NewRng(c.Seed ^ 0x5A7ED0C12).Fork().Fork()
	var cfgs []runConfig
	if c.Replay != "" {
		for _, l := range readLines(c.Replay) {
			if rc, ok := configOfSaveLine(l, dss); ok {
				cfgs = append(cfgs, rc)
			} else {
				c.Op(l, "bad-op")
			}
		}
	} else {
		// first, in every tier: the audit's witnesses, multi-run adversarial names, limited scenarios, omitted keys
		cfgs = append(cfgs, savedExtraConfigs(c, r, dss, refs)...)
		names := []string{"Saved", "Kirkpatrick - Black Box", "Test 7 é"}
		i := 0
		for pass := 0; pass < c.N(1, 3); pass++ {
			for _, fam := range []string{"single", "multi"} {
				for _, otype := range []string{"CSV", "JSON"} {
					for _, level := range []string{"Summary", "Detail"} {
						for R := 1; R <= 4; R++ {
							if !c.Thorough() && !((R == 1 || R == 3) && (level == "Summary" || R == 3)) {
								// quick tier: R in {1,3}; Detail only with R = 3
								if !(R == 2 && fam == "multi" && level == "Detail" && otype == "CSV") {
									continue
								}
							}
							ann := "Kirkpatrick"
							if fam == "multi" {
								ann = []string{"Suppapitnarm", "AveragedSuppapitnarm"}[i%2]
							}
							iters := []int{0, 5, 40, 150}[(i+R)%4]
							if fam == "multi" && iters < 40 && i%3 != 0 {
								iters = 60
							}
							name := names[i%len(names)]
							if c.Thorough() && r.Chance(0.5) {
								name = cleanName(r)
							}
							conc := 0
							if R > 1 && i%2 == 0 {
								conc = R // all runs of the scenario at once: their end-of-run saves overlap
							}
							cfgs = append(cfgs, runConfig{fam: fam, annealer: ann, otype: otype, level: level, name: name, ds: dss[i%len(dss)], R: R, iters: iters, conc: conc})
							i++
						}
					}
				}
			}
		}
	}
	reps := c.N(8, 12)
	for i, rc := range cfgs {
		if i%c.Shards != c.Shard {
			continue
		}
		n := reps
		if rc.reps > 0 {
			n = rc.reps
		}
		oneSavedConfig(c, nm, refs, rc, n)
	}
}

// savedLimit places a limit on variable v strictly between the model's two extremes: the as-is state (no action
// active) and the all-active state.  C03's premise is that the limit is attainable at the optimiser's starting
// extreme: under a cost limit that is the as-is state (cost 0 <= limit), under a pollutant limit the ALL-ACTIVE state
// (all-active value <= limit).  The limit is kept below the other extreme so that it binds (otherwise the model's
// random start gives up with its deliberate "Attempt limit reached" panic), and a third of a grid unit off the
// variable's reporting grid, so that no attainable value ties with it.
func savedLimit(ref *Ref, v int, frac float64) (float64, bool) {
	n := ref.cm.n()
	all := make([]bool, n)
	for i := range all {
		all[i] = true
	}
	asIs, allActive := ref.at(make([]bool, n)).totals[v], ref.at(all).totals[v]
	lo, hi := allActive, asIs // pollutants: actions lower the load
	if v >= 4 {
		lo, hi = asIs, allActive // costs: actions cost money
	}
	u := math.Pow10(-varPrec[v])
	if hi-lo < 20*u {
		return 0, false
	}
	lim := lo + frac*(hi-lo)
	lim = math.Round((math.Floor(lim/u)*u+0.3*u)*1e6) / 1e6
	return lim, lim > lo && lim < hi
}

// savedExtraConfigs: scenarios beyond the systematic grid of suiteSavedRuns.
func savedExtraConfigs(c *Ctx, r *Rng, dss []string, refs map[string]*Ref) []runConfig {
	var out []runConfig
	add := func(rc runConfig) {
		if rc.fam == "single" {
			rc.annealer = "Kirkpatrick"
		} else if rc.annealer == "" {
			rc.annealer = []string{"Suppapitnarm", "AveragedSuppapitnarm"}[len(out)%2]
		}
		if rc.ds == "" {
			rc.ds = dss[len(out)%len(dss)]
		}
		out = append(out, rc)
	}
	// (a) the audit's witnesses end to end: three runs of `Best Solution` (each must leave its own summary), both
	// families; `trial (1/1)`; `As-Is baseline`; names with blanks and with a digit/digit run of their own
	add(runConfig{fam: "multi", otype: "CSV", level: "Summary", name: "Best Solution", R: 3, iters: 80, conc: 3})
	add(runConfig{fam: "single", otype: "JSON", level: "Detail", name: "Best Solution", R: 3, iters: 40})
	add(runConfig{fam: "single", otype: "CSV", level: "Summary", name: "trial (1/1)", R: 1, iters: 40})
	add(runConfig{fam: "multi", otype: "JSON", level: "Summary", name: "As-Is baseline", R: 1, iters: 120})
	add(runConfig{fam: "multi", otype: "CSV", level: "Detail", name: "Run 3/4 test", R: 2, iters: 60, conc: 2})
	add(runConfig{fam: "single", otype: "JSON", level: "Summary", name: "  two  blanks and a trailing one ", R: 2, iters: 20})
	if c.Thorough() {
		for i, name := range witnessNames {
			fam := []string{"multi", "single"}[i%2]
			add(runConfig{fam: fam, otype: []string{"JSON", "CSV"}[(i/2)%2], level: []string{"Summary", "Detail"}[(i/3)%2], name: name, R: 1 + i%4, iters: 60, conc: (i % 2) * (1 + i%4)})
		}
		for i := 0; i < 6; i++ {
			name := advString(r)
			if strings.TrimSpace(name) == "" || strings.ContainsRune(name, 0) || len(name) > 40 {
				continue
			}
			add(runConfig{fam: []string{"multi", "single"}[i%2], otype: []string{"JSON", "CSV"}[r.Intn(2)], level: []string{"Summary", "Detail"}[r.Intn(2)], name: name, R: 1 + r.Intn(3), iters: 60})
		}
		// two-digit run counts: (r/10), (r/11) - and, with few iterations and repetitions, three digits
		add(runConfig{fam: "multi", otype: "CSV", level: "Summary", name: "Ten runs", R: 10, iters: 30, conc: 4, reps: 4})
		add(runConfig{fam: "single", otype: "JSON", level: "Summary", name: "Best Solution", R: 11, iters: 10, conc: 11, reps: 4})
		add(runConfig{fam: "multi", otype: "JSON", level: "Detail", name: "Eleven 1/11", R: 11, iters: 30, reps: 4})
		add(runConfig{fam: "single", otype: "CSV", level: "Summary", name: "Hundred", R: 100, iters: 5, conc: 8, reps: 2})
		add(runConfig{fam: "multi", otype: "JSON", level: "Summary", name: "Hundred Solution (1/100)", R: 100, iters: 20, conc: 8, reps: 2})
	}
	// (b) limited scenarios (C03, output side): each of the six variables, both families
	for pass := 0; pass < c.N(1, 3); pass++ {
		for v := 0; v < 6; v++ {
			for fi, fam := range []string{"single", "multi"} {
				ds := dss[(v+fi+pass)%len(dss)]
				// the limit sits in the half of the range next to the starting extreme: it is attainable there (C03's premise)
				// and certain to bind long before the model's limit seeking has used its attempt budget (= number of actions)
				frac := []float64{0.4, 0.3, 0.5}[(v+fi+pass)%3]
				if pass > 0 {
					frac = 0.2 + 0.3*r.Float()
				}
				lim, ok := savedLimit(refs[ds], v, frac)
				if !ok {
					c.Stat("saved-runs: no limit placed (the variable's extremes are too close) variable=" + varNames[v])
					continue
				}
				add(runConfig{fam: fam, otype: []string{"CSV", "JSON"}[(v+fi+pass)%2], level: []string{"Summary", "Summary", "Detail"}[(v+2*fi+pass)%3], name: "Limited " + varShort[v], ds: ds,
					R: 2, iters: []int{150, 60, 300}[(v+pass)%3], conc: 2 * (v % 2), limOn: true, limVar: v, limit: lim})
			}
		}
	}
	// (c) keys left out of [Scenario]: OutputType (-> CSV), OutputLevel (-> Summary), OutputPath (-> the working
	// directory; OutputPath = "" -> `solutions` below it); a relative nested OutputPath that does not exist yet
	add(runConfig{fam: "multi", otype: "CSV", level: "Detail", name: "No type", R: 2, iters: 60, omitType: true})
	add(runConfig{fam: "single", otype: "JSON", level: "Summary", name: "No level", R: 2, iters: 40, omitLevel: true})
	add(runConfig{fam: "single", otype: "CSV", level: "Summary", name: "No path", R: 2, iters: 40, pathMode: pathOmitted})
	add(runConfig{fam: "multi", otype: "JSON", level: "Detail", name: "Empty path", R: 2, iters: 60, pathMode: pathEmpty})
	add(runConfig{fam: "multi", otype: "CSV", level: "Summary", name: "Nothing given", R: 1, iters: 60, omitType: true, omitLevel: true, pathMode: pathOmitted})
	add(runConfig{fam: "single", otype: "CSV", level: "Detail", name: "Relative path", R: 1, iters: 40, pathMode: pathRelative})
	return out
}

// configOfSaveLine recovers the scenario configuration of a recorded `save` line (replay = run it again).
func configOfSaveLine(l string, dss []string) (runConfig, bool) {
	f := strings.Fields(l)
	if len(f) < 8 || f[0] != "save" {
		return runConfig{}, false
	}
	name, ok := unpct(f[4])
	R, err := strconv.Atoi(f[5])
	if !ok || err != nil {
		return runConfig{}, false
	}
	rc := runConfig{fam: f[1], otype: strings.ToUpper(f[2]), level: strings.ToUpper(f[3][:1]) + f[3][1:], name: name, R: R, iters: 60, ds: dss[0], annealer: "Kirkpatrick", conc: R}
	if rc.fam == "multi" {
		rc.annealer = "Suppapitnarm"
	}
	return rc, true
}
