//go:build verif

package main

// Property C12, output side.
//
// `save` lines (shared by the suites `naming` and `saved-runs`): a directory written by crem's
// REAL Saver is parsed back and reported as one protocol line; the Lean model predicts the same
// line from (family, output type, level, scenario name, runs, per run: the key the summary map
// happened to yield + the solutions that exist + the decision-variable values of a FRESH model
// evaluated at each solution's action encoding).  So the diff decides at once: file names, set
// name, labels, notes, row order, number rendering and that every row carries the fresh model's
// values.  The same clauses are evaluated directly on the implementation (Ctx.Fail).
//
//   naming     : Saver.ObserveEvent called in-process on harness-built archives (set sizes 0..40,
//                both families), each case repeated in fresh directories.
//   saved-runs : whole scenarios built from generated TOML text by crem's own config interpreters
//                and run by Scenario.Run() in CHILD processes (a panic inside a run kills the
//                process), both annealer families over the catchment model with the shipped CSV
//                data, runs 1-4, CSV/JSON, Summary/Detail, each configuration repeated >= 8 times.

import (
	"encoding/json"
	"fmt"
	"math"
	"os"
	"os/exec"
	"path/filepath"
	"sort"
	"strconv"
	"strings"
	"sync"
	"time"

	explorerdata "github.com/LindsayBradford/crem/cmd/cremexplorer/config/data"
	explorerinterp "github.com/LindsayBradford/crem/cmd/cremexplorer/config/interpreter"
	"github.com/LindsayBradford/crem/internal/pkg/annealing/solution"
	"github.com/LindsayBradford/crem/internal/pkg/annealing/solution/encoding"
	"github.com/LindsayBradford/crem/internal/pkg/config/interpreter"
	"github.com/LindsayBradford/crem/internal/pkg/model"
	marchive "github.com/LindsayBradford/crem/internal/pkg/model/archive"
	"github.com/LindsayBradford/crem/internal/pkg/model/models/catchment"
	"github.com/LindsayBradford/crem/internal/pkg/observer"
	"github.com/LindsayBradford/crem/internal/pkg/parameters"
	"github.com/LindsayBradford/crem/internal/pkg/scenario"
	"github.com/LindsayBradford/crem/pkg/archive"
	"github.com/LindsayBradford/crem/pkg/logging/loggers"
)

func init() {
	register("saved-runs", suiteSavedRuns)
	register("saved-run-child", savedRunChild)
}

// ---------------------------------------------------------------- ground truth of one scenario execution

type runTruth struct {
	R       int      `json:"r"`       // run number (1-based)
	Id      string   `json:"id"`      // id the run carried (archive / compressed model id)
	Members []string `json:"members"` // action encodings of the solutions, in archive order
}

type saveCase struct {
	fam, otype, level, name string
	R                       int
	runs                    []runTruth
}

func (sc saveCase) ext() string { return strings.ToLower(sc.otype) }

// sorted decision-variable names and their index into varNames
func sortedVars() ([]string, []int) {
	names := append([]string(nil), varNames...)
	sort.Strings(names)
	idx := make([]int, len(names))
	for i, n := range names {
		for j, m := range varNames {
			if n == m {
				idx[i] = j
			}
		}
	}
	return names, idx
}

func encodingOf(bits []bool) string {
	ba := archive.New(len(bits))
	for i, b := range bits {
		ba.SetValue(i, b)
	}
	return ba.Encoding()
}

func decodeBits(enc string, n int) ([]bool, error) {
	ba := archive.New(n)
	var err error
	if p := protect(func() { err = ba.Decode(enc) }); p != "" {
		return nil, fmt.Errorf("decode panic: %s", p)
	}
	if err != nil {
		return nil, err
	}
	out := make([]bool, n)
	for i := range out {
		out[i] = ba.Value(i)
	}
	return out, nil
}

// ---------------------------------------------------------------- parsing a written summary

type sumRow struct {
	label, actions, note string
	names                []string
	vals                 []float64
	valTexts             []string
}

type parsedSummary struct {
	setName string // JSON only
	header  []string
	rows    []sumRow
	text    string
}

func parseCsvSummary(text string) (*parsedSummary, error) {
	ps := &parsedSummary{text: text}
	lines := strings.Split(text, "\n")
	if len(lines) < 2 || lines[len(lines)-1] != "" {
		return nil, fmt.Errorf("summary does not end in a newline")
	}
	lines = lines[:len(lines)-1]
	ps.header = strings.Split(lines[0], ", ")
	nv := len(ps.header) - 3
	if nv < 0 {
		return nil, fmt.Errorf("short header")
	}
	for _, l := range lines[1:] {
		f := strings.Split(l, ", ")
		if len(f) != len(ps.header) {
			return nil, fmt.Errorf("row with %d fields under a header of %d: %q", len(f), len(ps.header), l)
		}
		row := sumRow{label: f[0], actions: f[nv+1], note: f[nv+2], names: ps.header[1 : nv+1]}
		for _, t := range f[1 : nv+1] {
			v, err := strconv.ParseFloat(t, 64)
			if err != nil {
				return nil, err
			}
			row.vals = append(row.vals, v)
			row.valTexts = append(row.valTexts, t)
		}
		ps.rows = append(ps.rows, row)
	}
	return ps, nil
}

func parseJsonSummary(text string) (*parsedSummary, error) {
	var raw struct {
		SolutionSet string
		Solutions   []struct {
			Id        string
			Variables []struct {
				Name  string
				Value float64
			}
			Actions string
			Note    string
		}
	}
	if err := json.Unmarshal([]byte(text), &raw); err != nil {
		return nil, err
	}
	ps := &parsedSummary{text: text, setName: raw.SolutionSet}
	for _, s := range raw.Solutions {
		row := sumRow{label: s.Id, actions: s.Actions, note: s.Note}
		for _, v := range s.Variables {
			row.names = append(row.names, v.Name)
			row.vals = append(row.vals, v.Value)
		}
		ps.rows = append(ps.rows, row)
	}
	return ps, nil
}

// canonical JSON content: set name, rows (label, name/value pairs at 3 places, actions, note)
func (ps *parsedSummary) jsonCanon() string {
	var sb strings.Builder
	fmt.Fprintf(&sb, "%s %d", pct(ps.setName), len(ps.rows))
	for _, r := range ps.rows {
		fmt.Fprintf(&sb, " %s %d", pct(r.label), len(r.vals))
		for i := range r.vals {
			fmt.Fprintf(&sb, " %s %s", pct(r.names[i]), gridFmt(r.vals[i], 3))
		}
		fmt.Fprintf(&sb, " %s %s", pct(r.actions), pct(r.note))
	}
	return sb.String()
}

// ---------------------------------------------------------------- the shared check of one written directory

type saveOutcome struct {
	op, res      string
	summaryFiles []string // base names of the summary files found, in run order ("" = none)
	setNames     []string
}

// examineSaved parses `dir`, evaluates the property's clauses directly and returns the protocol line.
// `died` = the writing execution panicked (in-process: recovered; child: process died), with its message.
func examineSaved(c *Ctx, nm *namer, ref *Ref, sc saveCase, dir string, died string, report bool) saveOutcome {
	vnames, vidx := sortedVars()
	nAct := ref.cm.n()
	ents, _ := os.ReadDir(dir)
	var listing []string
	for _, e := range ents {
		listing = append(listing, e.Name())
	}
	sort.Strings(listing)
	have := map[string]bool{}
	for _, f := range listing {
		have[f] = true
	}
	suffix := "-Summary." + sc.ext()
	claimed := map[string]bool{}

	var op strings.Builder
	fmt.Fprintf(&op, "save %s %s %s %s %d %d", sc.fam, sc.ext(), strings.ToLower(sc.level), pct(sc.name), sc.R, len(vnames))
	for _, v := range vnames {
		op.WriteString(" " + pct(v))
	}
	fmt.Fprintf(&op, " %d", len(sc.runs))
	var contents []string
	out := saveOutcome{}
	fail := func(pred, sig, detail string) {
		if report {
			c.Fail(pred, sig, detail, nil)
			c.Stat("save: direct failure " + sig)
		} else {
			c.Stat("save: clause false in a repetition or under an adversarial name (not reported): " + sig)
		}
	}

	for _, run := range sc.runs {
		rid := realRunId(sc.name, run.R, sc.R)
		if rid != run.Id {
			fail("C12: the run id is name or name (r/R)", "saved:run-id", fmt.Sprintf("run %d carried id %q, Runner.generateCloneId gives %q", run.R, run.Id, rid))
		}
		keys := nm.realKeys(sc.fam, rid, len(run.Members))
		dummy := nm.realSummary(keys)
		keyIdx, file := "none", ""
		panicIdx := "none"
		var candidates []string
		for i, k := range keys {
			im := imageOfKey(dummy, k)
			cand := im.safe + suffix
			candidates = append(candidates, cand)
			if have[cand] && file == "" {
				keyIdx, file = strconv.Itoa(i), cand
			}
			if sc.otype == "JSON" && strings.HasPrefix(im.js, "panic") && panicIdx == "none" {
				panicIdx = strconv.Itoa(i)
			}
		}
		nFound := 0
		for _, cnd := range uniq(candidates) {
			if have[cnd] {
				nFound++
				claimed[cnd] = true
			}
		}
		if died == "" && nFound != 1 {
			fail("C12: for every finished run the explorer writes one summary", "saved:summary-count",
				fmt.Sprintf("run %q: %d summary files among the candidates %q; directory: %q", rid, nFound, uniq(candidates), listing))
		}
		// the JSON set name is derived from ANOTHER, independent iteration of the same map
		setIdx := "none"
		if died != "" && file == "" {
			setIdx = panicIdx
		}
		out.summaryFiles = append(out.summaryFiles, file)

		// rows the run should have: as-is + each member, with a fresh model's values
		encs := append([]string{encodingOf(make([]bool, nAct))}, run.Members...)
		var rawSummary []byte
		var preParsed *parsedSummary
		if file != "" {
			var err error
			rawSummary, err = os.ReadFile(filepath.Join(dir, file))
			must(err)
			if sc.otype == "JSON" {
				if preParsed, err = parseJsonSummary(string(rawSummary)); err == nil {
					for i, k := range keys {
						if im := imageOfKey(dummy, k); im.js == pct(preParsed.setName) {
							setIdx = strconv.Itoa(i)
							break
						}
					}
				}
			}
		}
		fmt.Fprintf(&op, " %d %s %s %d", run.R, keyIdx, setIdx, len(encs))
		fresh := make([][6]float64, len(encs))
		freshBits := make([][]bool, len(encs))
		for i, e := range encs {
			bits, err := decodeBits(e, nAct)
			if err != nil {
				panic("harness: cannot decode a recorded encoding: " + err.Error())
			}
			freshBits[i] = bits
			fresh[i] = ref.at(bits).totals
			op.WriteString(" " + pct(e))
			for _, vi := range vidx {
				op.WriteString(" " + floatBits(fresh[i][vi]))
			}
		}
		if file == "" {
			contents = append(contents, "missing")
			out.setNames = append(out.setNames, "")
			continue
		}
		raw := rawSummary
		var err error
		var ps *parsedSummary
		if sc.otype == "CSV" {
			ps, err = parseCsvSummary(string(raw))
			contents = append(contents, pct(string(raw)))
		} else {
			ps, err = parseJsonSummary(string(raw))
			if err == nil {
				contents = append(contents, ps.jsonCanon())
			} else {
				contents = append(contents, "unparsable")
			}
		}
		if err != nil {
			fail("C12: the summary parses back", "saved:summary-unparsable", fmt.Sprintf("%s: %v", file, err))
			out.setNames = append(out.setNames, "")
			continue
		}
		out.setNames = append(out.setNames, ps.setName)
		// ---- direct clauses
		if len(ps.rows) != len(encs) {
			fail("C12: rows are exactly the as-is state followed by each solution of that run", "saved:row-count",
				fmt.Sprintf("%s has %d rows, the run has as-is + %d solutions", file, len(ps.rows), len(run.Members)))
		}
		seen := map[string]int{}
		for i, row := range ps.rows {
			if j, dup := seen[row.label]; dup {
				fail("C12: row labels are unique within a summary", sigDupLabels,
					fmt.Sprintf("%s: rows %d and %d are both labelled %q", file, j, i, row.label))
				break
			}
			seen[row.label] = i
		}
		for i, row := range ps.rows {
			if i >= len(encs) {
				break
			}
			if row.actions != encs[i] {
				fail("C12: rows are exactly the as-is state followed by each solution of that run, in archive order", "saved:rows-not-asis-then-members",
					fmt.Sprintf("%s row %d has action encoding %q, expected %q", file, i, row.actions, encs[i]))
				continue
			}
			if len(row.vals) != 6 {
				fail("C12: every row gives the six decision-variable values", "saved:row-variable-count", fmt.Sprintf("%s row %d has %d values", file, i, len(row.vals)))
				continue
			}
			for k, vi := range vidx {
				if row.names[k] != vnames[k] {
					fail("C12: every row gives the decision-variable values", "saved:row-variable-names", fmt.Sprintf("%s row %d column %d is %q, expected %q", file, i, k, row.names[k], vnames[k]))
				}
				if math.Abs(row.vals[k]-fresh[i][vi]) > 0.5e-3+1e-9 {
					fail("C12: every row gives the decision-variable values of the model evaluated at the row's action encoding", "saved:row-values-differ-from-fresh-model",
						fmt.Sprintf("%s row %d (%s, actions %s): %s = %v in the file, a fresh model gives %v", file, i, row.label, row.actions, vnames[k], row.vals[k], fresh[i][vi]))
				}
			}
		}
		// ---- detail files: totals re-summed from the per-planning-unit values; action flags
		if sc.level == "Detail" {
			for i, k := range keys {
				if i >= len(encs) {
					break
				}
				sid := (&solution.Solution{Id: k}).FileNameSafeId()
				checkDetail(c, ref, sc, dir, sid, have, freshBits[i], fresh[i], vnames, vidx, fail)
				for _, f := range detailNames(sc, sid) {
					claimed[f] = true
				}
			}
		}
	}
	if died == "" {
		for _, f := range listing {
			if !claimed[f] {
				fail("C12: the output directory holds the runs' summaries (and detail files) and nothing else", "saved:unexpected-file",
					fmt.Sprintf("file %q belongs to no run; directory: %q", f, listing))
				break
			}
		}
	}
	var res strings.Builder
	if died != "" {
		res.WriteString("panic")
	} else {
		fmt.Fprintf(&res, "%d", len(listing))
		for _, f := range listing {
			res.WriteString(" " + pct(f))
		}
		for _, ct := range contents {
			res.WriteString(" | " + ct)
		}
	}
	out.op, out.res = op.String(), res.String()
	return out
}

func uniq(xs []string) []string {
	m := map[string]bool{}
	var out []string
	for _, x := range xs {
		if !m[x] {
			m[x] = true
			out = append(out, x)
		}
	}
	return out
}

func detailNames(sc saveCase, safeId string) []string {
	if sc.otype == "CSV" {
		return []string{safeId + "-ManagementActions.csv", safeId + "-NameMappedVariables.csv"}
	}
	return []string{safeId + ".json"}
}

// checkDetail: C11's output side (each total = sum of its per-planning-unit values), totals equal the
// fresh model's, active actions equal the encoding's bits.
func checkDetail(c *Ctx, ref *Ref, sc saveCase, dir, sid string, have map[string]bool, bits []bool, fresh [6]float64,
	vnames []string, vidx []int, fail func(pred, sig, detail string)) {
	prec := func(k int) int { return varPrec[vidx[k]] }
	checkVar := func(file, name string, total float64, units []float64) {
		k := -1
		for i, n := range vnames {
			if n == name {
				k = i
			}
		}
		if k < 0 {
			fail("C12: detail files list the model's decision variables", "saved:detail-unknown-variable", file+": "+name)
			return
		}
		tol := 0.5*math.Pow10(-prec(k)) + 1e-9
		if math.Abs(total-fresh[vidx[k]]) > tol {
			fail("C12: saved values are those of the model evaluated at the action encoding", "saved:detail-values-differ-from-fresh-model",
				fmt.Sprintf("%s: %s = %v, a fresh model gives %v", file, name, total, fresh[vidx[k]]))
		}
		sum := 0.0
		for _, u := range units {
			sum += u
		}
		if math.Abs(sum-total) > tol {
			fail("C11: totals in the saved files equal the sum of the per-planning-unit values (output side)", "saved:total-differs-from-sum-of-units",
				fmt.Sprintf("%s: %s total %v, per-planning-unit values sum to %v", file, name, total, sum))
		}
		c.Stat("save: detail variable re-summed")
	}
	acts := ref.cm.m.ManagementActions()
	checkActive := func(file string, active map[string]bool) {
		for i, a := range acts {
			key := fmt.Sprintf("%d/%s", a.PlanningUnit(), a.Type())
			if active[key] != bits[i] {
				fail("C12: the saved management actions are those of the row's action encoding", "saved:detail-actions-differ-from-encoding",
					fmt.Sprintf("%s: action %s saved as active=%v, the encoding says %v", file, key, active[key], bits[i]))
				return
			}
		}
	}
	if sc.otype == "CSV" {
		f := sid + "-NameMappedVariables.csv"
		if have[f] {
			raw, _ := os.ReadFile(filepath.Join(dir, f))
			lines := strings.Split(strings.TrimSuffix(string(raw), "\n"), "\n")
			for _, l := range lines[1:] {
				fs := strings.Split(l, ", ")
				if len(fs) < 3 {
					continue
				}
				total, _ := strconv.ParseFloat(fs[1], 64)
				var units []float64
				for _, t := range fs[3:] {
					u, _ := strconv.ParseFloat(t, 64)
					units = append(units, u)
				}
				checkVar(f, fs[0], total, units)
			}
		}
		f = sid + "-ManagementActions.csv"
		if have[f] {
			raw, _ := os.ReadFile(filepath.Join(dir, f))
			lines := strings.Split(strings.TrimSuffix(string(raw), "\n"), "\n")
			head := strings.Split(lines[0], ", ")
			active := map[string]bool{}
			for _, l := range lines[1:] {
				fs := strings.Split(l, ", ")
				for j := 1; j < len(fs) && j < len(head); j++ {
					if fs[j] == "1" {
						active[fs[0]+"/"+head[j]] = true
					}
				}
			}
			checkActive(f, active)
		}
		return
	}
	f := sid + ".json"
	if !have[f] {
		return
	}
	raw, _ := os.ReadFile(filepath.Join(dir, f))
	// the JSON marshaler renders numbers as (localised) strings and replaces the text "PlanningUnit" by
	// the model's planning-unit heading everywhere
	var sol map[string]interface{}
	if err := json.Unmarshal(raw, &sol); err != nil {
		fail("C12: detail files parse back", "saved:detail-unparsable", f+": "+err.Error())
		return
	}
	num := func(v interface{}) float64 {
		switch t := v.(type) {
		case float64:
			return t
		case string:
			x, err := strconv.ParseFloat(strings.ReplaceAll(t, ",", ""), 64)
			if err != nil {
				return math.NaN()
			}
			return x
		}
		return math.NaN()
	}
	dvs, _ := sol["DecisionVariables"].([]interface{})
	if len(dvs) != 6 {
		fail("C12: detail files list the model's decision variables", "saved:detail-variable-count", fmt.Sprintf("%s lists %d decision variables", f, len(dvs)))
	}
	for _, d := range dvs {
		dv, _ := d.(map[string]interface{})
		name, _ := dv["Name"].(string)
		var units []float64
		for k, v := range dv {
			if strings.HasPrefix(k, "ValuePer") {
				items, _ := v.([]interface{})
				for _, it := range items {
					if m, ok := it.(map[string]interface{}); ok {
						units = append(units, num(m["Value"]))
					}
				}
			}
		}
		checkVar(f, name, num(dv["Value"]), units)
	}
	active := map[string]bool{}
	if m, ok := sol["ActiveManagementActions"].(map[string]interface{}); ok {
		for pu, ts := range m {
			if l, ok := ts.([]interface{}); ok {
				for _, t := range l {
					active[pu+"/"+fmt.Sprint(t)] = true
				}
			}
		}
	}
	checkActive(f, active)
}

// ---------------------------------------------------------------- naming suite: the real Saver in-process

type saveRig struct {
	ref   *Ref
	model *catchment.Model
	ds    string
}

func newSaveRig(ds string) (*saveRig, error) {
	ref, err := newRef(ds, -1, 0)
	if err != nil {
		return nil, err
	}
	m := catchment.NewModel().WithParameters(parameters.Map{"DataSourcePath": relToCwd(ds)})
	if e := m.ParameterErrors(); e != nil {
		return nil, e
	}
	m.Initialise(model.AsIs)
	return &saveRig{ref: ref, model: m, ds: ds}, nil
}

// runSaver performs what one finished run makes the Saver do; returns the panic text ("" = none).
func (rig *saveRig) runSaver(sc saveCase, run runTruth, dir string) string {
	saver := scenario.NewSaver().
		WithOutputType(encoding.OutputType(sc.otype)).
		WithOutputPath(dir).
		WithOutputLevel(scenario.OutputLevel(sc.level)).
		WithLogHandler(loggers.NewNullLogger())
	saver.SetDecompressionModel(rig.model)
	nAct := rig.ref.cm.n()
	ev := observer.NewEvent(observer.FinishedAnnealing)
	if sc.fam == "single" {
		bits, _ := decodeBits(run.Members[0], nAct)
		st := (&cand{vec: []float64{1}, bits: bits}).state()
		st.SetId(run.Id)
		ev.WithAttribute(scenario.CompressedModel, *st)
	} else {
		a := marchive.New()
		a.SetId(run.Id)
		n := len(run.Members)
		for i, e := range run.Members {
			bits, _ := decodeBits(e, nAct)
			// the Saver reads only the action encodings; the vectors just keep the members mutually non-dominated
			a.AttemptToArchiveState((&cand{vec: []float64{float64(i), float64(n - i)}, bits: bits}).state())
		}
		if a.Len() != n {
			panic("harness: archive did not take every member")
		}
		ev.WithAttribute(scenario.ModelArchive, *a)
	}
	return protect(func() { saver.ObserveEvent(*ev) })
}

func randomMembers(r *Rng, nAct, n int) []string {
	seen := map[string]bool{}
	var out []string
	for len(out) < n {
		bits := make([]bool, nAct)
		p := []float64{0.1, 0.5, 0.9}[r.Intn(3)]
		for i := range bits {
			bits[i] = r.Chance(p)
		}
		e := encodingOf(bits)
		if seen[e] {
			if len(seen) >= 1<<uint(nAct) {
				break
			}
			continue
		}
		seen[e] = true
		out = append(out, e)
	}
	return out
}

// oneSaveCase runs the Saver `reps` times on the same finished run (fresh directory each time),
// emits the distinct protocol lines and checks that names do not vary between repetitions.
func oneSaveCase(c *Ctx, nm *namer, rig *saveRig, sc saveCase, reps int, clean bool) {
	lines := map[string]string{}
	files, sets := map[string]bool{}, map[string]bool{}
	anyDied, anyOk := "", false
	for rep := 0; rep < reps; rep++ {
		dir, err := os.MkdirTemp(c.Out, "save")
		must(err)
		died := ""
		for _, run := range sc.runs {
			if p := rig.runSaver(sc, run, dir); p != "" {
				died = p
				break
			}
		}
		o := examineSaved(c, nm, rig.ref, sc, dir, died, clean && rep == 0)
		lines[o.op] = o.res
		if died != "" {
			anyDied = died
		} else {
			anyOk = true
			files[strings.Join(o.summaryFiles, ",")] = true
			sets[strings.Join(o.setNames, ",")] = true
		}
		os.RemoveAll(dir)
	}
	var ops []string
	for op := range lines {
		ops = append(ops, op)
	}
	sort.Strings(ops)
	for _, op := range ops {
		c.Op(op, lines[op])
		c.Nontrivial(op)
	}
	stream := "clean"
	if !clean {
		stream = "adv"
	}
	c.Stat(fmt.Sprintf("%s save family=%s type=%s level=%s runs=%s setsize=%s", stream, sc.fam, sc.otype, sc.level, nbucket(sc.R), nbucket(len(sc.runs[0].Members))))
	c.Stat(fmt.Sprintf("%s save: distinct outcomes of one run over %d repetitions = %d", stream, reps, len(lines)))
	if !clean {
		return
	}
	if len(files) > 1 || len(sets) > 1 {
		c.Fail("C12: file name and set name are a deterministic function of scenario name, run number and output type", sigMapOrder,
			fmt.Sprintf("the same finished run %q (%s, %s, %d members) saved %d times: summary files %q, set names %q", sc.runs[0].Id, sc.fam, sc.otype, len(sc.runs[0].Members), reps, sortedKeys(files), sortedKeys(sets)), ops)
	}
	if anyDied != "" {
		sig := "saved:writing-panicked"
		if strings.Contains(anyDied, "index out of range") {
			sig = sigJsonPanic
		}
		c.Fail("C12: writing never fails for some executions and succeeds for others of the same run", sig,
			fmt.Sprintf("saving the finished run %q (%s, %s, %d members) panicked (%s) in some of %d executions; other executions succeeded: %v", sc.runs[0].Id, sc.fam, sc.otype, len(sc.runs[0].Members), clip(anyDied, 120), reps, anyOk), ops)
	}
}

func saveCases(c *Ctx, nm *namer, r *Rng) {
	var rigs []*saveRig
	for _, ds := range shippedDatasets() {
		if rig, err := newSaveRig(ds); err == nil {
			rigs = append(rigs, rig)
		} else {
			c.Note("save rig not built for " + ds + ": " + err.Error())
		}
	}
	if len(rigs) == 0 {
		c.Fail("correspondence", "naming:no-dataset", "no shipped dataset could be loaded", nil)
		return
	}
	mk := func(rig *saveRig, fam, otype, level, name string, rr, R, n int) saveCase {
		if fam == "single" {
			n = 1
		}
		run := runTruth{R: rr, Id: realRunId(name, rr, R), Members: randomMembers(r, rig.ref.cm.n(), n)}
		return saveCase{fam: fam, otype: otype, level: level, name: name, R: R, runs: []runTruth{run}}
	}
	reps := c.N(12, 32)
	// systematic: both families x types x levels x (1 run, run 2 of 3) x small set sizes
	for _, fam := range []string{"single", "multi"} {
		for _, otype := range []string{"CSV", "JSON"} {
			for _, level := range []string{"Summary", "Detail"} {
				for _, rR := range [][2]int{{1, 1}, {2, 3}} {
					sizes := []int{1}
					if fam == "multi" {
						sizes = []int{0, 1, 2, 5}
					}
					for _, n := range sizes {
						rig := rigs[r.Intn(len(rigs))]
						oneSaveCase(c, nm, rig, mk(rig, fam, otype, level, "Saved X", rR[0], rR[1], n), reps, true)
					}
				}
			}
		}
	}
	for i := 0; i < c.N(12, 160); i++ {
		rig := rigs[r.Intn(len(rigs))]
		rr, R := pickRuns(r)
		fam := []string{"single", "multi", "multi"}[r.Intn(3)]
		n := []int{1, 2, 3, 7, 12, 40}[r.Intn(6)]
		if r.Chance(0.5) {
			n = r.Intn(20)
		}
		clean := r.Chance(0.8)
		name := cleanName(r)
		if !clean {
			name = advString(r)
			if strings.TrimSpace(name) == "" || isCleanName(name) || strings.ContainsAny(name, "\x00") {
				continue
			}
			// a '/' left in a file name by the naming functions would make the Saver write elsewhere: keep the harness inside its directory
			if strings.Contains(name, "..") {
				continue
			}
		}
		oneSaveCase(c, nm, rig, mk(rig, fam, []string{"CSV", "JSON"}[r.Intn(2)], []string{"Summary", "Detail"}[r.Intn(2)], name, rr, R, n), c.N(6, 12), clean)
	}
}

// replaySave re-executes one `save` line through the in-process Saver (the recorded encodings
// are replayed; the values are recomputed).
func replaySave(c *Ctx, nm *namer, f []string) bool {
	if len(f) < 8 {
		return false
	}
	name, ok := unpct(f[4])
	R, e1 := strconv.Atoi(f[5])
	nv, e2 := strconv.Atoi(f[6])
	if !ok || e1 != nil || e2 != nil || len(f) < 8+nv {
		return false
	}
	sc := saveCase{fam: f[1], otype: strings.ToUpper(f[2]), level: strings.ToUpper(f[3][:1]) + f[3][1:], name: name, R: R}
	pos := 7 + nv
	nruns, e3 := strconv.Atoi(f[pos])
	if e3 != nil {
		return false
	}
	pos++
	for i := 0; i < nruns; i++ {
		if pos+3 > len(f) {
			return false
		}
		rr, e1 := strconv.Atoi(f[pos])
		if pos+3 >= len(f) {
			return false
		}
		nrows, e2 := strconv.Atoi(f[pos+3])
		if e1 != nil || e2 != nil {
			return false
		}
		pos += 4
		run := runTruth{R: rr, Id: realRunId(name, rr, R)}
		for j := 0; j < nrows; j++ {
			if pos+1+nv > len(f) {
				return false
			}
			enc, ok := unpct(f[pos])
			if !ok {
				return false
			}
			if j > 0 {
				run.Members = append(run.Members, enc)
			}
			pos += 1 + nv
		}
		sc.runs = append(sc.runs, run)
	}
	for _, ds := range shippedDatasets() {
		rig, err := newSaveRig(ds)
		if err != nil {
			continue
		}
		fits := true
		for _, run := range sc.runs {
			for _, e := range run.Members {
				if _, err := decodeBits(e, rig.ref.cm.n()); err != nil {
					fits = false
				}
			}
		}
		if fits {
			oneSaveCase(c, nm, rig, sc, 16, isCleanName(name))
			return true
		}
	}
	return false
}

// ---------------------------------------------------------------- saved-runs: whole scenarios in child processes

type childCase struct {
	Toml   string `json:"toml"`
	Record string `json:"record"` // file the recording observer appends one JSON line per finished run to
}

// finishRecorder is attached in front of every other observer; it notes, for each finished run,
// the id the run carried and the action encodings of its solutions in archive order - the
// ground truth of "each solution of that run" - before the Saver is reached.
type finishRecorder struct {
	mu   sync.Mutex
	path string
}

func (fr *finishRecorder) ObserveEvent(event observer.Event) {
	if event.EventType != observer.FinishedAnnealing {
		return
	}
	fr.mu.Lock()
	defer fr.mu.Unlock()
	var rec runTruth
	rec.Members = []string{}
	if event.HasAttribute(scenario.CompressedModel) {
		st := event.Attribute(scenario.CompressedModel).(marchive.CompressedModelState)
		rec.Id = st.Id()
		rec.Members = append(rec.Members, st.Encoding())
	} else if event.HasAttribute(scenario.ModelArchive) {
		a := event.Attribute(scenario.ModelArchive).(marchive.NonDominanceModelArchive)
		rec.Id = a.Id()
		for _, st := range a.Archive() {
			rec.Members = append(rec.Members, st.Encoding())
		}
	} else {
		return
	}
	b, _ := json.Marshal(rec)
	f, err := os.OpenFile(fr.path, os.O_APPEND|os.O_CREATE|os.O_WRONLY, 0o644)
	must(err)
	f.Write(append(b, '\n'))
	f.Close()
}

// savedRunChild: `harness saved-run-child -out DIR <case.json>`; builds the scenario from the TOML text
// with crem's own interpreters (as cmd/cremexplorer/bootstrap does) and runs it.
func savedRunChild(c *Ctx) {
	if len(c.Args) != 1 {
		fmt.Fprintln(os.Stderr, "saved-run-child: case file expected")
		os.Exit(42)
	}
	raw, err := os.ReadFile(c.Args[0])
	must(err)
	var cc childCase
	must(json.Unmarshal(raw, &cc))
	cfg, err := explorerdata.RetrieveConfigFromString(cc.Toml)
	if err != nil {
		fmt.Fprintln(os.Stderr, "config rejected:", err)
		os.Exit(43)
	}
	// the steps of ConfigInterpreter.Interpret, kept apart so that the recorder can be attached
	mi := interpreter.NewModelConfigInterpreter().Interpret(&cfg.Model)
	ai := interpreter.NewAnnealerConfigInterpreter().Interpret(&cfg.Annealer)
	si := explorerinterp.NewScenarioConfigInterpreter().Interpret(&cfg.Scenario)
	for _, e := range []error{mi.Errors(), ai.Errors(), si.Errors()} {
		if e != nil {
			fmt.Fprintln(os.Stderr, "config rejected:", e)
			os.Exit(43)
		}
	}
	annealer := ai.Annealer()
	annealer.SetModel(mi.Model())
	sc := si.Scenario()
	sc.SetAnnealer(annealer)
	annealer.AddObserverAsFirst(&finishRecorder{path: cc.Record})
	if err := sc.Run(); err != nil {
		fmt.Fprintln(os.Stderr, "run error:", err)
		os.Exit(44)
	}
}

func tomlString(s string) string {
	var sb strings.Builder
	sb.WriteByte('"')
	for _, ch := range s {
		switch {
		case ch == '"' || ch == '\\':
			sb.WriteByte('\\')
			sb.WriteRune(ch)
		case ch < 0x20 || ch == 0x7f:
			fmt.Fprintf(&sb, "\\u%04X", ch)
		default:
			sb.WriteRune(ch)
		}
	}
	sb.WriteByte('"')
	return sb.String()
}

type runConfig struct {
	fam, annealer, otype, level, name, ds string
	R, iters                              int
	conc                                  int // MaximumConcurrentRunNumber (0 = leave crem's default, 1)
}

func (rc runConfig) toml(outDir string) string {
	var sb strings.Builder
	fmt.Fprintf(&sb, "[Scenario]\nName = %s\nRunNumber = %d\nOutputPath = %s\nOutputType = %q\nOutputLevel = %q\n", tomlString(rc.name), rc.R, tomlString(outDir), rc.otype, rc.level)
	if rc.conc > 0 {
		fmt.Fprintf(&sb, "MaximumConcurrentRunNumber = %d\n", rc.conc)
	}
	sb.WriteString("[Scenario.Reporting]\nReportEveryNumberOfIterations = 1000\n[Scenario.Reporting.LogLevelDestinations]\nAnnealing = \"Discarded\"\n")
	fmt.Fprintf(&sb, "[Annealer]\nType = %q\n[Annealer.Parameters]\n", rc.annealer)
	if rc.fam == "single" {
		sb.WriteString("DecisionVariable = \"SedimentProduction\"\nOptimisationDirection = \"Minimising\"\n")
	}
	fmt.Fprintf(&sb, "StartingTemperature = 10.0\nCoolingFactor = 0.99\nMaximumIterations = %d\n", rc.iters)
	fmt.Fprintf(&sb, "[Model]\nType = \"CatchmentModel\"\n[Model.Parameters]\nDataSourcePath = %s\n", tomlString(relToCwd(rc.ds)))
	return sb.String()
}

func (rc runConfig) line() string {
	return fmt.Sprintf("%s %s %s %s %s %d %d %s conc=%d", rc.fam, rc.annealer, rc.otype, rc.level, pct(rc.name), rc.R, rc.iters, pct(filepath.Base(rc.ds)), rc.conc)
}

// executeScenario runs one scenario in a child process; returns the ground truth, the output
// directory and the first panic line of a dead child ("" = exited normally).
func executeScenario(c *Ctx, rc runConfig, tag string) (runs []runTruth, dir string, died string, ok bool) {
	work, err := os.MkdirTemp(c.Out, "run")
	must(err)
	dir = filepath.Join(work, "out")
	rec := filepath.Join(work, "record.jsonl")
	cf := filepath.Join(work, "case.json")
	b, _ := json.Marshal(childCase{Toml: rc.toml(dir), Record: rec})
	must(os.WriteFile(cf, b, 0o644))
	bin := os.Getenv("VERIF_HARNESS")
	if bin == "" {
		bin, _ = os.Executable()
	}
	cmd := exec.Command(bin, "saved-run-child", "-out", filepath.Join(work, "child"), cf)
	cmd.Env = append(os.Environ(), "GOMEMLIMIT=2GiB")
	var outBuf strings.Builder
	cmd.Stdout = &outBuf
	cmd.Stderr = &outBuf
	done := make(chan error, 1)
	must(cmd.Start())
	go func() { done <- cmd.Wait() }()
	var werr error
	select {
	case werr = <-done:
	case <-time.After(120 * time.Second):
		cmd.Process.Kill()
		werr = fmt.Errorf("timeout")
		<-done
	}
	if raw, err := os.ReadFile(rec); err == nil {
		for _, l := range strings.Split(string(raw), "\n") {
			if strings.TrimSpace(l) == "" {
				continue
			}
			var rt runTruth
			if json.Unmarshal([]byte(l), &rt) == nil {
				runs = append(runs, rt)
			}
		}
	}
	if werr != nil {
		text := outBuf.String()
		died = "child failed: " + werr.Error()
		for _, l := range strings.Split(text, "\n") {
			if strings.HasPrefix(l, "panic:") {
				died = strings.TrimSpace(l)
				break
			}
		}
		if ee, isExit := werr.(*exec.ExitError); isExit && (ee.ExitCode() == 43 || ee.ExitCode() == 42) {
			c.Note("scenario not started (" + tag + "): " + clip(text, 300))
			return nil, dir, died, false
		}
	}
	// which run number carried which id
	for i := range runs {
		runs[i].R = 0
		for rr := 1; rr <= rc.R; rr++ {
			if realRunId(rc.name, rr, rc.R) == runs[i].Id {
				runs[i].R = rr
			}
		}
	}
	sort.SliceStable(runs, func(i, j int) bool { return runs[i].R < runs[j].R })
	return runs, dir, died, true
}

func oneSavedConfig(c *Ctx, nm *namer, refs map[string]*Ref, rc runConfig, reps int) {
	ref := refs[rc.ds]
	fileSets, setNames := map[string]bool{}, map[string]bool{}
	var ops []string
	diedText, finished := "", 0
	for rep := 0; rep < reps; rep++ {
		runs, dir, died, ok := executeScenario(c, rc, rc.line())
		if !ok {
			c.Stat("saved-runs: scenario not started")
			return
		}
		sc := saveCase{fam: rc.fam, otype: rc.otype, level: rc.level, name: rc.name, R: rc.R, runs: runs}
		if died == "" {
			seenRuns := map[int]bool{}
			for _, rt := range runs {
				seenRuns[rt.R] = true
			}
			if len(runs) != rc.R || len(seenRuns) != rc.R || seenRuns[0] {
				c.Fail("C12: every configured run finishes and is saved once", "saved:runs-missing",
					fmt.Sprintf("%s: %d runs configured, finish events of runs %v", rc.line(), rc.R, runs), nil)
			}
		}
		o := examineSaved(c, nm, ref, sc, dir, died, true)
		c.Op(o.op, o.res)
		c.Nontrivial(o.op)
		ops = append(ops, o.op)
		if died != "" {
			diedText = died
		} else {
			finished++
			fileSets[strings.Join(o.summaryFiles, ",")] = true
			setNames[strings.Join(o.setNames, ",")] = true
		}
		for _, rt := range runs {
			c.Stat(fmt.Sprintf("saved-runs: family=%s type=%s level=%s runs=%d concurrent=%v setsize=%s", rc.fam, rc.otype, rc.level, rc.R, rc.conc > 1, nbucket(len(rt.Members))))
		}
		os.RemoveAll(filepath.Dir(dir))
	}
	c.Stat(fmt.Sprintf("saved-runs: distinct summary file-name sets over %d repetitions of one configuration = %d", reps, len(fileSets)))
	if len(fileSets) > 1 || len(setNames) > 1 {
		c.Fail("C12: file names and the set name inside the file are a deterministic function of the scenario name, run number and output type", sigMapOrder,
			fmt.Sprintf("configuration [%s] executed %d times: summary file names (per run, comma separated) %q; set names %q", rc.line(), reps, sortedKeys(fileSets), sortedKeys(setNames)), ops[:1])
	}
	if diedText != "" {
		sig := "saved:run-panicked"
		if strings.Contains(diedText, "index out of range") {
			sig = sigJsonPanic
		}
		c.Fail("C12: writing never fails for some executions and succeeds for others of the same run", sig,
			fmt.Sprintf("configuration [%s]: %d of %d executions died with %q while saving (the panic is raised on the run's goroutine and kills the process); %d finished", rc.line(), reps-finished, reps, clip(diedText, 160), finished), ops[:1])
	}
}

func suiteSavedRuns(c *Ctx) {
	nm := newNamer()
	refs := map[string]*Ref{}
	var dss []string
	for _, ds := range shippedDatasets() {
		if ref, err := newRef(ds, -1, 0); err == nil {
			refs[ds] = ref
			dss = append(dss, ds)
		}
	}
	if len(dss) == 0 {
		c.Fail("correspondence", "saved:no-dataset", "no shipped dataset could be loaded", nil)
		return
	}
	// Fork(): util.go's NewRng(seed) streams of consecutive seeds are the same splitmix sequence shifted by a
	// draw or two; forking through one mixed output decorrelates the seeds
	r := c.Rng.Fork().Fork()
	var cfgs []runConfig
	if c.Replay != "" {
		for _, l := range readLines(c.Replay) {
			if rc, ok := configOfSaveLine(l, dss); ok {
				cfgs = append(cfgs, rc)
			} else {
				c.Op(l, "bad-op")
			}
		}
	} else {
		names := []string{"Saved", "Kirkpatrick - Black Box", "Test 7 é"}
		i := 0
		for pass := 0; pass < c.N(1, 3); pass++ {
			for _, fam := range []string{"single", "multi"} {
				for _, otype := range []string{"CSV", "JSON"} {
					for _, level := range []string{"Summary", "Detail"} {
						for R := 1; R <= 4; R++ {
							if !c.Thorough() && !((R == 1 || R == 3) && (level == "Summary" || R == 3)) {
								// quick tier: R in {1,3}; Detail only with R = 3
								if !(R == 2 && fam == "multi" && level == "Detail" && otype == "CSV") {
									continue
								}
							}
							ann := "Kirkpatrick"
							if fam == "multi" {
								ann = []string{"Suppapitnarm", "AveragedSuppapitnarm"}[i%2]
							}
							iters := []int{0, 5, 40, 150}[(i+R)%4]
							if fam == "multi" && iters < 40 && i%3 != 0 {
								iters = 60
							}
							name := names[i%len(names)]
							if c.Thorough() && r.Chance(0.5) {
								name = cleanName(r)
							}
							conc := 0
							if R > 1 && i%2 == 0 {
								conc = R // all runs of the scenario at once: their end-of-run saves overlap
							}
							cfgs = append(cfgs, runConfig{fam: fam, annealer: ann, otype: otype, level: level, name: name, ds: dss[i%len(dss)], R: R, iters: iters, conc: conc})
							i++
						}
					}
				}
			}
		}
	}
	reps := c.N(8, 12)
	for i, rc := range cfgs {
		if i%c.Shards != c.Shard {
			continue
		}
		oneSavedConfig(c, nm, refs, rc, reps)
	}
}

// configOfSaveLine recovers the scenario configuration of a recorded `save` line (replay = run it again).
func configOfSaveLine(l string, dss []string) (runConfig, bool) {
	f := strings.Fields(l)
	if len(f) < 8 || f[0] != "save" {
		return runConfig{}, false
	}
	name, ok := unpct(f[4])
	R, err := strconv.Atoi(f[5])
	if !ok || err != nil {
		return runConfig{}, false
	}
	rc := runConfig{fam: f[1], otype: strings.ToUpper(f[2]), level: strings.ToUpper(f[3][:1]) + f[3][1:], name: name, R: R, iters: 60, ds: dss[0], annealer: "Kirkpatrick", conc: R}
	if rc.fam == "multi" {
		rc.annealer = "Suppapitnarm"
	}
	return rc, true
}
