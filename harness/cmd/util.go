//go:build verif

package main

import (
	"bufio"
	"encoding/json"
	"fmt"
	"math"
	"os"
	"path/filepath"
	"sort"
	"strings"
)

// ---------------------------------------------------------------- PRNG

// Rng is a splitmix64 generator; every random choice of a suite derives from
// one Rng seeded from VERIF_SEED so a disagreement replays exactly.
type Rng struct{ s uint64 }

// NewRng mixes the seed through one splitmix64 finaliser so that consecutive seeds give unrelated streams.
func NewRng(seed uint64) *Rng {
	z := seed + 0x9E3779B97F4A7C15
	z = (z ^ (z >> 30)) * 0xBF58476D1CE4E5B9
	z = (z ^ (z >> 27)) * 0x94D049BB133111EB
	return &Rng{s: z ^ (z >> 31)}
}

func (r *Rng) U64() uint64 {
	r.s += 0x9E3779B97F4A7C15
	z := r.s
	z = (z ^ (z >> 30)) * 0xBF58476D1CE4E5B9
	z = (z ^ (z >> 27)) * 0x94D049BB133111EB
	return z ^ (z >> 31)
}
func (r *Rng) Intn(n int) int {
	if n <= 0 {
		return 0
	}
	return int(r.U64() % uint64(n))
}
func (r *Rng) Bool() bool        { return r.U64()&1 == 1 }
func (r *Rng) Float() float64    { return float64(r.U64()>>11) / (1 << 53) }
func (r *Rng) Chance(p float64) bool { return r.Float() < p }
func (r *Rng) Fork() *Rng        { return NewRng(r.U64()) }

// ---------------------------------------------------------------- floats

// floatKey maps a finite float64 to an int64 by a strictly monotone map that
// identifies +0.0 and -0.0 (Go's comparison operators identify them too).
func floatKey(f float64) int64 {
	b := math.Float64bits(f)
	if b&(1<<63) != 0 {
		return -int64(b &^ (1 << 63))
	}
	return int64(b)
}

// floatBits renders a float64 as its 16-hex-digit IEEE-754 bit pattern.
func floatBits(f float64) string { return fmt.Sprintf("%016x", math.Float64bits(f)) }

func b2s(b bool) string {
	if b {
		return "1"
	}
	return "0"
}

// ---------------------------------------------------------------- context

type DirectFailure struct {
	Predicate string   `json:"predicate"`
	Signature string   `json:"signature"`
	Detail    string   `json:"detail"`
	Ops       []string `json:"ops,omitempty"`
	Line      int      `json:"line"`
}

type Sample struct {
	Op   string `json:"op"`
	Impl string `json:"impl"`
}

type Ctx struct {
	Suite  string
	Seed   uint64
	Tier   string
	Out    string
	Replay string
	Shard  int
	Shards int
	Args   []string
	Rng    *Rng

	ops, impl *bufio.Writer
	opsF, implF *os.File
	lines     int

	evaluations int
	hist        map[string]int
	nontrivial  map[string]struct{}
	samples     []Sample
	sampleEvery int
	direct      []DirectFailure
	notes       []string
	extra       map[string]interface{}
}

func newCtx(suite string, seed uint64, tier, out, replay string, shard, shards int) *Ctx {
	must(os.MkdirAll(out, 0o755))
	c := &Ctx{Suite: suite, Seed: seed, Tier: tier, Out: out, Replay: replay, Shard: shard, Shards: shards,
		Rng: NewRng(seed ^ uint64(len(suite))*0x51ED27 ^ uint64(shard)<<40), hist: map[string]int{}, nontrivial: map[string]struct{}{},
		extra: map[string]interface{}{}, sampleEvery: 1}
	var err error
	c.opsF, err = os.Create(filepath.Join(out, "ops.txt"))
	must(err)
	c.implF, err = os.Create(filepath.Join(out, "impl.out"))
	must(err)
	c.ops = bufio.NewWriterSize(c.opsF, 1<<20)
	c.impl = bufio.NewWriterSize(c.implF, 1<<20)
	return c
}

func (c *Ctx) Thorough() bool { return c.Tier == "thorough" }

// N picks a size by tier.
func (c *Ctx) N(quick, thorough int) int {
	if c.Thorough() {
		return thorough
	}
	return quick
}

// Op records one protocol line and the implementation's canonical result.
func (c *Ctx) Op(op, result string) {
	if strings.ContainsAny(op, "\n\r") || strings.ContainsAny(result, "\n\r") {
		panic("protocol line contains newline: " + op + " / " + result)
	}
	c.ops.WriteString(op)
	c.ops.WriteByte('\n')
	c.impl.WriteString(result)
	c.impl.WriteByte('\n')
	c.lines++
	c.evaluations++
	if len(c.samples) < 6 && (c.lines%c.sampleEvery == 0) {
		c.samples = append(c.samples, Sample{Op: clip(op, 400), Impl: clip(result, 400)})
		c.sampleEvery *= 7
	}
}

// Flush makes everything recorded so far durable (call before risky operations).
func (c *Ctx) Flush() { c.ops.Flush(); c.impl.Flush() }

func (c *Ctx) Line() int { return c.lines }

// Stat counts one occurrence of a histogram key (the input distribution).
func (c *Ctx) Stat(key string) { c.hist[key]++ }

// Nontrivial records a distinct non-trivial case key (rule fixed per suite).
func (c *Ctx) Nontrivial(key string) { c.nontrivial[key] = struct{}{} }

// Fail records a direct failure of the property's own predicate on the implementation.
func (c *Ctx) Fail(predicate, signature, detail string, ops []string) {
	// keep the first few witnesses of every distinct signature (a flood of one kind must not hide another)
	if c.hist["direct-failure:"+signature] < 5 && len(c.direct) < 400 {
		c.direct = append(c.direct, DirectFailure{Predicate: predicate, Signature: signature, Detail: clip(detail, 2000), Ops: ops, Line: c.lines})
	}
	c.hist["direct-failure:"+signature]++
}

func (c *Ctx) Note(s string) { c.notes = append(c.notes, s) }

func (c *Ctx) finish() {
	c.Flush()
	c.opsF.Close()
	c.implF.Close()
	keys := make([]string, 0, len(c.hist))
	for k := range c.hist {
		keys = append(keys, k)
	}
	sort.Strings(keys)
	hist := map[string]int{}
	for _, k := range keys {
		hist[k] = c.hist[k]
	}
	st := map[string]interface{}{
		"suite": c.Suite, "seed": c.Seed, "tier": c.Tier, "lines": c.lines,
		"evaluations": c.evaluations, "distinct_nontrivial": len(c.nontrivial),
		"histogram": hist, "samples": c.samples, "direct_failures": c.direct, "notes": c.notes, "extra": c.extra,
	}
	b, err := json.MarshalIndent(st, "", " ")
	must(err)
	must(os.WriteFile(filepath.Join(c.Out, "stats.json"), b, 0o644))
}

func clip(s string, n int) string {
	if len(s) > n {
		return s[:n] + "…"
	}
	return s
}

func must(err error) {
	if err != nil {
		panic(err)
	}
}

// readLines reads a replay/corpus ops file.
func readLines(path string) []string {
	b, err := os.ReadFile(path)
	must(err)
	var out []string
	for _, l := range strings.Split(string(b), "\n") {
		if strings.TrimSpace(l) != "" {
			out = append(out, l)
		}
	}
	return out
}

// protect runs f, converting a panic into a short class string.
func protect(f func()) (panicked string) {
	defer func() {
		if r := recover(); r != nil {
			panicked = fmt.Sprint(r)
		}
	}()
	f()
	return ""
}

// Perm returns a pseudo-random permutation of 0..n-1
func (r *Rng) Perm(n int) []int {
	p := make([]int, n)
	for i := range p {
		p[i] = i
	}
	for i := n - 1; i > 0; i-- {
		j := r.Intn(i + 1)
		p[i], p[j] = p[j], p[i]
	}
	return p
}
