//go:build verif

package main

import (
	"fmt"
	"math"
	"os"
	"path/filepath"
	"strconv"
	"strings"
)

// genExactCostTies: when set, a generated dataset may carry costs that are EXACT ties of the cost variables' rounding
// (x.xx5).  crem's RoundFloat(cost, 2) decides those by the last bit of a float product (5.005 becomes 5.01, 1.005
// becomes 1.00), which exact arithmetic cannot follow: only suites whose driver answers BOUNDARY there (catchment-walk)
// switch it on; they keep evaluating the direct clauses on such data.
var genExactCostTies = false

// genForceTies: the next generated dataset carries exact ties for about half of its costs (set around one call)
var genForceTies = false

// genDataset writes a generated catchment dataset (meta file + three tables) into dir and returns
// the meta file's path.  It is loaded by crem's real CSV loader.
func genDataset(r *Rng, dir string, tag string) string {
	must(os.MkdirAll(dir, 0o755))
	nPU := 1 + r.Intn(8)
	ids := map[int]bool{}
	var pus []int
	for len(pus) < nPU {
		id := 1 + r.Intn(300)
		if !ids[id] {
			ids[id] = true
			pus = append(pus, id)
		}
	}
	f := func(v float64) string { return strconv.FormatFloat(v, 'g', -1, 64) }
	pick := func(xs ...float64) float64 { return xs[r.Intn(len(xs))] }
	round := func(v float64, d int) float64 {
		s := strconv.FormatFloat(v, 'f', d, 64)
		x, _ := strconv.ParseFloat(s, 64)
		return x
	}

	// adverse data sets: some action rows make things WORSE (actioned value above the original, a negative
	// opportunity cost), so that activation is not monotone in any variable; legal input all the same
	adverse := r.Chance(0.35)
	if adverse {
		tag += "adv_"
	}
	worse := func(orig float64, d int, better float64) float64 {
		if adverse && r.Chance(0.4) {
			return round(orig*(1+r.Float()*0.6), d)
		}
		return round(orig*better, d)
	}
	opp := func(v float64) float64 {
		if adverse && r.Chance(0.25) {
			return -v
		}
		return v
	}
	// costs: crem rounds every action's cost to cents (RoundFloat(cost, 2)) before it adds it.  Whole dollars and cents
	// (the rounding is the identity), 3-6 decimals (it is not), values a 1e-6 .. 1e-4 either side of a tie x.xx5
	// (decidable at float precision), with genExactCostTies the tie itself; negative in adverse data sets.
	ties := genExactCostTies && (genForceTies || r.Chance(0.12))
	forced := genExactCostTies && genForceTies
	if ties {
		tag += "tie_"
	}
	cost := func(scale float64) float64 {
		x := r.Float() * scale
		if r.Chance(0.15) {
			x = r.Float() * 100 // small amounts: the fraction is a visible share of the value
		}
		var v float64
		k := r.Intn(20)
		if forced && k%2 == 0 {
			k = 19 // an exact tie x.xx5
		}
		switch {
		case k < 5:
			v = round(x, 0)
		case k < 9:
			v = round(x, 2)
		case k < 13:
			v = round(x, 3+r.Intn(4))
		case k < 18:
			off := []float64{1e-6, 3e-6, 1e-5, 1e-4}[r.Intn(4)]
			if r.Bool() {
				off = -off
			}
			v = round(round(x, 2)+0.005+off, 6)
		default:
			if ties {
				v = round(round(x, 2)+0.005, 3)
			} else {
				v = round(x, 4)
			}
		}
		// a 3-decimal number ends in 5 one time in ten: an exact tie only where it is wanted
		if y := math.Abs(v) * 100; math.Abs(y-math.Floor(y)-0.5) < 1e-6 && !(ties && k >= 18) {
			v = round(v+0.0011, 6)
		}
		if adverse && r.Chance(0.15) {
			v = -v
		}
		return v
	}

	gullyOpp := func() float64 { // a third of the gully rows cost no opportunity
		if m := r.Intn(3); m > 0 {
			return cost(9000 * float64(m))
		}
		return 0
	}

	var sub, gul, act strings.Builder
	sub.WriteString("Subcatchment,DownstreamId,ChannelLength,ChannelSlope,BankfullFlow,ChannelWidth,ChannelDepth,FloodplainWidth,ProportionOfRiparianVegetation,SubcatchmentArea,RiparianBufferArea,HillslopeArea\n")
	gul.WriteString("Identifier,Subcatchment,Volume,ChannelLengh\n")
	act.WriteString("Subcatchment,ActionType,OpportunityCost,ImplementationCost,ParticulateNitrogenOriginal,ParticulateNitrogenActioned,HillslopeErosionOriginal,HillslopeErosionActioned,FineSedimentOriginal,FineSedimentActioned,DissolvedNitrogenOriginal,DissolvedNitrogenActioned,DNRemovalEfficiency,PNRemovalEfficiency,SedimentRemovalEfficiency\n")
	gid := 1
	for _, p := range pus {
		// riparian vegetation proportion straddles the filter thresholds 0.25 / 0.75 and the default target 0.75
		veg := pick(0.05, 0.114667, 0.2, 0.249, 0.25, 0.251, 0.308863, 0.5, 0.6, 0.74, 0.75, 0.76, 0.9)
		if r.Chance(0.3) {
			veg = round(r.Float(), 4)
		}
		fmt.Fprintf(&sub, "%d,%d,%s,%s,%s,%s,%s,%s,%s,%s,%s,%s\n", p, 1+r.Intn(30),
			f(round(5000+r.Float()*20000, 0)), f(round(0.00002+r.Float()*0.0002, 7)), f(round(0.02+r.Float()*9, 5)),
			f(round(1+r.Float()*20, 3)), f(round(0.1+r.Float()*5, 4)), f(round(300+r.Float()*2700, 2)),
			f(veg), f(round(1e6+r.Float()*5e6, 0)), f(round(5e4+r.Float()*1.5e5, 1)), f(pick(0, 0, 17435.3, 980041, 21082.9)))
		// gullies: zero, one or two per unit; zero-volume rows too
		ng := r.Intn(3)
		for g := 0; g < ng; g++ {
			vol := pick(0, 3859.73, 278538.89, round(r.Float()*50000, 2))
			fmt.Fprintf(&gul, "%d,%d,%s,%s\n", gid, p, f(vol), f(round(100+r.Float()*1500, 3)))
			gid++
		}
		if ng > 0 || r.Chance(0.15) { // a Gully action row (sometimes without any gully: no action is built)
			pn := round(r.Float()*2, 6)
			dn := round(r.Float()*0.01, 9)
			fmt.Fprintf(&act, "%d,Gully,%s,%s,%s,%s,0,0,0,0,%s,%s,0,0,0\n", p, f(opp(gullyOpp())), f(cost(200000)),
				f(pn), f(worse(pn, 6, r.Float())), f(dn), f(worse(dn, 9, r.Float())))
		}
		if r.Chance(0.8) { // Hillslope row; zero erosion rows build no action but still seed nitrogen attributes
			ero := pick(0, 0, 11.7133, 1267.84, 9.17471, round(r.Float()*500, 3), 0.004)
			pn := 0.0
			if ero > 0 {
				pn = round(r.Float()*10, 6)
			}
			dn := round(r.Float()*5, 6)
			fmt.Fprintf(&act, "%d,Hillslope,%s,%s,%s,%s,%s,%s,0,0,%s,%s,0,0,0\n", p, f(opp(cost(90000))), f(cost(4e6)),
				f(pn), f(worse(pn, 6, r.Float())), f(ero), f(worse(ero, 4, r.Float()*0.2)), f(dn), f(worse(dn, 6, 0.8+0.2*r.Float())))
		}
		if r.Chance(0.85) { // Riparian row (an action exists only when veg < target)
			fo := round(0.1+r.Float()*0.1, 6)
			dn := round(r.Float()*1e-6, 12)
			fmt.Fprintf(&act, "%d,Riparian,%s,%s,0,0,0,0,%s,%s,%s,%s,%s,0,0\n", p, f(opp(cost(7000))), f(cost(900000)),
				f(fo), f(round(0.1+r.Float()*0.15, 6)), f(dn), f(worse(dn, 12, r.Float())), f(pick(0.632175983, 0.5, 0.9, 0)))
		}
		if r.Chance(0.4) { // Wetland row
			fmt.Fprintf(&act, "%d,Wetland,%s,%s,0,0,0,0,0,0,0,0,%s,%s,%s\n", p, f(opp(cost(20000))), f(cost(2.5e6)),
				// an efficiency of 0 is legal: the wetland then leaves that variable where it is (a proposal with NO effect on one
				// variable must still be a proposal of its own: seed C02m)
				f(pick(0.99, 0.98, 0.5, 0)), f(pick(1, 0.9, 0.3, 0)), f(pick(1, 0.95, 0.4, 0, 0)))
		}
	}
	w := func(name, content string) {
		must(os.WriteFile(filepath.Join(dir, name), []byte(content), 0o644))
	}
	w(tag+"Subcatchments.csv", sub.String())
	w(tag+"Gullies.csv", gul.String())
	w(tag+"Actions.csv", act.String())
	w(tag+"Model.csv", fmt.Sprintf("TableName, FilePath\nSubcatchments, %sSubcatchments.csv\nGullies, %sGullies.csv\nActions, %sActions.csv\n", tag, tag, tag))
	return filepath.Join(dir, tag+"Model.csv")
}

func pickInt(r *Rng, xs ...int) int { return xs[r.Intn(len(xs))] }
