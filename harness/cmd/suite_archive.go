//go:build verif

package main

import (
	"fmt"
	"math"
	"strconv"
	"strings"

	marchive "github.com/LindsayBradford/crem/internal/pkg/model/archive"
	"github.com/LindsayBradford/crem/internal/pkg/rand"
	"github.com/LindsayBradford/crem/pkg/archive"
	"github.com/LindsayBradford/crem/pkg/dominance"
)

func init() { register("archive-ops", suiteArchiveOps) }

type cand struct {
	vec  []float64
	bits []bool
}

func (k cand) state() *marchive.CompressedModelState {
	ba := archive.New(len(k.bits))
	for i, b := range k.bits {
		ba.SetValue(i, b)
	}
	return &marchive.CompressedModelState{Variables: dominance.Float64Vector(append([]float64(nil), k.vec...)), Actions: *ba}
}

func bitsStr(bs []bool) string {
	if len(bs) == 0 {
		return "-"
	}
	var sb strings.Builder
	for _, b := range bs {
		if b {
			sb.WriteByte('1')
		} else {
			sb.WriteByte('0')
		}
	}
	return sb.String()
}

func (k cand) opTail() string {
	var sb strings.Builder
	sb.WriteString(strconv.Itoa(len(k.vec)))
	for _, f := range k.vec {
		sb.WriteByte(' ')
		sb.WriteString(strconv.FormatInt(floatKey(f), 10))
	}
	sb.WriteByte(' ')
	sb.WriteString(bitsStr(k.bits))
	return sb.String()
}

func stateBits(s *marchive.CompressedModelState) []bool {
	n := s.Actions.Len()
	bs := make([]bool, n)
	for i := 0; i < n; i++ {
		bs[i] = s.Actions.Value(i)
	}
	return bs
}

func archiveCanon(ss []*marchive.CompressedModelState) string {
	h := uint64(1469598103934665603)
	for _, s := range ss {
		h = h*31 + 7
		for _, v := range s.Variables {
			h = h*1000003 + uint64(floatKey(v))
		}
		h = h*17 + 3
		for _, b := range stateBits(s) {
			if b {
				h = h*131 + 2
			} else {
				h = h*131 + 1
			}
		}
	}
	out := fmt.Sprintf("%d %d", len(ss), h)
	if len(ss) <= 6 {
		parts := make([]string, len(ss))
		for i, s := range ss {
			vs := make([]string, len(s.Variables))
			for j, v := range s.Variables {
				vs[j] = strconv.FormatInt(floatKey(v), 10)
			}
			b := bitsStr(stateBits(s))
			if b == "-" {
				b = ""
			}
			parts[i] = strings.Join(vs, ",") + "|" + b
		}
		out += " " + strings.Join(parts, ";")
	}
	return out
}

func resCode(r marchive.StorageResult) string {
	switch r {
	case marchive.StoredReplacingDominatedEntries:
		return "SR"
	case marchive.StoredWithNoDominanceDetected:
		return "SN"
	case marchive.RejectedWithStoredEntryDominanceDetected:
		return "RD"
	case marchive.RejectedWithDuplicateEntryDetected:
		return "RU"
	case marchive.StoredForcingDominatingStateRemoval:
		return "F"
	}
	return fmt.Sprintf("?%d", uint(r))
}

func sameBits(a, b []bool) bool {
	if len(a) != len(b) {
		return false
	}
	for i := range a {
		if a[i] != b[i] {
			return false
		}
	}
	return true
}

// archSession drives one real archive and evaluates the property's clauses directly on it.
type archSession struct {
	c          *Ctx
	a          *marchive.NonDominanceModelArchive
	ops        []string
	offered    []cand // every candidate offered so far (for the Pareto-front clause)
	forcedUsed bool
	misuse     bool // an arbitrary force happened: invariant clauses no longer apply
	consistent bool
	tag        string
}

func newArchSession(c *Ctx, tag string) *archSession {
	s := &archSession{c: c, a: marchive.New(), consistent: true, tag: tag}
	s.a.SetRandomNumberGenerator(rand.NewTimeSeeded())
	s.ops = []string{"reset"}
	c.Op("reset", "ok")
	return s
}

func (s *archSession) members() []cand {
	var out []cand
	for _, m := range s.a.Archive() {
		out = append(out, cand{vec: []float64(m.Variables), bits: stateBits(m)})
	}
	return out
}

func (s *archSession) fail(pred, sig, detail string) {
	s.c.Fail(pred, sig, detail, append([]string(nil), s.ops...))
}

func (s *archSession) noteOffer(k cand) {
	for _, o := range s.offered {
		if sameBits(o.bits, k.bits) && !equalVec(o.vec, k.vec) {
			s.consistent = false
		}
	}
	s.offered = append(s.offered, k)
}

func (s *archSession) checkInv(after string) {
	if s.misuse {
		return
	}
	ms := s.members()
	for i := range ms {
		for j := range ms {
			if i != j && refDominates(ms[i].vec, ms[j].vec) {
				s.fail("archive-non-dominated", "archive:member-dominated", fmt.Sprintf("after %s: member %d %v dominates member %d %v", after, i, ms[i].vec, j, ms[j].vec))
				return
			}
			if i < j && sameBits(ms[i].bits, ms[j].bits) && (s.consistent || !s.forcedUsed) {
				s.fail("archive-no-duplicates", "archive:duplicate-action-set", fmt.Sprintf("after %s: members %d and %d share action set %s", after, i, j, bitsStr(ms[i].bits)))
				return
			}
		}
	}
	// Pareto-front clause: without forced stores the set equals the Pareto-optimal subset of the offers
	if !s.forcedUsed && s.consistent {
		for _, o := range s.offered {
			dominated := false
			for _, p := range s.offered {
				if refDominates(p.vec, o.vec) {
					dominated = true
					break
				}
			}
			present := false
			for _, m := range ms {
				if sameBits(m.bits, o.bits) && equalVec(m.vec, o.vec) {
					present = true
				}
			}
			if present == dominated {
				s.fail("pareto-front", "archive:not-pareto-front", fmt.Sprintf("after %s: offered %v|%s dominated=%v present=%v", after, o.vec, bitsStr(o.bits), dominated, present))
				return
			}
		}
		for _, m := range ms {
			found := false
			for _, o := range s.offered {
				if sameBits(m.bits, o.bits) && equalVec(m.vec, o.vec) {
					found = true
				}
			}
			if !found {
				s.fail("pareto-front", "archive:member-never-offered", fmt.Sprintf("after %s", after))
			}
		}
	}
}

// attempt offers k; returns the result code.
func (s *archSession) attempt(k cand) string {
	before := s.members()
	op := "att " + k.opTail()
	s.ops = append(s.ops, op)
	var r marchive.StorageResult
	if p := protect(func() { r = s.a.AttemptToArchiveState(k.state()) }); p != "" {
		s.c.Op(op, "panic")
		s.fail("no-panic", "archive:panic", p)
		return "panic"
	}
	code := resCode(r)
	domBy, dup := false, false
	for _, m := range before {
		if refDominates(m.vec, k.vec) {
			domBy = true
		}
		if sameBits(m.bits, k.bits) {
			dup = true
		}
	}
	shown := code
	if (code == "RD" || code == "RU") && domBy && dup {
		// both reasons hold (a situation a real model cannot produce: equal action sets have equal values): the property allows
		// either, which one is named depends on the order in which the implementation looks
		shown = "R*"
		s.c.Stat("refusal with both reasons present (either accepted)")
	}
	s.c.Op(op, shown+" "+archiveCanon(s.a.Archive()))
	s.noteOffer(k)
	after := s.members()
	// refusal reasons / stored clauses, directly on the implementation
	switch code {
	case "RD", "RU":
		if !domBy && !dup {
			s.fail("refused-only-if-dominated-or-duplicate", "archive:unjustified-refusal", fmt.Sprintf("%s refused (%s) with no dominating or duplicate member", op, code))
		}
		if code == "RD" && !domBy {
			s.fail("refusal-reason", "archive:wrong-refusal-reason", op+" RD without dominating member")
		}
		if code == "RU" && !dup {
			s.fail("refusal-reason", "archive:wrong-refusal-reason", op+" RU without duplicate member")
		}
		if len(after) != len(before) {
			s.fail("refusal-leaves-archive", "archive:refusal-changed-archive", op)
		}
	case "SN", "SR":
		if domBy || dup {
			s.fail("stored-only-if-unblocked", "archive:stored-despite-block", fmt.Sprintf("%s stored although dominated=%v duplicate=%v", op, domBy, dup))
		}
		if len(after) == 0 || !sameBits(after[len(after)-1].bits, k.bits) || !equalVec(after[len(after)-1].vec, k.vec) {
			s.fail("stored-candidate-present", "archive:stored-candidate-absent", op)
		}
		// evicted exactly the members the candidate dominates, survivors in order
		var want []cand
		for _, m := range before {
			if !refDominates(k.vec, m.vec) {
				want = append(want, m)
			}
		}
		if len(want)+1 != len(after) {
			s.fail("evict-exactly-dominated", "archive:wrong-eviction", fmt.Sprintf("%s: %d survivors expected, %d found", op, len(want), len(after)-1))
		} else {
			for i := range want {
				if !sameBits(want[i].bits, after[i].bits) || !equalVec(want[i].vec, after[i].vec) {
					s.fail("evict-exactly-dominated", "archive:wrong-eviction", op+": survivor order/content differs")
					break
				}
			}
		}
		if (code == "SN") != (len(want) == len(before)) {
			s.fail("stored-result-code", "archive:wrong-stored-code", op)
		}
	}
	s.c.Stat(fmt.Sprintf("%s att %s d=%d", s.tag, code, len(k.vec)))
	if !(code == "SN" && len(before) == 0) {
		s.c.Nontrivial(archiveCanon(toStates(before)) + "<-" + op)
	}
	s.checkInv(op)
	return code
}

func toStates(ks []cand) []*marchive.CompressedModelState {
	out := make([]*marchive.CompressedModelState, len(ks))
	for i, k := range ks {
		out[i] = k.state()
	}
	return out
}

func (s *archSession) force(k cand, afterRefusal bool) {
	before := s.members()
	op := "frc " + k.opTail()
	s.ops = append(s.ops, op)
	var r marchive.StorageResult
	if p := protect(func() { r = s.a.ForceModelStateIntoArchive(k.state()) }); p != "" {
		s.c.Op(op, "panic")
		s.fail("no-panic", "archive:panic", p)
		return
	}
	s.c.Op(op, resCode(r)+" "+archiveCanon(s.a.Archive()))
	s.forcedUsed = true
	if !afterRefusal {
		s.misuse = true
	}
	s.noteOffer(k)
	after := s.members()
	var want []cand
	for _, m := range before {
		if !refDominates(m.vec, k.vec) {
			want = append(want, m)
		}
	}
	ok := len(want)+1 == len(after)
	if ok {
		for i := range want {
			if !sameBits(want[i].bits, after[i].bits) || !equalVec(want[i].vec, after[i].vec) {
				ok = false
			}
		}
		l := after[len(after)-1]
		if !sameBits(l.bits, k.bits) || !equalVec(l.vec, k.vec) {
			ok = false
		}
	}
	if !ok {
		s.fail("force-evicts-exactly-dominators", "archive:wrong-forced-eviction", op)
	}
	s.c.Stat(fmt.Sprintf("%s frc afterRefusal=%v evicted=%d", s.tag, afterRefusal, len(before)-len(want)))
	s.c.Nontrivial(archiveCanon(toStates(before)) + "<-" + op)
	s.checkInv(op)
}

// isolated calls SelectRandomIsolatedModel, which sorts the archive in place (unstable sort):
// the observed permutation is passed to the model.
func (s *archSession) isolated() {
	old := append([]*marchive.CompressedModelState(nil), s.a.Archive()...)
	if len(old) == 0 {
		return
	}
	rng := 1 + s.c.Rng.Intn(len(old))
	var sel *marchive.CompressedModelState
	if p := protect(func() { sel = s.a.SelectRandomIsolatedModel(rng) }); p != "" {
		s.fail("no-panic", "archive:select-panic", p)
		return
	}
	now := s.a.Archive()
	idx := make([]string, len(now))
	for i, m := range now {
		idx[i] = "?"
		for j, o := range old {
			if o == m {
				idx[i] = strconv.Itoa(j)
			}
		}
	}
	op := "perm " + strings.Join(idx, " ")
	s.ops = append(s.ops, op)
	s.c.Op(op, "P "+archiveCanon(now))
	member := false
	for _, m := range now {
		if m == sel {
			member = true
		}
	}
	if !member {
		s.fail("selected-is-member", "archive:selected-not-member", op)
	}
	s.c.Stat(s.tag + " perm")
	s.checkInv(op)
}

func (s *archSession) selfCheck() {
	var r bool
	if p := protect(func() { r = s.a.IsNonDominant() }); p != "" {
		s.fail("no-panic", "archive:isnondominant-panic", p)
		return
	}
	s.ops = append(s.ops, "ind")
	// IsNonDominant is a self-check that no property mentions.  As written in the pinned code its inner loop never looks at the
	// last member; where that matters (the pairs the loop visits are free of dominance, some other pair is not) the answer is
	// whichever the implementation's loop bounds give: `*` on both sides
	ms := s.members()
	visited, all := true, true
	for i := range ms {
		for j := i + 1; j < len(ms); j++ {
			if refDominates(ms[i].vec, ms[j].vec) || refDominates(ms[j].vec, ms[i].vec) {
				all = false
				if j < len(ms)-1 {
					visited = false
				}
			}
		}
	}
	if visited != all {
		s.c.Stat("ind: the pinned loop bounds and the full check differ (either accepted)")
		s.c.Op("ind", "*")
		return
	}
	s.c.Op("ind", b2s(r))
}

func suiteArchiveOps(c *Ctx) {
	if c.Replay != "" {
		var s *archSession
		for _, l := range readLines(c.Replay) {
			w := strings.Fields(l)
			switch {
			case w[0] == "reset":
				s = newArchSession(c, "replay")
			case s == nil:
				s = newArchSession(c, "replay")
				fallthrough
			case w[0] == "att" || w[0] == "frc":
				if len(w) < 2 {
					continue
				}
				d, _ := strconv.Atoi(w[1])
				if len(w) < 2+d {
					continue
				}
				k := cand{}
				for i := 0; i < d; i++ {
					v, _ := strconv.ParseInt(w[2+i], 10, 64)
					k.vec = append(k.vec, keyFloat(v))
				}
				if len(w) > 2+d && w[2+d] != "-" {
					for _, ch := range w[2+d] {
						k.bits = append(k.bits, ch == '1')
					}
				}
				if w[0] == "att" {
					s.attempt(k)
				} else {
					s.force(k, true)
				}
			case w[0] == "ind":
				s.selfCheck()
			}
		}
		return
	}
	r := c.Rng
	// 1. exhaustive short protocol histories over small value grids x 3 action sets, in dimension 2 (3x3 values),
	//    dimension 1 (3 values: dominance is a total preorder, ties are equal vectors) and dimension 3 (2x2x2 values).
	//    The free stream: the same action set may come with different vectors (inconsistent), so both the
	//    consistent and the inconsistent histories are enumerated.
	acts := [][]bool{{false, false}, {true, false}, {false, true}}
	mkGrid := func(d int, vals []float64) []cand {
		var grid []cand
		var rec func(prefix []float64)
		rec = func(prefix []float64) {
			if len(prefix) == d {
				for _, bs := range acts {
					grid = append(grid, cand{vec: append([]float64(nil), prefix...), bits: bs})
				}
				return
			}
			for _, v := range vals {
				rec(append(prefix, v))
			}
		}
		rec(nil)
		return grid
	}
	count := 0
	exhaustive := func(grid []cand, maxLen int, tag string) {
		var rec func(prefix []int)
		rec = func(prefix []int) {
			if len(prefix) > 0 {
				if count%c.Shards == c.Shard {
					// run the history twice: offers only, and with force-after-refusal
					for _, withForce := range []bool{false, true} {
						s := newArchSession(c, tag)
						for _, gi := range prefix {
							code := s.attempt(grid[gi])
							if withForce && code == "RD" {
								s.force(grid[gi], true)
							}
						}
						s.selfCheck()
					}
				}
				count++
			}
			if len(prefix) == maxLen {
				return
			}
			for gi := range grid {
				rec(append(prefix, gi))
			}
		}
		rec(nil)
	}
	grid := mkGrid(2, []float64{0, 1, 2})
	grid1 := mkGrid(1, []float64{0, 1, 2})
	grid3 := mkGrid(3, []float64{0, 1})
	if c.Thorough() {
		exhaustive(grid, 4, "exh")
		exhaustive(grid1, 4, "exh1")
		exhaustive(grid3, 3, "exh3")
	} else {
		// quick: all histories of length <= 2 (dimension 2 and 3) / <= 3 (dimension 1), and a random sample of longer ones
		exhaustive(grid, 2, "exh")
		exhaustive(grid1, 3, "exh1")
		exhaustive(grid3, 2, "exh3")
	}
	for _, g := range []struct {
		grid []cand
		tag  string
		n    int
	}{{grid, "exh-sample", c.N(3000, 0)}, {grid1, "exh1-sample", c.N(500, 1000)}, {grid3, "exh3-sample", c.N(1000, 2000)}} {
		for n := 0; n < g.n; n++ {
			s := newArchSession(c, g.tag)
			l := 3 + r.Intn(3)
			for i := 0; i < l; i++ {
				k := g.grid[r.Intn(len(g.grid))]
				if s.attempt(k) == "RD" && r.Bool() {
					s.force(k, true)
				}
			}
			s.selfCheck()
		}
	}
	// 2. random long histories, dimension 1..8
	seqs := c.N(60, 600)
	for n := 0; n < seqs; n++ {
		if n%c.Shards != c.Shard {
			continue
		}
		d := 1 + r.Intn(8)
		nbits := []int{1, 3, 13, 64, 65, 130}[r.Intn(6)]
		consistentStream := r.Chance(0.8)
		misuseStream := r.Chance(0.1)
		s := newArchSession(c, "rand")
		// candidate pool: small value range so that ties, equal vectors and repeated action sets are frequent
		span := []int{2, 3, 5, 50, 1000}[r.Intn(5)]
		bitsPool := make([][]bool, 1+r.Intn(40))
		vecOfBits := map[string][]float64{}
		for i := range bitsPool {
			bs := make([]bool, nbits)
			for j := range bs {
				bs[j] = r.Bool()
			}
			bitsPool[i] = bs
		}
		mkVec := func() []float64 {
			v := make([]float64, d)
			for i := range v {
				if span == 1000 && r.Chance(0.3) {
					v[i] = randFloat(r)
				} else {
					v[i] = float64(r.Intn(span)) + []float64{0, 0.5, 0.001}[r.Intn(3)]
				}
				if v[i] == 0 && r.Bool() {
					v[i] = math.Copysign(0, -1)
				}
			}
			return v
		}
		steps := c.N(150, 1200)
		if r.Chance(0.2) {
			steps *= 2
		}
		for i := 0; i < steps; i++ {
			bs := bitsPool[r.Intn(len(bitsPool))]
			var v []float64
			if consistentStream {
				key := bitsStr(bs)
				if vecOfBits[key] == nil {
					vecOfBits[key] = mkVec()
				}
				v = vecOfBits[key]
			} else {
				v = mkVec()
			}
			k := cand{vec: v, bits: bs}
			switch {
			case misuseStream && r.Chance(0.05):
				s.force(k, false)
			default:
				if s.attempt(k) == "RD" && r.Chance(0.5) {
					s.force(k, true)
				}
			}
			if r.Chance(0.03) {
				s.isolated()
			}
			if r.Chance(0.02) {
				s.selfCheck()
			}
		}
		c.Stat(fmt.Sprintf("rand final-size-bucket=%d", bucket(len(s.a.Archive()))))
	}
	// 3. wide fronts: 66 … 200 mutually non-dominated members (a staircase in two of d dimensions), then candidates that
	// dominate exactly one member each — at every position of the front, the ones past 64 and 128 included — and
	// candidates dominated by exactly one member, duplicates of members, and re-offers
	wide := c.N(4, 24)
	for n := 0; n < wide; n++ {
		if n%c.Shards != c.Shard {
			continue
		}
		d := 2 + r.Intn(3)
		size := []int{66, 70, 100, 129, 130, 200}[r.Intn(6)]
		nbits := []int{13, 64, 65, 130, 300}[r.Intn(5)]
		s := newArchSession(c, "wide")
		bitsOf := func(id int) []bool {
			bs := make([]bool, nbits)
			for j := range bs {
				bs[j] = (id*2654435761+j*40503)>>7&1 == 1
			}
			bs[id%nbits] = !bs[id%nbits]
			return bs
		}
		stair := func(i int, dx, dy float64) cand {
			v := make([]float64, d)
			v[0], v[1] = float64(4*i)+dx, float64(4*(size-i))+dy
			for j := 2; j < d; j++ {
				v[j] = 7
			}
			return cand{vec: v, bits: bitsOf(i*8 + int(dx+2)*3 + int(dy+2))}
		}
		order := r.Perm(size)
		for _, i := range order {
			s.attempt(stair(i, 0, 0))
		}
		for k := 0; k < size/2; k++ {
			i := r.Intn(size)
			if k%3 == 0 {
				i = size - 1 - r.Intn(6) // the far end of the front
			}
			switch r.Intn(4) {
			case 0: // dominates member i only
				s.attempt(stair(i, -1, -1))
			case 1: // dominated by member i only
				kd := stair(i, 1, 1)
				if s.attempt(kd) == "RD" && r.Bool() {
					s.force(kd, true)
				}
			case 2: // the member itself again (same action set)
				s.attempt(stair(i, 0, 0))
			default: // equal vector, other action set
				kk := stair(i, 0, 0)
				kk.bits = bitsOf(i*8 + 7)
				s.attempt(kk)
			}
		}
		s.selfCheck()
		c.Stat(fmt.Sprintf("wide front size-bucket=%d", bucket(len(s.a.Archive()))))
	}
}

func bucket(n int) int {
	switch {
	case n <= 1:
		return n
	case n <= 3:
		return 3
	case n <= 10:
		return 10
	case n <= 30:
		return 30
	}
	return 100
}
