//go:build verif

package main

import (
	"encoding/hex"
	"fmt"
	"math"
	"os"
	"path/filepath"
	"sort"
	"strconv"
	"strings"

	"github.com/LindsayBradford/crem/internal/pkg/dataset/csv"
	"github.com/LindsayBradford/crem/internal/pkg/model"
	"github.com/LindsayBradford/crem/internal/pkg/model/models/catchment"
	"github.com/LindsayBradford/crem/internal/pkg/model/models/catchment/actions"
	catchmentDataSet "github.com/LindsayBradford/crem/internal/pkg/model/models/catchment/dataset"
	catchmentParameters "github.com/LindsayBradford/crem/internal/pkg/model/models/catchment/parameters"
	"github.com/LindsayBradford/crem/internal/pkg/model/planningunit"
	"github.com/LindsayBradford/crem/internal/pkg/parameters"
)

// Suite `catchment-derive`: crem's derivation of scenario data from the CSV tables
// (which actions exist, their constants, their order, the initial attribute records) against the
// Lean model `Crem/Model/CatchmentDerive.lean` (`derive : Tables → Data`).
//
// For every dataset (shipped + generated, some deliberately ill-formed, some with non-default
// parameters) the REAL loader and the REAL CoreModel are used.  Sent to the driver:
//   * the table cells the derivation reads (`sub`, `gul`, `arow` lines; floats as bit patterns;
//     the row's partialBankSedimentContribution through an add-only accessor) and the parameters;
//   * the data extracted from the initialised Go model exactly as `emitLoad` does (`pu`, `act`).
// The driver computes `derive T` and compares it with the extracted data (`match`), evaluates
// `WellFormedTables`, and dumps `init (derive T)`, which is compared with the Go model's own
// initial state.  Direct check on the Go side: two independent constructions from the same
// dataset yield the identical action list with bit-identical constants.

func init() { register("catchment-derive", suiteDerive) }

// ---------------------------------------------------------------- parameters

var deriveParamKeys = []string{
	catchmentParameters.HillSlopeDeliveryRatio, catchmentParameters.RiparianBufferVegetationProportionTarget,
	catchmentParameters.GullySedimentReductionTarget, catchmentParameters.SedimentDensity,
	catchmentParameters.GullyCompensationFactor, catchmentParameters.YearsOfErosion,
	catchmentParameters.SuspendedSedimentProportion,
}

func genParams(r *Rng) parameters.Map {
	p := parameters.Map{}
	if r.Chance(0.45) {
		return p
	}
	pick := func(xs ...float64) float64 { return xs[r.Intn(len(xs))] }
	if r.Chance(0.6) {
		p[catchmentParameters.RiparianBufferVegetationProportionTarget] = pick(0.75, 0.5, 0.3, 0.25, 0.9, 1, 0.2, 0.6)
	}
	if r.Chance(0.5) {
		p[catchmentParameters.HillSlopeDeliveryRatio] = pick(0.05, 0.1, 1, 0, 0.01, 0.33)
	}
	if r.Chance(0.5) {
		p[catchmentParameters.GullySedimentReductionTarget] = pick(0.8, 0.5, 0, 1, 0.95, 0.123)
	}
	if r.Chance(0.3) {
		p[catchmentParameters.SedimentDensity] = pick(1.5, 1, 2.65, 0.7)
	}
	if r.Chance(0.3) {
		p[catchmentParameters.GullyCompensationFactor] = pick(0.5, 1, 0.25)
	}
	if r.Chance(0.3) {
		p[catchmentParameters.YearsOfErosion] = int64([]int{100, 50, 1, 7, 365}[r.Intn(5)])
	}
	if r.Chance(0.3) {
		p[catchmentParameters.SuspendedSedimentProportion] = pick(0.5, 1, 0.3)
	}
	return p
}

func cfgLine(p parameters.Map) string {
	keys := make([]string, 0, len(p))
	for k := range p {
		keys = append(keys, k)
	}
	sort.Strings(keys)
	var sb strings.Builder
	sb.WriteString("cfg")
	for _, k := range keys {
		switch v := p[k].(type) {
		case float64:
			fmt.Fprintf(&sb, " %s=%s", k, floatBits(v))
		case int64:
			fmt.Fprintf(&sb, " %s=i%d", k, v)
		}
	}
	return sb.String()
}

func parseCfgLine(l string) parameters.Map {
	p := parameters.Map{}
	for _, kv := range strings.Fields(l)[1:] {
		parts := strings.SplitN(kv, "=", 2)
		if len(parts) != 2 {
			continue
		}
		if strings.HasPrefix(parts[1], "i") {
			n, _ := strconv.ParseInt(parts[1][1:], 10, 64)
			p[parts[0]] = n
		} else {
			b, _ := strconv.ParseUint(parts[1], 16, 64)
			p[parts[0]] = math.Float64frombits(b)
		}
	}
	return p
}

// ---------------------------------------------------------------- dataset variants

type csvFile struct {
	path   string
	header string
	rows   []string
}

func readCsvFile(path string) *csvFile {
	b, err := os.ReadFile(path)
	must(err)
	lines := strings.Split(strings.TrimRight(string(b), "\n"), "\n")
	return &csvFile{path: path, header: lines[0], rows: lines[1:]}
}

func (f *csvFile) write() {
	must(os.WriteFile(f.path, []byte(f.header+"\n"+strings.Join(f.rows, "\n")+"\n"), 0o644))
}

func fmtF(v float64) string { return strconv.FormatFloat(v, 'g', -1, 64) }

// varyDataset rewrites a generated dataset in place and returns the variant's name.
// Well-formed variants: plain, rows+ (repeated (unit, type) rows: the last wins; type texts that
// differ from the four known ones in case or otherwise; a Wetland row for an unlisted unit;
// hill-slope erosion just below / above the RoundFloat(…, 3) > 0 threshold).
// Ill-formed variants: dup-id (a sub-catchment id listed twice with different vegetation),
// stray-gully (a gully in an unlisted unit), orphan-row (a Gully/Hillslope/Riparian actions row for
// an unlisted unit: the loader panics), no-actions.
func varyDataset(r *Rng, meta string, params parameters.Map) string {
	ratio, target := 0.05, 0.75
	if v, ok := params[catchmentParameters.HillSlopeDeliveryRatio].(float64); ok {
		ratio = v
	}
	if v, ok := params[catchmentParameters.RiparianBufferVegetationProportionTarget].(float64); ok {
		target = v
	}
	dir := filepath.Dir(meta)
	tag := strings.TrimSuffix(filepath.Base(meta), "Model.csv")
	sub := readCsvFile(filepath.Join(dir, tag+"Subcatchments.csv"))
	gul := readCsvFile(filepath.Join(dir, tag+"Gullies.csv"))
	act := readCsvFile(filepath.Join(dir, tag+"Actions.csv"))
	ids := []int{}
	for _, row := range sub.rows {
		id, _ := strconv.Atoi(strings.SplitN(row, ",", 2)[0])
		ids = append(ids, id)
	}
	anyId := func() int { return ids[r.Intn(len(ids))] }
	unlisted := func() int { return 301 + r.Intn(50) } // genDataset draws ids from 1..300
	pick := func(xs ...float64) float64 { return xs[r.Intn(len(xs))] }
	x := r.Float()
	variant := "plain"
	switch {
	case x < 0.40:
	case x < 0.70:
		variant = "rows+"
		n := 1 + r.Intn(5)
		for i := 0; i < n; i++ {
			switch []int{0, 1, 2, 3, 4, 5, 6, 7, 7, 7, 8, 8}[r.Intn(12)] {
			case 7: // a Hillslope row whose erosion sits just below / above the point where actionNeededFor's
				// RoundFloat(erosion × delivery ratio × riparian filter, 3) becomes positive for THIS unit
				k := r.Intn(len(sub.rows))
				if r.Chance(0.5) { // … with the unit's vegetation exactly on a threshold of the riparian filter
					cells := strings.Split(sub.rows[k], ",")
					cells[8] = fmtF(pick(0.25, 0.75))
					sub.rows[k] = strings.Join(cells, ",")
				}
				veg, _ := strconv.ParseFloat(strings.Split(sub.rows[k], ",")[8], 64)
				filter := 1 - veg
				if veg < 0.25 {
					filter = 1
				} else if veg > 0.75 {
					filter = 0.25
				}
				if ratio > 0 && filter > 0 {
					thr := 0.0005 / (ratio * filter)
					ero, _ := strconv.ParseFloat(strconv.FormatFloat(thr*pick(0.7, 0.9, 0.98, 1.02, 1.1, 1.3), 'g', 6, 64), 64)
					act.rows = append(act.rows, fmt.Sprintf("%d,Hillslope,10,20,%s,%s,%s,%s,0,0,0.5,0.25,0,0,0", ids[k], fmtF(pick(0, 0.5)), fmtF(pick(0, 0.25)), fmtF(ero), fmtF(ero*0.5)))
				}
			case 8: // a sub-catchment whose vegetation is at / just below / just above the riparian target
				k := r.Intn(len(sub.rows))
				cells := strings.Split(sub.rows[k], ",")
				veg := target + pick(0, 0, -0.001, 0.001)
				if veg >= 0 && veg <= 1 {
					cells[8] = fmtF(veg)
					sub.rows[k] = strings.Join(cells, ",")
				}
			case 0: // repeated Hillslope row (last wins), erosion around the rounding threshold of actionNeededFor
				ero := pick(0.004, 0.0099, 0.0101, 0.011, 0.0399, 0.0401, 0.02, 0.1, 0, 35.5)
				pn := pick(0, 0.5, 3.25)
				act.rows = append(act.rows, fmt.Sprintf("%d,Hillslope,%s,%s,%s,%s,%s,%s,0,0,%s,%s,0,0,0", anyId(), fmtF(pick(0, 100, 5449)), fmtF(pick(0, 83690, 12.5)),
					fmtF(pn), fmtF(pn*0.5), fmtF(ero), fmtF(ero*0.25), fmtF(pick(0, 1.5)), fmtF(pick(0, 1.25))))
			case 1: // repeated Riparian row
				act.rows = append(act.rows, fmt.Sprintf("%d,Riparian,%s,%s,0,0,0,0,%s,%s,%s,%s,%s,0,0", anyId(), fmtF(pick(0, 700)), fmtF(pick(0, 90000.5)),
					fmtF(pick(0.1, 0.15, 0)), fmtF(pick(0.1, 0.12)), fmtF(pick(0, 1e-6)), fmtF(pick(0, 5e-7)), fmtF(pick(0, 0.63, 1))))
			case 2: // repeated Gully row (an action only if the unit has gullies)
				act.rows = append(act.rows, fmt.Sprintf("%d,Gully,%s,%s,%s,%s,0,0,0,0,%s,%s,0,0,0", anyId(), fmtF(pick(0, 10)), fmtF(pick(0, 15146)),
					fmtF(pick(0, 0.03)), fmtF(pick(0, 0.007)), fmtF(pick(0, 1e-4)), fmtF(pick(0, 4.5e-5))))
			case 3: // repeated Wetland row, or one for an unlisted unit (ignored)
				id := anyId()
				if r.Chance(0.3) {
					id = unlisted()
				}
				act.rows = append(act.rows, fmt.Sprintf("%d,Wetland,%s,%s,0,0,0,0,0,0,0,0,%s,%s,%s", id, fmtF(pick(0, 2000)), fmtF(pick(0, 2.5e6)),
					fmtF(pick(0.99, 0.5, 0)), fmtF(pick(1, 0.9)), fmtF(pick(1, 0.95, 0.4))))
			case 4: // type text differing in case / unknown type: ignored by every group and variable
				ty := []string{"wetland", "WETLAND", "gully", "hillslope", "HillSlope", "riparian", "Terracing", "Wetlands", "Gul ly"}[r.Intn(9)]
				act.rows = append(act.rows, fmt.Sprintf("%d,%s,11,22,0.5,0.25,7.5,1.5,0.2,0.1,0.3,0.2,0.9,0.8,0.7", anyId(), ty))
			case 5: // a zero-volume gully in a unit (possibly its only one): an action with zero sediment
				gul.rows = append(gul.rows, fmt.Sprintf("%d,%d,0,%s", 900+i, anyId(), fmtF(pick(100, 250.5))))
			case 6: // another gully
				gul.rows = append(gul.rows, fmt.Sprintf("%d,%d,%s,%s", 900+i, anyId(), fmtF(pick(3859.73, 12.5, 1e5)), fmtF(pick(100, 250.5))))
			}
		}
	case x < 0.82:
		variant = "dup-id"
		k := r.Intn(len(sub.rows))
		cells := strings.Split(sub.rows[k], ",")
		cells[8] = fmtF(pick(0.05, 0.2, 0.3, 0.5, 0.74, 0.76, 0.9))
		cells[7] = fmtF(pick(300, 1500.5))
		row := strings.Join(cells, ",")
		pos := r.Intn(len(sub.rows) + 1)
		sub.rows = append(sub.rows[:pos], append([]string{row}, sub.rows[pos:]...)...)
	case x < 0.91:
		variant = "stray-gully"
		gul.rows = append(gul.rows, fmt.Sprintf("%d,%d,%s,120", 990, unlisted(), fmtF(pick(0, 3859.73, 500))))
	case x < 0.97:
		variant = "orphan-row"
		ty := []string{"Gully", "Hillslope", "Riparian"}[r.Intn(3)]
		act.rows = append(act.rows, fmt.Sprintf("%d,%s,11,22,0.5,0.25,7.5,1.5,0.2,0.1,0.3,0.2,0.9,0.8,0.7", unlisted(), ty))
	default:
		variant = "no-actions"
		// one sub-catchment at the vegetation target, no gullies, no action rows that build anything
		cells := strings.Split(sub.rows[0], ",")
		cells[8] = "0.9"
		sub.rows = []string{strings.Join(cells, ",")}
		gul.rows = nil
		act.rows = []string{fmt.Sprintf("%s,wetland,1,2,0,0,0,0,0,0,0,0,0.5,0.5,0.5", cells[0])}
	}
	sub.write()
	gul.write()
	act.write()
	return variant
}

// ---------------------------------------------------------------- one dataset

type derivedRun struct {
	c       *Ctx
	variant string
	kind    string
}

func textToken(s string) string { return "x" + hex.EncodeToString([]byte(s)) }

// buildModel loads the dataset with crem's CSV loader and prepares (not yet initialises) a CoreModel.
func buildModel(dsPath string, params parameters.Map) (m *catchment.CoreModel, dsi *catchmentDataSet.DataSetImpl, err error) {
	defer func() {
		if r := recover(); r != nil {
			err = fmt.Errorf("panic while reading dataset: %v", r)
		}
	}()
	ds := csv.NewDataSet("CatchmentModel")
	if e := ds.Load(dsPath); e != nil {
		return nil, nil, e
	}
	cp := parameters.Map{}
	for k, v := range params {
		cp[k] = v
	}
	m = catchment.NewCoreModel().WithSourceDataSet(ds).WithParameters(cp)
	if e := m.ParameterErrors(); e != nil {
		return nil, nil, e
	}
	dsi = new(catchmentDataSet.DataSetImpl).Initialise(ds)
	return m, dsi, nil
}

type actionSig struct {
	key    string
	consts []uint64
}

func actionSigs(m *catchment.CoreModel) []actionSig {
	var out []actionSig
	for _, a := range m.ManagementActions() {
		t := typeIdx(a.Type())
		s := actionSig{key: fmt.Sprintf("%d/%s", a.PlanningUnit(), a.Type())}
		if t >= 0 {
			for _, nm := range constNames(t) {
				s.consts = append(s.consts, math.Float64bits(a.ModelVariableValue(nm)))
			}
		}
		out = append(out, s)
	}
	return out
}

func runDerive(c *Ctx, dsPath string, params parameters.Map, kind, variant string) {
	m, dsi, err := buildModel(dsPath, params)
	if err != nil {
		c.Stat("dataset-unreadable: " + clip(err.Error(), 60))
		return
	}
	c.Op(datasetLine(dsPath), "ok")
	c.Op(cfgLine(params), "ok")
	c.Op("tables", "ok")

	// ---- the cells the derivation reads
	vp := m.VerifParameters()
	var sb strings.Builder
	sb.WriteString("param")
	for _, k := range deriveParamKeys {
		v := 0.0
		if k == catchmentParameters.YearsOfErosion {
			v = float64(vp.GetInt64(k))
		} else {
			v = vp.GetFloat64(k)
		}
		sb.WriteByte(' ')
		sb.WriteString(floatBits(v))
	}
	c.Op(sb.String(), "ok")

	var cells string
	var subIds, gullyUnits []planningunit.Id
	if p := protect(func() {
		var lines []string
		sub := dsi.SubCatchmentsTable
		_, rows := sub.ColumnAndRowSize()
		partials := actions.VerifBankPartials(sub, catchmentParameters.Parameters{Parameters: *vp})
		for row := uint(0); row < rows; row++ {
			id := planningunit.Float64ToId(sub.CellFloat64(0, row))
			subIds = append(subIds, id)
			lines = append(lines, fmt.Sprintf("sub %d %s %s", id, floatBits(sub.CellFloat64(8, row)), floatBits(partials[row])))
		}
		gul := dsi.GulliesTable
		_, rows = gul.ColumnAndRowSize()
		for row := uint(0); row < rows; row++ {
			u := planningunit.Float64ToId(gul.CellFloat64(1, row))
			gullyUnits = append(gullyUnits, u)
			lines = append(lines, fmt.Sprintf("gul %d %s", u, floatBits(gul.CellFloat64(2, row))))
		}
		act := dsi.ActionsTable
		_, rows = act.ColumnAndRowSize()
		for row := uint(0); row < rows; row++ {
			var l strings.Builder
			fmt.Fprintf(&l, "arow %d %s", planningunit.Id(act.CellFloat64(0, row)), textToken(act.CellString(1, row)))
			for col := uint(2); col <= 14; col++ {
				l.WriteByte(' ')
				l.WriteString(floatBits(act.CellFloat64(col, row)))
			}
			lines = append(lines, l.String())
		}
		cells = strings.Join(lines, "\n")
	}); p != "" {
		c.Stat("tables-unreadable: " + clip(p, 60))
		c.Op("tables", "ok") // reset the driver's state
		return
	}
	if cells != "" {
		for _, l := range strings.Split(cells, "\n") {
			c.Op(l, "ok")
		}
	}

	// the harness's own evaluation of the well-formedness of the tables
	seen := map[planningunit.Id]bool{}
	wf := true
	for _, id := range subIds {
		if seen[id] {
			wf = false
		}
		seen[id] = true
	}
	for _, u := range gullyUnits {
		if !seen[u] {
			wf = false
		}
	}

	// ---- the real model
	c.Flush()
	if p := protect(func() { m.Initialise(model.AsIs) }); p != "" {
		c.Op("endderive-failed", "load-fails")
		c.Stat(fmt.Sprintf("%s variant=%s wf=%s load-fails", kind, variant, b2s(wf)))
		c.Nontrivial("load-fails:" + variant + ":" + clip(p, 40))
		// a dataset that yields no management action at all makes Initialise panic at ManagementActions()[0]
		// (observed crem behaviour, predicted by the model's `loadPanics`); any other panic on a dataset
		// generated to be loadable is reported
		if (variant == "plain" || variant == "rows+" || variant == "shipped") && !strings.Contains(p, "index out of range [0] with length 0") {
			c.Fail("harness:well-formed-dataset-loads", "derive:well-formed-dataset-rejected", "Initialise panicked on a dataset generated to be loadable: "+p, nil)
		}
		return
	}
	cm := &CM{m: m, dsPath: dsPath, params: params, limVar: -1}
	cm.installRand()
	for id := range seen {
		cm.pus = append(cm.pus, id)
	}
	sort.Slice(cm.pus, func(i, j int) bool { return cm.pus[i] < cm.pus[j] })

	// extracted data, exactly as emitLoad (units once each).  No `load` line: `tables` has reset the
	// driver, and ./check cuts replay contexts at `load` lines (the dataset line must stay in them).
	for _, p := range cm.pus {
		var l strings.Builder
		fmt.Fprintf(&l, "pu %d", p)
		for v := 0; v < 3; v++ {
			for _, f := range cm.ctxOf(v, p) {
				l.WriteByte(' ')
				l.WriteString(floatBits(f))
			}
		}
		c.Op(l.String(), "ok")
	}
	typeCount := [4]int{}
	for _, a := range cm.m.ManagementActions() {
		t := typeIdx(a.Type())
		typeCount[t]++
		var l strings.Builder
		fmt.Fprintf(&l, "act %d %d", a.PlanningUnit(), t)
		for _, nm := range constNames(t) {
			l.WriteByte(' ')
			l.WriteString(floatBits(a.ModelVariableValue(nm)))
		}
		c.Op(l.String(), "ok")
	}
	c.Op("endload-raw", "ok")
	if wf {
		c.Op("endderive", "wf=1 match")
		// the catchment driver evaluates ApproxConsistent on the EXTRACTED data (then, on the `hyp` lines, the exact
		// InitConsistent on the normalised data, KeysDistinct and UnitsOK) and
		// answers with the initial state of the model run on it (BOUNDARY: an initial value within
		// 1e-9 of a rounding boundary cannot be decided at float precision; the rest is skipped)
		c.Op("endload", cm.dump())
		emitHypLines(c)
	} else {
		c.Op("endderive-malformed", "wf=0 match")
	}
	c.Op("derived-init", cm.dump())

	// ---- direct check: a second, independent construction yields the identical action list
	first := actionSigs(m)
	if m2, _, err2 := buildModel(dsPath, params); err2 == nil {
		if p := protect(func() { m2.Initialise(model.AsIs) }); p == "" {
			second := actionSigs(m2)
			same := len(first) == len(second)
			for i := 0; same && i < len(first); i++ {
				if first[i].key != second[i].key || len(first[i].consts) != len(second[i].consts) {
					same = false
					break
				}
				for k := range first[i].consts {
					if first[i].consts[k] != second[i].consts[k] {
						same = false
					}
				}
			}
			if !same {
				c.Fail("C01:derivation-deterministic", "derive:action-list-differs-between-constructions",
					fmt.Sprintf("two models built from %s differ in their action lists: %v vs %v", filepath.Base(dsPath), first, second), nil)
			}
		} else {
			c.Fail("C01:derivation-deterministic", "derive:second-construction-panics", p, nil)
		}
	}
	// keys pairwise distinct and sorted, evaluated on the implementation
	for i := 1; i < len(first); i++ {
		a, b := m.ManagementActions()[i-1], m.ManagementActions()[i]
		if !(a.PlanningUnit() < b.PlanningUnit() || (a.PlanningUnit() == b.PlanningUnit() && a.Type() < b.Type())) {
			c.Fail("C01:action-order", "derive:actions-not-strictly-sorted", fmt.Sprintf("%s then %s", first[i-1].key, first[i].key), nil)
		}
	}

	nUnlisted := 0
	for _, a := range m.ManagementActions() {
		if !seen[a.PlanningUnit()] {
			nUnlisted++
		}
	}
	c.Stat(fmt.Sprintf("%s variant=%s wf=%s params=%s", kind, variant, b2s(wf), map[bool]string{true: "default", false: "varied"}[len(params) == 0]))
	for t, nm := range []string{"gully", "hillslope", "riparian", "wetland"} {
		c.Stat(fmt.Sprintf("actions built: %s=%s", nm, countBucket(typeCount[t])))
	}
	if nUnlisted > 0 {
		c.Stat("actions built for an unlisted unit (stray gully)")
	}
	c.Stat(fmt.Sprintf("sub-catchment rows=%s", countBucket(len(subIds))))
	if len(first) >= 1 {
		var keys []string
		for _, s := range first {
			keys = append(keys, s.key)
		}
		c.Nontrivial(fmt.Sprintf("%v|%s|%d|%s", keys, cfgLine(params), len(subIds), variant))
	}
}

func countBucket(n int) string {
	switch {
	case n == 0:
		return "0"
	case n == 1:
		return "1"
	case n <= 3:
		return "2-3"
	}
	return "4+"
}

func suiteDerive(c *Ctx) {
	if c.Replay != "" {
		replayDerive(c)
		return
	}
	r := c.Rng
	for _, ds := range shippedDatasets() {
		runDerive(c, ds, parameters.Map{}, "shipped", "shipped")
		for k := 0; k < c.N(3, 12); k++ {
			runDerive(c, ds, genParams(r), "shipped", "shipped")
		}
	}
	gen := c.N(200, 2000)
	for g := 0; g < gen; g++ {
		if g%c.Shards != c.Shard {
			continue
		}
		ds := genDataset(r.Fork(), filepath.Join(c.Out, "gen"), fmt.Sprintf("D%d_%d_", c.Shard, g))
		params := genParams(r)
		variant := varyDataset(r.Fork(), ds, params)
		runDerive(c, ds, params, "generated", variant)
	}
}

// replayDerive re-executes recorded datasets: every `dataset` line (followed by its `cfg` line).
func replayDerive(c *Ctx) {
	lines := readLines(c.Replay)
	n := 0
	for i, l := range lines {
		if !strings.HasPrefix(l, "dataset ") {
			continue
		}
		params := parameters.Map{}
		if i+1 < len(lines) && strings.HasPrefix(lines[i+1], "cfg") {
			params = parseCfgLine(lines[i+1])
		}
		path := materialiseDataset(l, filepath.Join(c.Out, fmt.Sprintf("replay-ds-%d", n)))
		n++
		runDerive(c, path, params, "replay", "replay")
	}
}
