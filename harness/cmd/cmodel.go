//go:build verif

package main

import (
	"fmt"
	"math"
	"os"
	"path/filepath"
	"regexp"
	"runtime"
	"sort"
	"strconv"
	"strings"
	"sync"

	"github.com/LindsayBradford/crem/internal/pkg/dataset/csv"
	"github.com/LindsayBradford/crem/internal/pkg/model"
	"github.com/LindsayBradford/crem/internal/pkg/model/action"
	cmodelarchive "github.com/LindsayBradford/crem/internal/pkg/model/archive"
	"github.com/LindsayBradford/crem/internal/pkg/model/models/catchment"
	"github.com/LindsayBradford/crem/internal/pkg/model/models/catchment/actions"
	"github.com/LindsayBradford/crem/internal/pkg/model/models/catchment/variables/dissolvednitrogen"
	"github.com/LindsayBradford/crem/internal/pkg/model/models/catchment/variables/implementationcost"
	"github.com/LindsayBradford/crem/internal/pkg/model/models/catchment/variables/opportunitycost"
	"github.com/LindsayBradford/crem/internal/pkg/model/models/catchment/variables/particulatenitrogen"
	"github.com/LindsayBradford/crem/internal/pkg/model/models/catchment/variables/sedimentproduction"
	"github.com/LindsayBradford/crem/internal/pkg/model/models/catchment/variables/totalnitrogen"
	"github.com/LindsayBradford/crem/internal/pkg/model/planningunit"
	"github.com/LindsayBradford/crem/internal/pkg/model/variable"
	"github.com/LindsayBradford/crem/internal/pkg/parameters"
	crand "github.com/LindsayBradford/crem/internal/pkg/rand"
	"github.com/LindsayBradford/crem/pkg/attributes"
	cremmath "github.com/LindsayBradford/crem/pkg/math"
)

// ---------------------------------------------------------------- scripted randomness

// scriptSource is a math/rand.Source whose Int63 yields idx<<32, so that crem's Intn(n) returns
// exactly the scripted index (Intn -> Int31n -> Int63()>>32, then & or % with idx < n).
type scriptSource struct {
	next func() int
	log  []int
}

// a single model operation never needs more draws than this; beyond it the code under test is spinning
const maxDrawsPerOp = 20000

func (s *scriptSource) Int63() int64 {
	if len(s.log) > maxDrawsPerOp {
		panic("scripted random source: more than 20000 draws in one operation (the operation spins)")
	}
	v := s.next()
	s.log = append(s.log, v)
	return int64(v) << 32
}
func (s *scriptSource) Seed(int64) {}

// ---------------------------------------------------------------- the six variables

var varNames = []string{
	sedimentproduction.VariableName, particulatenitrogen.VariableName, dissolvednitrogen.VariableName,
	totalnitrogen.VariableName, implementationcost.VariableName, opportunitycost.VariableName,
}
var varShort = []string{"sed", "pn", "dn", "tn", "ic", "oc"}
var varPrec = []int{3, 3, 3, 3, 2, 2}
var varMaxKey = []string{
	"MaximumSedimentProduction", "MaximumParticulateNitrogenProduction", "MaximumDissolvedNitrogenProduction",
	"MaximumTotalNitrogenProduction", "MaximumImplementationCost", "MaximumOpportunityCost",
}

// typeIdx orders action types as their Go type strings sort (the model's ActType order).
func typeIdx(t action.ManagementActionType) int {
	switch t {
	case actions.GullyRestorationType:
		return 0
	case actions.HillSlopeRestorationType:
		return 1
	case actions.RiverBankRestorationType:
		return 2
	case actions.WetlandsEstablishmentType:
		return 3
	}
	return -1
}

// constNames lists, per action type index, the ModelVariableValue name behind each Consts field
// (in the field order of the Lean structure `Consts`); "" = not applicable (reads as 0).
func constNames(t int) []action.ModelVariableName {
	cost := []action.ModelVariableName{actions.GullyRestorationCost, actions.HillSlopeRestorationCost, actions.RiverBankRestorationCost, actions.WetlandsEstablishmentCost}[t]
	opp := []action.ModelVariableName{actions.GullyRestorationOpportunityCost, actions.HillSlopeRestorationOpportunityCost, actions.RiverBankRestorationOpportunityCost, actions.WetlandsEstablishmentOpportunityCost}[t]
	return []action.ModelVariableName{
		cost, opp,
		actions.OriginalBufferVegetation, actions.ActionedBufferVegetation,
		actions.OriginalRiparianSedimentProduction, actions.ActionedRiparianSedimentProduction,
		actions.FineSedimentOriginalAttribute, actions.FineSedimentActionedAttribute,
		actions.OriginalGullySediment, actions.ActionedGullySediment,
		actions.HillSlopeErosionOriginalAttribute, actions.HillSlopeErosionActionedAttribute,
		actions.ParticulateNitrogenOriginalAttribute, actions.ParticulateNitrogenActionedAttribute,
		actions.DissolvedNitrogenOriginalAttribute, actions.DissolvedNitrogenActionedAttribute,
		actions.SedimentRemovalEfficiency, actions.ParticulateNitrogenRemovalEfficiency, actions.DissolvedNitrogenRemovalEfficiency,
	}
}

// ---------------------------------------------------------------- a real catchment model under test

type CM struct {
	m       *catchment.CoreModel
	src     *scriptSource
	dsPath  string
	params  parameters.Map
	limVar  int // index into varNames of the limited variable, -1 = none
	limit   float64
	pus     []planningunit.Id
	sib     model.Model // a clone of the model taken right after loading (limited models only): a sibling run
	sibTick int
}

// loadCM loads a real model of the dataset; `extra` (optional) are further model parameters (the scenario constants the
// derivation of the action constants depends on), default values otherwise.
func loadCM(dsPath string, limVar int, limit float64, extra ...parameters.Map) (cm *CM, err error) {
	defer func() {
		if r := recover(); r != nil {
			err = fmt.Errorf("panic while loading: %v", r)
		}
	}()
	ds := csv.NewDataSet("CatchmentModel")
	if e := ds.Load(dsPath); e != nil {
		return nil, e
	}
	params := parameters.Map{}
	for _, e := range extra {
		for k, v := range e {
			params[k] = v
		}
	}
	if limVar >= 0 {
		params[varMaxKey[limVar]] = limit
	}
	m := catchment.NewCoreModel().WithSourceDataSet(ds).WithParameters(params)
	if e := m.ParameterErrors(); e != nil {
		return nil, e
	}
	m.Initialise(model.AsIs)
	cm = &CM{m: m, dsPath: dsPath, params: params, limVar: limVar, limit: limit}
	cm.installRand()
	if limVar >= 0 && len(m.ManagementActions()) > 0 {
		// as scenario.Runner prepares a run: clone, then Initialise() the clone (a DeepClone is a struct copy that still
		// shares actions and variables with its original until it has been initialised)
		if p := protect(func() { cm.sib = m.DeepClone(); cm.sib.Initialise(model.Random) }); p != "" {
			cm.sib = nil
		}
	}
	for _, p := range m.PlanningUnits() {
		cm.pus = append(cm.pus, p)
	}
	sort.Slice(cm.pus, func(i, j int) bool { return cm.pus[i] < cm.pus[j] })
	return cm, nil
}

func (cm *CM) installRand() {
	cm.src = &scriptSource{next: func() int { return 0 }}
	cm.m.VerifSetActionRand(crand.New(cm.src))
}

func (cm *CM) n() int { return len(cm.m.ManagementActions()) }

func (cm *CM) flags() []bool {
	as := cm.m.ManagementActions()
	out := make([]bool, len(as))
	for i, a := range as {
		out[i] = a.IsActive()
	}
	return out
}

func (cm *CM) uv(i int) variable.UndoableDecisionVariable {
	return cm.m.ContainedDecisionVariables.Variable(varNames[i])
}

func (cm *CM) total(i int) float64 { return cm.m.DecisionVariable(varNames[i]).Value() }

func (cm *CM) unit(i int, p planningunit.Id) float64 {
	return cm.m.DecisionVariable(varNames[i]).(variable.PlanningUnitDecisionVariable).PlanningUnitValue(p)
}

func attrF(a attributes.Attributes, name string) float64 {
	v := a.Value(name)
	if f, ok := v.(float64); ok {
		return f
	}
	return math.NaN()
}

// ctxOf returns the attribute record of planning unit p for pollutant variable v (0 sed, 1 pn, 2 dn)
// in the model's field order: veg rip gully hill wet [aux].
func (cm *CM) ctxOf(v int, p planningunit.Id) []float64 {
	switch v {
	case 0:
		a := cm.m.DecisionVariable(varNames[0]).(*sedimentproduction.SedimentProduction).PlanningUnitAttributes()[p]
		return []float64{attrF(a, sedimentproduction.RiverbankVegetationProportion), attrF(a, sedimentproduction.RiverbankSedimentContribution),
			attrF(a, sedimentproduction.GullySedimentContribution), attrF(a, sedimentproduction.HillSlopeSedimentContribution), attrF(a, sedimentproduction.WetlandRemovalEfficiency)}
	case 1:
		a := cm.m.DecisionVariable(varNames[1]).(*particulatenitrogen.ParticulateNitrogenProduction).VerifSubCatchmentAttributes()[p]
		return []float64{attrF(a, particulatenitrogen.RiverbankVegetationProportion), attrF(a, particulatenitrogen.RiparianNitrogenContribution),
			attrF(a, particulatenitrogen.GullyNitrogenContribution), attrF(a, particulatenitrogen.HillSlopeNitrogenContribution), attrF(a, particulatenitrogen.WetlandRemovalEfficiency)}
	default:
		a := cm.m.DecisionVariable(varNames[2]).(*dissolvednitrogen.DissolvedNitrogenProduction).VerifSubCatchmentAttributes()[p]
		return []float64{attrF(a, dissolvednitrogen.ProportionOfRiparianVegetation), attrF(a, dissolvednitrogen.RiparianNitrogenContribution),
			attrF(a, dissolvednitrogen.GullyNitrogenContribution), attrF(a, dissolvednitrogen.HillSlopeNitrogenContribution),
			attrF(a, dissolvednitrogen.WetlandsDissolvedNitrogenRemovalEfficiency), attrF(a, dissolvednitrogen.RiparianDissolvedNitrogenRemovalEfficiency)}
	}
}

// gridFmt prints a reported value at its reporting precision; a value that is not (within 1e-7)
// on the grid is printed with more digits so that it can never be mistaken for a grid value.
func gridFmt(v float64, prec int) string {
	scale := math.Pow10(prec)
	if math.IsNaN(v) || math.IsInf(v, 0) {
		return "nan"
	}
	if math.Abs(v*scale-math.Round(v*scale)) > 1e-4 {
		return strconv.FormatFloat(v, 'f', prec+6, 64)
	}
	s := strconv.FormatFloat(v, 'f', prec, 64)
	if strings.HasPrefix(s, "-") && strings.Trim(s, "-0.") == "" {
		s = s[1:]
	}
	return s
}

func approxFmt(v float64) string { return "~" + strconv.FormatFloat(v, 'g', 17, 64) }

// snapshot of everything observable (and the hidden attribute records)
type Snap struct {
	flags  []bool
	totals [6]float64
	units  map[planningunit.Id][6]float64
	ctx    map[planningunit.Id][3][]float64
	enc    string
	comp   string // ModelCompressor's encoding of the model ("" for a model without actions)
}

func (cm *CM) snap() *Snap {
	s := &Snap{flags: cm.flags(), units: map[planningunit.Id][6]float64{}, ctx: map[planningunit.Id][3][]float64{}}
	for i := range varNames {
		s.totals[i] = cm.total(i)
	}
	for _, p := range cm.pus {
		var u [6]float64
		for i := range varNames {
			u[i] = cm.unit(i, p)
		}
		s.units[p] = u
		s.ctx[p] = [3][]float64{cm.ctxOf(0, p), cm.ctxOf(1, p), cm.ctxOf(2, p)}
	}
	s.enc = bitsStr(s.flags)
	// the SOLUTION ENCODING as the explorers, the saver and the engine obtain it (ModelCompressor), read in every state the
	// walk looks at — while a proposal is pending too
	if n := len(s.flags); n > 0 {
		if p := protect(func() { s.comp = (&cmodelarchive.ModelCompressor{}).Compress(cm.m).Encoding() }); p != "" {
			s.comp = "panic:" + p
		}
	}
	return s
}

func (cm *CM) dumpSnap(s *Snap) string {
	var sb strings.Builder
	sb.WriteString("F ")
	sb.WriteString(strings.ReplaceAll(bitsStr(s.flags), "-", ""))
	sb.WriteString(" T")
	for i := range varNames {
		sb.WriteByte(' ')
		sb.WriteString(gridFmt(s.totals[i], varPrec[i]))
	}
	sb.WriteString(" U")
	for _, p := range cm.pus {
		fmt.Fprintf(&sb, " %d:", p)
		u := s.units[p]
		for i := range varNames {
			sb.WriteByte(' ')
			sb.WriteString(gridFmt(u[i], varPrec[i]))
		}
	}
	sb.WriteString(" A")
	for _, p := range cm.pus {
		fmt.Fprintf(&sb, " %d:", p)
		for v := 0; v < 3; v++ {
			for _, f := range s.ctx[p][v] {
				sb.WriteByte(' ')
				sb.WriteString(approxFmt(f))
			}
		}
	}
	return sb.String()
}

func (cm *CM) dump() string { return cm.dumpSnap(cm.snap()) }

// emitLoad writes the scenario data extracted from the running model as protocol lines.
func (cm *CM) emitLoad(c *Ctx) {
	c.Op("load", "ok")
	for _, p := range cm.pus {
		var sb strings.Builder
		fmt.Fprintf(&sb, "pu %d", p)
		for v := 0; v < 3; v++ {
			for _, f := range cm.ctxOf(v, p) {
				sb.WriteByte(' ')
				sb.WriteString(floatBits(f))
			}
		}
		c.Op(sb.String(), "ok")
	}
	for _, a := range cm.m.ManagementActions() {
		t := typeIdx(a.Type())
		var sb strings.Builder
		fmt.Fprintf(&sb, "act %d %d", a.PlanningUnit(), t)
		for _, nm := range constNames(t) {
			sb.WriteByte(' ')
			sb.WriteString(floatBits(a.ModelVariableValue(nm)))
		}
		c.Op(sb.String(), "ok")
	}
	if cm.limVar >= 0 {
		c.Op(fmt.Sprintf("max %s %s", varShort[cm.limVar], floatBits(cm.limit)), "ok")
	}
	c.Op("endload", cm.dump())
	emitHypLines(c)
}

// emitHypLines asks the driver for the decidable hypotheses of the catchment theorems, one HYP token per line
// (the `endload` line itself carries ApproxConsistent, evaluated on the data as extracted): the exact InitConsistent
// on the normalised data the model runs on, KeysDistinct, UnitsOK.
func emitHypLines(c *Ctx) {
	c.Op("hyp init-consistent", "ok")
	c.Op("hyp keys-distinct", "ok")
	c.Op("hyp units-ok", "ok")
}

// ---------------------------------------------------------------- operations on the real model

func (cm *CM) tryRandom(i int) {
	cm.src.log = nil
	cm.src.next = func() int { return i }
	cm.m.TryRandomChange()
}

func (cm *CM) toggleByKey(i int) {
	a := cm.m.ManagementActions()[i]
	cm.m.ToggleAction(a.PlanningUnit(), a.Type())
}

func (cm *CM) changes() [6]float64 {
	var ch [6]float64
	for i := range varNames {
		ch[i] = cm.m.DecisionVariableChange(varNames[i])
	}
	return ch
}

// Verdict is what ChangeIsValid() answered.  For a negative verdict everything is read from the REASON TEXT the model
// handed out (`errs.Error()`) -- never by asking the variable again.  The property (C10) says that the reason QUOTES the
// value the variable would take; it does not pin the wording, so the text is not matched against a form: every number in
// it is read (crem's localised converter prints thousands separators), with the number of decimals it was printed with.
type Verdict struct {
	valid bool
	msg   string   // the reason text as delivered
	nums  []numTok // every number the text holds
}

type numTok struct {
	val float64
	dec int // decimals printed
}

var numTokRe = regexp.MustCompile(`-?[0-9][0-9,]*(?:\.([0-9]+))?(?:[eE][-+]?[0-9]+)?`)

func numbersIn(text string) []numTok {
	var out []numTok
	for _, m := range numTokRe.FindAllStringSubmatch(text, -1) {
		t := strings.TrimRight(m[0], ",")
		if f, err := strconv.ParseFloat(strings.ReplaceAll(t, ",", ""), 64); err == nil {
			out = append(out, numTok{val: f, dec: len(m[1])})
		}
	}
	return out
}

// quotedNear: the number of the reason that lies closest to x (NaN when the reason holds no number).
func (v Verdict) quotedNear(x float64) float64 {
	best, bestD := math.NaN(), math.Inf(1)
	for _, t := range v.nums {
		if d := math.Abs(t.val - x); d < bestD {
			best, bestD = t.val, d
		}
	}
	return best
}

// quotes: does the reason quote x?  A number printed with at least minDec decimals quotes x when it lies within half a unit of
// its last printed place; one printed with fewer (trailing zeros dropped, "1063.72" for 1063.720) must BE x at minDec decimals.
func (v Verdict) quotes(x float64, minDec int) bool {
	for _, t := range v.nums {
		dec := t.dec
		if dec < minDec {
			dec = minDec
		}
		if math.Abs(t.val-x) <= 0.5000001*math.Pow(10, -float64(dec))+1e-12*math.Abs(x) {
			return true
		}
	}
	return false
}

func parseLocalisedNumber(t string) (float64, bool) {
	f, err := strconv.ParseFloat(strings.ReplaceAll(t, ",", ""), 64)
	return f, err == nil
}

func (cm *CM) verdict() Verdict {
	ok, errs := cm.m.ChangeIsValid()
	// a sibling run (a clone of this model, as every run of a scenario is) has a proposal of its own judged between this
	// model's verdict and the reading of its reason: each model's verdict and reason are its own
	if cm.sib != nil {
		cm.sibTick++
		if cm.sibTick%2 == 0 {
			protect(func() {
				cm.sib.TryRandomChange()
				cm.sib.ChangeIsValid()
				cm.sib.RevertChange()
			})
		}
	}
	if ok {
		return Verdict{valid: true}
	}
	msg := errs.Error()
	return Verdict{msg: msg, nums: numbersIn(msg)}
}

func initKindOf(s string) model.InitialisationType {
	switch s {
	case "random":
		return model.Random
	case "unchanged":
		return model.Unchanged
	}
	return model.AsIs
}

// reinit re-initialises the model (this rebuilds the action container, so the scripted RNG is re-installed).
func (cm *CM) reinit(kind string) {
	cm.m.Initialise(initKindOf(kind))
	cm.installRand()
}

// randomize runs Randomize() with draws produced by gen; returns outcome and the draws consumed.
func (cm *CM) randomize(gen func() int) (string, []int) {
	cm.src.log = nil
	cm.src.next = gen
	p := protect(func() { cm.m.Randomize() })
	draws := append([]int(nil), cm.src.log...)
	if p != "" {
		if isGiveUp(p) {
			return "attempt-limit", draws
		}
		return "panic:" + p, draws
	}
	return "found", draws
}

// ---------------------------------------------------------------- reference evaluation: a fresh model to which exactly a set is applied

type Ref struct {
	cm    *CM
	cache map[string]*Snap
}

func newRef(dsPath string, limVar int, limit float64, extra ...parameters.Map) (*Ref, error) {
	cm, err := loadCM(dsPath, -1, 0, extra...)
	if err != nil {
		return nil, err
	}
	return &Ref{cm: cm, cache: map[string]*Snap{}}, nil
}

// at returns the snapshot of a freshly initialised model to which exactly `bits` is applied, in index order.
func (r *Ref) at(bits []bool) *Snap {
	key := bitsStr(bits)
	if s, ok := r.cache[key]; ok {
		return s
	}
	r.cm.m.Initialise(model.AsIs)
	for i, b := range bits {
		if b {
			r.cm.m.SetManagementAction(i, true)
		}
	}
	s := r.cm.snap()
	if len(r.cache) < 300000 {
		r.cache[key] = s
	}
	return s
}

// ---------------------------------------------------------------- the deliberate give-up of Randomize()

// A limited catchment model's Randomize() panics deliberately when its attempt budget (one attempt per action) is used up
// without the limit ever binding.  Several suites must tell that give-up from any other failure, also when all they see is
// a text (a child process's output, an error crem built from the recovered panic).  The wording is nothing any property
// talks about, so it is not pinned: it is LEARNT from the code under test, by running Randomize() on the shipped data set
// under a cost limit and under a pollutant limit that can never bind and keeping what the panic says.
var (
	giveUpOnce  sync.Once
	giveUpKnown []string
)

func giveUpTexts() []string {
	giveUpOnce.Do(func() {
		seen := map[string]bool{}
		for _, v := range []int{4, 0} { // an implementation-cost limit (activating direction), a sediment limit (de-activating)
			protect(func() {
				cm, err := loadCM(shippedDatasets()[0], v, 1e15)
				if err != nil || cm.n() == 0 {
					return
				}
				cm.reinit("random")
				k := 0
				cm.src.log = nil
				cm.src.next = func() int { k++; return k % cm.n() }
				// only a DELIBERATE panic is learnt: a runtime error (nil dereference, index out of range, ...) is never a give-up
				p := ""
				func() {
					defer func() {
						if r := recover(); r != nil {
							if _, isRuntime := r.(runtime.Error); !isRuntime {
								p = fmt.Sprint(r)
							}
						}
					}()
					cm.m.Randomize()
				}()
				if len(p) >= 16 && !seen[p] && len(cm.src.log) < 10000 {
					seen[p] = true
					giveUpKnown = append(giveUpKnown, p)
				}
			})
		}
	})
	return giveUpKnown
}

// isGiveUp: does the text carry the give-up message of the code under test (or the wording of the pinned commit)?
func isGiveUp(text string) bool {
	for _, t := range giveUpTexts() {
		if strings.Contains(text, t) {
			return true
		}
	}
	return strings.Contains(text, "Attempt limit "+"reached")
}

// isRoundingRefusal: does the text carry what pkg/math.RoundFloat of the code under test says when the number is too big for
// the precision (learnt by asking it; the wording of the pinned commit otherwise)?
var (
	roundRefusalOnce sync.Once
	roundRefusalText string
)

func isRoundingRefusal(text string) bool {
	roundRefusalOnce.Do(func() {
		defer func() {
			if r := recover(); r != nil {
				if _, isRuntime := r.(runtime.Error); !isRuntime {
					if t := fmt.Sprint(r); len(t) >= 16 {
						roundRefusalText = t
					}
				}
			}
		}()
		cremmath.RoundFloat(1e300, 3)
	})
	if roundRefusalText != "" && strings.Contains(text, roundRefusalText) {
		return true
	}
	return strings.Contains(text, "Attempt to round floating "+"point")
}

// ---------------------------------------------------------------- shipped datasets

func shippedDatasets() []string {
	repo := os.Getenv("VERIF_REPO")
	if repo == "" {
		repo = "/repo"
	}
	out := []string{
		filepath.Join(repo, "internal/pkg/model/models/catchment/testdata/ValidModel.csv"),
		filepath.Join(repo, "internal/pkg/model/models/catchment/testdata/TestingModel.csv"),
	}
	if p := permutedDataset(out[0]); p != "" {
		out = append(out, p)
	}
	return out
}

// permutedDataset derives a legal but unusual dataset from a shipped one: the same tables with the data rows
// of the Subcatchments and Actions tables in reverse order (nothing in crem's documentation requires sorted
// rows; planning-unit order in outputs follows the Subcatchments table's row order).
func permutedDataset(meta string) string {
	if globalOut == "" {
		return ""
	}
	dir := filepath.Join(globalOut, "permuted")
	dst := filepath.Join(dir, "PermutedModel.csv")
	if _, err := os.Stat(dst); err == nil {
		return dst
	}
	if os.MkdirAll(dir, 0o755) != nil {
		return ""
	}
	src := filepath.Dir(meta)
	reverse := func(name string, rev bool) bool {
		b, err := os.ReadFile(filepath.Join(src, name))
		if err != nil {
			return false
		}
		lines := strings.Split(strings.TrimRight(strings.ReplaceAll(string(b), "\r\n", "\n"), "\n"), "\n")
		if rev && len(lines) > 2 {
			body := lines[1:]
			for i, j := 0, len(body)-1; i < j; i, j = i+1, j-1 {
				body[i], body[j] = body[j], body[i]
			}
		}
		return os.WriteFile(filepath.Join(dir, "Permuted"+strings.TrimPrefix(name, "Valid")), []byte(strings.Join(lines, "\n")+"\n"), 0o644) == nil
	}
	if !reverse("ValidSubcatchments.csv", true) || !reverse("ValidActions.csv", true) || !reverse("ValidGullies.csv", false) {
		return ""
	}
	metaText := "TableName, FilePath\nSubcatchments, PermutedSubcatchments.csv\nGullies, PermutedGullies.csv\nActions, PermutedActions.csv\n"
	if os.WriteFile(dst, []byte(metaText), 0o644) != nil {
		return ""
	}
	return dst
}
