//go:build verif

package main

import (
	"encoding/hex"
	"fmt"
	"math"
	"os"
	"path/filepath"
	"strconv"
	"strings"

	marchive "github.com/LindsayBradford/crem/internal/pkg/model/archive"
	"github.com/LindsayBradford/crem/internal/pkg/model/planningunit"
	"github.com/LindsayBradford/crem/internal/pkg/parameters"
)

func init() { register("catchment-walk", suiteCatchmentWalk) }

// walker drives one real catchment model through protocol operations, records each operation and
// the implementation's canonical answer, and evaluates the clauses of C01, C02, C10 and C11
// directly on the implementation.
type walker struct {
	c   *Ctx
	cm  *CM
	ref *Ref
	ops []string
	tag string
	// statistics
	dsTag string
	// model parameters other than the defaults (nil = defaults)
	extra parameters.Map
	count int // operations so far (long walks)
	rawCount int // states looked at inside raw call sequences
	// quiet: the walk is not sent to the Lean model (no protocol lines); the direct clauses are evaluated all the same,
	// and values are compared with the fresh model bit for bit (the long no-drift walks)
	quiet bool
	// hiddenDesync: the model was re-synchronised by a whole-set load that the implementation did NOT execute (an interrupted,
	// spinning Randomize()): values and action states agree, the last-applied action and the variables' last commands need
	// not.  Conformant histories never show them; raw call sequences would, so none is started until an
	// Initialise has rebuilt both.
	hiddenDesync bool
	// shadows: further real models of the same dataset, each under its own (variable, limit), driven through the very
	// same proposals as cm during the exhaustive walk.  They are judged by the direct clauses only (C10 verdict and
	// reason text against the fresh-model oracle); their operations are not sent to the Lean model (cm's are).
	shadows []*CM
}

func datasetLine(dsPath string) string {
	// the dataset travels with the ops so that a replay file is self-contained
	dir := filepath.Dir(dsPath)
	meta, err := os.ReadFile(dsPath)
	must(err)
	var names []string
	for i, l := range strings.Split(string(meta), "\n") {
		if i == 0 {
			continue
		}
		parts := strings.Split(l, ",")
		if len(parts) == 2 {
			names = append(names, strings.TrimSpace(parts[1]))
		}
	}
	var sb strings.Builder
	sb.WriteString("dataset ")
	sb.WriteString(hex.EncodeToString([]byte(filepath.Base(dsPath))))
	sb.WriteString(":")
	sb.WriteString(hex.EncodeToString(meta))
	for _, n := range names {
		b, err := os.ReadFile(filepath.Join(dir, n))
		must(err)
		sb.WriteString(" ")
		sb.WriteString(hex.EncodeToString([]byte(n)))
		sb.WriteString(":")
		sb.WriteString(hex.EncodeToString(b))
	}
	return sb.String()
}

func materialiseDataset(line string, dir string) string {
	must(os.MkdirAll(dir, 0o755))
	first := ""
	for _, part := range strings.Fields(line)[1:] {
		nv := strings.SplitN(part, ":", 2)
		n, _ := hex.DecodeString(nv[0])
		b, _ := hex.DecodeString(nv[1])
		must(os.WriteFile(filepath.Join(dir, string(n)), b, 0o644))
		if first == "" {
			first = filepath.Join(dir, string(n))
		}
	}
	return first
}

func newWalker(c *Ctx, dsPath string, limVar int, limit float64, tag string, extras ...parameters.Map) *walker {
	var extra parameters.Map
	for _, e := range extras {
		if len(e) > 0 {
			extra = e
		}
	}
	cm, err := loadCM(dsPath, limVar, limit, extra)
	if err != nil {
		c.Stat("dataset-rejected: " + clip(err.Error(), 60))
		return nil
	}
	if cm.n() == 0 {
		c.Stat("dataset-without-actions")
		return nil
	}
	ref, err := newRef(dsPath, -1, 0, extra)
	if err != nil {
		return nil
	}
	w := &walker{c: c, cm: cm, ref: ref, tag: tag, dsTag: filepath.Base(dsPath), extra: extra}
	dl := datasetLine(dsPath)
	c.Op(dl, "ok")
	w.ops = append(w.ops, dl)
	if len(extra) > 0 {
		// the parameters travel with the ops (replay); the model takes its constants from the extracted data
		w.dsTag += "|" + cfgLine(extra)
		c.Op(cfgLine(extra), "ok")
		w.ops = append(w.ops, cfgLine(extra))
	}
	cm.emitLoad(c)
	c.Stat(fmt.Sprintf("%s dataset n=%d pu=%d limit=%s", tag, cm.n(), len(cm.pus), limName(limVar)))
	w.checkState("load", cm.snap())
	return w
}

func limName(v int) string {
	if v < 0 {
		return "none"
	}
	return varShort[v]
}

func (w *walker) fail(pred, sig, detail string) {
	// context: the check reconstructs the op context from ops.txt (from the last load line)
	w.c.Fail(pred, sig, detail, nil)
}

func near(a, b float64) bool { return math.Abs(a-b) <= 1e-6 }

// checkState evaluates C11 (aggregates) and C01 (valuation = fresh model with that set) on a state.
func (w *walker) checkState(after string, s *Snap) {
	w.count++
	// C02/C09: the solution encoding of a settled state is the encoding of its action states
	if len(s.flags) > 0 {
		if want := encodingOf(s.flags); s.comp != want {
			w.fail("C02:encoding-is-of-the-action-states", "catchment:solution-encoding-stale",
				fmt.Sprintf("after %s: the model's solution encoding is %q but its action states %s encode to %q", after, s.comp, s.enc, want))
		}
	}
	for i := range varNames {
		sum := 0.0
		for _, p := range w.cm.pus {
			sum += s.units[p][i]
		}
		if !near(sum, s.totals[i]) {
			w.fail("C11:total-is-sum-of-units", "catchment:total-not-sum:"+varShort[i],
				fmt.Sprintf("after %s: %s total %v but planning-unit values sum to %v (set %s)", after, varNames[i], s.totals[i], sum, s.enc))
		}
	}
	if !near(s.totals[3], s.totals[1]+s.totals[2]) {
		w.fail("C11:tn-is-pn-plus-dn", "catchment:tn-not-pn-plus-dn", fmt.Sprintf("after %s: TN %v PN %v DN %v (set %s)", after, s.totals[3], s.totals[1], s.totals[2], s.enc))
	}
	for _, p := range w.cm.pus {
		u := s.units[p]
		if !near(u[3], u[1]+u[2]) {
			w.fail("C11:tn-is-pn-plus-dn", "catchment:unit-tn-not-pn-plus-dn", fmt.Sprintf("after %s: unit %d TN %v PN %v DN %v (set %s)", after, p, u[3], u[1], u[2], s.enc))
		}
	}
	// C11, output side: the figures of the Solution built from this state (every third state looked at)
	if w.count%3 == 1 {
		w.encodeablesOf(after, !w.hiddenDesync)
	}
	// C01: a freshly initialised model to which exactly this set is applied
	r := w.ref.at(s.flags)
	if w.quiet {
		// no drift: both models hold, for every figure, the float nearest to the same grid decimal -- bit for bit
		for i := range varNames {
			if r.totals[i] != s.totals[i] {
				w.fail("C01:history-independence", "catchment:drifted-from-fresh-model:"+varShort[i],
					fmt.Sprintf("after %s (operation %d of a long walk): %s = %v (bits %s) here but %v (bits %s) in a fresh model with the same active set %s", after, w.count, varNames[i], s.totals[i], floatBits(s.totals[i]), r.totals[i], floatBits(r.totals[i]), s.enc))
				return
			}
			for _, p := range w.cm.pus {
				if r.units[p][i] != s.units[p][i] {
					w.fail("C01:history-independence", "catchment:drifted-from-fresh-model-unit:"+varShort[i],
						fmt.Sprintf("after %s (operation %d of a long walk): %s unit %d = %v here but %v in a fresh model with the same active set %s", after, w.count, varNames[i], p, s.units[p][i], r.units[p][i], s.enc))
					return
				}
			}
		}
	}
	for i := range varNames {
		if !near(r.totals[i], s.totals[i]) {
			w.fail("C01:history-independence", "catchment:history-dependent:"+varShort[i],
				fmt.Sprintf("after %s: %s = %v here but %v in a fresh model with the same active set %s", after, varNames[i], s.totals[i], r.totals[i], s.enc))
			return
		}
		for _, p := range w.cm.pus {
			if !near(r.units[p][i], s.units[p][i]) {
				w.fail("C01:history-independence", "catchment:history-dependent-unit:"+varShort[i],
					fmt.Sprintf("after %s: %s unit %d = %v here but %v in a fresh model with the same active set %s", after, varNames[i], p, s.units[p][i], r.units[p][i], s.enc))
				return
			}
		}
	}
	// hidden attribute records (not part of the property's observables, but the inductive invariant)
	for _, p := range w.cm.pus {
		for v := 0; v < 3; v++ {
			for k, f := range s.ctx[p][v] {
				g := r.ctx[p][v][k]
				if math.Abs(f-g) > 1e-9*math.Max(1, math.Abs(g)) {
					w.c.Stat("hidden-attribute-differs-from-fresh-model:" + varShort[v])
					w.fail("C01:hidden-state-canonical", "catchment:hidden-attribute-history-dependent:"+varShort[v],
						fmt.Sprintf("after %s: %s attribute #%d of unit %d = %v here but %v in a fresh model with the same active set %s", after, varShort[v], k, p, f, g, s.enc))
					return
				}
			}
		}
	}
}

func snapsEqualObservables(a, b *Snap, pus []planningunit.Id) string {
	if a.enc != b.enc {
		return "action states/encoding differ: " + a.enc + " vs " + b.enc
	}
	if a.comp != b.comp {
		return "solution encoding (ModelCompressor) differs: " + a.comp + " vs " + b.comp + " (action states " + a.enc + ")"
	}
	for i := range varNames {
		if a.totals[i] != b.totals[i] {
			return fmt.Sprintf("%s total %v vs %v", varNames[i], a.totals[i], b.totals[i])
		}
		for _, p := range pus {
			if a.units[p][i] != b.units[p][i] {
				return fmt.Sprintf("%s unit %d %v vs %v", varNames[i], p, a.units[p][i], b.units[p][i])
			}
		}
	}
	return ""
}

func (w *walker) op(line, result string) {
	if w.quiet {
		w.c.Stat(w.tag + " operation not sent to the model (direct clauses only)")
		return
	}
	w.ops = append(w.ops, line)
	w.c.Op(line, result)
}

// proposeResult: the result text of a "propose" line (verdict, value quoted in the reason, reported changes, state).
func proposeResult(cm *CM, during *Snap, vd Verdict, ch [6]float64) string {
	valid := vd.valid
	var sb strings.Builder
	sb.WriteString(b2s(valid))
	sb.WriteByte(' ')
	if valid || cm.limVar < 0 {
		sb.WriteString("-")
	} else {
		// the value quoted IN THE REASON TEXT (not on the grid / not parsable prints as nan or with extra digits)
		// the number of the reason that is closest to the value the model itself reports as prospective
		sb.WriteString(gridFmt(vd.quotedNear(during.totals[cm.limVar]+ch[cm.limVar]), varPrec[cm.limVar]))
	}
	sb.WriteString(" C")
	for k := range varNames {
		sb.WriteByte(' ')
		sb.WriteString(gridFmt(ch[k], varPrec[k]))
	}
	sb.WriteString(" | ")
	sb.WriteString(cm.dumpSnap(during))
	return sb.String()
}

// rawMisuse: the same non-conformant call sequences as misuse, but on the walk's own instance and THROUGH the line protocol,
// so that the model's raw operations (propose / accept / revert as separate steps, which is what
// aggregates_consistent_any_history quantifies over) are compared with the implementation off the conformant histories
// too.  Only C11's aggregate clauses are evaluated directly; Initialise brings the instance back to a canonical state.
func (w *walker) rawMisuse(r *Rng) {
	if len(w.shadows) > 0 || w.quiet {
		return
	}
	if w.hiddenDesync {
		w.c.Stat("raw misuse sequence not started: the model was re-synchronised after an interrupted Randomize()")
		return
	}
	cm := w.cm
	n := cm.n()
	i, j := r.Intn(n), r.Intn(n)
	kinds := []string{"propose;revert;accept", "propose;revert;revert", "propose;propose;accept", "accept", "revert", "propose;accept;accept", "propose;accept;revert", "propose;revert;accept;propose;accept", "propose;propose;revert;revert"}
	kind := kinds[r.Intn(len(kinds))]
	from := bitsStr(cm.flags())
	w.c.Stat("raw misuse sequence " + kind)
	for _, step := range strings.Split(kind, ";") {
		if !w.rawStep(step, i, fmt.Sprintf("the call sequence %s (at %s) from set %s", kind, step, from)) {
			w.c.Stat("raw misuse sequence panicked")
			break
		}
		if step == "propose" {
			i = j
		}
	}
	w.reinit("asis")
}

// rawStep: ONE call of the model interface (propose action i / accept / revert) sent through the line protocol, judged by
// C11's aggregate clauses alone.  false = it panicked.
func (w *walker) rawStep(step string, i int, after string) bool {
	cm := w.cm
	var s *Snap
	switch step {
	case "propose":
		if p := protect(func() { cm.tryRandom(i) }); p != "" {
			w.op(fmt.Sprintf("propose %d", i), "panic")
			return false
		}
		s = cm.snap()
		w.op(fmt.Sprintf("propose %d", i), proposeResult(cm, s, cm.verdict(), cm.changes()))
	default:
		if p := protect(func() {
			if step == "accept" {
				cm.m.AcceptChange()
			} else {
				cm.m.RevertChange()
			}
		}); p != "" {
			w.op(step, "panic")
			return false
		}
		s = cm.snap()
		w.op(step, cm.dumpSnap(s))
	}
	w.aggregates(after, s, cm.pus)
	return true
}

// aggregates: C11's clauses alone, on one snapshot.
func (w *walker) aggregates(after string, s *Snap, pus []planningunit.Id) {
	w.rawCount++
	if w.rawCount%3 == 1 {
		w.encodeables(after) // the theorems of Properties/C11Out.lean hold after ANY call sequence
	}
	for v := range varNames {
		sum := 0.0
		for _, pu := range pus {
			sum += s.units[pu][v]
		}
		if !near(sum, s.totals[v]) {
			w.fail("C11:total-is-sum-of-units", "catchment:total-not-sum:"+varShort[v],
				fmt.Sprintf("after %s: %s total %v but planning-unit values sum to %v", after, varNames[v], s.totals[v], sum))
		}
	}
	if !near(s.totals[3], s.totals[1]+s.totals[2]) {
		w.fail("C11:tn-is-pn-plus-dn", "catchment:tn-not-pn-plus-dn", fmt.Sprintf("after %s: TN %v PN %v DN %v", after, s.totals[3], s.totals[1], s.totals[2]))
	}
	for _, pu := range pus {
		u := s.units[pu]
		if !near(u[3], u[1]+u[2]) {
			w.fail("C11:tn-is-pn-plus-dn", "catchment:unit-tn-not-pn-plus-dn", fmt.Sprintf("after %s: planning unit %d TN %v PN %v DN %v", after, pu, u[3], u[1], u[2]))
			break
		}
	}
}

// transaction: propose action i, then accept or revert.  decide: 0 revert, 1 accept, 2 accept iff valid.
func (w *walker) transaction(i int, decide int, byKey bool) {
	cm := w.cm
	pre := cm.snap()
	if p := protect(func() {
		if byKey {
			cm.toggleByKey(i)
		} else {
			cm.tryRandom(i)
		}
	}); p != "" {
		w.op(fmt.Sprintf("propose %d", i), "panic")
		w.fail("no-panic", "catchment:propose-panic", p)
		return
	}
	during := cm.snap()
	vd := cm.verdict()
	valid := vd.valid
	ch := cm.changes()
	w.op(fmt.Sprintf("propose %d", i), proposeResult(cm, during, vd, ch))

	// C02: while only proposed, every reported value stays at its pre-proposal state
	for k := range varNames {
		if during.totals[k] != pre.totals[k] {
			w.fail("C02:proposal-keeps-values", "catchment:proposal-moved-value:"+varShort[k], fmt.Sprintf("propose %d moved %s from %v to %v before acceptance", i, varNames[k], pre.totals[k], during.totals[k]))
		}
		for _, p := range cm.pus {
			if during.units[p][k] != pre.units[p][k] {
				w.fail("C02:proposal-keeps-values", "catchment:proposal-moved-unit-value:"+varShort[k], fmt.Sprintf("propose %d moved %s unit %d before acceptance", i, varNames[k], p))
			}
		}
	}
	// C10: verdict is exact.  Ground truth: the value the limited variable takes in a freshly initialised
	// model to which exactly the prospective set is applied; cross-checked with pre + reported change (C02).
	if cm.limVar >= 0 {
		w.judgeVerdict(cm, i, pre.flags, pre.totals[cm.limVar], ch[cm.limVar], vd, w.tag)
	}
	moved := false
	for k := range varNames {
		if ch[k] != 0 {
			moved = true
		}
	}
	if moved || !valid {
		w.c.Nontrivial(fmt.Sprintf("%s|%s|%d|%s|%d", w.dsTag, limName(cm.limVar), cm.limVarBucket(), pre.enc, i))
	}
	accept := decide == 1 || (decide == 2 && valid)
	if accept {
		if p := protect(func() { cm.m.AcceptChange() }); p != "" {
			w.op("accept", "panic")
			w.fail("no-panic", "catchment:accept-panic", p)
			return
		}
		post := cm.snap()
		w.op("accept", cm.dumpSnap(post))
		unit := cm.m.ManagementActions()[i].PlanningUnit()
		for k := range varNames {
			if !near(post.totals[k], pre.totals[k]+ch[k]) {
				w.fail("C02:accept-is-reported-change", "catchment:accept-differs-from-reported-change:"+varShort[k],
					fmt.Sprintf("accepting propose %d in set %s: %s went %v -> %v but the reported change was %v", i, pre.enc, varNames[k], pre.totals[k], post.totals[k], ch[k]))
			}
			for _, p := range cm.pus {
				if p != unit && post.units[p][k] != pre.units[p][k] {
					w.fail("C02:change-is-local", "catchment:foreign-unit-changed:"+varShort[k],
						fmt.Sprintf("accepting propose %d (unit %d) changed %s of unit %d", i, unit, varNames[k], p))
				}
			}
		}
		// C03: the single-objective policy (accept only what the verdict allows) keeps a within-limit state within the limit
		if cm.limVar >= 0 && decide == 2 && pre.totals[cm.limVar] <= cm.limit && post.totals[cm.limVar] > cm.limit {
			w.fail("C03:held-state-respects-limit", "catchment:valid-verdict-led-over-the-limit",
				fmt.Sprintf("propose %d in set %s was judged valid and accepted: %s went %v -> %v, limit %v", i, pre.enc, varNames[cm.limVar], pre.totals[cm.limVar], post.totals[cm.limVar], cm.limit))
		}
		w.c.Stat(w.tag + " accept")
		w.checkState(fmt.Sprintf("propose %d; accept", i), post)
	} else {
		if p := protect(func() { cm.m.RevertChange() }); p != "" {
			w.op("revert", "panic")
			w.fail("no-panic", "catchment:revert-panic", p)
			return
		}
		post := cm.snap()
		w.op("revert", cm.dumpSnap(post))
		if d := snapsEqualObservables(pre, post, cm.pus); d != "" {
			w.fail("C02:revert-exact", "catchment:revert-not-exact", fmt.Sprintf("propose %d; revert in set %s: %s", i, pre.enc, d))
		}
		w.c.Stat(w.tag + " revert")
		w.checkState(fmt.Sprintf("propose %d; revert", i), post)
	}
}

// judgeVerdict evaluates C10 on one proposal of action i made in the set preFlags by the limited model cm:
// the verdict against the fresh-model oracle, and the rejection reason TEXT (variable named, value quoted, bound quoted).
func (w *walker) judgeVerdict(cm *CM, i int, preFlags []bool, preTotal, change float64, vd Verdict, tag string) {
	prospective := append([]bool(nil), preFlags...)
	prospective[i] = !prospective[i]
	preEnc := bitsStr(preFlags)
	v := cm.limVar
	would := w.ref.at(prospective).totals[v]
	byChange := preTotal + change
	valid := vd.valid
	exceeds := would > cm.limit // exact: both are floats nearest to decimals (or the limit is >= 0.01 grid unit off the grid)
	if valid == exceeds {
		kind := "rejected-although-within-limit"
		if valid {
			kind = "accepted-although-exceeding-limit"
		}
		if !valid && would <= preTotal {
			kind = "rejected-although-lowering"
		}
		w.fail("C10:verdict-exact", "catchment:verdict-wrong:"+kind,
			fmt.Sprintf("propose %d in set %s: %s is %v, would be %v (reported change %v), limit %v, verdict valid=%v (%s)", i, preEnc, varNames[v], preTotal, would, change, cm.limit, valid, clip(vd.msg, 200)))
	} else if !valid {
		// the reason text QUOTES the prospective value (printed at least at the variable's reporting precision; half a unit
		// of the last printed place is the tolerance).  Whether it also names the variable and quotes the bound is counted,
		// not demanded: the property does not say so.
		switch {
		case len(vd.nums) == 0:
			w.fail("C10:quoted-value-is-prospective", "catchment:rejection-reason-unreadable",
				fmt.Sprintf("propose %d in set %s (limit %v on %s): the rejection reason %q quotes no value at all", i, preEnc, cm.limit, varNames[v], clip(vd.msg, 200)))
		case !vd.quotes(would, varPrec[v]):
			w.fail("C10:quoted-value-is-prospective", "catchment:quoted-value-wrong",
				fmt.Sprintf("propose %d in set %s: the rejection reason %q quotes %v but %s would be %v (it is %v now)", i, preEnc, clip(vd.msg, 200), vd.quotedNear(would), varNames[v], would, preTotal))
		}
		w.c.Stat(fmt.Sprintf("rejection reason names the limited variable: %v, quotes the bound: %v", strings.Contains(vd.msg, varNames[v]), vd.quotes(cm.limit, 0)))
	}
	if !near(would, byChange) {
		w.fail("C02:reported-change-is-prospective-change", "catchment:reported-change-wrong:"+varShort[v],
			fmt.Sprintf("propose %d in set %s: reported change %v but %s would go %v -> %v", i, preEnc, change, varNames[v], preTotal, would))
	}
	w.c.Stat(fmt.Sprintf("%s verdict valid=%v exceeds=%v sign=%d", tag, valid, exceeds, sign(change)))
}

func sign(f float64) int {
	switch {
	case f > 0:
		return 1
	case f < 0:
		return -1
	}
	return 0
}

func (cm *CM) limVarBucket() int {
	if cm.limVar < 0 {
		return 0
	}
	return int(math.Float64bits(cm.limit) % 1000)
}

func (w *walker) set(i int, b bool) {
	if p := protect(func() { w.cm.m.SetManagementAction(i, b) }); p != "" {
		w.op(fmt.Sprintf("set %d %s", i, b2s(b)), "panic")
		w.fail("no-panic", "catchment:set-panic", p)
		return
	}
	s := w.cm.snap()
	w.op(fmt.Sprintf("set %d %s", i, b2s(b)), w.cm.dumpSnap(s))
	w.c.Stat(w.tag + " set")
	w.checkState(fmt.Sprintf("set %d %v", i, b), s)
}

// setAll is SynchroniseTo(other) / Decompress(encoding): both are SetManagementAction(i, bit) for every i.
func (w *walker) setAll(bits []bool, how int) {
	line := "setall " + strings.ReplaceAll(bitsStr(bits), "-", "")
	p := protect(func() {
		switch how {
		case 0: // index loop, as ModelCompressor.Decompress does
			for i, b := range bits {
				w.cm.m.SetManagementAction(i, b)
			}
		case 2: // the REAL ModelCompressor, as the Saver / the engine load a solution: Compress a model holding the set,
			// take the text encoding, Decode it into a second compressed state, Decompress that into the model
			w.ref.cm.m.Initialise(0)
			for i, b := range bits {
				if b {
					w.ref.cm.m.SetManagementAction(i, true)
				}
			}
			comp := marchive.ModelCompressor{}
			text := comp.Compress(w.ref.cm.m).Actions.Encoding()
			target := comp.Compress(w.cm.m)
			if err := target.Actions.Decode(text); err != nil {
				panic("Decode(" + text + "): " + err.Error())
			}
			comp.Decompress(target, w.cm.m)
		default: // SynchroniseTo a reference model holding that set
			w.ref.cm.m.Initialise(0)
			for i, b := range bits {
				if b {
					w.ref.cm.m.SetManagementAction(i, true)
				}
			}
			w.cm.m.SynchroniseTo(w.ref.cm.m)
		}
	})
	if p != "" {
		w.op(line, "panic")
		w.fail("no-panic", "catchment:setall-panic", p)
		return
	}
	s := w.cm.snap()
	w.op(line, w.cm.dumpSnap(s))
	w.c.Stat(fmt.Sprintf("%s setall how=%d", w.tag, how))
	w.checkState(line, s)
}

func (w *walker) reinit(kind string) {
	if p := protect(func() { w.cm.reinit(kind) }); p != "" {
		w.op("init "+kind, "panic")
		w.fail("no-panic", "catchment:init-panic", p)
		return
	}
	w.hiddenDesync = false
	s := w.cm.snap()
	w.op("init "+kind, w.cm.dumpSnap(s))
	w.c.Stat(w.tag + " init " + kind)
	w.checkState("init "+kind, s)
}

func (w *walker) randomize(r *Rng) {
	cm := w.cm
	fl := cm.flags()
	nAct, nInact := 0, 0
	for _, b := range fl {
		if b {
			nAct++
		} else {
			nInact++
		}
	}
	n := cm.n()
	var gen func() int
	switch {
	case cm.limVar >= 4: // cost limit: activation loop; it never terminates when every action is already active
		if nInact == 0 {
			w.c.Stat("randomize skipped: all active under a cost limit (Randomize would spin)")
			return
		}
		gen = func() int { return r.Intn(n) }
	case cm.limVar >= 0:
		if nAct == 0 {
			w.c.Stat("randomize skipped: none active under a pollutant limit (Randomize would spin)")
			return
		}
		gen = func() int { return r.Intn(n) }
	default:
		gen = func() int { return r.Intn(2) }
	}
	preValid := cm.limVar < 0 || cm.total(cm.limVar) <= cm.limit
	outcome, draws := cm.randomize(gen)
	ds := make([]string, len(draws))
	for i, d := range draws {
		ds[i] = strconv.Itoa(d)
	}
	s := cm.snap()
	if strings.HasPrefix(outcome, "panic:scripted random source") {
		// Randomize() spins: the limit-seeking loop has toggled every action it could, none was invalid, and
		// attempts remain (it `continue`s without using an attempt when the drawn action is already in the
		// target state).  Not a C01 matter; recorded, and the model is re-synchronised through a whole-set
		// load of the state the loop left (whose values must still be canonical).
		w.c.Stat(w.tag + " randomize spins (all remaining toggles valid, attempts left)")
		w.op("setall "+strings.ReplaceAll(bitsStr(s.flags), "-", ""), cm.dumpSnap(s))
		w.checkState("randomize (spinning, interrupted)", s)
		w.hiddenDesync = true
		return
	}
	line := strings.TrimSpace("randomize " + strings.Join(ds, " "))
	w.op(line, outcome+" "+cm.dumpSnap(s))
	w.c.Stat(w.tag + " randomize " + clip(outcome, 20))
	if strings.HasPrefix(outcome, "panic:") {
		w.fail("no-panic", "catchment:randomize-panic", outcome)
	}
	w.checkState("randomize", s)
	// C03 (initial randomisation respects the limit) is evaluated by the limited-runs suite; here only the state.
	if cm.limVar >= 0 && preValid && outcome == "found" && s.totals[cm.limVar] > cm.limit {
		w.fail("C03:randomisation-respects-limit", "catchment:randomize-exceeds-limit", fmt.Sprintf("%s = %v > %v after Randomize()", varNames[cm.limVar], s.totals[cm.limVar], cm.limit))
	}
}

// misuse: NON-conformant call sequences of the model interface (an accept after a revert, two reverts, two proposals before
// one accept, an accept without a proposal) on the unlimited reference instance, from a random canonical state.  C01 and C02
// say nothing about such histories; C11's aggregates must hold after ANY history (aggregates_consistent_any_history), so
// only those clauses are evaluated, Go against Go.
func (w *walker) misuse(r *Rng) {
	cm := w.ref.cm
	n := cm.n()
	if n == 0 {
		return
	}
	bits := make([]bool, n)
	p := r.Float()
	for i := range bits {
		bits[i] = r.Chance(p)
	}
	w.ref.at(bits) // may be cached: set the state explicitly
	cm.reinit("asis") // re-installs the scripted source: tryRandom(i) must toggle action i
	for i, b := range bits {
		if b {
			cm.m.SetManagementAction(i, true)
		}
	}
	i, j := r.Intn(n), r.Intn(n)
	kinds := []string{"propose;revert;accept", "propose;revert;revert", "propose;propose;accept", "accept", "propose;accept;accept", "propose;revert;accept;propose;accept"}
	kind := kinds[r.Intn(len(kinds))]
	pn := protect(func() {
		for _, step := range strings.Split(kind, ";") {
			switch step {
			case "propose":
				cm.tryRandom(i)
				i = j
			case "accept":
				cm.m.AcceptChange()
			case "revert":
				cm.m.RevertChange()
			}
		}
	})
	w.c.Stat("misuse sequence " + kind)
	if pn != "" {
		w.c.Stat("misuse sequence panicked: " + clip(pn, 40))
		cm.m.Initialise(0)
		return
	}
	s := cm.snap()
	for v := range varNames {
		sum := 0.0
		for _, pu := range cm.pus {
			sum += s.units[pu][v]
		}
		if !near(sum, s.totals[v]) {
			w.fail("C11:total-is-sum-of-units", "catchment:total-not-sum:"+varShort[v],
				fmt.Sprintf("after the call sequence %s from set %s: %s total %v but planning-unit values sum to %v", kind, bitsStr(bits), varNames[v], s.totals[v], sum))
		}
	}
	if !near(s.totals[3], s.totals[1]+s.totals[2]) {
		w.fail("C11:tn-is-pn-plus-dn", "catchment:tn-not-pn-plus-dn", fmt.Sprintf("after the call sequence %s from set %s: TN %v PN %v DN %v", kind, bitsStr(bits), s.totals[3], s.totals[1], s.totals[2]))
	}
	for _, pu := range cm.pus {
		u := s.units[pu]
		if !near(u[3], u[1]+u[2]) {
			w.fail("C11:tn-is-pn-plus-dn", "catchment:tn-not-pn-plus-dn:unit", fmt.Sprintf("after the call sequence %s from set %s: planning unit %d TN %v PN %v DN %v", kind, bitsStr(bits), pu, u[3], u[1], u[2]))
			break
		}
	}
	cm.m.Initialise(0)
}

// randomWalk: conformant histories over the whole alphabet.
func (w *walker) randomWalk(r *Rng, steps int) {
	n := w.cm.n()
	for k := 0; k < steps; k++ {
		if k%16 == 5 {
			w.misuse(r)
		}
		if k%16 == 11 {
			w.rawMisuse(r)
		}
		x := r.Float()
		switch {
		case x < 0.72:
			dec := 2
			if w.cm.limVar < 0 || r.Chance(0.3) {
				dec = r.Intn(2)
			}
			w.transaction(r.Intn(n), dec, r.Chance(0.3))
		case x < 0.84:
			w.set(r.Intn(n), r.Bool())
		case x < 0.91:
			bits := make([]bool, n)
			p := r.Float()
			for i := range bits {
				bits[i] = r.Chance(p)
			}
			w.setAll(bits, r.Intn(3))
		case x < 0.95:
			w.reinit([]string{"asis", "random", "unchanged"}[r.Intn(3)])
		default:
			w.randomize(r)
			if w.cm.limVar >= 0 && r.Chance(0.7) {
				// hold phase (C03): Randomize leaves the state next to the limit; from there follow the
				// single-objective policy only (accept exactly what the verdict allows), as an annealing run does
				hold := 8 + r.Intn(24)
				for h := 0; h < hold && k < steps; h++ {
					w.transaction(r.Intn(n), 2, r.Chance(0.3))
					k++
				}
				w.c.Stat(w.tag + " hold phase")
			}
		}
	}
}

// shadowStep repeats, on every shadow model, the proposal of action i that the walk has just made on cm, judges the
// verdict and the reason text (C10), and completes it the same way (accept / revert), so that all models stay in step.
func (w *walker) shadowStep(i int, accept bool) {
	for _, sh := range w.shadows {
		pre := sh.flags()
		preTotal := sh.total(sh.limVar)
		var vd Verdict
		var change float64
		if p := protect(func() {
			sh.tryRandom(i)
			vd = sh.verdict()
			change = sh.m.DecisionVariableChange(varNames[sh.limVar])
			w.judgeVerdict(sh, i, pre, preTotal, change, vd, "exhaustive-grid")
			if accept {
				sh.m.AcceptChange()
			} else {
				sh.m.RevertChange()
			}
		}); p != "" {
			w.fail("no-panic", "catchment:propose-panic", fmt.Sprintf("limit %v on %s: %s", sh.limit, varNames[sh.limVar], p))
			continue
		}
		// the shadow moved exactly as the oracle says (C01/C02 on the shadow, cheaply: the limited total only)
		post := sh.flags()
		if got, want := sh.total(sh.limVar), w.ref.at(post).totals[sh.limVar]; !near(got, want) {
			w.fail("C01:history-independence", "catchment:history-dependent:"+varShort[sh.limVar],
				fmt.Sprintf("after propose %d; accept=%v in set %s under limit %v: %s = %v here but %v in a fresh model with the same active set", i, accept, bitsStr(pre), sh.limit, varNames[sh.limVar], got, want))
		}
		w.c.Nontrivial(fmt.Sprintf("%s|%s|%d|%s|%d", w.dsTag, limName(sh.limVar), sh.limVarBucket(), bitsStr(pre), i))
	}
}

// grayWalk visits all 2^free action sets below a fixed prefix in Gray-code order; in every state every
// single step out of it is proposed (and reverted), the Gray step is proposed and accepted.
func (w *walker) grayWalk(prefixBits []bool) {
	n := w.cm.n()
	free := n - len(prefixBits)
	start := make([]bool, n)
	copy(start, prefixBits)
	w.setAll(start, 0)
	for _, sh := range w.shadows {
		for i, b := range start {
			sh.m.SetManagementAction(i, b)
		}
	}
	total := 1 << uint(free)
	for g := 1; g <= total; g++ {
		// all single steps out of the current state, reverted
		for i := 0; i < n; i++ {
			w.transaction(i, 0, false)
			w.shadowStep(i, false)
		}
		if g == total {
			break
		}
		// Gray step: flip the bit given by the number of trailing zeros of g
		bit := 0
		for (g>>uint(bit))&1 == 0 {
			bit++
		}
		w.transaction(len(prefixBits)+bit, 1, false)
		w.shadowStep(len(prefixBits)+bit, true)
	}
}

// attainable returns sorted distinct totals of variable v over a sample of action sets (all of which start with
// `prefix`: the exhaustive walk's shards fix the first actions).
func attainable(ref *Ref, r *Rng, v int, samples int, prefix []bool) []float64 {
	n := ref.cm.n()
	seen := map[float64]bool{}
	var out []float64
	add := func(bits []bool) {
		copy(bits, prefix)
		x := ref.at(bits).totals[v]
		if !seen[x] {
			seen[x] = true
			out = append(out, x)
		}
	}
	add(make([]bool, n))
	all := make([]bool, n)
	for i := range all {
		all[i] = true
	}
	add(all)
	for s := 0; s < samples; s++ {
		bits := make([]bool, n)
		p := r.Float()
		for i := range bits {
			bits[i] = r.Chance(p)
		}
		add(bits)
	}
	sortFloats(out)
	return out
}

func sortFloats(xs []float64) {
	for i := 1; i < len(xs); i++ {
		for j := i; j > 0 && xs[j] < xs[j-1]; j-- {
			xs[j], xs[j-1] = xs[j-1], xs[j]
		}
	}
}

// limitsFor places k limits for variable v, cycling through the kinds a verdict can get wrong:
//   mid    strictly between two attainable values (a few grid steps from either)
//   exact  EXACTLY an attainable value (incl. the starting extremes): "would be exactly the limit" is within the limit
//   below  an attainable value minus 0.3 / 0.45 / 0.01 of the variable's grid unit (off the grid, just exceeded)
//   above  an attainable value plus the same (off the grid, just kept)
//   zero   0 (a legal configuration: Maximum* keys are validated as non-negative decimals)
// Off-grid limits keep at least 0.01 grid unit away from every grid point; the model identifies a limit within
// 2^-50 (relative) of a grid point with that grid point (the float nearest to a decimal IS that decimal).
func limitsFor(ref *Ref, r *Rng, v int, k int) []float64 {
	lims, _ := limitsForKinds(ref, r, v, k, nil)
	return lims
}

// limitsForKinds is limitsFor that also says which kind each limit is; the attainable values are those of the sets
// that start with `prefix`.
func limitsForKinds(ref *Ref, r *Rng, v int, k int, prefix []bool) ([]float64, []string) {
	at := attainable(ref, r, v, 60, prefix)
	u := math.Pow(10, -float64(varPrec[v]))
	var lims []float64
	var which []string
	kinds := []string{"mid", "exact", "below", "above", "exact", "mid", "below", "zero"}
	start := r.Intn(len(kinds))
	for j := 0; j < k; j++ {
		a := at[r.Intn(len(at))]
		off := []float64{0.3, 0.45, 0.01}[r.Intn(3)] * u
		kind := kinds[(start+j)%len(kinds)]
		which = append(which, kind)
		switch {
		case kind == "exact":
			if r.Chance(0.3) { // the two starting extremes: nothing active / everything active
				none := make([]bool, ref.cm.n())
				copy(none, prefix)
				a = []float64{ref.at(none).totals[v], at[len(at)-1], at[0]}[r.Intn(3)]
			}
			lims = append(lims, a)
		case kind == "below":
			lims = append(lims, a-off)
		case kind == "above":
			lims = append(lims, a+off)
		case kind == "zero":
			lims = append(lims, 0)
		default:
			if len(at) < 2 {
				lims = append(lims, at[0]+1)
				continue
			}
			i := r.Intn(len(at) - 1)
			mid := (at[i] + at[i+1]) / 2
			lims = append(lims, math.Round(mid*1e4)/1e4+0.00003)
		}
	}
	for i, l := range lims {
		if l < 0 {
			lims[i] = 0 // Maximum* keys must be non-negative
		}
	}
	return lims, which
}

// startLimitsFor: limits that satisfy C03's premise — attainable at the optimiser's starting extreme (everything active
// under a pollutant limit, nothing active under a cost limit).  Exact ties with the starting extreme are kept.
func startLimitsFor(ref *Ref, r *Rng, v int, k int) []float64 {
	n := ref.cm.n()
	start := make([]bool, n)
	if v < 4 {
		for i := range start {
			start[i] = true
		}
	}
	atStart := ref.at(start).totals[v]
	var out []float64
	for tries := 0; len(out) < k && tries < 20*k+20; tries++ {
		for _, l := range limitsFor(ref, r, v, k) {
			if l >= atStart && len(out) < k {
				out = append(out, l)
			}
		}
	}
	if len(out) == 0 {
		out = append(out, atStart)
	}
	return out
}

// limSpec is one point of the exhaustive walk's grid of limits.
type limSpec struct {
	v     int
	limit float64
	kind  string
}

func suiteCatchmentWalk(c *Ctx) {
	if c.Replay != "" {
		replayCatchment(c)
		return
	}
	r := c.Rng
	type job struct {
		ds     string
		limVar int
		limit  float64
		tag    string
		steps  int
		gray   []bool
		probe  []bool // boundary probe: load this set, then propose `probeAt` (the limit is the value that step leads to)
		probeAt int
		grid   []limSpec // exhaustive walk: the further (variable, limit) pairs every proposal is judged under (shadow models)
		extra  parameters.Map // model parameters other than the defaults
		quiet  bool           // long no-drift walk: direct clauses only, bit-exact comparison with the fresh model
	}
	var jobs []job
	walkSteps := c.N(400, 4000)
	for _, ds := range shippedDatasets() {
		ref, err := newRef(ds, -1, 0)
		if err != nil {
			c.Fail("harness:shipped-dataset-loads", "catchment:shipped-dataset-rejected", err.Error(), nil)
			continue
		}
		for rep := 0; rep < c.N(4, 12); rep++ {
			jobs = append(jobs, job{ds: ds, limVar: -1, tag: "shipped", steps: walkSteps})
		}
		for v := 0; v < 6; v++ {
			for _, lim := range limitsFor(ref, r, v, c.N(3, 10)) {
				jobs = append(jobs, job{ds: ds, limVar: v, limit: lim, tag: "shipped-limited", steps: walkSteps})
			}
		}
	}
	// the same walks under model parameters other than the defaults (they change every action constant the model
	// derives from the tables: delivery ratios, vegetation target, gully reduction target, densities, years of erosion)
	for _, ds := range shippedDatasets() {
		for rep := 0; rep < c.N(2, 8); rep++ {
			var extra parameters.Map
			for len(extra) == 0 {
				extra = genParams(r)
			}
			jobs = append(jobs, job{ds: ds, limVar: -1, tag: "shipped-params", steps: walkSteps / 2, extra: extra})
			if ref, err := newRef(ds, -1, 0, extra); err == nil && ref.cm.n() > 0 {
				v := r.Intn(6)
				for _, lim := range limitsFor(ref, r, v, 1) {
					jobs = append(jobs, job{ds: ds, limVar: v, limit: lim, tag: "shipped-params-limited", steps: walkSteps / 2, extra: extra})
				}
			}
		}
	}
	if c.Thorough() {
		// long histories (C01 / C11: no drift): walks of 200 000 operations -- the length of a real annealing run -- on the
		// shipped datasets, not sent to the Lean model (it follows a few hundred lines a second); after EVERY operation every
		// total and every planning-unit value must equal the fresh model's BIT FOR BIT, besides the usual direct clauses
		shipped := shippedDatasets()
		for k := 0; k < 4; k++ {
			j := job{ds: shipped[k%2], limVar: -1, tag: "long-walk", steps: 200000, quiet: true}
			if k >= 2 {
				if ref, err := newRef(j.ds, -1, 0); err == nil {
					j.limVar = []int{4, 0}[k-2]
					j.limit = limitsFor(ref, r, j.limVar, 1)[0]
				}
			}
			jobs = append(jobs, j)
		}
	}
	// boundary probes: the limit is EXACTLY the value a chosen step out of a chosen set leads to (or that value
	// minus / plus a fraction of a grid unit); the step is proposed from both sides.  "Would be exactly the limit"
	// is within the limit; a third of a grid unit above it is not.
	for _, ds := range shippedDatasets() {
		ref, err := newRef(ds, -1, 0)
		if err != nil || ref.cm.n() == 0 {
			continue
		}
		n := ref.cm.n()
		for v := 0; v < 6; v++ {
			for k := 0; k < c.N(8, 24); k++ {
				bits := make([]bool, n)
				p := []float64{0, 1, 0.15, 0.85, 0.5}[r.Intn(5)]
				for i := range bits {
					bits[i] = r.Chance(p)
				}
				at := r.Intn(n)
				if k%4 == 0 || k%4 == 3 {
					// EXACT limits: among a few dozen (set, action) pairs prefer one whose prospective value, computed as the
					// model computes it (current value + reported change, in floating point), differs from the value the
					// accepted state holds — there "would be exactly the limit" is decided by how the sum is rounded
					for tries := 0; tries < 40; tries++ {
						cb := make([]bool, n)
						pp := []float64{0, 1, 0.15, 0.85, 0.5}[r.Intn(5)]
						for i := range cb {
							cb[i] = r.Chance(pp)
						}
						ca := r.Intn(n)
						cn := append([]bool(nil), cb...)
						cn[ca] = !cn[ca]
						v1 := ref.at(cn).totals[v]
						ref.at(cb)
						ref.cm.reinit("asis") // re-installs the scripted source: tryRandom(ca) must toggle action ca
						for i, b := range cb {
							if b {
								ref.cm.m.SetManagementAction(i, true)
							}
						}
						v0 := ref.cm.total(v)
						residue := 0.0
						if pn := protect(func() {
							ref.cm.tryRandom(ca)
							residue = v0 + ref.cm.changes()[v] - v1
							ref.cm.m.RevertChange()
						}); pn != "" {
							break
						}
						if residue != 0 && (k%4 == 0) == (residue > 0) {
							bits, at = cb, ca
							c.Stat("boundary probe: exact limit at a pair whose float sum carries a residue")
							break
						}
					}
				}
				next := append([]bool(nil), bits...)
				next[at] = !next[at]
				lim := ref.at(next).totals[v]
				u := math.Pow(10, -float64(varPrec[v]))
				switch k % 4 {
				case 1:
					lim -= []float64{0.3, 0.45, 0.01}[r.Intn(3)] * u
				case 2:
					lim += []float64{0.3, 0.45, 0.01}[r.Intn(3)] * u
				}
				if lim < 0 {
					lim = 0
				}
				jobs = append(jobs, job{ds: ds, limVar: v, limit: lim, tag: "boundary-probe", steps: 12, probe: bits, probeAt: at})
			}
		}
	}
	if c.Thorough() {
		// exhaustive: every active set of the shipped n=13 dataset, every single step out of it, sharded by a 3-bit prefix.
		// States x actions x a GRID OF LIMITS: each shard walks under a limit on one variable (compared with the Lean model
		// line by line) and under 17 more (variable, limit) pairs on shadow models (direct clauses): per variable three of
		// the kinds mid / exact (an attainable value, incl. the starting extremes) / just below / just above / zero.
		ds := shippedDatasets()[0]
		if ref, err := newRef(ds, -1, 0); err == nil && ref.cm.n() >= 3 {
			for pfx := 0; pfx < 8; pfx++ {
				prefix := []bool{pfx&1 != 0, pfx&2 != 0, pfx&4 != 0}
				// the model-compared walk: variable pfx mod 6, of the kind below (every other shard an exact-attainable limit)
				pv := pfx % 6
				wanted := []string{"exact", "mid", "exact", "below", "exact", "above", "exact", "mid"}[pfx]
				var prim limSpec
				var grid []limSpec
				for v := 0; v < 6; v++ {
					lims, kinds := limitsForKinds(ref, r, v, 8, prefix)
					off := r.Intn(8)
					taken := -1
					if v == pv {
						for j := range kinds {
							if kinds[j] == wanted {
								taken = j
							}
						}
						prim = limSpec{v: v, limit: lims[taken], kind: kinds[taken]}
					}
					for k := 0; k < 3; k++ {
						j := (off + 3*k) % 8 // 3 is coprime to 8: three distinct entries, and consecutive kinds differ
						if j != taken {
							grid = append(grid, limSpec{v: v, limit: lims[j], kind: kinds[j]})
						}
					}
				}
				jobs = append(jobs, job{ds: ds, limVar: prim.v, limit: prim.limit, tag: "exhaustive", gray: prefix, grid: grid})
			}
		}
		// the other shipped dataset (n=15): all 2^15 active sets x every single step, direct clauses only (not sent to the
		// Lean model: a million lines), every figure compared with the fresh model bit for bit; each shard under a limit
		// on one variable plus five shadow limits
		ds15 := shippedDatasets()[1]
		if ref, err := newRef(ds15, -1, 0); err == nil && ref.cm.n() >= 3 {
			for pfx := 0; pfx < 8; pfx++ {
				prefix := []bool{pfx&1 != 0, pfx&2 != 0, pfx&4 != 0}
				var grid []limSpec
				for v := 0; v < 6; v++ {
					lims, kinds := limitsForKinds(ref, r, v, 8, prefix)
					j := r.Intn(8)
					grid = append(grid, limSpec{v: v, limit: lims[j], kind: kinds[j]})
				}
				prim := grid[pfx%6]
				grid = append(grid[:pfx%6:pfx%6], grid[pfx%6+1:]...)
				jobs = append(jobs, job{ds: ds15, limVar: prim.v, limit: prim.limit, tag: "exhaustive-n15", gray: prefix, grid: grid, quiet: true})
			}
		}
	}
	gen := c.N(6, 120)
	genExactCostTies = true // this suite's driver answers BOUNDARY where a cost is an exact tie of RoundFloat(cost, 2)
	for g := 0; g < gen; g++ {
		// the first generated dataset of every run carries exact half-cent costs: RoundFloat(+c, 2) and RoundFloat(-c, 2)
		// must mirror each other or an on/off round trip leaves a cent behind (judged Go against Go: the driver answers
		// BOUNDARY at exact ties)
		genForceTies = g == 0
		ds := genDataset(r.Fork(), filepath.Join(c.Out, "gen"), fmt.Sprintf("G%d_%d_", c.Shard, g))
		genForceTies = false
		jobs = append(jobs, job{ds: ds, limVar: -1, tag: "generated", steps: walkSteps / 2})
		if ref, err := newRef(ds, -1, 0); err == nil && ref.cm.n() > 0 {
			v := r.Intn(6)
			for _, lim := range limitsFor(ref, r, v, 1) {
				jobs = append(jobs, job{ds: ds, limVar: v, limit: lim, tag: "generated-limited", steps: walkSteps / 2})
			}
			if strings.Contains(filepath.Base(ds), "adv_") {
				// non-monotone data: a limit on two more variables, so that "moving away from the limit" by
				// (de)activation is not something the data guarantees
				for extra := 0; extra < 2; extra++ {
					v = (v + 1 + r.Intn(5)) % 6
					for _, lim := range limitsFor(ref, r, v, 1) {
						jobs = append(jobs, job{ds: ds, limVar: v, limit: lim, tag: "adverse-limited", steps: walkSteps / 2})
					}
				}
			}
		}
	}
	for ji, j := range jobs {
		if ji%c.Shards != c.Shard {
			continue
		}
		w := newWalker(c, j.ds, j.limVar, j.limit, j.tag, j.extra)
		if w == nil {
			continue
		}
		w.quiet = j.quiet
		if j.probe != nil {
			w.setAll(j.probe, 0)
			w.transaction(j.probeAt, 2, false) // towards the limit's value
			w.setAll(j.probe, 1)
			w.transaction(j.probeAt, 1, false) // forced there ...
			w.transaction(j.probeAt, 2, false) // ... and away from it
			pr := r.Fork()
			for k := 0; k < j.steps; k++ {
				w.transaction(pr.Intn(w.cm.n()), 2, pr.Chance(0.3))
			}
		} else if j.gray != nil {
			c.Stat(fmt.Sprintf("exhaustive shard: model-compared limit on %s; %d shadow limits", limName(j.limVar), len(j.grid)))
			for _, g := range j.grid {
				sh, err := loadCM(j.ds, g.v, g.limit, j.extra)
				if err != nil {
					c.Fail("harness:shipped-dataset-loads", "catchment:shipped-dataset-rejected", fmt.Sprintf("limit %v on %s: %v", g.limit, varNames[g.v], err), nil)
					continue
				}
				w.shadows = append(w.shadows, sh)
				c.Stat(fmt.Sprintf("exhaustive shard: shadow limit on %s kind=%s", limName(g.v), g.kind))
			}
			w.grayWalk(j.gray)
		} else {
			w.randomWalk(r.Fork(), j.steps)
		}
	}
}

// replayCatchment re-executes a recorded operation sequence (dataset line first).
func replayCatchment(c *Ctx) {
	var w *walker
	limVar, limit := -1, 0.0
	var dsLine string
	lines := readLines(c.Replay)
	// limits (and non-default model parameters) are declared after the dataset line and before endload: scan ahead
	var extra parameters.Map
	for _, l := range lines {
		f := strings.Fields(l)
		if len(f) > 1 && f[0] == "cfg" {
			extra = parseCfgLine(l)
		}
		if len(f) == 3 && f[0] == "max" {
			for i, s := range varShort {
				if s == f[1] {
					limVar = i
				}
			}
			b, _ := strconv.ParseUint(f[2], 16, 64)
			limit = math.Float64frombits(b)
		}
	}
	rawMode := false
	for li, l := range lines {
		f := strings.Fields(l)
		if len(f) == 0 {
			continue
		}
		switch f[0] {
		case "dataset":
			dsLine = l
			path := materialiseDataset(dsLine, filepath.Join(c.Out, "replay-ds"))
			w = newWalker(c, path, limVar, limit, "replay", extra)
		case "load", "pu", "act", "max", "endload", "hyp", "cfg":
			// regenerated by newWalker from the dataset
		default:
			if w == nil {
				continue
			}
			// a proposal directly followed by accept / revert is a transaction (all direct clauses); anything else is a raw
			// call sequence (rawMisuse), which lasts until the next Initialise and is judged by the aggregate clauses alone
			next := ""
			for _, l2 := range lines[li+1:] {
				if f2 := strings.Fields(l2); len(f2) > 0 {
					next = f2[0]
					break
				}
			}
			switch f[0] {
			case "propose":
				i, _ := strconv.Atoi(f[1])
				if !rawMode && (next == "accept" || next == "revert") {
					w.pendingReplay(i)
				} else {
					rawMode = true
					w.rawStep("propose", i, "a raw call sequence (replay)")
				}
			case "accept", "revert":
				if replayPending >= 0 {
					w.finishReplay(f[0] == "accept")
				} else {
					rawMode = true
					w.rawStep(f[0], 0, "a raw call sequence (replay)")
				}
			case "set":
				i, _ := strconv.Atoi(f[1])
				w.set(i, f[2] == "1")
			case "setall":
				bits := make([]bool, len(f[1]))
				for k, ch := range f[1] {
					bits[k] = ch == '1'
				}
				w.setAll(bits, 0)
			case "init":
				rawMode = false
				w.reinit(f[1])
			case "randomize":
				draws := []int{}
				for _, d := range f[1:] {
					v, _ := strconv.Atoi(d)
					draws = append(draws, v)
				}
				k := 0
				w.cm.src.log = nil
				gen := func() int {
					if k < len(draws) {
						k++
						return draws[k-1]
					}
					return 0
				}
				outcome, _ := w.cm.randomize(gen)
				s := w.cm.snap()
				w.op(l, outcome+" "+w.cm.dumpSnap(s))
				w.checkState("randomize", s)
			}
		}
	}
}

var replayPending = -1

func (w *walker) pendingReplay(i int) { replayPending = i }
func (w *walker) finishReplay(accept bool) {
	if replayPending < 0 {
		return
	}
	d := 0
	if accept {
		d = 1
	}
	w.transaction(replayPending, d, false)
	replayPending = -1
}
