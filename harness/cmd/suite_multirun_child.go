//go:build verif

package main

// Child side of the multi-run suite (property C08).  Every whole-scenario case is executed in a CHILD
// PROCESS of the harness binary (`harness multi-run-child -out DIR CASE.json`): since the D26 repair
// scenario.Runner recovers a panic of a run goroutine (Runner.go, doRun), but a mutant or a regression
// of that repair terminates the process, the race detector reports per process, and the working
// directory is process-global.  The child
//   - writes the scenario's TOML text and builds the scenario through crem's OWN configuration
//     path (config retrieval + ConfigInterpreter, exactly what cremexplorer's bootstrap does),
//   - attaches one recording observer in FIRST position of the annealer's (shared) notifier,
//   - walks the object graph of the configured annealer (the template every run clones: with it
//     everything the runs can share) and records the content of every node,
//   - calls Scenario.Run()  (or, for a `solo` case, Runner.run(i) for ONE run number),
//   - re-reads the content of every recorded node: `written.json` lists the nodes that differ,
// and leaves behind `events.log` (one line per recorded event, appended with a single write
// so that it survives the death of the process), `child.json` (what Run() returned) and the
// scenario's own output files.  The parent derives the canonical observation from those.

import (
	"encoding/json"
	"errors"
	"fmt"
	"hash/fnv"
	"math/rand"
	"os"
	"path/filepath"
	"reflect"
	"runtime"
	"sort"
	"strconv"
	"strings"
	"sync"
	"sync/atomic"
	"time"
	"unsafe"

	cfgdata "github.com/LindsayBradford/crem/cmd/cremexplorer/config/data"
	cfginterp "github.com/LindsayBradford/crem/cmd/cremexplorer/config/interpreter"
	"github.com/LindsayBradford/crem/internal/pkg/annealing"
	"github.com/LindsayBradford/crem/internal/pkg/annealing/explorer"
	"github.com/LindsayBradford/crem/internal/pkg/model"
	marchive "github.com/LindsayBradford/crem/internal/pkg/model/archive"
	"github.com/LindsayBradford/crem/internal/pkg/observer"
	cremrand "github.com/LindsayBradford/crem/internal/pkg/rand"
	"github.com/LindsayBradford/crem/internal/pkg/scenario"
)

func init() { register("multi-run-child", multiRunChild) }

// mrCase is one whole-scenario case; it crosses the process boundary as JSON.
type mrCase struct {
	Kind       string  `json:"kind"`   // scenario | fault
	Family     string  `json:"family"` // Kirkpatrick | Suppapitnarm | AveragedSuppapitnarm
	Name       string  `json:"name"`
	Runs       int     `json:"runs"`
	Conc       int     `json:"conc"`
	T0         float64 `json:"t0"`
	CF         float64 `json:"cf"`
	MaxIter    int     `json:"max_iter"`
	DataPath   string  `json:"data_path"`   // as written into the TOML (relative to Cwd, or absolute)
	Cwd        string  `json:"cwd"`         // working directory of the child
	OutputPath string  `json:"output_path"` // as written into the TOML
	OutputType string  `json:"output_type"` // CSV | JSON
	// fault injection (Kind == fault): the explorer of run number Designated (1-based) panics in
	// TryRandomChange of iteration At.
	Designated int    `json:"designated"`
	At         int    `json:"at"`
	AsError    bool   `json:"as_error"`
	Model      string `json:"model"`   // CatchmentModel | DumbModel
	Quiet      bool   `json:"quiet"`   // discard crem's log output instead of writing it to stdout
	Markers    bool   `json:"markers"` // bracket Run() with two recognisable (failing) chdir calls for strace
	Strace     bool   `json:"strace"`  // parent side: execute the child under strace -f -e trace=chdir
	// CheckInvariant: Scenario.Reporting.CheckingLoopInvariant = true (single-objective annealer only)
	CheckInvariant bool `json:"check_invariant"`
	// Site of the injected failure (Kind == fault): clone (Runner.run before Anneal: assignNewRunId) |
	// step (TryRandomChange of iteration At) | finish (a FinishedAnnealing observer placed before the saver)
	Site string `json:"site,omitempty"`
	// Detail: Scenario.OutputLevel = "Detail" (every solution is also written to a file of its own)
	Detail bool `json:"detail,omitempty"`
	// Seeded: every random number generator of a run is re-seeded from the run's id when the run's explorer
	// has been initialised (Kind == seeded); Solo > 0: execute only run number Solo, through Runner.run
	Seeded bool `json:"seeded,omitempty"`
	Solo   int  `json:"solo,omitempty"`
	Group  int  `json:"group,omitempty"` // parent side: the seeded cases of one comparison
}

const (
	markerBegin = "/verif-c08-run-begin"
	markerEnd   = "/verif-c08-run-end"
)

func (k mrCase) toml() string {
	var sb strings.Builder
	fmt.Fprintf(&sb, "[Scenario]\nName = %q\nRunNumber = %d\nMaximumConcurrentRunNumber = %d\nOutputPath = %q\nOutputType = %q\n",
		k.Name, k.Runs, k.Conc, k.OutputPath, k.OutputType)
	if k.Detail {
		sb.WriteString("OutputLevel = \"Detail\"\n")
	}
	sb.WriteString("[Scenario.Reporting]\nReportEveryNumberOfIterations = 100\n")
	if k.CheckInvariant {
		sb.WriteString("CheckingLoopInvariant = true\n")
	}
	if k.Quiet {
		sb.WriteString("[Scenario.Reporting.LogLevelDestinations]\nAnnealing = \"Discarded\"\nInformation = \"Discarded\"\nWarnings = \"Discarded\"\n")
	}
	fmt.Fprintf(&sb, "[Annealer]\nType = %q\n[Annealer.Parameters]\n", k.Family)
	fmt.Fprintf(&sb, "StartingTemperature = %s\nCoolingFactor = %s\nMaximumIterations = %d\n", tomlFloat(k.T0), tomlFloat(k.CF), k.MaxIter)
	if k.Family == "Kirkpatrick" && k.Model == "DumbModel" {
		sb.WriteString("DecisionVariable = \"ObjectiveValue\"\nOptimisationDirection = \"Minimising\"\n")
	} else if k.Family == "Kirkpatrick" {
		sb.WriteString("DecisionVariable = \"SedimentProduction\"\nOptimisationDirection = \"Minimising\"\n")
	} else {
		sb.WriteString("InitialReturnToBaseStep = 7\nMinimumReturnToBaseRate = 3\n")
	}
	if k.Model == "DumbModel" {
		sb.WriteString("[Model]\nType = \"DumbModel\"\n")
	} else {
		fmt.Fprintf(&sb, "[Model]\nType = \"CatchmentModel\"\n[Model.Parameters]\nDataSourcePath = %q\n", k.DataPath)
	}
	return sb.String()
}

func tomlFloat(f float64) string {
	s := strconv.FormatFloat(f, 'g', -1, 64)
	if !strings.ContainsAny(s, ".e") {
		s += ".0"
	}
	if strings.Contains(s, "e") && !strings.Contains(s, ".") {
		s = strings.Replace(s, "e", ".0e", 1)
	}
	return s
}

// ---------------------------------------------------------------- recorder

func goroutineID() uint64 {
	var buf [64]byte
	n := runtime.Stack(buf[:], false)
	f := strings.Fields(string(buf[:n]))
	if len(f) >= 2 {
		id, _ := strconv.ParseUint(f[1], 10, 64)
		return id
	}
	return 0
}

// runRecorder is attached (first) to the annealer's notifier, which all clones share: it is
// called concurrently from every run goroutine and therefore locks.  A run is identified by the
// goroutine it executes on (Runner gives every run its own goroutine; events are synchronous).
type runRecorder struct {
	mu       sync.Mutex
	f        *os.File
	inflight int // runs between their StartedAnnealing and FinishedAnnealing events
}

// fields of an event line are tab separated (ids contain blanks, never tabs)
func q(s string) string { return strings.ReplaceAll(s, "\t", " ") }

func (r *runRecorder) ObserveEvent(e observer.Event) {
	switch e.EventType {
	case observer.StartedAnnealing, observer.StartedIteration, observer.FinishedAnnealing:
	default:
		return // explorer / model chatter forwarded by the annealer: nothing recorded, no synchronisation
	}
	if e.EventType == observer.StartedIteration {
		if raceEnabled {
			// race-instrumented child: the first-iteration line (and its lock, taken right after the run's
			// start) is left out so that as few happens-before edges as possible come from the recorder;
			// the plain build of the same suite observes the iteration number
			return
		}
		if v, ok := e.Attribute("CurrentIteration").(uint64); !ok || v != 1 {
			return
		}
	}
	g := goroutineID()
	var line string
	id := "-"
	if v := e.Attribute("Id"); v != nil {
		id = fmt.Sprint(v)
	}
	temp := "-"
	if v, ok := e.Attribute("Temperature").(float64); ok {
		temp = floatBits(v)
	}
	switch e.EventType {
	case observer.StartedAnnealing:
		arch := "-"
		if v := e.Attribute("ArchiveSize"); v != nil {
			arch = fmt.Sprint(v)
		}
		obj := "-"
		if v, ok := e.Attribute("ObjectiveValue").(float64); ok {
			obj = floatBits(v)
		}
		r.mu.Lock()
		r.inflight++
		inflight := r.inflight
		r.mu.Unlock()
		line = fmt.Sprintf("S\tg=%d\tid=%s\tT=%s\tarch=%s\tobj=%s\tinflight=%d", g, q(id), temp, arch, obj, inflight)
	case observer.StartedIteration:
		// Only the iteration numbered 1 is logged, and only then is the lock taken: a lock on every
		// iteration would order the run goroutines (happens-before edges through the mutex) and hide
		// data races in crem's code from the race detector.  A run whose first iteration is not
		// numbered 1 therefore shows as a run without an I line.
		v, ok := e.Attribute("CurrentIteration").(uint64)
		if !ok || v != 1 {
			return
		}
		line = fmt.Sprintf("I\tg=%d\tid=%s\tT=%s\titer=%d", g, q(id), temp, v)
	case observer.FinishedAnnealing:
		it := "-"
		if v, ok := e.Attribute("CurrentIteration").(uint64); ok {
			it = strconv.FormatUint(v, 10)
		}
		pid, size, enc := "-", "-", "-"
		if v, ok := e.Attribute("CompressedModel").(marchive.CompressedModelState); ok {
			pid, size, enc = v.Id(), "1", v.Encoding()
		}
		if v, ok := e.Attribute("ModelArchive").(marchive.NonDominanceModelArchive); ok {
			pid, size = v.Id(), strconv.Itoa(v.Len())
			// the member encodings, in archive order: what this run's own result file must hold
			var encs []string
			for _, m := range v.Archive() {
				encs = append(encs, m.Encoding())
			}
			enc = strings.Join(encs, ",")
			if len(encs) == 0 {
				enc = "-"
			}
		}
		r.mu.Lock()
		r.inflight--
		r.mu.Unlock()
		line = fmt.Sprintf("F\tg=%d\tid=%s\tT=%s\titer=%s\tpayload=%s\tsize=%s\tenc=%s", g, q(id), temp, it, q(pid), size, enc)
	default:
		return
	}
	r.mu.Lock()
	r.f.WriteString(line + "\n")
	r.mu.Unlock()
}

// ---------------------------------------------------------------- fault-injecting / seeding explorer

// faultExplorer wraps a real explorer.  Runner.assignNewRunId tells every clone's explorer its run
// id ("name (i/N)").  Fault injection: the clone whose id is the designated run's panics at the chosen
// site (clone: when Runner.run tells it its id, before Anneal(); step: in TryRandomChange of iteration
// At).  Deterministic seeding: when the run's explorer has been initialised (Anneal() does that first),
// every random number generator the clone reaches is replaced by one seeded from (run id, position in
// a canonical traversal).  Everything else is delegated to real crem code.
type faultExplorer struct {
	explorer.Explorer
	clones     *int64 // DeepClone() calls, whole family
	armed      *int32 // set once the wrapper has been installed (SetSolutionExplorer itself calls SetId)
	runID      string
	designated string
	site       string
	at         int
	asError    bool
	iter       int
	seeded     bool
}

func (f *faultExplorer) DeepClone() explorer.Explorer {
	c := *f
	c.Explorer = f.Explorer.DeepClone()
	atomic.AddInt64(f.clones, 1)
	c.iter = 0
	return &c
}

func (f *faultExplorer) injected() {
	if f.asError {
		panic(errors.New("injected failure of one run"))
	}
	panic("injected failure of one run")
}

func (f *faultExplorer) SetId(id string) {
	f.runID = id
	f.Explorer.SetId(id)
	if f.site == "clone" && atomic.LoadInt32(f.armed) == 1 && id == f.designated {
		f.injected()
	}
}

func (f *faultExplorer) Initialise() {
	f.Explorer.Initialise()
	if f.seeded {
		// Initialise() has drawn the run's random initial state from generators it seeded from the clock a
		// moment ago: that state is discarded (as-is = no action active: crem's own Initialise(AsIs)), every
		// generator of the run is seeded from the run id, and the initial state is drawn again by crem's own
		// Randomize()
		f.Explorer.Model().Initialise(model.AsIs)
		n := reseedAll(f.Explorer, f.runID)
		f.Explorer.Model().Randomize()
		if os.Getenv("VERIF_C08_DEBUG") != "" {
			fmt.Fprintf(os.Stderr, "reseeded %d generators of %q\n", n, f.runID)
		}
	}
}

func (f *faultExplorer) TryRandomChange() {
	f.iter++
	if f.site == "step" && f.runID == f.designated && f.iter == f.at {
		f.injected()
	}
	f.Explorer.TryRandomChange()
}

// finishPanicker is a FinishedAnnealing observer placed right after the recorder and BEFORE the saver:
// it panics for the designated run (a failing observer of the finish event: the run has completed its
// iterations, its result is never saved).
type finishPanicker struct {
	designated string
	asError    bool
}

func (p *finishPanicker) ObserveEvent(e observer.Event) {
	if e.EventType != observer.FinishedAnnealing {
		return
	}
	// the run is identified by the id of the result it delivers (the event's own Id attribute is the
	// annealer's construction-time id, the same for every run)
	pid := ""
	if v, ok := e.Attribute("CompressedModel").(marchive.CompressedModelState); ok {
		pid = v.Id()
	}
	if v, ok := e.Attribute("ModelArchive").(marchive.NonDominanceModelArchive); ok {
		pid = v.Id()
	}
	if pid == p.designated {
		if p.asError {
			panic(errors.New("injected failure of one run"))
		}
		panic("injected failure of one run")
	}
}

// ---------------------------------------------------------------- deterministic seeding

var cremRandType = reflect.TypeOf(cremrand.Rand{})

func seedFor(runID string, k int) int64 {
	h := fnv.New64a()
	h.Write([]byte(runID))
	return int64(h.Sum64()>>1) + int64(k)*1000003
}

// reseedAll replaces every crem rand.Rand reachable from root (by value in a struct, or behind a
// pointer) by a generator seeded from (runID, k), k = position in a traversal that follows struct
// fields in declaration order, slices by index and maps by sorted key text.  The generators are
// overwritten in place through their addresses (package unsafe; harness side only, crem is unchanged).
func reseedAll(root interface{}, runID string) int {
	seen := map[uintptr]bool{}
	done := map[uintptr]bool{}
	k := 0
	var visit func(v reflect.Value, depth int)
	visit = func(v reflect.Value, depth int) {
		if !v.IsValid() || depth > 64 {
			return
		}
		switch v.Kind() {
		case reflect.Interface:
			if !v.IsNil() {
				visit(v.Elem(), depth+1)
			}
		case reflect.Ptr:
			if v.IsNil() || seen[v.Pointer()] {
				return
			}
			seen[v.Pointer()] = true
			// what the runs share (notifier with its observers, saver, loggers) is not a run's own: left alone
			if et := v.Type().Elem().String(); strings.HasPrefix(et, "observer.") || strings.HasPrefix(et, "loggers.") ||
				strings.HasPrefix(et, "scenario.") || strings.HasPrefix(et, "main.") || strings.HasPrefix(et, "log.") || strings.HasPrefix(et, "os.") {
				return
			}
			visit(v.Elem(), depth+1)
		case reflect.Struct:
			if v.Type() == cremRandType {
				if v.CanAddr() && !done[v.UnsafeAddr()] {
					done[v.UnsafeAddr()] = true
					*(*cremrand.Rand)(unsafe.Pointer(v.UnsafeAddr())) = *cremrand.New(rand.NewSource(seedFor(runID, k)))
					k++
				}
				return
			}
			for i := 0; i < v.NumField(); i++ {
				visit(v.Field(i), depth+1)
			}
		case reflect.Slice:
			if v.IsNil() || !elemMayPoint(v.Type().Elem()) {
				return
			}
			for i := 0; i < v.Len(); i++ {
				visit(v.Index(i), depth+1)
			}
		case reflect.Array:
			if !elemMayPoint(v.Type().Elem()) {
				return
			}
			for i := 0; i < v.Len(); i++ {
				visit(v.Index(i), depth+1)
			}
		case reflect.Map:
			if v.IsNil() || seen[v.Pointer()] {
				return
			}
			seen[v.Pointer()] = true
			type kv struct {
				k string
				v reflect.Value
			}
			var kvs []kv
			iter := v.MapRange()
			for iter.Next() {
				kvs = append(kvs, kv{keyString(iter.Key()), iter.Value()})
			}
			sort.Slice(kvs, func(i, j int) bool { return kvs[i].k < kvs[j].k })
			for _, e := range kvs {
				visit(e.v, depth+1) // map values are not addressable: generators stored BY VALUE in a map would be missed (none today)
			}
		}
	}
	visit(reflect.ValueOf(root), 0)
	return k
}

// the wrapper must stay an event notifier so that Runner.wireObservers treats it like the real one
func (f *faultExplorer) AddObserver(o observer.Observer) error {
	if n, ok := f.Explorer.(observer.EventNotifier); ok {
		return n.AddObserver(o)
	}
	return nil
}
func (f *faultExplorer) AddObserverAsFirst(o observer.Observer) error {
	if n, ok := f.Explorer.(observer.EventNotifier); ok {
		return n.AddObserverAsFirst(o)
	}
	return nil
}
func (f *faultExplorer) HasObservers() bool {
	if n, ok := f.Explorer.(observer.EventNotifier); ok {
		return n.HasObservers()
	}
	return false
}
func (f *faultExplorer) Observers() []observer.Observer {
	if n, ok := f.Explorer.(observer.EventNotifier); ok {
		return n.Observers()
	}
	return nil
}
func (f *faultExplorer) NotifyObserversOfEvent(e observer.Event) {
	if n, ok := f.Explorer.(observer.EventNotifier); ok {
		n.NotifyObserversOfEvent(e)
	}
}

// ---------------------------------------------------------------- the child

type childResult struct {
	Built      bool   `json:"built"`
	BuildError string `json:"build_error,omitempty"`
	Returned   bool   `json:"returned"`
	RunError   string `json:"run_error,omitempty"`
	Panic      string `json:"panic,omitempty"` // a panic that reached Run()'s caller (never happens for run goroutines)
	WallMs     int64  `json:"wall_ms"`
	CwdBefore  string `json:"cwd_before"`
	CwdAfter   string `json:"cwd_after"`
	// the before/after content comparison of everything reachable from the configured annealer
	SharedNodes int    `json:"shared_nodes"`
	WalkError   string `json:"walk_error,omitempty"`
}

func buildScenarioFromToml(tomlPath string) (*cfginterp.ConfigInterpreter, error) {
	cfg, err := cfgdata.RetrieveConfigFromFile(tomlPath)
	if err != nil {
		return nil, err
	}
	in := cfginterp.NewInterpreter()
	in.Interpret(cfg)
	if e := in.Errors(); e != nil {
		return nil, e
	}
	return in, nil
}

func multiRunChild(c *Ctx) {
	if len(c.Args) < 1 {
		panic("multi-run-child: missing case file")
	}
	b, err := os.ReadFile(c.Args[0])
	must(err)
	var k mrCase
	must(json.Unmarshal(b, &k))
	res := childResult{}
	writeRes := func() {
		out, _ := json.MarshalIndent(res, "", " ")
		os.WriteFile(filepath.Join(c.Out, "child.json"), out, 0o644)
	}
	res.CwdBefore, _ = os.Getwd()
	tomlPath := filepath.Join(c.Out, "scenario.toml")
	must(os.WriteFile(tomlPath, []byte(k.toml()), 0o644))

	var in *cfginterp.ConfigInterpreter
	if p := protect(func() { in, err = buildScenarioFromToml(tomlPath) }); p != "" {
		res.BuildError = "panic: " + clip(p, 300)
		writeRes()
		return
	}
	if err != nil {
		res.BuildError = clip(err.Error(), 300)
		writeRes()
		return
	}
	res.Built = true
	ann := in.VerifAnnealer()
	var armed *int32
	if k.Kind == "fault" || k.Seeded {
		armed = installFault(ann, k)
	}
	if k.Kind == "fault" && k.Site == "finish" {
		must(ann.AddObserverAsFirst(&finishPanicker{designated: designatedID(k), asError: k.AsError}))
	}
	ef, err := os.OpenFile(filepath.Join(c.Out, "events.log"), os.O_CREATE|os.O_WRONLY|os.O_APPEND, 0o644)
	must(err)
	rec := &runRecorder{f: ef}
	must(ann.AddObserverAsFirst(rec))
	if armed != nil {
		atomic.StoreInt32(armed, 1)
	}
	writeRes() // "built, not yet returned": what the parent sees if the process dies inside Run()

	// everything the runs can share is reachable from the configured annealer (a clone reaches either
	// objects DeepClone made for it or objects the template reaches): its content before ...
	var g0 *walkGraph
	var before graphSnapshot
	if p := protect(func() { g0 = walkFrom(ann); before = snapshotGraph(g0) }); p != "" {
		res.WalkError = clip(p, 300)
		g0 = nil
	}

	if k.Markers {
		os.Chdir(markerBegin) // does not exist: fails, but shows in the strace output
	}
	t0 := time.Now()
	var runErr error
	p := protect(func() {
		if k.Solo > 0 {
			if !scenario.VerifRunSingle(in.Scenario(), uint64(k.Solo)) {
				panic("scenario is not driven by a *scenario.Runner")
			}
			return
		}
		runErr = in.Scenario().Run()
	})
	res.WallMs = time.Since(t0).Milliseconds()
	if k.Markers {
		os.Chdir(markerEnd)
	}
	if p != "" {
		res.Panic = clip(p, 300)
	} else {
		res.Returned = true
		if runErr != nil {
			res.RunError = clip(runErr.Error(), 300)
		}
	}
	res.CwdAfter, _ = os.Getwd()
	ef.Close()
	// ... and after: every node whose content differs was written during Run()
	if g0 != nil {
		if p := protect(func() {
			written := diffSnapshots(g0, before, snapshotGraph(g0))
			res.SharedNodes = len(g0.order)
			out, _ := json.MarshalIndent(written, "", " ")
			os.WriteFile(filepath.Join(c.Out, "written.json"), out, 0o644)
		}); p != "" {
			res.WalkError = clip(p, 300)
		}
	}
	writeRes()
}

func designatedID(k mrCase) string {
	if k.Runs > 1 {
		return fmt.Sprintf("%s (%d/%d)", k.Name, k.Designated, k.Runs)
	}
	return k.Name
}

func installFault(ann annealing.Annealer, k mrCase) *int32 {
	site := ""
	if k.Kind == "fault" {
		site = k.Site
		if site == "" {
			site = "step"
		}
	}
	fe := &faultExplorer{Explorer: ann.SolutionExplorer(), clones: new(int64), armed: new(int32), designated: designatedID(k),
		site: site, at: k.At, asError: k.AsError, seeded: k.Seeded}
	must(ann.SetSolutionExplorer(fe))
	return fe.armed
}
