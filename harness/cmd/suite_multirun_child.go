//go:build verif

package main

// Child side of the multi-run suite (property C08).  scenario.Runner starts every run on a
// bare goroutine, so a panic inside a run cannot be recovered by the caller and terminates
// the process: every whole-scenario case is therefore executed in a CHILD PROCESS of the
// harness binary (`harness multi-run-child -out DIR CASE.json`).  The child
//   - writes the scenario's TOML text and builds the scenario through crem's OWN configuration
//     path (config retrieval + ConfigInterpreter, exactly what cremexplorer's bootstrap does),
//   - attaches one recording observer in FIRST position of the annealer's (shared) notifier,
//   - calls Scenario.Run(),
// and leaves behind `events.log` (one line per recorded event, appended with a single write
// so that it survives the death of the process), `child.json` (what Run() returned) and the
// scenario's own output files.  The parent derives the canonical observation from those.

import (
	"encoding/json"
	"errors"
	"fmt"
	"os"
	"path/filepath"
	"runtime"
	"strconv"
	"strings"
	"sync"
	"sync/atomic"
	"time"

	cfgdata "github.com/LindsayBradford/crem/cmd/cremexplorer/config/data"
	cfginterp "github.com/LindsayBradford/crem/cmd/cremexplorer/config/interpreter"
	"github.com/LindsayBradford/crem/internal/pkg/annealing"
	"github.com/LindsayBradford/crem/internal/pkg/annealing/explorer"
	marchive "github.com/LindsayBradford/crem/internal/pkg/model/archive"
	"github.com/LindsayBradford/crem/internal/pkg/observer"
)

func init() { register("multi-run-child", multiRunChild) }

// mrCase is one whole-scenario case; it crosses the process boundary as JSON.
type mrCase struct {
	Kind       string  `json:"kind"`   // scenario | fault
	Family     string  `json:"family"` // Kirkpatrick | Suppapitnarm | AveragedSuppapitnarm
	Name       string  `json:"name"`
	Runs       int     `json:"runs"`
	Conc       int     `json:"conc"`
	T0         float64 `json:"t0"`
	CF         float64 `json:"cf"`
	MaxIter    int     `json:"max_iter"`
	DataPath   string  `json:"data_path"`   // as written into the TOML (relative to Cwd, or absolute)
	Cwd        string  `json:"cwd"`         // working directory of the child
	OutputPath string  `json:"output_path"` // as written into the TOML
	OutputType string  `json:"output_type"` // CSV | JSON
	// fault injection (Kind == fault): the explorer of run number Designated (1-based) panics in
	// TryRandomChange of iteration At.
	Designated int    `json:"designated"`
	At         int    `json:"at"`
	AsError    bool   `json:"as_error"`
	Model      string `json:"model"`   // CatchmentModel | DumbModel
	Quiet      bool   `json:"quiet"`   // discard crem's log output instead of writing it to stdout
	Markers    bool   `json:"markers"` // bracket Run() with two recognisable (failing) chdir calls for strace
	Strace     bool   `json:"strace"`  // parent side: execute the child under strace -f -e trace=chdir
	// CheckInvariant: Scenario.Reporting.CheckingLoopInvariant = true (single-objective annealer only)
	CheckInvariant bool `json:"check_invariant"`
}

const (
	markerBegin = "/verif-c08-run-begin"
	markerEnd   = "/verif-c08-run-end"
)

func (k mrCase) toml() string {
	var sb strings.Builder
	fmt.Fprintf(&sb, "[Scenario]\nName = %q\nRunNumber = %d\nMaximumConcurrentRunNumber = %d\nOutputPath = %q\nOutputType = %q\n",
		k.Name, k.Runs, k.Conc, k.OutputPath, k.OutputType)
	sb.WriteString("[Scenario.Reporting]\nReportEveryNumberOfIterations = 100\n")
	if k.CheckInvariant {
		sb.WriteString("CheckingLoopInvariant = true\n")
	}
	if k.Quiet {
		sb.WriteString("[Scenario.Reporting.LogLevelDestinations]\nAnnealing = \"Discarded\"\nInformation = \"Discarded\"\nWarnings = \"Discarded\"\n")
	}
	fmt.Fprintf(&sb, "[Annealer]\nType = %q\n[Annealer.Parameters]\n", k.Family)
	fmt.Fprintf(&sb, "StartingTemperature = %s\nCoolingFactor = %s\nMaximumIterations = %d\n", tomlFloat(k.T0), tomlFloat(k.CF), k.MaxIter)
	if k.Family == "Kirkpatrick" && k.Model == "DumbModel" {
		sb.WriteString("DecisionVariable = \"ObjectiveValue\"\nOptimisationDirection = \"Minimising\"\n")
	} else if k.Family == "Kirkpatrick" {
		sb.WriteString("DecisionVariable = \"SedimentProduction\"\nOptimisationDirection = \"Minimising\"\n")
	} else {
		sb.WriteString("InitialReturnToBaseStep = 7\nMinimumReturnToBaseRate = 3\n")
	}
	if k.Model == "DumbModel" {
		sb.WriteString("[Model]\nType = \"DumbModel\"\n")
	} else {
		fmt.Fprintf(&sb, "[Model]\nType = \"CatchmentModel\"\n[Model.Parameters]\nDataSourcePath = %q\n", k.DataPath)
	}
	return sb.String()
}

func tomlFloat(f float64) string {
	s := strconv.FormatFloat(f, 'g', -1, 64)
	if !strings.ContainsAny(s, ".e") {
		s += ".0"
	}
	if strings.Contains(s, "e") && !strings.Contains(s, ".") {
		s = strings.Replace(s, "e", ".0e", 1)
	}
	return s
}

// ---------------------------------------------------------------- recorder

func goroutineID() uint64 {
	var buf [64]byte
	n := runtime.Stack(buf[:], false)
	f := strings.Fields(string(buf[:n]))
	if len(f) >= 2 {
		id, _ := strconv.ParseUint(f[1], 10, 64)
		return id
	}
	return 0
}

// runRecorder is attached (first) to the annealer's notifier, which all clones share: it is
// called concurrently from every run goroutine and therefore locks.  A run is identified by the
// goroutine it executes on (Runner gives every run its own goroutine; events are synchronous).
type runRecorder struct {
	mu       sync.Mutex
	f        *os.File
	inflight int // runs between their StartedAnnealing and FinishedAnnealing events
}

// fields of an event line are tab separated (ids contain blanks, never tabs)
func q(s string) string { return strings.ReplaceAll(s, "\t", " ") }

func (r *runRecorder) ObserveEvent(e observer.Event) {
	switch e.EventType {
	case observer.StartedAnnealing, observer.StartedIteration, observer.FinishedAnnealing:
	default:
		return // explorer / model chatter forwarded by the annealer: nothing recorded, no synchronisation
	}
	if e.EventType == observer.StartedIteration {
		if raceEnabled {
			// race-instrumented child: the first-iteration line (and its lock, taken right after the run's
			// start) is left out so that as few happens-before edges as possible come from the recorder;
			// the plain build of the same suite observes the iteration number
			return
		}
		if v, ok := e.Attribute("CurrentIteration").(uint64); !ok || v != 1 {
			return
		}
	}
	g := goroutineID()
	var line string
	id := "-"
	if v := e.Attribute("Id"); v != nil {
		id = fmt.Sprint(v)
	}
	temp := "-"
	if v, ok := e.Attribute("Temperature").(float64); ok {
		temp = floatBits(v)
	}
	switch e.EventType {
	case observer.StartedAnnealing:
		arch := "-"
		if v := e.Attribute("ArchiveSize"); v != nil {
			arch = fmt.Sprint(v)
		}
		obj := "-"
		if v, ok := e.Attribute("ObjectiveValue").(float64); ok {
			obj = floatBits(v)
		}
		r.mu.Lock()
		r.inflight++
		inflight := r.inflight
		r.mu.Unlock()
		line = fmt.Sprintf("S\tg=%d\tid=%s\tT=%s\tarch=%s\tobj=%s\tinflight=%d", g, q(id), temp, arch, obj, inflight)
	case observer.StartedIteration:
		// Only the iteration numbered 1 is logged, and only then is the lock taken: a lock on every
		// iteration would order the run goroutines (happens-before edges through the mutex) and hide
		// data races in crem's code from the race detector.  A run whose first iteration is not
		// numbered 1 therefore shows as a run without an I line.
		v, ok := e.Attribute("CurrentIteration").(uint64)
		if !ok || v != 1 {
			return
		}
		line = fmt.Sprintf("I\tg=%d\tid=%s\tT=%s\titer=%d", g, q(id), temp, v)
	case observer.FinishedAnnealing:
		it := "-"
		if v, ok := e.Attribute("CurrentIteration").(uint64); ok {
			it = strconv.FormatUint(v, 10)
		}
		pid, size := "-", "-"
		if v, ok := e.Attribute("CompressedModel").(marchive.CompressedModelState); ok {
			pid, size = v.Id(), "1"
		}
		if v, ok := e.Attribute("ModelArchive").(marchive.NonDominanceModelArchive); ok {
			pid, size = v.Id(), strconv.Itoa(v.Len())
		}
		r.mu.Lock()
		r.inflight--
		r.mu.Unlock()
		line = fmt.Sprintf("F\tg=%d\tid=%s\tT=%s\titer=%s\tpayload=%s\tsize=%s", g, q(id), temp, it, q(pid), size)
	default:
		return
	}
	r.mu.Lock()
	r.f.WriteString(line + "\n")
	r.mu.Unlock()
}

// ---------------------------------------------------------------- fault-injecting explorer

// faultExplorer wraps a real explorer.  Runner.assignNewRunId tells every clone's explorer its run
// id ("name (i/N)"); the clone whose id is the designated run's panics in TryRandomChange of
// iteration At.  Everything else is delegated to real crem code.
type faultExplorer struct {
	explorer.Explorer
	clones     *int64 // DeepClone() calls, whole family
	runID      string
	designated string
	at         int
	asError    bool
	iter       int
}

func (f *faultExplorer) DeepClone() explorer.Explorer {
	c := *f
	c.Explorer = f.Explorer.DeepClone()
	atomic.AddInt64(f.clones, 1)
	c.iter = 0
	return &c
}

func (f *faultExplorer) SetId(id string) {
	f.runID = id
	f.Explorer.SetId(id)
}

func (f *faultExplorer) TryRandomChange() {
	f.iter++
	if f.runID == f.designated && f.iter == f.at {
		if f.asError {
			panic(errors.New("injected failure of one run"))
		}
		panic("injected failure of one run")
	}
	f.Explorer.TryRandomChange()
}

// the wrapper must stay an event notifier so that Runner.wireObservers treats it like the real one
func (f *faultExplorer) AddObserver(o observer.Observer) error {
	if n, ok := f.Explorer.(observer.EventNotifier); ok {
		return n.AddObserver(o)
	}
	return nil
}
func (f *faultExplorer) AddObserverAsFirst(o observer.Observer) error {
	if n, ok := f.Explorer.(observer.EventNotifier); ok {
		return n.AddObserverAsFirst(o)
	}
	return nil
}
func (f *faultExplorer) HasObservers() bool {
	if n, ok := f.Explorer.(observer.EventNotifier); ok {
		return n.HasObservers()
	}
	return false
}
func (f *faultExplorer) Observers() []observer.Observer {
	if n, ok := f.Explorer.(observer.EventNotifier); ok {
		return n.Observers()
	}
	return nil
}
func (f *faultExplorer) NotifyObserversOfEvent(e observer.Event) {
	if n, ok := f.Explorer.(observer.EventNotifier); ok {
		n.NotifyObserversOfEvent(e)
	}
}

// ---------------------------------------------------------------- the child

type childResult struct {
	Built      bool   `json:"built"`
	BuildError string `json:"build_error,omitempty"`
	Returned   bool   `json:"returned"`
	RunError   string `json:"run_error,omitempty"`
	Panic      string `json:"panic,omitempty"` // a panic that reached Run()'s caller (never happens for run goroutines)
	WallMs     int64  `json:"wall_ms"`
	CwdBefore  string `json:"cwd_before"`
	CwdAfter   string `json:"cwd_after"`
}

func buildScenarioFromToml(tomlPath string) (*cfginterp.ConfigInterpreter, error) {
	cfg, err := cfgdata.RetrieveConfigFromFile(tomlPath)
	if err != nil {
		return nil, err
	}
	in := cfginterp.NewInterpreter()
	in.Interpret(cfg)
	if e := in.Errors(); e != nil {
		return nil, e
	}
	return in, nil
}

func multiRunChild(c *Ctx) {
	if len(c.Args) < 1 {
		panic("multi-run-child: missing case file")
	}
	b, err := os.ReadFile(c.Args[0])
	must(err)
	var k mrCase
	must(json.Unmarshal(b, &k))
	res := childResult{}
	writeRes := func() {
		out, _ := json.MarshalIndent(res, "", " ")
		os.WriteFile(filepath.Join(c.Out, "child.json"), out, 0o644)
	}
	res.CwdBefore, _ = os.Getwd()
	tomlPath := filepath.Join(c.Out, "scenario.toml")
	must(os.WriteFile(tomlPath, []byte(k.toml()), 0o644))

	var in *cfginterp.ConfigInterpreter
	if p := protect(func() { in, err = buildScenarioFromToml(tomlPath) }); p != "" {
		res.BuildError = "panic: " + clip(p, 300)
		writeRes()
		return
	}
	if err != nil {
		res.BuildError = clip(err.Error(), 300)
		writeRes()
		return
	}
	res.Built = true
	ann := in.VerifAnnealer()
	if k.Kind == "fault" {
		installFault(ann, k)
	}
	ef, err := os.OpenFile(filepath.Join(c.Out, "events.log"), os.O_CREATE|os.O_WRONLY|os.O_APPEND, 0o644)
	must(err)
	rec := &runRecorder{f: ef}
	must(ann.AddObserverAsFirst(rec))
	writeRes() // "built, not yet returned": what the parent sees if the process dies inside Run()

	if k.Markers {
		os.Chdir(markerBegin) // does not exist: fails, but shows in the strace output
	}
	t0 := time.Now()
	var runErr error
	p := protect(func() { runErr = in.Scenario().Run() })
	res.WallMs = time.Since(t0).Milliseconds()
	if k.Markers {
		os.Chdir(markerEnd)
	}
	if p != "" {
		res.Panic = clip(p, 300)
	} else {
		res.Returned = true
		if runErr != nil {
			res.RunError = clip(runErr.Error(), 300)
		}
	}
	res.CwdAfter, _ = os.Getwd()
	ef.Close()
	writeRes()
}

func installFault(ann annealing.Annealer, k mrCase) {
	designated := k.Name
	if k.Runs > 1 {
		designated = fmt.Sprintf("%s (%d/%d)", k.Name, k.Designated, k.Runs)
	}
	fe := &faultExplorer{Explorer: ann.SolutionExplorer(), clones: new(int64), designated: designated, at: k.At, asError: k.AsError}
	must(ann.SetSolutionExplorer(fe))
}
