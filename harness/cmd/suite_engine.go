//go:build verif

package main

// engine-seq (property C14, also C15's clauses on every request): random request sequences against the
// real engine API multiplexer (ServeHTTP in-process); after EVERY request all GET resources are read back
// through the same protocol, so the Lean spec's state is compared with the engine's after every step.

import (
	"encoding/json"
	"bytes"
	"fmt"
	"os"
	"path/filepath"
	"sort"
	"strconv"
	"strings"
)

func init() { register("engine-seq", suiteEngineSeq) }

// ---------------------------------------------------------------- quirks observed on the code under test

type engQuirks struct {
	fprintf, patchEager, patchNoRefresh, subStale, solLazy, poolAlias bool
	scenarioEager                                                     bool // also: the other failure paths of POST /scenario are not transcribed -> the sequence is cut there
	nullShadow                                                        bool // Attributes.Has treats a null-valued entry as absent: ReplaceAttribute / Join append a second entry of the name
	joinStale                                                         bool // Attributes.Join asks its receiver, not the list being built: a name posted twice in one PATCH is appended twice
}

func (q engQuirks) line() string {
	return fmt.Sprintf("quirks fprintf=%s patchEager=%s patchNoRefresh=%s subStale=%s solLazy=%s poolAlias=%s scenarioEager=%s nullShadow=%s joinStale=%s",
		b2s(q.fprintf), b2s(q.patchEager), b2s(q.patchNoRefresh), b2s(q.subStale), b2s(q.solLazy), b2s(q.poolAlias), b2s(q.scenarioEager), b2s(q.nullShadow), b2s(q.joinStale))
}

const (
	pScenario   = "/api/v1/scenario"
	pSolutions  = "/api/v1/solutions"
	pModel      = "/api/v1/model"
	pActive     = "/api/v1/model/actions/active"
	pApplicable = "/api/v1/model/actions/applicable"
	pSubPrefix  = "/api/v1/model/subcatchment/"
	ctToml      = "application/toml"
	ctJson      = "application/json"
	ctCsv       = "text/csv"
)

// ---------------------------------------------------------------- one engine under observation

// seqRun drives one engine (A) and a reference engine (B) that receives only the write requests A answered
// with 200: the property says A's readable state is a function of exactly those.
type seqRun struct {
	c   *Ctx
	cat *engCatalogue
	q   engQuirks
	a   *eng
	b   *eng

	scen     *engScenario // scenario A serves (last POST /scenario answered 200 and classified ok)
	scenText []byte
	solText  []byte
	solTable *csvTable
	attrs    map[string]string // user attributes successfully PATCHed: name -> canonical value (last wins)
	ops      []string          // protocol lines since the last reset (replay context of a failure)
	failedSince []string       // failed/ignored requests since A and B last agreed
	readsSince  []string       // solution-pool reads since then
	dead     bool              // sequence must be restarted (panic, divergence, escape hatch)
	quiet    bool              // calibration: nothing is recorded
	inFlush  bool
	announced map[string]bool
	writes   []rawReq          // the writes answered 200 since the last reset, in order (route check: replayed on fresh engines)
	rr       *Rng              // route check: source of random target sets (nil: the current set only)
	last     *readback         // the read-back that ended the previous exec (the next request's "before")
	raw      bool
}

func newSeqRun(c *Ctx, cat *engCatalogue, q engQuirks) *seqRun {
	return &seqRun{c: c, cat: cat, q: q, announced: map[string]bool{}}
}

func (s *seqRun) emit(op, impl string) {
	if s.quiet {
		return
	}
	s.ops = append(s.ops, op)
	s.c.Op(op, impl)
}

func (s *seqRun) fail(pred, sig, detail string) {
	if s.quiet {
		return
	}
	ops := append([]string(nil), s.ops...)
	s.c.Fail(pred, sig, detail, ops)
}

func (s *seqRun) reset() {
	s.a, s.b = newEng(), newEng()
	s.scen, s.scenText, s.solText, s.solTable = nil, nil, nil, nil
	s.attrs = map[string]string{}
	s.failedSince, s.readsSince = nil, nil
	s.dead = false
	s.writes = nil
	s.last = nil
	if !s.quiet {
		s.ops = s.ops[:0]
		s.ops = append(s.ops, s.q.line())
		for k := range s.announced {
			if sc := s.cat.scen[k]; sc != nil {
				s.ops = append(s.ops, sc.universeLine())
			}
		}
		sort.Strings(s.ops[1:])
		s.ops = append(s.ops, "reset")
		s.c.Op("reset", "ok")
	}
}

func (s *seqRun) announce(sc *engScenario) {
	if sc == nil || s.quiet || s.announced[sc.key] {
		return
	}
	s.announced[sc.key] = true
	s.emit(sc.universeLine(), "ok")
}

func (s *seqRun) factsFor(q rawReq) (string, *engScenario, string, []nvp, *csvTable) {
	kind, _ := classifyPathGo(q.path)
	switch {
	case kind == pkScenario && q.method == "POST":
		f, sc, name := s.cat.scenarioFacts(q.body)
		return f, sc, name, nil, nil
	case kind == pkSolutions && q.method == "POST":
		f, t := csvFacts(q.body, "Actions") // action encodings keep their text
		return f, nil, "", nil, t
	case kind == pkActive && q.method == "PUT":
		f, t := csvFacts(q.body)
		return f, nil, "", nil, t
	case kind == pkModel && q.method == "PATCH":
		f, es := patchFacts(q.body)
		return f, nil, "", es, nil
	case kind == pkSub && q.method == "PUT":
		f, es := subFacts(q.body)
		return f, nil, "", es, nil
	}
	return "none", nil, "", nil, nil
}

func (s *seqRun) cx() canonCtx { return canonCtx{scen: s.scen, fprintf: s.q.fprintf} }

// readPaths lists the GET resources read back after every request.
func (s *seqRun) readPaths() []string {
	ps := []string{pScenario, pSolutions, pModel, pActive, pApplicable}
	if s.scen != nil {
		for _, pu := range s.scen.pus {
			ps = append(ps, pSubPrefix+strconv.FormatUint(pu, 10))
		}
	}
	return ps
}

type readback struct {
	toks  []string
	model *modelDoc
	bits  []bool
	raw   map[string][]byte
}

func (s *seqRun) read(e *eng) readback {
	rb := readback{raw: map[string][]byte{}}
	for _, p := range s.readPaths() {
		q := rawReq{method: "GET", path: p}
		resp := e.do(q)
		co := canonResp(s.cx(), q, resp)
		// C15 on every read-back of the engine under test: no panic, documented status, error document, valid JSON
		if e == s.a && !s.quiet && !s.dead {
			s.wellFormed(q, resp, co, "")
			if resp.panicked != "" {
				s.dead = true
			}
		}
		rb.toks = append(rb.toks, co.tok)
		if p == pModel && co.model != nil {
			rb.model, rb.bits = co.model, co.bits
		}
		if p == pActive && rb.bits == nil {
			rb.bits = co.bits
		}
		rb.raw[p] = resp.body
	}
	return rb
}

func isWrite(q rawReq) bool { return q.method != "GET" && q.method != "HEAD" && q.method != "OPTIONS" }

// exec performs one request on A (and on B if A accepted it), records the protocol lines (the request, then the
// read-back GETs as ordinary requests) and evaluates the property's clauses directly.
func (s *seqRun) exec(q rawReq) engResp {
	facts, sc, _, nvps, tbl := s.factsFor(q)
	s.announce(sc)
	kind, subId := classifyPathGo(q.path)

	var before readback
	if !s.quiet {
		if s.last != nil {
			before = *s.last // nothing was sent to the engine since that read-back (route checks use engines of their own)
		} else {
			before = s.read(s.a)
		}
		s.last = nil
	}
	scenBefore := s.scen
	resp := s.a.do(q)

	// what the harness knows after this request (only from the engine's own answers)
	accepted := resp.status == 200 && isWrite(q)
	if accepted && !s.quiet {
		s.writes = append(s.writes, rawReq{method: q.method, path: q.path, ctype: q.ctype, body: append([]byte(nil), q.body...)})
	}
	if accepted && kind == pkScenario && q.method == "POST" {
		if sc != nil {
			s.scen, s.scenText = sc, append([]byte(nil), q.body...)
			s.attrs = map[string]string{}
		}
	}

	var after readback
	if !s.quiet && resp.panicked == "" {
		after = s.read(s.a)
	}
	// oracle: validity of the action sets this request can produce under the scenario's limit
	if s.scen != nil && s.scen.limVar >= 0 && isWrite(q) && !s.quiet && resp.panicked == "" {
		seen := map[string]bool{}
		tell := func(bits []bool) {
			k := bitsTok(bits)
			if bits == nil || seen[k] {
				return
			}
			seen[k] = true
			s.emit("oracle "+escTok(s.scen.key)+" "+k+" "+b2s(s.scen.validAt(bits)), "ok")
		}
		tell(after.bits)
		tell(make([]bool, s.scen.n()))
		for _, e := range nvps {
			if str, isStr := e.Value.(string); isStr && e.Name == "Encoding" {
				if bits, ok := engDecode(s.scen.n(), str); ok {
					tell(bits)
				}
			}
		}
	}

	obs := "-"
	if resp.panicked != "" {
		obs = "panic"
	}
	co := canonResp(s.cx(), q, resp)
	line := reqLine(obs, q, facts)
	tok := co.tok
	if s.raw {
		// engine-raw: only the status is compared with the model
		line = "raw" + strings.TrimPrefix(line, "req")
		if resp.panicked == "" {
			tok = strings.SplitN(tok, " ", 2)[0]
		}
	}
	s.emit(line, tok)
	if s.quiet {
		return resp
	}
	s.stat(q, kind, facts, resp)

	// ---- C15 clauses, evaluated on every request of every suite
	s.wellFormed(q, resp, co, line)
	if resp.panicked != "" {
		s.dead = true
		return resp
	}

	// ---- C14 clauses
	if accepted {
		rb := s.b.do(q)
		if rb.status != 200 {
			s.fail("C14:reads-reflect-writes", "engine:replay-of-successful-writes-diverged",
				fmt.Sprintf("a fresh engine fed only the successful writes answers %d to %s %s which the engine under test answered 200 (failed/ignored requests before it: %v)",
					rb.status, q.method, q.path, s.failedSince))
			s.dead = true
		}
	}
	if s.dead {
		return resp // a read-back GET panicked (reported)
	}
	// a read leaves every resource unchanged: the whole read-back, repeated, gives the same answers (the first pass has
	// GET every resource once, /model/actions/applicable and every subcatchment included)
	if again := s.read(s.a); strings.Join(again.toks, "\n") != strings.Join(after.toks, "\n") {
		s.fail("C14:reads-leave-state", "engine:read-changed-state", fmt.Sprintf("after %s %s -> %d every resource was read once (GET %s); reading them all again gives different answers:\n%s",
			q.method, q.path, resp.status, strings.Join(s.readPaths(), ", GET "), diffToks(s.readPaths(), after.toks, again.toks)))
		s.dead = true
		return resp
	}
	// escape hatch: the failure paths of POST /scenario (other than a non-catchment model) leave Go-object aliasing and
	// sticky interpreter errors behind that the model does not transcribe; while that quirk is observed the sequence is
	// cut right after such a request (the direct checks below still see it)
	hatch := kind == pkScenario && q.method == "POST" && q.ctype == ctToml && s.q.scenarioEager &&
		(strings.HasPrefix(facts, "scen interp") || strings.HasPrefix(facts, "scen loadfail"))
	if !accepted {
		if resp.status != 200 || isWrite(q) {
			s.failedSince = append(s.failedSince, fmt.Sprintf("%s %s -> %d", q.method, q.path, resp.status))
		}
		if scenBefore == s.scen && strings.Join(before.toks, "\n") != strings.Join(after.toks, "\n") {
			sig := "engine:failed-request-changed-state"
			if kind == pkScenario {
				sig += ":post-scenario"
			}
			pred := "C14:error-leaves-state"
			if resp.status == 200 {
				pred, sig = "C14:reads-leave-state", "engine:read-changed-state"
			}
			s.fail(pred, sig, fmt.Sprintf("%s %s answered %d but the readable resources changed:\n%s", q.method, q.path, resp.status, diffToks(s.readPaths(), before.toks, after.toks)))
			s.dead = true
		}
	}
	if !s.dead {
		refRb := s.read(s.b)
		if strings.Join(refRb.toks, "\n") != strings.Join(after.toks, "\n") {
			sig, pred := "engine:failed-request-changed-state", "C14:error-leaves-state"
			for _, f := range s.failedSince {
				if strings.Contains(f, pScenario) {
					sig = "engine:failed-request-changed-state:post-scenario"
				}
			}
			if len(s.failedSince) == 0 {
				sig, pred = "engine:read-changed-state", "C14:reads-leave-state"
			}
			s.fail(pred, sig,
				fmt.Sprintf("the engine's readable resources differ from those of a fresh engine that received only the successfully answered writes; requests not replayed: %v %v\n%s",
					s.failedSince, s.readsSince, diffToks(s.readPaths(), refRb.toks, after.toks)))
			s.dead = true
		} else if accepted {
			s.failedSince = nil
			s.readsSince = nil
		}
	}
	if !isWrite(q) && resp.status == 200 && kind == pkSolution {
		s.readsSince = append(s.readsSince, "GET "+q.path)
	}
	// the read-back goes through the protocol as ordinary GET requests (the model answers them from its own state);
	// not when a direct check has just established that the engine's state is not the one the writes describe
	if !s.raw && !hatch && !s.dead {
		for i, p := range s.readPaths() {
			s.emit(reqLine("-", rawReq{method: "GET", path: p}, "none"), after.toks[i])
		}
	}
	if accepted && !s.dead {
		s.checkWrite(q, kind, subId, nvps, tbl, before, after)
	}
	if !s.dead {
		s.checkTexts(after)
	}
	if hatch {
		s.dead = true
	}
	// GET /solutions/<label> fills the solution pool from clones that share the live model's attribute array (quirk
	// poolAlias): force a snapshot refresh with a no-op table so that any damage becomes readable now (and is reported
	// by the comparison with the reference engine inside that exec)
	flushed := false
	if !s.dead && s.q.poolAlias && kind == pkSolution && q.method == "GET" && resp.status == 200 && !s.inFlush {
		s.inFlush, flushed = true, true
		s.exec(rawReq{method: "PUT", path: pActive, ctype: ctCsv, body: []byte("SubCatchment\n")})
		s.inFlush = false
	}
	if kind == pkScenario && q.method == "POST" && resp.status == 200 && sc == nil {
		s.dead = true // accepted something the harness cannot describe
	}
	if !s.dead && !s.inFlush && !flushed {
		s.last = &after
	}
	return resp
}

func diffToks(paths, a, b []string) string {
	var sb strings.Builder
	for i := range paths {
		if i < len(a) && i < len(b) && a[i] != b[i] {
			fmt.Fprintf(&sb, "  GET %s\n    expected: %s\n    observed: %s\n", paths[i], clip(a[i], 600), clip(b[i], 600))
		}
	}
	if len(a) != len(b) {
		fmt.Fprintf(&sb, "  %d vs %d resources\n", len(a), len(b))
	}
	return sb.String()
}

// wellFormed evaluates property C15 on one response.
func (s *seqRun) wellFormed(q rawReq, resp engResp, co canonOut, line string) {
	if resp.panicked != "" {
		s.c.Fail("C15:no-panic", "engine:panic:"+resp.site, fmt.Sprintf("%s %s (content type %q, body %q) panicked: %s", q.method, q.path, q.ctype, clip(string(q.body), 300), resp.panicked),
			append(append([]string(nil), s.ops...)))
		return
	}
	switch resp.status {
	case 200, 400, 404, 405, 415, 500, 503:
	default:
		s.c.Fail("C15:status-documented", "engine:undocumented-status", fmt.Sprintf("%s %s -> %d", q.method, q.path, resp.status), append([]string(nil), s.ops...))
	}
	for _, n := range co.notes {
		s.c.Fail("C15:"+n, "engine:"+n, fmt.Sprintf("%s %s -> %d %s body %q", q.method, q.path, resp.status, resp.header.Get("Content-Type"), clip(string(resp.body), 300)), append([]string(nil), s.ops...))
	}
	// "a malformed body is a client error rather than silent acceptance": a body declared as JSON that is not ONE JSON
	// value (trailing bytes, a second value, truncation) is never answered 200 by the endpoints that read JSON
	if resp.status == 200 && (q.method == "PATCH" || q.method == "PUT") && strings.HasPrefix(q.ctype, ctJson) &&
		(q.path == pModel || strings.HasPrefix(q.path, pSubPrefix)) && !json.Valid(q.body) {
		s.c.Fail("C15:malformed-body-is-client-error", "engine:malformed-json-accepted", fmt.Sprintf("%s %s with a body that is not one JSON value (%q) was answered 200", q.method, q.path, clip(string(q.body), 200)), append([]string(nil), s.ops...))
	}
}

// managedAttr: the names deriveExtraModelAttributes manages whatever the engine's state (ParetoFrontMember is managed
// only while a solution table is loaded; before that an entry of that name is an ordinary posted attribute).
var managedAttr = map[string]bool{"Encoding": true, "ValidAgainstScenario": true, "ValidationErrors": true}

// nvpAll: the canonical JSON values of EVERY entry with that name, in order.  The property demands that a name is
// listed once ("identical model representations"): a second entry is a finding, never accepted silently.
func nvpAll(as []nvp, name string) []string {
	var out []string
	for _, a := range as {
		if a.Name == name {
			out = append(out, canonJSON(a.Value))
		}
	}
	return out
}

func nvpGet(as []nvp, name string) (interface{}, bool) {
	for _, a := range as {
		if a.Name == name {
			return a.Value, true
		}
	}
	return nil, false
}

// intended computes "the active actions last set" for an accepted write, from the set shown before it.
func (s *seqRun) intended(q rawReq, kind pathKind, subId string, nvps []nvp, tbl *csvTable, before []bool) []bool {
	if s.scen == nil || before == nil {
		return nil
	}
	out := append([]bool(nil), before...)
	switch {
	case kind == pkScenario:
		return make([]bool, s.scen.n())
	case kind == pkModel && q.method == "PATCH":
		for _, e := range nvps {
			if str, isStr := e.Value.(string); isStr && e.Name == "Encoding" {
				if bits, ok := engDecode(s.scen.n(), str); ok {
					out = bits
				}
			}
		}
	case kind == pkSub && q.method == "PUT":
		pu, err := strconv.ParseUint(subId, 10, 64)
		if err != nil {
			return nil
		}
		for _, e := range nvps {
			if i := s.scen.actIndex(pu, e.Name); i >= 0 {
				out[i] = e.Value == "Active"
			}
		}
	case kind == pkActive && q.method == "PUT":
		if tbl == nil {
			return nil
		}
		for _, row := range tbl.rows {
			if len(row) == 0 || row[0].kind != 'n' || !(row[0].f >= 0 && row[0].f < 1.8e19) {
				continue
			}
			pu := uint64(row[0].f)
			for ci := 1; ci < len(row) && ci < len(tbl.header); ci++ {
				if i := s.scen.actIndex(pu, tbl.header[ci]); i >= 0 {
					out[i] = row[ci].f == 1
				}
			}
		}
	}
	return out
}

// checkWrite: after a write answered 200 the readable resources must describe it.
func (s *seqRun) checkWrite(q rawReq, kind pathKind, subId string, nvps []nvp, tbl *csvTable, before, after readback) {
	sig := "engine:read-does-not-reflect-write"
	pred := "C14:reads-reflect-writes"
	what := fmt.Sprintf("after %s %s answered 200: ", q.method, q.path)
	if kind == pkSolutions {
		s.solText = append([]byte(nil), q.body...)
		s.solTable = tbl
	}
	if kind == pkSolutions {
		delete(s.attrs, "ParetoFrontMember") // from now on the engine derives it
	}
	if kind == pkModel && q.method == "PATCH" {
		for _, e := range nvps {
			if managedAttr[e.Name] || (e.Name == "ParetoFrontMember" && s.solTable != nil) {
				continue
			}
			s.attrs[e.Name] = canonJSON(e.Value) // a null value too: the entry is listed, with value null
		}
	}
	if s.scen == nil || after.model == nil {
		if s.scen != nil {
			s.fail(pred, sig, what+"GET /model is not a model document")
		}
		return
	}
	prev := before.bits
	if kind == pkScenario {
		prev = make([]bool, s.scen.n())
	}
	if want := s.intended(q, kind, subId, nvps, tbl, prev); want != nil && bitsTok(want) != bitsTok(after.bits) {
		s.fail(pred, sig, what+"active actions shown "+bitsTok(after.bits)+", last set "+bitsTok(want))
	}
	d := after.model
	// exactly ONE entry of the name, carrying the value; `want == ""`: no entry of the name at all
	exactly := func(name, want, sigWrong, why string) {
		vals := nvpAll(d.Attributes, name)
		switch {
		case want == "" && len(vals) == 0:
		case want != "" && len(vals) == 1 && vals[0] == want:
		case len(vals) > 1:
			s.fail(pred, "engine:attribute-listed-twice", what+fmt.Sprintf("GET /model lists %d entries named %q (values %s); %s", len(vals), name, strings.Join(vals, ", "), why))
		case want == "":
			s.fail(pred, sigWrong, what+fmt.Sprintf("GET /model lists %q = %s; %s", name, vals[0], why))
		case len(vals) == 0:
			s.fail(pred, sigWrong, what+fmt.Sprintf("GET /model lists no entry named %q; %s", name, why))
		default:
			s.fail(pred, sigWrong, what+fmt.Sprintf("GET /model lists %q = %s; %s", name, vals[0], why))
		}
	}
	encSig := sig
	if kind == pkSub {
		encSig = "engine:route-dependent-representation"
	}
	exactly("Encoding", canonJSON(engEncode(after.bits)), encSig, fmt.Sprintf("it shows active actions %s, whose encoding is %s", bitsTok(after.bits), engEncode(after.bits)))
	valid := s.scen.validAt(after.bits)
	exactly("ValidAgainstScenario", canonJSON(valid), sig, fmt.Sprintf("the scenario's limit says %v for %s", valid, bitsTok(after.bits)))
	if valid {
		exactly("ValidationErrors", "", sig, "the set shown is valid against the scenario")
	} else {
		// the message describes THIS set: it is what a freshly initialised model at exactly this set reports
		exactly("ValidationErrors", canonJSON(s.scen.veTextAt(after.bits)), "engine:stale-validation-errors",
			fmt.Sprintf("the set shown, %s, is invalid against the scenario and a freshly initialised model at that set reports %q", bitsTok(after.bits), s.scen.veTextAt(after.bits)))
	}
	if s.solTable != nil {
		want := false
		L := len(s.solTable.header)
		for ri, row := range s.solTable.rows {
			if ri >= 1 && L >= 2 && row[L-2].str == engEncode(after.bits) {
				want = true
			}
		}
		exactly("ParetoFrontMember", canonJSON(want), sig, fmt.Sprintf("a solution set is loaded and says %v for encoding %s", want, engEncode(after.bits)))
	}
	names := make([]string, 0, len(s.attrs))
	for name := range s.attrs {
		names = append(names, name)
	}
	sort.Strings(names)
	for _, name := range names {
		exactly(name, s.attrs[name], sig, fmt.Sprintf("the last successful PATCH of that attribute set it to %s", s.attrs[name]))
	}
}

// checkTexts: the text resources are returned byte for byte as posted.
func (s *seqRun) checkTexts(after readback) {
	if s.scenText != nil {
		if got := after.raw[pScenario]; !bytes.Equal(got, s.scenText) {
			s.fail("C14:text-verbatim", "engine:text-not-verbatim", fmt.Sprintf("GET /scenario returns %q, posted %q", clip(string(got), 300), clip(string(s.scenText), 300)))
		}
	}
	if s.solText != nil {
		if got := after.raw[pSolutions]; !bytes.Equal(got, s.solText) {
			s.fail("C14:text-verbatim", "engine:text-not-verbatim", fmt.Sprintf("GET /solutions returns %q, posted %q", clip(string(got), 300), clip(string(s.solText), 300)))
		}
	}
}

func (s *seqRun) stat(q rawReq, kind pathKind, facts string, resp engResp) {
	kn := []string{"other", "root", "scenario", "solutions", "solution", "model", "active", "applicable", "sub"}[kind]
	phase := "empty"
	if s.scen != nil {
		phase = "scenario"
		if s.solTable != nil {
			phase = "scenario+solutions"
		}
	}
	fw := strings.Fields(facts)
	cls := fw[0]
	if len(fw) > 1 && (fw[0] == "scen" || fw[1] == "bad" || fw[1] == "err") {
		cls += "-" + fw[1]
	}
	st := strconv.Itoa(resp.status)
	if resp.panicked != "" {
		st = "panic"
	}
	m := q.method
	if len(m) > 7 {
		m = "other"
	}
	key := fmt.Sprintf("%s %s | %s | %s | %s", m, kn, phase, cls, st)
	s.c.Stat(key)
	if kind != pkOther && !(q.method == "GET" && resp.status == 404 && phase == "empty") {
		s.c.Nontrivial(key + " | " + ctBucket(q.ctype))
	}
}

func ctBucket(ct string) string {
	switch ct {
	case "", ctToml, ctJson, ctCsv:
		return ct
	}
	return "other"
}

// ---------------------------------------------------------------- route independence

func (s *seqRun) fullTableCsv(sc *engScenario, bits []bool) []byte {
	var sb strings.Builder
	sb.WriteString("SubCatchment,GullyRestoration,HillSlopeRestoration,RiverBankRestoration,WetlandsEstablishment\n")
	for _, pu := range sc.pus {
		fmt.Fprintf(&sb, "%d", pu)
		for _, t := range []string{"GullyRestoration", "HillSlopeRestoration", "RiverBankRestoration", "WetlandsEstablishment"} {
			v := "0"
			if i := sc.actIndex(pu, t); i >= 0 && bits[i] {
				v = "1"
			}
			sb.WriteString("," + v)
		}
		sb.WriteString("\n")
	}
	return []byte(sb.String())
}

func subBody(sc *engScenario, pu uint64, bits []bool) []byte {
	var items []string
	for _, t := range sc.typesAt(pu) {
		v := "Inactive"
		if bits[sc.actIndex(pu, t)] {
			v = "Active"
		}
		items = append(items, fmt.Sprintf(`{"Name":%q,"Value":%q}`, t, v))
	}
	return []byte("[" + strings.Join(items, ",") + "]")
}

// fullModelTok is the complete canonical representation of a GET /model answer: id, decision variables (checked against
// the reference model at the set shown), active actions, the WHOLE attribute list (sorted; duplicates kept) and — unlike
// the protocol token — the text of every ValidationErrors entry.
func fullModelTok(co canonOut) string {
	if co.model == nil {
		return "no-model: " + co.tok
	}
	return co.tok + " VE-text=" + strings.Join(nvpAll(co.model.Attributes, "ValidationErrors"), "|")
}

// routeCheck: "reaching the same action set by whole-table upload, per-subcatchment updates or an encoding patch gives
// identical model representations".  Three fresh engines are brought into the state of the engine under test by
// replaying its successful writes (so the routes start from the CURRENT state, posted attributes, loaded solution set
// and all), then a target set — the set currently shown, or a random one — is reached on each by one of the routes, and
// the COMPLETE model representations are compared with each other; when the target is the current set they must also
// equal the engine's own representation (setting the set it already has changes nothing).
func (s *seqRun) routeCheck() {
	if s.scen == nil || s.scenText == nil || s.dead || s.quiet {
		return
	}
	cur := s.read(s.a)
	if cur.bits == nil || cur.model == nil {
		return
	}
	getModel := rawReq{method: "GET", path: pModel}
	own := fullModelTok(canonResp(s.cx(), getModel, s.a.do(getModel)))
	target, same := cur.bits, true
	if s.rr != nil && s.rr.Chance(0.5) {
		target, same = make([]bool, s.scen.n()), false
		p := s.rr.Float()
		for i := range target {
			target[i] = s.rr.Chance(p)
		}
	}
	routes := []string{"table", "subcatchments", "encoding"}
	reprs := make([]string, 3)
	for ri, route := range routes {
		e := newEng()
		for _, w := range s.writes {
			if r := e.do(w); r.status != 200 {
				return // the reference-engine comparison of exec reports this
			}
		}
		var rejected []string
		do := func(q rawReq) {
			if r := e.do(q); r.status != 200 {
				rejected = append(rejected, fmt.Sprintf("%s %s -> %d", q.method, q.path, r.status))
			}
		}
		switch route {
		case "table":
			do(rawReq{method: "PUT", path: pActive, ctype: ctCsv, body: s.fullTableCsv(s.scen, target)})
		case "subcatchments":
			for _, pu := range s.scen.pus {
				if len(s.scen.typesAt(pu)) > 0 {
					do(rawReq{method: "PUT", path: pSubPrefix + strconv.FormatUint(pu, 10), ctype: ctJson, body: subBody(s.scen, pu, target)})
				}
			}
		case "encoding":
			do(rawReq{method: "PATCH", path: pModel, ctype: ctJson, body: []byte(fmt.Sprintf(`[{"Name":"Encoding","Value":%q}]`, engEncode(target)))})
		}
		reprs[ri] = fullModelTok(canonResp(s.cx(), getModel, e.do(getModel)))
		if len(rejected) > 0 {
			reprs[ri] = "route rejected (" + strings.Join(rejected, "; ") + ") " + reprs[ri]
		}
	}
	s.c.Stat("route-check")
	if same {
		s.c.Stat("route-check: target = current set")
	}
	wantR := "R" + escTok(s.scen.key) + ":" + bitsTok(target) + " "
	switch {
	case reprs[0] != reprs[1] || reprs[1] != reprs[2]:
		s.fail("C14:route-independent", "engine:route-dependent-representation",
			fmt.Sprintf("after the %d successful writes of this sequence, active set %s reached by\n  whole-table PUT:        %s\n  per-subcatchment PUTs:  %s\n  encoding PATCH:         %s",
				len(s.writes), bitsTok(target), clip(reprs[0], 700), clip(reprs[1], 700), clip(reprs[2], 700)))
	case !strings.Contains(reprs[0], " "+wantR):
		s.fail("C14:route-independent", "engine:route-dependent-representation",
			fmt.Sprintf("the three routes to active set %s agree on a representation that does not show that set (or whose variables are not those of that set): %s", bitsTok(target), clip(reprs[0], 700)))
	case same && own != reprs[0]:
		s.fail("C14:route-independent", "engine:route-dependent-representation",
			fmt.Sprintf("active set %s: the engine under test shows\n  %s\nsetting that same set again (on an engine that received the same successful writes) shows\n  %s", bitsTok(target), clip(own, 700), clip(reprs[0], 700)))
	}
}

// ---------------------------------------------------------------- start-up routes

// startupCheck: cmd/cremengine brings the engine into its initial state with RestServer.SetScenario / SetSolution /
// SetSolutionSummary (files named on the command line) before it serves anything.  One engine is built that way and one
// engine receives the same three texts as POST /scenario, PUT /model/actions/active and POST /solutions (through exec, so
// that the Lean spec and every direct check see them): every readable resource of the two must agree.  Solution and
// summary files the handlers would answer 400 to are ignored at start-up (logged), exactly like the failed request.
func (s *seqRun) startupCheck(g *engGen) {
	s.reset()
	sc := g.scs[g.r.Intn(len(g.scs))]
	lim := map[string]float64{}
	if sc.limVar >= 0 {
		lim[varMaxKey[sc.limVar]] = sc.limit
	}
	scenBody := []byte(scenarioText("startup "+g.text(g.jsonPct()), "CatchmentModel", sc.dsRel, lim, g.text(true)))
	if r := s.exec(rawReq{method: "POST", path: pScenario, ctype: ctToml, body: scenBody}); r.status != 200 || s.dead {
		return
	}
	dir := filepath.Join(s.c.Out, "startup")
	must(os.MkdirAll(dir, 0o755))
	scenFile := filepath.Join(dir, "scenario.toml")
	must(os.WriteFile(scenFile, scenBody, 0o644))
	var solFile, sumFile string
	if g.r.Chance(0.8) {
		q := g.activeReq(s)
		q.ctype = ctCsv
		s.exec(q)
		solFile = filepath.Join(dir, "solution.csv")
		must(os.WriteFile(solFile, q.body, 0o644))
	}
	if !s.dead && g.r.Chance(0.8) {
		q := g.solutionsReq(s)
		q.ctype = ctCsv
		s.exec(q)
		sumFile = filepath.Join(dir, "summary.csv")
		must(os.WriteFile(sumFile, q.body, 0o644))
	}
	if s.dead {
		return
	}
	e := newEng()
	what := "SetScenario"
	panicked := protect(func() {
		e.rs.SetScenario(scenFile)
		if solFile != "" {
			what = "SetSolution"
			e.rs.SetSolution(solFile)
		}
		if sumFile != "" {
			what = "SetSolutionSummary"
			e.rs.SetSolutionSummary(sumFile)
		}
	})
	s.c.Stat(fmt.Sprintf("start-up: scenario solution=%s summary=%s", b2s(solFile != ""), b2s(sumFile != "")))
	if panicked != "" {
		s.fail("C14:startup-routes", "engine:startup-route-panics", fmt.Sprintf("%s with the text the request handler accepts or answers 400 to panicked: %s", what, panicked))
		return
	}
	viaRequests, viaStartup := s.read(s.a), s.read(e)
	if strings.Join(viaRequests.toks, "\n") != strings.Join(viaStartup.toks, "\n") {
		s.fail("C14:startup-routes", "engine:startup-route-differs",
			fmt.Sprintf("an engine initialised with SetScenario / SetSolution / SetSolutionSummary shows other resources than an engine that received the same texts as POST /scenario, PUT /model/actions/active, POST /solutions:\n%s",
				diffToks(s.readPaths(), viaRequests.toks, viaStartup.toks)))
	}
	for i, p := range s.readPaths() {
		if (p == pScenario || p == pSolutions) && strings.HasPrefix(viaRequests.toks[i], "200 text") && !bytes.Equal(viaRequests.raw[p], viaStartup.raw[p]) {
			s.fail("C14:text-verbatim", "engine:text-not-verbatim", fmt.Sprintf("GET %s after start-up from a file returns %q, the file holds %q", p, clip(string(viaStartup.raw[p]), 300), clip(string(viaRequests.raw[p]), 300)))
		}
	}
}

// ---------------------------------------------------------------- calibration: one fixed minimal reproduction per quirk

func validScenarioBody(name, comment string) []byte {
	return []byte(scenarioText(name, "CatchmentModel", "ds/valid/ValidModel.csv", nil, comment))
}

func getModelDoc(e *eng, sc *engScenario) *modelDoc {
	q := rawReq{method: "GET", path: pModel}
	co := canonResp(canonCtx{scen: sc}, q, e.do(q))
	return co.model
}

func hasAttr(d *modelDoc, name string) bool {
	if d == nil {
		return false
	}
	_, ok := nvpGet(d.Attributes, name)
	return ok
}

func validSolutionsCsv(sc *engScenario, rows [][]bool, zeroRowAt int) []byte {
	var sb strings.Builder
	sb.WriteString("Solution")
	for _, v := range sc.asIs {
		sb.WriteString(", " + v.name)
	}
	sb.WriteString(", Actions, Summary\n")
	sb.WriteString("As-Is")
	for _, v := range sc.asIs {
		sb.WriteString(", " + strconv.FormatFloat(v.val, 'f', -1, 64))
	}
	sb.WriteString(", " + engEncode(make([]bool, sc.n())) + ", As-is state; zero active management actions\n")
	for i, bits := range rows {
		fmt.Fprintf(&sb, "%d-of-%d", i+1, len(rows))
		for range sc.asIs {
			sb.WriteString(", 1.5")
		}
		fmt.Fprintf(&sb, ", %s, Pareto front member %d of %d\n", engEncode(bits), i+1, len(rows))
	}
	_ = zeroRowAt
	return []byte(sb.String())
}

// calibrate observes which of the known divergences from the demanded behaviour the code under test has.
// Each experiment is replayed afterwards as a recorded sequence, where the direct checks report it.
func calibrate(cat *engCatalogue) (engQuirks, [][]rawReq) {
	var q engQuirks
	var scripts [][]rawReq
	sc := cat.scenario("ds/valid/ValidModel.csv", -1, 0)
	if sc == nil {
		panic("shipped data set ds/valid/ValidModel.csv does not load in the reference model")
	}
	post := func(e *eng, r rawReq) engResp { return e.do(r) }
	scenReq := func(name, comment string) rawReq {
		return rawReq{method: "POST", path: pScenario, ctype: ctToml, body: validScenarioBody(name, comment)}
	}
	pu := sc.acts[0].pu
	typ := sc.acts[0].typ
	subOn := rawReq{method: "PUT", path: pSubPrefix + strconv.FormatUint(pu, 10), ctype: ctJson, body: []byte(fmt.Sprintf(`[{"Name":%q,"Value":"Active"}]`, typ))}

	// D11: text used as a printf format
	{
		script := []rawReq{scenReq("calibration", "100% sure %s %d %%"), {method: "GET", path: pScenario}}
		e := newEng()
		post(e, script[0])
		r := post(e, script[1])
		q.fprintf = !bytes.Equal(r.body, script[0].body)
		scripts = append(scripts, script)
	}
	// D12: a PATCH answered 400 has already joined the posted attributes
	{
		script := []rawReq{scenReq("calibration", ""),
			{method: "PATCH", path: pModel, ctype: ctJson, body: []byte(`[{"Name":"Probe","Value":1},{"Name":"Encoding","Value":"zz"}]`)},
			subOn}
		e := newEng()
		for _, r := range script {
			post(e, r)
		}
		q.patchEager = hasAttr(getModelDoc(e, sc), "Probe")
		scripts = append(scripts, script)
	}
	// a successful PATCH without Encoding is not shown by GET /model
	{
		script := []rawReq{scenReq("calibration", ""),
			{method: "PATCH", path: pModel, ctype: ctJson, body: []byte(`[{"Name":"Probe","Value":1}]`)}}
		e := newEng()
		for _, r := range script {
			post(e, r)
		}
		q.patchNoRefresh = !hasAttr(getModelDoc(e, sc), "Probe")
		scripts = append(scripts, script)
	}
	// PUT subcatchment: snapshot taken before the derived attributes are refreshed
	{
		script := []rawReq{scenReq("calibration", ""), subOn}
		e := newEng()
		for _, r := range script {
			post(e, r)
		}
		d := getModelDoc(e, sc)
		if d != nil {
			enc, _ := nvpGet(d.Attributes, "Encoding")
			bits, _ := activeBits(sc, d.ActiveManagementActions)
			q.subStale = enc != engEncode(bits)
		}
		scripts = append(scripts, script)
	}
	// POST /solutions does not refresh the served model's front membership
	one := make([]bool, sc.n())
	one[0] = true
	{
		script := []rawReq{scenReq("calibration", ""),
			{method: "POST", path: pSolutions, ctype: ctCsv, body: validSolutionsCsv(sc, [][]bool{one}, -1)}}
		e := newEng()
		var last engResp
		for _, r := range script {
			last = post(e, r)
		}
		if last.status == 200 {
			q.solLazy = !hasAttr(getModelDoc(e, sc), "ParetoFrontMember")
		}
		scripts = append(scripts, script)
	}
	// re-POST of the scenario with a solution table loaded whose front contains the as-is set
	{
		zero := make([]bool, sc.n())
		script := []rawReq{scenReq("calibration", ""),
			{method: "POST", path: pSolutions, ctype: ctCsv, body: validSolutionsCsv(sc, [][]bool{one, zero}, -1)},
			scenReq("calibration", "")}
		e := newEng()
		ok := true
		for _, r := range script {
			if post(e, r).status != 200 {
				ok = false
			}
		}
		if ok {
			if d := getModelDoc(e, sc); d != nil {
				v, _ := nvpGet(d.Attributes, "ParetoFrontMember")
				q.poolAlias = v == false
			}
		}
		scripts = append(scripts, script)
	}
	// POST /scenario that fails after the text has been stored
	{
		script := []rawReq{{method: "POST", path: pScenario, ctype: ctToml, body: []byte(scenarioText("calibration", "NoSuchModel", "", nil, ""))},
			{method: "GET", path: pScenario}}
		e := newEng()
		post(e, script[0])
		r := post(e, script[1])
		q.scenarioEager = r.status == 200
		scripts = append(scripts, script)
	}
	countAttr := func(d *modelDoc, name string) int {
		if d == nil {
			return 0
		}
		return len(nvpAll(d.Attributes, name))
	}
	// a null-valued entry does not count as present: the next ReplaceAttribute / Join of the name appends a second entry
	{
		script := []rawReq{scenReq("calibration", ""),
			{method: "PATCH", path: pModel, ctype: ctJson, body: []byte(`[{"Name":"Probe","Value":null}]`)},
			{method: "PATCH", path: pModel, ctype: ctJson, body: []byte(`[{"Name":"Probe","Value":1}]`)}}
		e := newEng()
		for _, r := range script {
			post(e, r)
		}
		q.nullShadow = countAttr(getModelDoc(e, sc), "Probe") > 1
		// the consequence for the derived attributes: ValidAgainstScenario listed twice, and differently often by route
		scripts = append(scripts, script, []rawReq{scenReq("calibration", ""),
			{method: "PATCH", path: pModel, ctype: ctJson, body: []byte(`[{"Name":"ValidAgainstScenario","Value":null}]`)},
			subOn})
	}
	// a name posted twice in one PATCH is appended twice (Join asks its receiver)
	{
		script := []rawReq{scenReq("calibration", ""),
			{method: "PATCH", path: pModel, ctype: ctJson, body: []byte(`[{"Name":"Probe","Value":1},{"Name":"Probe","Value":2}]`)}}
		e := newEng()
		for _, r := range script {
			post(e, r)
		}
		q.joinStale = countAttr(getModelDoc(e, sc), "Probe") > 1
		scripts = append(scripts, script)
	}
	return q, scripts
}

// ---------------------------------------------------------------- generators

type engGen struct {
	r   *Rng
	cat *engCatalogue
	q   engQuirks
	scs []*engScenario // scenarios this shard posts
}

// c14BigText bounds the padding of an occasional large accepted text (x 22 bytes; the protocol line carries it in hex)
const c14BigText = 12000

var funnyTexts = []string{"100% sure %s", "%", "%%", "%!", "%d%v%+v", "% x", "%[1]d", "%*d", "é€😀", "tab\there", "semi;colon", "a b", "",
	// texts that LOOK like JSON escapes (a literal backslash followed by u003c …), markup, quotes and backslashes: whatever the
	// engine echoes into a JSON document must stay valid JSON and read back verbatim
	`\u003cGully\u003e`, `a\u0026b`, `back\slash\\twice`, `<b>&amp;</b>`, `quote"in`, `\"`, `\u00`}

func (g *engGen) text(pct bool) string {
	for {
		t := funnyTexts[g.r.Intn(len(funnyTexts))]
		if !pct && strings.Contains(t, "%") {
			continue
		}
		return t
	}
}

// jsonSafePct: may strings that travel inside JSON documents contain '%'?  Not while the printf quirk mangles them
// (the quirk is reported through the text resources; the model does not transcribe fmt's verb grammar).
func (g *engGen) jsonPct() bool { return !g.q.fprintf }

func (g *engGen) scenarioReq(h *seqRun) rawReq {
	r := g.r
	ct := ctToml
	if r.Chance(0.08) {
		ct = []string{"", "text/plain", ctJson, "application/toml; charset=utf-8", ctCsv}[r.Intn(5)]
	}
	name := "S" + strconv.Itoa(r.Intn(5))
	if r.Chance(0.3) {
		name += " " + g.text(g.jsonPct())
	}
	comment := ""
	if r.Chance(0.6) {
		comment = g.text(true) + " " + g.text(true)
		comment = strings.ReplaceAll(comment, "\t", " ")
	}
	var body string
	switch k := r.Intn(100); {
	case k < 72:
		sc := g.scs[r.Intn(len(g.scs))]
		lim := map[string]float64{}
		if sc.limVar >= 0 {
			lim[varMaxKey[sc.limVar]] = sc.limit
		}
		body = scenarioText(name, "CatchmentModel", sc.dsRel, lim, comment)
		// accepted texts are not all tidy: CRLF line ends, no final newline, a byte-order mark, large
		switch d := r.Intn(100); {
		case d < 8:
			body = strings.ReplaceAll(body, "\n", "\r\n")
		case d < 14:
			body = strings.TrimSuffix(body, "\n")
		case d < 17:
			body = "\xef\xbb\xbf" + body
		case d < 19:
			body += "# " + strings.Repeat("padding %s 0123456789 ", 1+r.Intn(c14BigText)) + "\n"
		}
	case k < 78:
		body = []string{"this is = not [toml", "[Scenario]\nName = 5\n", "[Scenario\nName = \"x\"", "\x00\xff"}[r.Intn(4)]
	case k < 84:
		body = scenarioText(name, []string{"NoSuchModel", "", "catchmentmodel"}[r.Intn(3)], "", nil, comment)
	case k < 88:
		body = scenarioText(name, "CatchmentModel", "ds/valid/ValidModel.csv", map[string]float64{"MaximumImplementationCost": 5e4, "MaximumOpportunityCost": 5e4}, comment)
	case k < 91:
		body = scenarioText(name, "CatchmentModel", "ds/nowhere/Model.csv", nil, comment)
	case k < 94:
		body = scenarioText(name, "DumbModel", "x", nil, comment)
	case k < 97:
		body = scenarioText(name, []string{"DumbModel", "NullModel", "MultiObjectiveDumbModel"}[r.Intn(3)], "", nil, comment)
	default:
		body = ""
	}
	return rawReq{method: "POST", path: pScenario, ctype: ct, body: []byte(body)}
}

func (g *engGen) randomBits(n int) []bool {
	bits := make([]bool, n)
	switch g.r.Intn(5) {
	case 0:
	case 1:
		for i := range bits {
			bits[i] = true
		}
	default:
		p := g.r.Float()
		for i := range bits {
			bits[i] = g.r.Chance(p)
		}
	}
	return bits
}

func (g *engGen) solutionsReq(h *seqRun) rawReq {
	r := g.r
	ct := ctCsv
	if r.Chance(0.08) {
		ct = []string{"", "text/plain", ctJson, "text/csv; charset=utf-8"}[r.Intn(4)]
	}
	sc := h.scen
	if sc == nil {
		sc = g.scs[0]
	}
	cur := h.read(h.a).bits
	sep := ","
	if r.Chance(0.5) {
		sep = ", "
	}
	varNames := make([]string, len(sc.asIs))
	for i, v := range sc.asIs {
		varNames[i] = v.name
	}
	header := append(append([]string{"Solution"}, varNames...), "Actions", "Summary")
	var rows [][]string
	asIsRow := []string{"As-Is"}
	for _, v := range sc.asIs {
		asIsRow = append(asIsRow, strconv.FormatFloat(v.val, 'f', -1, 64))
	}
	asIsRow = append(asIsRow, engEncode(make([]bool, sc.n())), "As-is state; zero active management actions")
	rows = append(rows, asIsRow)
	k := r.Intn(6)
	for i := 0; i < k; i++ {
		bits := g.randomBits(sc.n())
		if cur != nil && r.Chance(0.3) {
			bits = cur
		}
		t := sc.totalsAt(bits)
		byName := map[string]float64{}
		for vi, nme := range varNames2() {
			byName[nme] = t[vi]
		}
		row := []string{fmt.Sprintf("%d-of-%d", i+1, k)}
		for _, v := range sc.asIs {
			row = append(row, strconv.FormatFloat(byName[v.name], 'f', 3, 64))
		}
		enc := engEncode(bits)
		if r.Chance(0.1) {
			enc = strings.ToLower(enc)
		}
		if r.Chance(0.05) {
			enc = "0" + enc
		}
		summary := fmt.Sprintf("Pareto front member %d of %d", i+1, k)
		if r.Chance(0.2) {
			summary += " " + g.text(true)
		}
		row = append(row, enc, summary)
		rows = append(rows, row)
	}
	// the As-Is row is not always the first one, and not always there
	if len(rows) > 1 && r.Chance(0.15) {
		rows[0], rows[1] = rows[1], rows[0]
	} else if len(rows) > 1 && r.Chance(0.05) {
		rows = rows[1:]
	}
	// magnitudes: huge, non-finite and boundary numbers (every spelling below is a NUMBER to the CSV caster) in an As-Is
	// cell — with every cell to its left still matching the scenario, or not — and in the numeric cells of other rows
	if r.Chance(0.12) {
		big := []string{"1e305", "1.797e305", "1.8e305", "1e306", "1.797e306", "1e307", "1e308", "1.7976931348623157e308", "-1e306", "-1e308",
			"Inf", "+Inf", "-Inf", "Infinity", "-Infinity", "inf", "NaN", "nan", "5e-324", "-5e-324", "0x1p1023", "1e-400", "99999999999999999999"}[r.Intn(23)]
		ri := r.Intn(len(rows))
		if r.Chance(0.6) {
			for i, row := range rows {
				if row[0] == "As-Is" {
					ri = i
				}
			}
		}
		ci := 1 + r.Intn(len(sc.asIs))
		if r.Chance(0.5) {
			ci = 1
		}
		rows[ri][ci] = big
	}
	// defects of the table, one at a time
	switch d := r.Intn(100); {
	case d < 62:
	case d < 65:
		header[0] = "NotSolution"
	case d < 68:
		header[len(header)-2] = "NotActions"
	case d < 71:
		header[len(header)-1] = "NotSummary"
	case d < 75 && len(rows) > 1:
		rows[len(rows)-1][len(header)-2] = "XYZ" // not hexadecimal
	case d < 78 && len(rows) > 1:
		rows[len(rows)-1][1] = "abc" // a variable cell that is not a number
	case d < 81 && len(rows) > 1:
		rows[len(rows)-1][len(header)-1] = "42" // a numeric summary
	case d < 85:
		for _, row := range rows {
			if row[0] == "As-Is" {
				row[1+r.Intn(len(sc.asIs))] = "42.42" // As-Is row of another scenario
			}
		}
	case d < 88:
		header[1+r.Intn(len(sc.asIs))] = "NotAVariable"
	case d < 90:
		rows[0][1] = "abc"
	case d < 92:
		rows = append(rows, []string{"ragged"})
	case d < 94:
		rows[0][len(header)-1] = "say \"hi" // bare quote
	case d < 96:
		header, rows = []string{"Solution"}, [][]string{{"As-Is"}}
	case d < 98:
		rows = nil // header only
	default:
		return rawReq{method: "POST", path: pSolutions, ctype: ct, body: nil}
	}
	var sb strings.Builder
	eol := "\n"
	if r.Chance(0.08) {
		eol = "\r\n"
	}
	sb.WriteString(strings.Join(header, sep) + eol)
	for _, row := range rows {
		sb.WriteString(strings.Join(row, sep) + eol)
	}
	text := sb.String()
	if r.Chance(0.06) {
		text = strings.TrimSuffix(text, eol)
	}
	return rawReq{method: "POST", path: pSolutions, ctype: ct, body: []byte(text)}
}

func varNames2() []string { return varNames }

var attrNames = []string{"Note", "Owner", "Note", "Summary", "encoding", "ParetoFrontMember", "ValidAgainstScenario", "ValidationErrors", "", "Priority", "Δ"}
var attrValues = []string{`1`, `"x"`, `null`, `true`, `false`, `[1,2]`, `{"a":1,"b":[true]}`, `1.5`, `"é€😀"`, `"<tag> & more"`, `""`, `-0`, `1e3`, `"multi\nline"`, `"\\u003cx\\u003e"`, `"a\\u0026b \\ c"`, `["\\u003e"]`}

func (g *engGen) patchReq(h *seqRun) rawReq {
	r := g.r
	ct := ctJson
	if r.Chance(0.08) {
		ct = []string{"", "text/plain", ctCsv, "application/json; charset=utf-8"}[r.Intn(4)]
	}
	if r.Chance(0.06) {
		body := []string{``, `{`, `{"Name":"Encoding","Value":"1F"}`, `[{"Name":5}]`, `[1,2]`, `"text"`, `[{"Name":"X","Value":1e999}]`}[r.Intn(7)]
		return rawReq{method: "PATCH", path: pModel, ctype: ct, body: []byte(body)}
	}
	if r.Chance(0.03) {
		return rawReq{method: "PATCH", path: pModel, ctype: ct, body: []byte([]string{`null`, `[]`, `[null]`}[r.Intn(3)])}
	}
	n := 0
	if h.scen != nil {
		n = h.scen.n()
	}
	type nv struct{ name, val string }
	var pairs []nv
	k := r.Intn(4)
	for i := 0; i < k; i++ {
		name := attrNames[r.Intn(len(attrNames))]
		if r.Chance(0.15) {
			name = "N " + g.text(g.jsonPct())
		}
		val := attrValues[r.Intn(len(attrValues))]
		if r.Chance(0.15) {
			val = strconv.Quote(g.text(g.jsonPct()))
		}
		pairs = append(pairs, nv{name, val})
	}
	// an attribute that is already there is patched again, with a value of the kind it holds (arrays and objects are
	// not comparable in Go: anything that compares the stored with the new value must survive that)
	if len(h.attrs) > 0 && r.Chance(0.3) {
		names := make([]string, 0, len(h.attrs))
		for name := range h.attrs {
			names = append(names, name)
		}
		sort.Strings(names)
		name := names[r.Intn(len(names))]
		val := attrValues[r.Intn(len(attrValues))]
		switch cur := h.attrs[name]; {
		case strings.HasPrefix(cur, "["):
			val = []string{`[1,2]`, `[]`, `[[3]]`, cur}[r.Intn(4)]
		case strings.HasPrefix(cur, "{"):
			val = []string{`{"a":1,"b":[true]}`, `{}`, cur}[r.Intn(3)]
		case r.Chance(0.5):
			val = cur
		}
		pairs = append(pairs, nv{name, val})
	}
	ne := []int{0, 1, 1, 1, 2}[r.Intn(5)]
	for i := 0; i < ne; i++ {
		var val string
		switch d := r.Intn(100); {
		case d < 60:
			val = strconv.Quote(engEncode(g.randomBits(n)))
		case d < 66:
			val = strconv.Quote(strings.ToLower(engEncode(g.randomBits(n))))
		case d < 70:
			val = strconv.Quote("000" + engEncode(g.randomBits(n)))
		case d < 74:
			val = strconv.Quote(engEncode(g.randomBits(n)) + ":0")
		case d < 78:
			val = strconv.Quote("FFFFFFFFFFFFFFFF") // bits beyond the action count are dropped
		case d < 82:
			val = strconv.Quote("1FFFFFFFFFFFFFFFF") // 65 bits: out of range
		case d < 88:
			val = strconv.Quote([]string{"zz", "", "0x1F", "-1", "1 F", "１"}[r.Intn(6)])
		default:
			val = []string{`5`, `null`, `true`, `["1F"]`, `{"v":"1F"}`}[r.Intn(5)]
		}
		pos := r.Intn(len(pairs) + 1)
		pairs = append(pairs[:pos], append([]nv{{"Encoding", val}}, pairs[pos:]...)...)
	}
	// Not generated WHILE the quirk joinStale is observed: a name that is repeated within one PATCH with a null among its
	// values.  What Attributes.Join does then depends on whether an earlier append re-allocated the model's attribute
	// slice (its receiver keeps looking at the old array), i.e. on Go's append growth and the slice's spare capacity,
	// which the model does not track.  (Join asking the list it builds has no such dependence.)
	count := map[string]int{}
	for _, p := range pairs {
		count[p.name]++
	}
	var items []string
	for _, p := range pairs {
		if g.q.joinStale && count[p.name] > 1 && p.val == "null" {
			p.val = "0"
		}
		items = append(items, fmt.Sprintf(`{"Name":%s,"Value":%s}`, strconv.Quote(p.name), p.val))
	}
	return rawReq{method: "PATCH", path: pModel, ctype: ct, body: []byte("[" + strings.Join(items, ",") + "]")}
}

var allTypes = []string{"GullyRestoration", "HillSlopeRestoration", "RiverBankRestoration", "WetlandsEstablishment"}

func (g *engGen) activeReq(h *seqRun) rawReq {
	r := g.r
	ct := ctCsv
	if r.Chance(0.08) {
		ct = []string{"", "text/plain", ctJson, "text/csv;charset=utf-8"}[r.Intn(4)]
	}
	sc := h.scen
	if sc == nil {
		sc = g.scs[0]
	}
	if r.Chance(0.3) {
		return rawReq{method: "PUT", path: pActive, ctype: ct, body: h.fullTableCsv(sc, g.randomBits(sc.n()))}
	}
	sep := ","
	if r.Chance(0.5) {
		sep = ", "
	}
	// columns: a subset / permutation of the action types, sometimes an unknown or a repeated heading
	var cols []string
	for _, t := range allTypes {
		if r.Chance(0.7) {
			cols = append(cols, t)
		}
	}
	if r.Chance(0.1) {
		cols = append(cols, []string{"Mystery", "gullyrestoration", "GullyRestoration", ""}[r.Intn(4)])
	}
	for i := len(cols) - 1; i > 0; i-- {
		j := r.Intn(i + 1)
		cols[i], cols[j] = cols[j], cols[i]
	}
	header := append([]string{"SubCatchment"}, cols...)
	var rows [][]string
	nr := r.Intn(len(sc.pus) + 2)
	for i := 0; i < nr; i++ {
		pu := strconv.FormatUint(sc.pus[r.Intn(len(sc.pus))], 10)
		switch d := r.Intn(100); {
		case d < 80:
		case d < 84:
			pu = strconv.Itoa(900 + r.Intn(50)) // no such planning unit
		case d < 88:
			pu += []string{".9", ".0", "e0", ".5"}[r.Intn(4)] // uint64(float) truncates
		case d < 91:
			pu = []string{"-1", "1e30", "NaN", "Inf", "-0", "18446744073709551616"}[r.Intn(6)]
		case d < 94:
			pu = "0" + pu
		}
		row := []string{pu}
		for range cols {
			row = append(row, []string{"0", "1", "1", "0", "1.0", "0.0", "-0", "1e0"}[r.Intn(8)])
		}
		rows = append(rows, row)
	}
	switch d := r.Intn(100); {
	case d < 70:
	case d < 74:
		header[0] = []string{"Subcatchment", "subcatchment", "Sub Catchment", ""}[r.Intn(4)]
	case d < 80 && len(rows) > 0 && len(cols) > 0:
		rows[r.Intn(len(rows))][1+r.Intn(len(cols))] = []string{"2", "0.5", "abc", "true", "", "-1", "NaN"}[r.Intn(7)]
	case d < 84 && len(rows) > 0:
		rows[r.Intn(len(rows))][0] = []string{"abc", "true", "", "17a"}[r.Intn(4)] // textual first column
	case d < 87:
		rows = append(rows, []string{"1", "1", "1", "1", "1", "1", "1"}) // ragged (unless it happens to fit)
	case d < 90:
		rows = nil // header only
	case d < 92:
		header, rows = []string{"SubCatchment"}, [][]string{{strconv.FormatUint(sc.pus[0], 10)}} // one column
	case d < 94:
		return rawReq{method: "PUT", path: pActive, ctype: ct, body: nil}
	case d < 96 && len(rows) > 0:
		rows[0][0] = "say \"hi"
	}
	var sb strings.Builder
	sb.WriteString(strings.Join(header, sep) + "\n")
	for _, row := range rows {
		sb.WriteString(strings.Join(row, sep) + "\n")
	}
	return rawReq{method: "PUT", path: pActive, ctype: ct, body: []byte(sb.String())}
}

func (g *engGen) subId(h *seqRun) string {
	r := g.r
	sc := h.scen
	if sc == nil {
		sc = g.scs[0]
	}
	switch d := r.Intn(100); {
	case d < 82:
		return strconv.FormatUint(sc.pus[r.Intn(len(sc.pus))], 10)
	case d < 88:
		return strconv.Itoa(900 + r.Intn(50))
	case d < 92:
		return "00" + strconv.FormatUint(sc.pus[r.Intn(len(sc.pus))], 10)
	case d < 94:
		return "0"
	case d < 96:
		return "9223372036854775807"
	case d < 98:
		return "9223372036854775808"
	default:
		return "123456789012345678901234567890"
	}
}

func (g *engGen) subReq(h *seqRun) rawReq {
	r := g.r
	sc := h.scen
	if sc == nil {
		sc = g.scs[0]
	}
	id := g.subId(h)
	ct := ctJson
	if r.Chance(0.15) {
		ct = []string{"", "text/plain", ctCsv}[r.Intn(3)]
	}
	path := pSubPrefix + id
	if r.Chance(0.06) {
		body := []string{``, `{`, `{"Name":"GullyRestoration","Value":"Active"}`, `[{"Name":5}]`, `"Active"`, `null`, `[]`, `[null]`}[r.Intn(8)]
		return rawReq{method: "PUT", path: path, ctype: ct, body: []byte(body)}
	}
	pu, _ := strconv.ParseUint(id, 10, 64)
	types := sc.typesAt(pu)
	var items []string
	k := 1 + r.Intn(3)
	for i := 0; i < k; i++ {
		var name string
		if len(types) > 0 && r.Chance(0.85) {
			name = types[r.Intn(len(types))]
		} else {
			name = allTypes[r.Intn(4)] // possibly not offered at this planning unit
		}
		if r.Chance(0.05) {
			name = []string{"Mystery", "gullyrestoration", "", "N " + g.text(g.jsonPct())}[r.Intn(4)]
		}
		val := []string{`"Active"`, `"Inactive"`}[r.Intn(2)]
		if r.Chance(0.06) {
			val = []string{`"active"`, `"On"`, `""`, strconv.Quote(g.text(g.jsonPct()))}[r.Intn(4)]
		}
		if r.Chance(0.04) {
			val = []string{`1`, `true`, `null`, `["Active"]`}[r.Intn(4)]
		}
		items = append(items, fmt.Sprintf(`{"Name":%s,"Value":%s}`, strconv.Quote(name), val))
	}
	return rawReq{method: "PUT", path: path, ctype: ct, body: []byte("[" + strings.Join(items, ",") + "]")}
}

var otherMethods = []string{"DELETE", "HEAD", "OPTIONS", "POST", "PUT", "PATCH", "GET", "TRACE", "BREW"}
var otherPaths = []string{"/", "/api", "/api/v1", "/api/v1/", "/api/v1/model/", "/api/v1/Model", "/api/v2/model", "/api/v1/scenario/x",
	"/api/v1/model/actions", "/api/v1/model/subcatchment/", "/api/v1/model/subcatchment/abc", "/api/v1/model/subcatchment/-1", "/api/v1/model/subcatchment/1.5",
	"/api/v1/model/subcatchment/18/x", "/api/v1/solutions/", "/api/v1/solutions/a b", "/api/v1/solutions/a/b", "/api/v1/solutions/é", "/status", "/shutdown",
	"/api/v1/model\n", "//api/v1/model", "/api/v1/model/subcatchment/١٨"}

func (g *engGen) solutionLabel(h *seqRun) string {
	r := g.r
	if h.solTable != nil && len(h.solTable.rows) > 0 && r.Chance(0.8) {
		row := h.solTable.rows[r.Intn(len(h.solTable.rows))]
		if r.Chance(0.4) {
			row = h.solTable.rows[0] // the first row is skipped by several loops of the handlers
		}
		if len(row) > 0 && solRe.MatchString("/api/v1/solutions/"+row[0].str) {
			return row[0].str
		}
	}
	return []string{"As-Is", "1-of-1", "9-of-9", "x", "_", "-", "As-is"}[r.Intn(7)]
}

func (g *engGen) miscReq(h *seqRun) rawReq {
	r := g.r
	known := []string{pScenario, pSolutions, pModel, pActive, pApplicable, pSubPrefix + g.subId(h), "/api/v1/solutions/" + g.solutionLabel(h), "/"}
	switch d := r.Intn(100); {
	case d < 45:
		return rawReq{method: "GET", path: known[r.Intn(len(known))]}
	case d < 75:
		m := otherMethods[r.Intn(len(otherMethods))]
		q := rawReq{method: m, path: known[r.Intn(len(known))]}
		if r.Chance(0.5) {
			q.ctype = []string{ctJson, ctCsv, ctToml}[r.Intn(3)]
			q.body = []byte([]string{"", "{}", "[]", "a,b\n1,2\n"}[r.Intn(4)])
		}
		return q
	default:
		return rawReq{method: otherMethods[r.Intn(len(otherMethods))], path: otherPaths[r.Intn(len(otherPaths))]}
	}
}

func (g *engGen) next(h *seqRun) rawReq {
	r := g.r
	if h.scen == nil {
		switch d := r.Intn(100); {
		case d < 55:
			return g.scenarioReq(h)
		case d < 65:
			return g.patchReq(h)
		case d < 73:
			return g.activeReq(h)
		case d < 81:
			return g.subReq(h)
		case d < 88:
			return g.solutionsReq(h)
		default:
			return g.miscReq(h)
		}
	}
	if h.solTable != nil && r.Chance(0.07) {
		return rawReq{method: "GET", path: "/api/v1/solutions/" + g.solutionLabel(h)}
	}
	switch d := r.Intn(100); {
	case d < 6:
		return g.scenarioReq(h)
	case d < 28:
		return g.patchReq(h)
	case d < 48:
		return g.activeReq(h)
	case d < 72:
		return g.subReq(h)
	case d < 84:
		return g.solutionsReq(h)
	default:
		return g.miscReq(h)
	}
}

// ---------------------------------------------------------------- the suite

func engineScenarios(c *Ctx, cat *engCatalogue, r *Rng, nGen int) []*engScenario {
	var scs []*engScenario
	add := func(s *engScenario) {
		if s != nil {
			scs = append(scs, s)
		}
	}
	valid := cat.scenario("ds/valid/ValidModel.csv", -1, 0)
	add(valid)
	add(cat.scenario("ds/testing/TestingModel.csv", -1, 0))
	// limits strictly inside the attainable range make ValidAgainstScenario / ValidationErrors non-trivial
	if valid != nil {
		all := make([]bool, valid.n())
		for i := range all {
			all[i] = true
		}
		hi, lo := valid.totalsAt(all), valid.totalsAt(make([]bool, valid.n()))
		add(cat.scenario("ds/valid/ValidModel.csv", 4, float64(int(hi[4]*0.4)))) // implementation cost: as-is valid
		add(cat.scenario("ds/valid/ValidModel.csv", 0, float64(int((hi[0]+lo[0])/2)))) // sediment: as-is invalid
	}
	// a planning unit offering all four action types (the shipped data sets have at most three per unit)
	four := cat.scenario("ds/four/FourModel.csv", -1, 0)
	add(four)
	if four != nil {
		all := make([]bool, four.n())
		for i := range all {
			all[i] = true
		}
		add(cat.scenario("ds/four/FourModel.csv", 4, float64(int(four.totalsAt(all)[4]*0.3)))) // most sets invalid, the as-is set valid
	}
	// every cost an exact half cent: on/off round trips through the incremental routes must leave nothing behind
	add(cat.scenario("ds/tie/TieModel.csv", -1, 0))
	// more than 64 management actions: two-word encodings
	for i := 0; i < c.N(1, 2); i++ {
		add(cat.scenario(fmt.Sprintf("ds/big-%d/bModel.csv", 500+r.U64()%1000), -1, 0))
	}
	for i := 0; i < nGen; i++ {
		seed := 1000 + r.U64()%100000
		rel := genDatasetRel(seed, cat.root)
		s := cat.scenario(rel, -1, 0)
		add(s)
		if s != nil && r.Chance(0.5) {
			all := make([]bool, s.n())
			for j := range all {
				all[j] = true
			}
			hi := s.totalsAt(all)
			if hi[4] > 10 {
				add(cat.scenario(rel, 4, float64(int(hi[4]*r.Float()))))
			}
		}
	}
	return scs
}

func suiteEngineSeq(c *Ctx) {
	cat := newEngCatalogue(c.Out)
	if c.Replay != "" {
		replayEngine(c, cat, false)
		return
	}
	q, scripts := calibrate(cat)
	c.extra["engine_variant_observed"] = q.line()
	c.Op(q.line(), "ok")
	run := newSeqRun(c, cat, q)
	run.rr = c.Rng.Fork()
	// the calibration experiments, recorded (the direct checks report whichever quirk is present)
	for _, script := range scripts {
		run.reset()
		for _, r := range script {
			if run.dead {
				break
			}
			run.exec(r)
		}
		run.routeCheck()
	}
	g := &engGen{r: c.Rng.Fork(), cat: cat, q: q}
	g.scs = engineScenarios(c, cat, g.r, c.N(2, 6))
	for i := 0; i < c.N(6, 30); i++ {
		run.startupCheck(g)
	}
	nSeq, seqLen := c.N(80, 700), 30 // per shard (quick: 3 shards for C14, 1 for C15)
	for i := 0; i < nSeq; i++ {
		run.reset()
		n := seqLen/2 + g.r.Intn(seqLen)
		for j := 0; j < n && !run.dead; j++ {
			run.exec(g.next(run))
			if !run.dead && g.r.Chance(0.04) {
				run.routeCheck()
			}
		}
		if !run.dead {
			run.routeCheck()
		}
		c.Stat("sequences")
	}
}

// replayEngine re-executes the raw requests of an ops file (facts, oracle and universe lines are recomputed).
func replayEngine(c *Ctx, cat *engCatalogue, raw bool) {
	q, _ := calibrate(cat)
	c.Op(q.line(), "ok")
	run := newSeqRun(c, cat, q)
	run.raw = raw
	run.reset()
	var adm *adminRun
	for _, l := range readLines(c.Replay) {
		switch {
		case l == "reset":
			run.reset()
		case strings.HasPrefix(l, "admin "):
			ws := strings.Split(l, " ")
			if len(ws) == 4 {
				if adm == nil {
					adm = &adminRun{c: c}
					adm.reset()
				}
				adm.exec(ws[2], unescTok(ws[3]))
			}
		case strings.HasPrefix(l, "req "), strings.HasPrefix(l, "raw "):
			r, ok := parseReqLine(l)
			if !ok || run.dead {
				continue
			}
			// the read-back GETs of the recorded run are regenerated by exec itself
			if r.method == "GET" && !raw && isReadbackPath(run, r.path) && len(r.body) == 0 && strings.HasSuffix(l, " none") && strings.Contains(l, " - GET ") && replaySkipReadback {
				continue
			}
			run.exec(r)
		}
	}
	run.routeCheck()
}

// in a recorded engine-seq run every request is followed by its read-back block; when replaying, exec regenerates the
// block, so recorded GETs that belong to a block are skipped.  A block is recognised positionally: it starts with
// GET /api/v1/scenario directly after a non-read-back line.  Keeping it simple: plain GETs without body on the
// read-back paths are skipped always (a GET changes nothing in the spec; reads are still performed by exec).
var replaySkipReadback = true

func isReadbackPath(run *seqRun, p string) bool {
	switch p {
	case pScenario, pSolutions, pModel, pActive, pApplicable:
		return true
	}
	return strings.HasPrefix(p, pSubPrefix)
}
