import Driver.Common
import Driver.Dominance
import Driver.Archive
import Driver.Catchment
import Driver.Round
import Driver.Suppa
import Driver.Engine
import Driver.Config
import Driver.Derive
import Driver.EngineSummary
import Driver.Runs
import Driver.SuppaToy
import Driver.Naming
import Driver.Csv
import Driver.Params
import Driver.BoolArchive
import Driver.Kirkpatrick
import Driver.Anneal

def main (args : List String) : IO UInt32 := do
  match args with
  | ["dominance"] => Driver.runPure Driver.Dominance.step; return 0
  | ["archive-ops"] => Driver.run [] Driver.Archive.step; return 0
  | ["kirk-script"] => Driver.run none Driver.Kirkpatrick.step; return 0
  | ["anneal-trace"] => Driver.run none Driver.Anneal.step; return 0
  | ["boolarchive-ops"] => Driver.run ([] : Driver.BoolArchive.St) Driver.BoolArchive.step; return 0
  | ["portability"] => Driver.runPure Driver.BoolArchive.stepPort; return 0
  | ["params"] => Driver.run ({} : Driver.Params.St) Driver.Params.step; return 0
  | ["csv"] => Driver.runPure Driver.Csv.step; return 0
  | ["naming"] =>
    let e ← IO.getEnv "VERIF_C12_VARIANT"
    Driver.runPure (Driver.Naming.step (if e == some "current" then .current else .fixed)); return 0
  | ["naming-fixed"] => Driver.runPure (Driver.Naming.step .fixed); return 0
  | ["naming-current"] => Driver.runPure (Driver.Naming.step .current); return 0
  | ["naming-anchored"] => Driver.runPure (Driver.Naming.step .anchored); return 0
  | ["suppa-toy"] => Driver.run ({} : Driver.SuppaToy.St) Driver.SuppaToy.step; return 0
  | ["multi-run"] => Driver.run () Driver.Runs.step; return 0
  | ["engine-summaries"] => Driver.run ({} : Driver.EngineSummary.St) Driver.EngineSummary.step; return 0
  | ["derive"] => Driver.run ({} : Driver.Derive.St) Driver.Derive.step; return 0
  | ["config-runs"] => Driver.run ({} : Driver.Config.St) Driver.Config.step; return 0
  | ["engine"] => Driver.run ({} : Driver.Engine.St) Driver.Engine.step; return 0
  | ["suppa"] => Driver.run ({} : Driver.Suppa.St) Driver.Suppa.step; return 0
  | ["round"] => Driver.run () Driver.Round.step; return 0
  | ["catchment"] => Driver.run ({} : Driver.Catchment.St) Driver.Catchment.step; return 0
  | _ =>
    IO.eprintln "usage: driver <suite>"
    return 2
