import Crem.Properties.C17
import Crem.Properties.C05
