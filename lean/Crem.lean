import Crem.Properties.C17
