import Crem.Properties.C17
import Crem.Properties.C05
import Crem.Properties.C06
import Crem.Properties.C04
import Crem.Properties.C07
import Crem.Properties.C09
import Crem.Properties.C18
