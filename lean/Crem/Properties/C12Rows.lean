import Crem.Properties.C12
import Crem.Properties.Compose
import Crem.Proofs.SummaryCsv
/-!
# C12 (rows) — what the rows of a written summary say, and that they say it about the right model

`Crem/Properties/C12.lean` settles how a summary is named and labelled and that its rows are "the as-is
state, then each member in archive order" as ENTRIES (`rows_are_asis_then_members`).  This file reads
the columns off that fact (`written_*`), ties the free `Row.vars` / `Row.actions` inputs of the summary
model to the catchment model and the action encoding (`written_rows_faithful`), and removes the two
remaining sources of nondeterminism from the written text: the entry `justSomeVariables` yields for
the CSV heading (`csv_independent_of_yield`, `csv_deterministic`) and the iteration order / first key
behind the JSON document (`json_independent_of_iteration`).

Every `theorem` in this file is audited (`#print axioms`).  Helper lemmas live in
`Crem/Proofs/SummaryCsv.lean`; the definitions below are used in the statements only.
-/
namespace Crem.C12
open Crem.Naming Crem.SummaryCsv

/-! ## well-formed families -/

/-- **Well-formedness of the inputs of `buildSummary`.**  The single-objective annealer hands the Saver
ONE optimised solution (`encodeOptimisedModel`: as-is, then `… Solution (1/1)`), so a `.single` summary
with `members.length ≠ 1` describes no Go state.  `buildSummary`, `rows_are_asis_then_members`,
`row_count` and `csv_independent_of_iteration` of `Properties/C12.lean` do not ask for this (for
`.single` with two members the model builds the entries `… Solution (1/1)` and `… Solution (2/1)`, labelled
`Optimised` and `2-of-1`, both noted `Computationally optimised solution` - something no Go run produces;
the theorems hold there but say nothing about crem).  The theorems of this file that mention `keys` /
`memberKeys` take `FamilyOk` as a hypothesis; read the others with it in mind. -/
def FamilyOk (f : Family) (members : List Row) : Prop := f = .single → members.length = 1

instance (f : Family) (members : List Row) : Decidable (FamilyOk f members) := by
  unfold FamilyOk; infer_instance

/-- the companion remark to `rows_are_asis_then_members`: a well-formed single-objective summary has
exactly two rows, keyed `<rid> Solution (As-Is)` and `<rid> Solution (1/1)` in every variant -/
theorem single_has_one_member (v : Variant) (rid : Str) (asIs : Row) (members : List Row)
    (hf : FamilyOk .single members) (iter : List Entry)
    (hiter : iter.Perm (buildSummary v .single rid asIs members)) :
    (sortedRows iter).map (·.key) = [rid ++ sSolAsIs, memberKey rid 1 1] := by
  rw [rows_are_asis_then_members v .single rid asIs members iter hiter, List.map_cons,
    memberEntries_keys_eq v .single rid members hf]
  rfl

/-- two variables, an as-is row and two members (used by the examples of this file) -/
def exAsIs : Row := ⟨[(['A'], 10), (['B'], 0)], ['0']⟩
def exM1 : Row := ⟨[(['A'], 7), (['B'], 3)], ['1']⟩
def exM2 : Row := ⟨[(['A'], 4), (['B'], 9)], ['3']⟩

example : FamilyOk .single [exM1] ∧ FamilyOk .multi [] ∧ FamilyOk .multi [exM1, exM2] ∧
    ¬ FamilyOk .single [] ∧ ¬ FamilyOk .single [exM1, exM2] := by decide
/-- the theorem instantiated: run `X (2/3)`, the map iterated backwards -/
example : (sortedRows (buildSummary .current .single (runId ['X'] 2 3) exAsIs [exM1]).reverse).map (·.key) =
    [runId ['X'] 2 3 ++ sSolAsIs, memberKey (runId ['X'] 2 3) 1 1] :=
  single_has_one_member .current _ exAsIs [exM1] (by decide) _ (List.reverse_perm _)

/-! ## the columns of the written rows -/

/-- the ids under which the rows were stored are `keys`, in sort order -/
theorem written_keys (v : Variant) (f : Family) (rid : Str) (asIs : Row) (members : List Row)
    (hf : FamilyOk f members) (iter : List Entry) (hiter : iter.Perm (buildSummary v f rid asIs members)) :
    (sortedRows iter).map (·.key) = keys v f rid members.length := by
  rw [rows_are_asis_then_members v f rid asIs members iter hiter, List.map_cons,
    memberEntries_keys_eq v f rid members hf]
  rfl

/-- **The `Solution` column**: the labels of the written rows, top to bottom, are the labels of the
run's keys - every variant, every run id (clean or not), both families, every iteration order. -/
theorem written_labels (v : Variant) (f : Family) (rid : Str) (asIs : Row) (members : List Row)
    (hf : FamilyOk f members) (iter : List Entry) (hiter : iter.Perm (buildSummary v f rid asIs members)) :
    (sortedRows iter).map (·.label) = (keys v f rid members.length).map (label v) := by
  rw [← written_keys v f rid asIs members hf iter hiter,
    rows_are_asis_then_members v f rid asIs members iter hiter]
  simp only [List.map_cons, memberEntries_label_of_key]
  rfl

/-- the `Summary` column: the as-is note, then `Computationally optimised solution` (single) or
`Pareto front member i+1 of n` for the i-th member of the archive (multi) -/
theorem written_notes (v : Variant) (f : Family) (rid : Str) (asIs : Row) (members : List Row)
    (iter : List Entry) (hiter : iter.Perm (buildSummary v f rid asIs members)) :
    (sortedRows iter).map (·.note) =
      asIsNote :: (List.range members.length).map (fun i =>
        match f with | .single => optimisedNote | .multi => memberNote (i + 1) members.length) := by
  rw [rows_are_asis_then_members v f rid asIs members iter hiter, List.map_cons, memberEntries_notes,
    List.range_eq_range']
  rfl

/-- the `Actions` column holds the rows' own encodings, as-is first, members in archive order -/
theorem written_actions (v : Variant) (f : Family) (rid : Str) (asIs : Row) (members : List Row)
    (iter : List Entry) (hiter : iter.Perm (buildSummary v f rid asIs members)) :
    (sortedRows iter).map (·.actions) = (asIs :: members).map (·.actions) := by
  rw [rows_are_asis_then_members v f rid asIs members iter hiter, List.map_cons, memberEntries_actions]
  rfl

/-- the variable columns hold the rows' own (name, value) lists, in the same order -/
theorem written_vars (v : Variant) (f : Family) (rid : Str) (asIs : Row) (members : List Row)
    (iter : List Entry) (hiter : iter.Perm (buildSummary v f rid asIs members)) :
    (sortedRows iter).map (·.vars) = (asIs :: members).map (·.vars) := by
  rw [rows_are_asis_then_members v f rid asIs members iter hiter, List.map_cons, memberEntries_vars]
  rfl

/-- variables and actions together: stripped of id, label, note and sort index the written rows ARE
the rows the Saver derived, as-is first -/
theorem written_rows (v : Variant) (f : Family) (rid : Str) (asIs : Row) (members : List Row)
    (iter : List Entry) (hiter : iter.Perm (buildSummary v f rid asIs members)) :
    (sortedRows iter).map (fun e => (⟨e.vars, e.actions⟩ : Row)) = asIs :: members := by
  rw [rows_are_asis_then_members v f rid asIs members iter hiter, List.map_cons, memberEntries_rows]
  rfl

/-- For the D6-D8-repaired code and a clean scenario name no two written rows carry the same label. -/
theorem written_labels_unique (name : Str) (hc : Clean name) (r R : Nat) (f : Family) (asIs : Row)
    (members : List Row) (hf : FamilyOk f members) (iter : List Entry)
    (hiter : iter.Perm (buildSummary .fixed f (runId name r R) asIs members)) :
    ((sortedRows iter).map (·.label)).Nodup := by
  rw [written_labels .fixed f (runId name r R) asIs members hf iter hiter]
  exact labels_unique name hc r R members.length f

/-- **For the round-3-repaired code (`Variant.anchored`) and EVERY run id — any scenario name — no two written rows
carry the same label** (`labels_unique_all`). -/
theorem written_labels_unique_all (rid : Str) (f : Family) (asIs : Row) (members : List Row)
    (hf : FamilyOk f members) (iter : List Entry)
    (hiter : iter.Perm (buildSummary .anchored f rid asIs members)) :
    ((sortedRows iter).map (·.label)).Nodup := by
  rw [written_labels .anchored f rid asIs members hf iter hiter]
  exact labels_unique_all rid members.length f

/-- instantiated on a name outside `Clean` (`As-Is baseline`, run 2 of 3) -/
example : ((sortedRows (buildSummary .anchored .multi (runId "As-Is baseline".toList 2 3) exAsIs [exM1, exM2]).reverse).map
    (·.label)).Nodup :=
  written_labels_unique_all _ .multi exAsIs [exM1, exM2] (by decide) _ (List.reverse_perm _)

/-! ### non-vacuity of the column theorems -/

/-- a reversed iteration order is a permutation of the map … -/
example : (buildSummary .anchored .multi (runId exName 2 3) exAsIs [exM1, exM2]).reverse.Perm
    (buildSummary .anchored .multi (runId exName 2 3) exAsIs [exM1, exM2]) := List.reverse_perm _
/-- … whose sorted columns are the stated ones (evaluated) -/
example :
    let iter := (buildSummary .anchored .multi (runId exName 2 3) exAsIs [exM1, exM2]).reverse
    (sortedRows iter).map (·.label) = [sAsIs, ['1'] ++ sOf ++ ['2'], ['2'] ++ sOf ++ ['2']] ∧
    (sortedRows iter).map (·.key) = keys .anchored .multi (runId exName 2 3) 2 ∧
    (sortedRows iter).map (·.note) = [asIsNote, memberNote 1 2, memberNote 2 2] ∧
    (sortedRows iter).map (·.actions) = [['0'], ['1'], ['3']] ∧
    (sortedRows iter).map (·.vars) = [exAsIs.vars, exM1.vars, exM2.vars] ∧
    (sortedRows iter).map (fun e => (⟨e.vars, e.actions⟩ : Row)) = [exAsIs, exM1, exM2] ∧
    ((sortedRows iter).map (·.label)).Nodup := by decide
/-- `written_labels_unique` instantiated (its hypotheses are jointly satisfiable) -/
example : ((sortedRows (buildSummary .fixed .multi (runId exName 2 3) exAsIs [exM1, exM2]).reverse).map (·.label)).Nodup :=
  written_labels_unique exName (by decide) 2 3 .multi exAsIs [exM1, exM2] (by decide) _ (List.reverse_perm _)
/-- the single family: `As-Is`, `Optimised` -/
example : (sortedRows (buildSummary .fixed .single exName exAsIs [exM1]).reverse).map (fun e => (e.label, e.note)) =
    [(sAsIs, asIsNote), (sOptimised, optimisedNote)] := by decide
/-- `FamilyOk` is needed by `written_keys`: the ill-formed single summary with two members has a row
`X Solution (2/1)`, which `keys` (one member key) does not describe -/
example : (sortedRows (buildSummary .fixed .single ['X'] exAsIs [exM1, exM2])).map (·.key) ≠
    keys .fixed .single ['X'] 2 := by decide

/-! ## the rows are the catchment model's own valuations -/

section Faithful
open Crem.Catchment Crem.BoolArchive

/-- What the Saver reads off its decompression model in state `s` (`SolutionBuilder.ForModel(model).Build()`
then `Summarise()`): for each reported decision variable (`vs` = display name and model variable, in the
order the solution lists them) the model's current total, and the text of the model's compressed action
flags (`ModelCompressor.Compress(model).Encoding()`, which is `encode s.flags`: `saver_actions_text`). -/
def saverRow (vs : List (Str × VarId)) (s : State) : Row :=
  { vars := vs.map (fun nv => (nv.1, total s nv.2)), actions := encode s.flags }

/-- `deriveASsIsSolution` / `deriveASsIsSolutionForOptimised`: `decompressionModel.Initialise(model.AsIs)`,
whatever state `s0` the ONE decompression model was left in by earlier rows and earlier runs -/
def saverAsIsState (D : Data) (s0 : State) : State := applyTx D s0 (.reinit .asIs)

/-- the member loop of `encodeSolutionSet` (and the single `deriveSolutionFromCompressedModel` of
`encodeOptimisedModel`): each archived member, given as its bit list, is `Decompress`ed INTO THE SAME
model (`setAll`, on top of whatever the previous member left there) and the row is read off -/
def saverMemberRows (D : Data) (vs : List (Str × VarId)) : State → List (List Bool) → List Row
  | _, [] => []
  | s, bits :: rest => saverRow vs (setAll D s bits) :: saverMemberRows D vs (setAll D s bits) rest

/-- the state the decompression model is left in for the next run -/
def saverEndState (D : Data) (s0 : State) (members : List (List Bool)) : State :=
  members.foldl (setAll D) (saverAsIsState D s0)

/-- the row a FRESH model gives when evaluated at an action set: initialise, load exactly `bits`, read off;
its `actions` text is the encoding of `bits` itself -/
def freshRow (D : Data) (vs : List (Str × VarId)) (bits : List Bool) : Row :=
  { vars := vs.map (fun nv => (nv.1, total (setAll D (init D) bits) nv.2)), actions := encode bits }

/-- the `Actions` text of `saverRow` is what the Go code computes: compressing the model's flags succeeds
and the compressed state's `Encoding()` is `encode` of the flags (C09) -/
theorem saver_actions_text (vs : List (Str × VarId)) (s : State) :
    ∃ a, compress s.flags = some a ∧ (encoding a).2 = (saverRow vs s).actions := by
  obtain ⟨a, h1, h2, _, h4⟩ := compress_spec s.flags
  exact ⟨a, h1, by rw [encoding_snd a h2, h4]; rfl⟩

/-- **Saved rows are faithful.**  Let the Saver's one decompression model be in ANY state reached by a
conformant history `h'` (the rows of earlier runs), let the archive hold `members` (bit lists of the
scenario's size).  Then, for every iteration order of the summary map, the rows written are: the valuation
of the freshly initialised model, followed - member by member, in archive order - by `freshRow` of that
member: the text in `Actions` is the encoding of the member's own bits, decoding it gives those bits back,
and every value is the total of a FRESH model loaded with exactly those bits.  Neither `h'` nor the other
members of the archive occur on the right-hand side. -/
theorem written_rows_faithful {D : Data} (hI : InitConsistent D) (hK : KeysDistinct D.acts)
    (hn : 1 ≤ D.acts.length) (vs : List (Str × VarId)) (h' : List Tx) (members : List (List Bool))
    (hm : ∀ bits ∈ members, bits.length = D.acts.length)
    (v : Variant) (f : Family) (rid : Str) (iter : List Entry)
    (hiter : iter.Perm (buildSummary v f rid (saverRow vs (saverAsIsState D (run D h')))
      (saverMemberRows D vs (saverAsIsState D (run D h')) members))) :
    (sortedRows iter).map (fun e => (⟨e.vars, e.actions⟩ : Row)) =
        saverRow vs (init D) :: members.map (freshRow D vs) ∧
      (∀ bits ∈ members, decode D.acts.length (freshRow D vs bits).actions = .ok bits) ∧
      saverEndState D (run D h') members = run D (h' ++ .reinit .asIs :: members.map .setAll) := by
  have key : ∀ (ms : List (List Bool)) (h : List Tx), (∀ bits ∈ ms, bits.length = D.acts.length) →
      saverMemberRows D vs (run D h) ms = ms.map (freshRow D vs) := by
    intro ms
    induction ms with
    | nil => intro _ _; rfl
    | cons bits rest ih =>
      intro h hl
      have hfv := saved_row_is_fresh_valuation hI hK h bits (hl bits (by simp))
      have hrow : saverRow vs (setAll D (run D h) bits) = freshRow D vs bits := by
        unfold saverRow freshRow
        rw [hfv.1]
        congr 1
        exact List.map_congr_left (fun nv _ => by rw [(hfv.2 nv.2 0).1])
      have hst : setAll D (run D h) bits = run D (h ++ [Tx.setAll bits]) := by
        simp [run, List.foldl_append, applyTx]
      simp only [saverMemberRows, List.map_cons, hrow]
      rw [hst, ih (h ++ [Tx.setAll bits]) (fun b hb => hl b (by simp [hb]))]
  have hasis : saverAsIsState D (run D h') = run D [] := rfl
  refine ⟨?_, ?_, ?_⟩
  · rw [written_rows v f rid _ _ iter hiter, hasis, key members [] hm]
    rfl
  · intro bits hb
    exact decode_encode _ bits hn (hm bits hb)
  · unfold saverEndState
    have : ∀ (ms : List (List Bool)) (s : State),
        ms.foldl (setAll D) s = (ms.map Tx.setAll).foldl (applyTx D) s := by
      intro ms
      induction ms with
      | nil => intro _; rfl
      | cons b rest ih => intro s; simp only [List.foldl_cons, List.map_cons, ih]; rfl
    rw [this]
    simp only [run, List.foldl_append, List.foldl_cons]
    rfl

/-- the as-is row is of the same kind: no action is active (`Actions` decodes to all-`false`), and the
values are those of a fresh model loaded with the empty set -/
theorem written_asIs_row {D : Data} (hI : InitConsistent D) (hK : KeysDistinct D.acts)
    (hn : 1 ≤ D.acts.length) (vs : List (Str × VarId)) :
    saverRow vs (init D) = freshRow D vs (List.replicate D.acts.length false) ∧
      decode D.acts.length (saverRow vs (init D)).actions = .ok (List.replicate D.acts.length false) := by
  have hfl : (init D).flags = List.replicate D.acts.length false := by simp [init]
  have hf := equals_fresh_model hI hK []
  have hr : run D [] = init D := rfl
  rw [hr, hfl] at hf
  constructor
  · unfold saverRow freshRow
    rw [hfl]
    congr 1
    exact List.map_congr_left (fun nv _ => by rw [(hf.2 nv.2 0).1])
  · show decode D.acts.length (encode (init D).flags) = _
    rw [hfl]
    exact decode_encode _ _ hn (by simp)

/-! ### non-vacuity (tests, labelled as such): the example dataset of `Properties/C01.lean` -/

/-- the six decision variables in the order a solution lists them (sorted by name) -/
def exVars : List (Str × VarId) :=
  [("DissolvedNitrogen".toList, .dn), ("ImplementationCost".toList, .ic), ("OpportunityCost".toList, .oc),
   ("ParticulateNitrogen".toList, .pn), ("SedimentProduction".toList, .sed), ("TotalNitrogen".toList, .tn)]

/-- the hypotheses of `written_rows_faithful` hold for the example dataset and a two-member archive -/
example : InitConsistent exData ∧ KeysDistinct exData.acts ∧ 1 ≤ exData.acts.length ∧
    ∀ bits ∈ [[false, true, true], [true, true, false]], bits.length = exData.acts.length := by
  decide +kernel

/-- the decompression model has just served the set {0} of an earlier run (its values are not those of the
as-is state); the archive of this run holds {1, 2} and {0, 1}.  Evaluated: the as-is row reads `0` and zero
cost, the members read `6` and `3`, decode to themselves, and carry the values of the fresh model - the
implementation cost 104.01 of `Compose.lean`'s example for {1, 2} - although the second member was loaded
on top of the first. -/
example :
    let s0 := run exData [.setAll [true, false, false]]
    let members := [[false, true, true], [true, true, false]]
    (saverRow exVars s0).vars.map (·.2) ≠ (saverRow exVars (saverAsIsState exData s0)).vars.map (·.2) ∧
    (saverRow exVars (saverAsIsState exData s0)).actions = ['0'] ∧
    (saverRow exVars (saverAsIsState exData s0)).vars.map (·.2) =
      [2759/1000, 0, 0, 1541/250, 911/25, 8923/1000] ∧
    (saverMemberRows exData exVars (saverAsIsState exData s0) members).map (·.actions) = [['6'], ['3']] ∧
    (saverMemberRows exData exVars (saverAsIsState exData s0) members).map (fun r => r.vars.map (·.2)) =
      [[581/500, 10401/100, 129/5, 149/200, 9667/1000, 1907/1000],
       [701/500, 61979/50, 3567/100, 1221/1000, 20, 2623/1000]] ∧
    saverMemberRows exData exVars (saverAsIsState exData s0) members = members.map (freshRow exData exVars) ∧
    decode 3 ['6'] = .ok [false, true, true] ∧ decode 3 ['3'] = .ok [true, true, false] := by
  decide +kernel

/-- `written_rows_faithful` instantiated on that situation (all its hypotheses hold together): the summary
of run `X`, map iterated backwards -/
example :
    let s := saverAsIsState exData (run exData [.setAll [true, false, false]])
    let members := [[false, true, true], [true, true, false]]
    (sortedRows (buildSummary .fixed .multi ['X'] (saverRow exVars s)
        (saverMemberRows exData exVars s members)).reverse).map (fun e => (⟨e.vars, e.actions⟩ : Row)) =
      saverRow exVars (init exData) :: members.map (freshRow exData exVars) :=
  (written_rows_faithful (D := exData) (by decide +kernel) (by decide +kernel) (by decide) exVars
    [.setAll [true, false, false]] [[false, true, true], [true, true, false]] (by decide)
    .fixed .multi ['X'] _ (List.reverse_perm _)).1

/-- the member rows do differ from each other and from the as-is row: the statement is not about a
constant model -/
example : freshRow exData exVars [false, true, true] ≠ freshRow exData exVars [true, true, false] ∧
    freshRow exData exVars [false, true, true] ≠ saverRow exVars (init exData) := by decide +kernel

/-- `written_asIs_row`, evaluated -/
example : saverRow exVars (init exData) = freshRow exData exVars [false, false, false] ∧
    decode 3 (saverRow exVars (init exData)).actions = .ok [false, false, false] := by decide +kernel

/-- `saver_actions_text`, evaluated: Go's `Compress(model).Encoding()` of the set {1, 2} is `6` -/
example : (compress [false, true, true]).map (fun a => (encoding a).2) = some ['6'] := by decide +kernel

/-- `InitConsistent` is needed (defect D1's shape, `exBad` of `Properties/C01.lean`): the member {0, 1}
loaded on top of the member {1} is not the fresh model's row - the row would depend on the archive's other
members -/
example :
    saverMemberRows exBad [(['S'], .sed)] (init exBad) [[false, true], [true, true]] ≠
      [[false, true], [true, true]].map (freshRow exBad [(['S'], .sed)]) := by decide +kernel

end Faithful

/-! ## the CSV text is one function of the run's rows -/

/-- the heading line the CSV marshaler derives from variable names `names` -/
def csvHeading (names : List Str) : Str :=
  joinSep (("Solution".toList :: names) ++ ["Actions".toList, "Summary".toList])

/-- **The heading does not depend on the entry `justSomeVariables` happens to yield** - as long as all rows
of the summary list the same variable names in the same order: the heading is `Solution, <names>, Actions,
Summary` and the whole text is the same for any two yielded entries of the map. -/
theorem csv_independent_of_yield (v : Variant) (f : Family) (rid : Str) (asIs : Row) (members : List Row)
    (names : List Str) (hnames : ∀ row ∈ asIs :: members, row.vars.map (·.1) = names)
    (iter : List Entry) (e₁ e₂ : Entry)
    (h₁ : e₁ ∈ buildSummary v f rid asIs members) (h₂ : e₂ ∈ buildSummary v f rid asIs members) :
    headerOf e₁.vars = csvHeading names ∧ renderCsv iter (some e₁) = renderCsv iter (some e₂) := by
  have hh : ∀ e ∈ buildSummary v f rid asIs members, headerOf e.vars = csvHeading names := by
    intro e he
    obtain ⟨row, hrow, hv⟩ := mem_buildSummary_vars he
    unfold headerOf csvHeading
    rw [hv, hnames row hrow]
  refine ⟨hh e₁ h₁, ?_⟩
  show headerOf e₁.vars ++ _ ++ _ = headerOf e₂.vars ++ _ ++ _
  rw [hh e₁ h₁, hh e₂ h₂]

/-- **The CSV summary is deterministic**: whatever the two iteration orders of the map (`AsSortedArray`) and
whatever the two entries yielded for the heading (`justSomeVariables`), the text written is the same - it is
the heading of `names` followed by the as-is row and the member rows in archive order, a function of
`(v, f, rid, asIs, members)` alone. -/
theorem csv_deterministic (v : Variant) (f : Family) (rid : Str) (asIs : Row) (members : List Row)
    (names : List Str) (hnames : ∀ row ∈ asIs :: members, row.vars.map (·.1) = names)
    (iter₁ iter₂ : List Entry) (hi₁ : iter₁.Perm (buildSummary v f rid asIs members))
    (hi₂ : iter₂.Perm (buildSummary v f rid asIs members)) (e₁ e₂ : Entry)
    (h₁ : e₁ ∈ buildSummary v f rid asIs members) (h₂ : e₂ ∈ buildSummary v f rid asIs members) :
    renderCsv iter₁ (some e₁) = renderCsv iter₂ (some e₂) ∧
    renderCsv iter₁ (some e₁) = csvHeading names ++ ['\n'] ++
      ((asIsEntry v f rid asIs :: memberEntries v f rid members.length 0 members).map
        fun e => rowOf e ++ ['\n']).flatten := by
  have a := csv_independent_of_iteration v f rid asIs members iter₁ iter₂ hi₁ hi₂ (some e₁)
  have b := csv_independent_of_yield v f rid asIs members names hnames iter₂ e₁ e₂ h₁ h₂
  refine ⟨a.trans b.2, ?_⟩
  show headerOf e₁.vars ++ _ ++ _ = _
  rw [b.1, rows_are_asis_then_members v f rid asIs members iter₁ hi₁]

section SaverCsv
open Crem.Catchment

/-- the rows the Saver derives (`written_rows_faithful`) do share their variable names: the hypothesis of
`csv_independent_of_yield` / `csv_deterministic` holds for everything the Saver writes -/
theorem saver_rows_share_names (D : Data) (vs : List (Str × VarId)) (s s' : State) (members : List (List Bool)) :
    ∀ row ∈ saverRow vs s :: saverMemberRows D vs s' members, row.vars.map (·.1) = vs.map (·.1) := by
  have hrow : ∀ t : State, (saverRow vs t).vars.map (·.1) = vs.map (·.1) := by
    intro t; simp [saverRow, List.map_map, Function.comp_def]
  have hmem : ∀ (ms : List (List Bool)) (t : State), ∀ row ∈ saverMemberRows D vs t ms,
      row.vars.map (·.1) = vs.map (·.1) := by
    intro ms
    induction ms with
    | nil => intro t row h; simp [saverMemberRows] at h
    | cons b rest ih =>
      intro t row h
      simp only [saverMemberRows, List.mem_cons] at h
      rcases h with rfl | h
      · exact hrow _
      · exact ih _ row h
  intro row h
  rcases List.mem_cons.mp h with rfl | h
  · exact hrow _
  · exact hmem members s' row h

end SaverCsv

/-! ### non-vacuity and necessity -/

/-- the example rows share the names `A, B`; the text (heading from ANY of the three entries, rows from the
reversed iteration order) is the stated one -/
example : ∀ row ∈ exAsIs :: [exM1, exM2], row.vars.map (·.1) = [['A'], ['B']] := by decide
example :
    let m := buildSummary .fixed .multi ['X'] exAsIs [exM1, exM2]
    ∀ e ∈ m, renderCsv m.reverse (some e) =
      "Solution, A, B, Actions, Summary\n".toList ++
      "As-Is, 10.000, 0.000, 0, As-is state; zero active management actions\n".toList ++
      "1-of-2, 7.000, 3.000, 1, Pareto front member 1 of 2\n".toList ++
      "2-of-2, 4.000, 9.000, 3, Pareto front member 2 of 2\n".toList := by decide +kernel
/-- `csv_deterministic` instantiated: heading from the as-is entry and forward iteration versus heading
from the last member and backward iteration -/
example :
    let m := buildSummary .fixed .multi ['X'] exAsIs [exM1, exM2]
    renderCsv m (some (asIsEntry .fixed .multi ['X'] exAsIs)) = renderCsv m.reverse m.getLast? :=
  (csv_deterministic .fixed .multi ['X'] exAsIs [exM1, exM2] [['A'], ['B']] (by decide) _ _
    (List.Perm.refl _) (List.reverse_perm _) _ _ (by decide) (by decide)).1
/-- `saver_rows_share_names` on the example dataset: every row lists the six names of `exVars` -/
example : (saverRow exVars (Crem.Catchment.init Crem.Catchment.exData) ::
      saverMemberRows Crem.Catchment.exData exVars (Crem.Catchment.init Crem.Catchment.exData)
        [[false, true, true], [true, true, false]]).map (fun row => row.vars.map (·.1)) =
    List.replicate 3 (exVars.map (·.1)) := by decide +kernel
/-- the hypothesis is needed: when the rows do NOT share their names the heading - hence the file - depends
on which entry Go's map iteration yields first -/
example :
    let m := buildSummary .fixed .multi ['X'] ⟨[(['A'], 1)], ['0']⟩ [⟨[(['B'], 2)], ['1']⟩]
    ∃ e₁ ∈ m, ∃ e₂ ∈ m, renderCsv m (some e₁) ≠ renderCsv m (some e₂) := by decide +kernel

/-! ## the JSON summary

`json.Marshaler.Marshal` builds `SolutionSummaries{SolutionSet: deriveSetNameFor(summary), Solutions:
summary.AsSortedArray()}` - two more iterations of the Go map, one for "the first key", one for the values -
and hands it to `json.MarshalIndent`.  `JsonSummary` is that value (fields, order, content; see
`Model/SummaryCsv.lean`); bytes are a function of it (`renderJsonWith`, any rendering of strings and numbers;
what `encoding/json` does with a float64 is not modelled). -/

/-- **The JSON document does not depend on the order in which the map is iterated**: its `Solutions` are the
as-is entry and the members in archive order, each reduced to `Id`, `Variables`, `Actions`, `Note`. -/
theorem json_independent_of_iteration (v : Variant) (f : Family) (rid : Str) (asIs : Row) (members : List Row)
    (iter₁ iter₂ : List Entry) (h₁ : iter₁.Perm (buildSummary v f rid asIs members))
    (h₂ : iter₂.Perm (buildSummary v f rid asIs members)) (setName : Str) :
    jsonOf setName iter₁ = jsonOf setName iter₂ ∧
    jsonOf setName iter₁ = ⟨setName,
      (asIsEntry v f rid asIs :: memberEntries v f rid members.length 0 members).map jsonSolutionOf⟩ := by
  unfold jsonOf
  rw [rows_are_asis_then_members v f rid asIs members iter₁ h₁,
    rows_are_asis_then_members v f rid asIs members iter₂ h₂]
  exact ⟨rfl, rfl⟩

/-- … and its `Solutions`, stripped of `Id` and `Note`, are the rows the Saver derived (so that
`written_rows_faithful` speaks about the JSON file as it does about the CSV file); the `Id`s are the labels
of the run's keys -/
theorem json_solutions (v : Variant) (f : Family) (rid : Str) (asIs : Row) (members : List Row)
    (hf : FamilyOk f members) (iter : List Entry) (hiter : iter.Perm (buildSummary v f rid asIs members))
    (setName : Str) :
    (jsonOf setName iter).solutions.map (fun s => (⟨s.variables, s.actions⟩ : Row)) = asIs :: members ∧
    (jsonOf setName iter).solutions.map (·.id) = (keys v f rid members.length).map (label v) := by
  constructor
  · rw [← written_rows v f rid asIs members iter hiter]
    simp [jsonOf, jsonSolutionOf, List.map_map, Function.comp_def]
  · rw [← written_labels v f rid asIs members hf iter hiter]
    simp [jsonOf, jsonSolutionOf, List.map_map, Function.comp_def]

/-- hence the bytes: whatever `encoding/json` does with strings (`str`) and float64 values (`num`), the text
is the same for any two iteration orders - in particular the modelled `renderJson` -/
theorem json_bytes_independent_of_iteration (v : Variant) (f : Family) (rid : Str) (asIs : Row)
    (members : List Row) (iter₁ iter₂ : List Entry) (h₁ : iter₁.Perm (buildSummary v f rid asIs members))
    (h₂ : iter₂.Perm (buildSummary v f rid asIs members)) (setName : Str) (str : Str → Str) (num : Rat → Str) :
    renderJsonWith str num (jsonOf setName iter₁) = renderJsonWith str num (jsonOf setName iter₂) ∧
    renderJson setName iter₁ = renderJson setName iter₂ := by
  unfold renderJson
  rw [(json_independent_of_iteration v f rid asIs members iter₁ iter₂ h₁ h₂ setName).1]
  exact ⟨rfl, rfl⟩

/-- **The JSON summary is deterministic** (D6-D8-repaired code, clean scenario name): whichever keys
`getFirstKey` yields and whichever orders `AsSortedArray` iterates in, `Marshal` does not panic and
marshals the same value: the set name is the run id, the solutions are the as-is entry and the members in
archive order. -/
theorem json_deterministic (name : Str) (hc : Clean name) (r R : Nat) (f : Family) (asIs : Row)
    (members : List Row) (hf : FamilyOk f members) (iter₁ iter₂ : List Entry)
    (h₁ : iter₁.Perm (buildSummary .fixed f (runId name r R) asIs members))
    (h₂ : iter₂.Perm (buildSummary .fixed f (runId name r R) asIs members)) (k₁ k₂ : Str)
    (hk₁ : k₁ ∈ (buildSummary .fixed f (runId name r R) asIs members).map (·.key))
    (hk₂ : k₂ ∈ (buildSummary .fixed f (runId name r R) asIs members).map (·.key)) :
    marshalJson iter₁ (some k₁) = marshalJson iter₂ (some k₂) ∧
    marshalJson iter₁ (some k₁) = some ⟨runId name r R,
      (asIsEntry .fixed f (runId name r R) asIs ::
        memberEntries .fixed f (runId name r R) members.length 0 members).map jsonSolutionOf⟩ := by
  rw [buildSummary_keys .fixed f (runId name r R) asIs members hf] at hk₁ hk₂
  have n₁ := (name_independent_of_key name hc r R members.length f .json k₁ hk₁).2.2
  have n₂ := (name_independent_of_key name hc r R members.length f .json k₂ hk₂).2.2
  have j := json_independent_of_iteration .fixed f (runId name r R) asIs members iter₁ iter₂ h₁ h₂
    (runId name r R)
  simp only [marshalJson, Option.getD_some, n₁, n₂, Option.map_some]
  exact ⟨by rw [j.1], by rw [j.2]⟩

/-! ### non-vacuity, and the code as found -/

/-- the example summary of run 2 of 3: every key and both iteration orders give the document named
`My Run 7 (2/3)` with the three solutions `As-Is`, `1-of-2`, `2-of-2` -/
example :
    let m := buildSummary .fixed .multi (runId exName 2 3) exAsIs [exM1, exM2]
    ∀ k ∈ m.map (·.key), ∀ iter ∈ [m, m.reverse],
      marshalJson iter (some k) = some
        ⟨exName ++ [' ', '(', '2', '/', '3', ')'],
         [⟨sAsIs, exAsIs.vars, ['0'], asIsNote⟩, ⟨['1'] ++ sOf ++ ['2'], exM1.vars, ['1'], memberNote 1 2⟩,
          ⟨['2'] ++ sOf ++ ['2'], exM2.vars, ['3'], memberNote 2 2⟩]⟩ := by decide +kernel
/-- `json_deterministic` instantiated: first key = as-is key with forward iteration versus first key = a
member key with backward iteration -/
example :
    let m := buildSummary .fixed .multi (runId exName 2 3) exAsIs [exM1, exM2]
    marshalJson m (some (asIsKey .fixed .multi (runId exName 2 3))) =
      marshalJson m.reverse (some (memberKey (runId exName 2 3) 2 2)) :=
  (json_deterministic exName (by decide) 2 3 .multi exAsIs [exM1, exM2] (by decide) _ _
    (List.Perm.refl _) (List.reverse_perm _) _ _ (by decide) (by decide)).1
/-- `json_solutions` and `json_bytes_independent_of_iteration`, evaluated -/
example :
    let m := buildSummary .fixed .multi ['X'] exAsIs [exM1, exM2]
    (jsonOf ['X'] m.reverse).solutions.map (fun s => (⟨s.variables, s.actions⟩ : Row)) = [exAsIs, exM1, exM2] ∧
    (jsonOf ['X'] m.reverse).solutions.map (·.id) = [sAsIs, ['1'] ++ sOf ++ ['2'], ['2'] ++ sOf ++ ['2']] ∧
    renderJson ['X'] m = renderJson ['X'] m.reverse ∧ m ≠ m.reverse := by decide +kernel
/-- the modelled bytes of a small document (member names, order, layout, `[]`, string escaping of
`encoding/json`; compared byte for byte with go1.23's `json.MarshalIndent` when the model was written) -/
example : renderJsonWith jsonString jsonNumGrid3
      ⟨['<', 'X'], [⟨['I'], [(['A'], 21/2)], ['0'], ['N']⟩, ⟨['J'], [], ['1'], []⟩]⟩ =
    "{\n  \"SolutionSet\": \"\\u003cX\",\n  \"Solutions\": [\n    {\n      \"Id\": \"I\",\n      \"Variables\": [\n".toList ++
    "        {\n          \"Name\": \"A\",\n          \"Value\": 10.5\n        }\n      ],\n      \"Actions\": \"0\",\n".toList ++
    "      \"Note\": \"N\"\n    },\n    {\n      \"Id\": \"J\",\n      \"Variables\": [],\n      \"Actions\": \"1\",\n".toList ++
    "      \"Note\": \"\"\n    }\n  ]\n}".toList := by
  decide +kernel
/-- a nil `Solutions` slice is `null` (unreachable: `deriveSetNameFor` panics first on an empty map) -/
example : renderJsonWith jsonString jsonNumGrid3 ⟨['X'], []⟩ =
    "{\n  \"SolutionSet\": \"X\",\n  \"Solutions\": null\n}".toList ∧ marshalJson [] none = none := by
  decide +kernel
/-- `renderJson` of a real summary: two solutions, one variable: 22 lines -/
example : (splitLines (renderJson ['X'] (buildSummary .fixed .single ['X'] ⟨[(['A'], 21/2)], ['0']⟩
    [⟨[], ['1']⟩]).reverse)).length = 22 := by decide +kernel
/-- the code as found (D8): with the as-is key of a solution set `Marshal` panics, with the member key it
does not - whether a JSON summary is written at all depended on Go's map iteration -/
example :
    let m := buildSummary .current .multi ['X'] exAsIs [exM1]
    m.map (fun e => (marshalJson m (some e.key)).isSome) = [false, true] := by decide +kernel

/-! ## one summary per finished run (`Saver.ObserveEvent`) -/

/-- the map-key choice behind `FileNameSafeId` yields an entry OF the map (Go: `for key := range s { return key }`) -/
def PicksMember (pick : List Entry → Option Entry) : Prop :=
  ∀ m : List Entry, m ≠ [] → ∃ e ∈ m, pick m = some e

/-- the event of a finished run of either family: exactly one of the two attributes -/
def EventOfRun (e : SaverEvent) (rid : Str) : Prop :=
  e.finished = true ∧
  ((∃ asIs opt, e.compressed = some (rid, asIs, opt) ∧ e.archive = none) ∨
   (∃ asIs members, e.archive = some (rid, asIs, members) ∧ e.compressed = none))

theorem observeEvent_other_events (v : Variant) (ot : OutputType) (pick : List Entry → Option Entry)
    (e : SaverEvent) (h : e.finished = false) : observeEvent v ot pick e = [] := by
  simp [observeEvent, h]

/-- **For every finished run the Saver writes exactly one summary**, named as intended - whichever key the map
yields, for EVERY scenario name, run number and run count (repaired code, `Variant.anchored`), and the map written
is the run's own (`buildSummary`; its rows: `rows_are_asis_then_members`, `written_rows_faithful`). -/
theorem one_summary_per_finished_run (name : Str) (r R : Nat) (ot : OutputType)
    (pick : List Entry → Option Entry) (hp : PicksMember pick) (e : SaverEvent)
    (he : EventOfRun e (runId name r R)) :
    ∃ w, observeEvent .anchored ot pick e = [w] ∧ w.file = intendedFileNameA ot name r R ∧
      ((∃ asIs opt, w.entries = buildSummary .anchored .single (runId name r R) asIs [opt]) ∨
       (∃ asIs members, w.entries = buildSummary .anchored .multi (runId name r R) asIs members)) := by
  obtain ⟨hfin, hattr⟩ := he
  have key_file : ∀ (f : Family) (asIs : Row) (members : List Row), FamilyOk f members →
      (writeSummary .anchored ot pick (buildSummary .anchored f (runId name r R) asIs members)).file
        = intendedFileNameA ot name r R := by
    intro f asIs members hf
    have hne : buildSummary .anchored f (runId name r R) asIs members ≠ [] := by
      rw [buildSummary_eq]; simp [entriesInOrder]
    obtain ⟨x, hx, hpx⟩ := hp _ hne
    have hk : x.key ∈ keys .anchored f (runId name r R) members.length := by
      rw [← buildSummary_keys .anchored f (runId name r R) asIs members hf]
      exact List.mem_map.mpr ⟨x, hx, rfl⟩
    simp only [writeSummary, hpx]
    exact (name_independent_of_key_all name r R members.length f ot x.key hk).1
  rcases hattr with ⟨asIs, opt, hc, ha⟩ | ⟨asIs, members, ha, hc⟩
  · refine ⟨_, by simp [observeEvent, hfin, hc, ha], key_file .single asIs [opt] (fun _ => rfl), Or.inl ⟨asIs, opt, rfl⟩⟩
  · refine ⟨_, by simp [observeEvent, hfin, hc, ha], key_file .multi asIs members (fun h => by cases h),
      Or.inr ⟨asIs, members, rfl⟩⟩

/-- **R finished runs leave R summaries in R different files**: the events of runs 1..R of one scenario (any name;
each run of either family, any archive size), observed in ANY order `order` by one Saver, each make it write one
file, and no two of the files share a name - no run's summary replaces another's. -/
theorem one_file_per_run_events (name : Str) (R : Nat) (ot : OutputType)
    (pick : List Entry → Option Entry) (hp : PicksMember pick) (ev : Nat → SaverEvent)
    (hev : ∀ i < R, EventOfRun (ev i) (runId name (i + 1) R)) :
    ((List.range R).flatMap (fun i => observeEvent .anchored ot pick (ev i))).length = R ∧
    (((List.range R).flatMap (fun i => observeEvent .anchored ot pick (ev i))).map (·.file)).Nodup := by
  have hw : ∀ i ∈ List.range R, observeEvent .anchored ot pick (ev i)
      = [⟨intendedFileNameA ot name (i + 1) R, ((observeEvent .anchored ot pick (ev i)).map (·.entries)).flatten⟩] := by
    intro i hi
    obtain ⟨w, hw, hf, _⟩ := one_summary_per_finished_run name (i + 1) R ot pick hp (ev i) (hev i (List.mem_range.mp hi))
    rw [hw]
    simp only [List.map_cons, List.map_nil, List.flatten_cons, List.flatten_nil, List.append_nil, List.cons.injEq, and_true]
    rw [← hf]
  have hflat : (List.range R).flatMap (fun i => observeEvent .anchored ot pick (ev i))
      = (List.range R).map (fun i => (⟨intendedFileNameA ot name (i + 1) R,
          ((observeEvent .anchored ot pick (ev i)).map (·.entries)).flatten⟩ : SummaryWrite)) :=
    flatMap_eq_map_of_singleton _ _ _ hw
  rw [hflat]
  refine ⟨by simp, ?_⟩
  rw [List.map_map, List.Nodup, List.pairwise_map]
  refine List.Pairwise.imp_of_mem ?_ (List.nodup_range (n := R))
  intro i j hi hj hij heq
  have hi' := List.mem_range.mp hi
  simp only [Function.comp] at heq
  rcases Nat.lt_or_ge 1 R with hR | hR
  · have := run_files_differ_all name (i + 1) (j + 1) R hR ot heq
    omega
  · have hj' := List.mem_range.mp hj
    omega

/-- non-vacuity: the two runs of `Best Solution`, one of each family, picked keys of either end of the map -/
def exPick : List Entry → Option Entry := fun m => m.getLast?
example : PicksMember exPick := by
  intro m hm
  exact ⟨m.getLast hm, List.getLast_mem hm, List.getLast?_eq_some_getLast hm⟩
example :
    let e1 : SaverEvent := ⟨true, some (runId exBestSol 1 2, exAsIs, exM1), none⟩
    let e2 : SaverEvent := ⟨true, none, some (runId exBestSol 2 2, exAsIs, [exM1, exM2])⟩
    EventOfRun e1 (runId exBestSol 1 2) ∧ EventOfRun e2 (runId exBestSol 2 2) ∧
    ((observeEvent .anchored .csv exPick e1 ++ observeEvent .anchored .csv exPick e2).map (·.file)) =
      ["BestSolution(1_of_2)-Summary.csv".toList, "BestSolution(2_of_2)-Summary.csv".toList] ∧
    -- the D6-D8 code: both runs write `Best-Summary.csv`
    ((observeEvent .fixed .csv exPick e1 ++ observeEvent .fixed .csv exPick e2).map (·.file)) =
      ["Best-Summary.csv".toList, "Best-Summary.csv".toList] := by
  refine ⟨⟨rfl, Or.inl ⟨_, _, rfl, rfl⟩⟩, ⟨rfl, Or.inr ⟨_, _, rfl, rfl⟩⟩, ?_, ?_⟩ <;> decide +kernel
/-- an event carrying BOTH attributes (no annealer of crem sends one) is saved twice, into one file -/
example :
    (observeEvent .anchored .json exPick ⟨true, some (['X'], exAsIs, exM1), some (['X'], exAsIs, [exM1, exM2])⟩).map (·.file)
      = ["X-Summary.json".toList, "X-Summary.json".toList] := by decide +kernel

end Crem.C12
