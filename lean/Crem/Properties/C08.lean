import Crem.Proofs.Runs
/-!
# C08 — runs of a scenario are independent and safe to execute concurrently  (partial)

Property theorems about the model of `scenario.Runner.runScenario` (`Crem/Model/Runs.lean`): `runs`
workers, each annealing a clone of the configured annealer, started by the main goroutine through
a buffered channel of capacity `bound` and joined through a WaitGroup; the state is `shared`
(read-only, a constant) × per-worker local state `(priv i, cells (addr i))`; a schedule is ANY
list of atomic events each enabled in turn (= every interleaving the channel and the WaitGroup
admit), for every number of runs and every bound.

* `noninterference` — for EVERY schedule, each run's local state is the one its own steps
  produce from its own fresh initial state, and a run that has completed is exactly the outcome
  of executing it alone (`solo`): no other run's progress, result or failure shows in it.
  Hypothesis `ClonePrivate`: no two clones (and no clone and the template) reach the same mutable
  cell.  It is NOT a theorem about the Go code: it is established on the real objects on every
  check (reflection walk over two `DeepClone()`s of the configured annealer, `multi-run` suite).
* `fresh_start`, `fresh_start_anneal` — provided `ClonePrivate`, every run starts annealing from
  (starting temperature, iteration 1, empty solution set, data loaded), whatever ran before or
  beside it.  `shared_coolant_starts_cold` refutes it without the hypothesis (finding D4).
* `counter_invariant`, `progress`, `schedule_bounded`, `all_finish`, `can_always_complete` — the
  channel/WaitGroup bookkeeping: in-flight ≤ bound, spawned ≤ runs, WaitGroup counter = runs not
  yet finished; no reachable state is stuck; every schedule is finite (explicit bound); a schedule
  that cannot be extended has returned from `Run()` with all runs finished.  No fairness
  assumption is needed: there is no infinite schedule, so every scheduler — fair or not — that
  keeps scheduling enabled events completes all runs.
* `failure_isolated` — with failures confined to the failing run (`isolate = true`, what the
  property demands and what a `recover` in the run goroutine gives) one run's panic changes
  nothing for the others and `Run()` still returns, reporting exactly the failed runs.
  `today_all_finish_partial` is the statement that holds for bare goroutines (`isolate = false`,
  the code before the D26 repair): only when no run fails; `bare_goroutine_panic_loses_siblings`
  refutes the full statement.

Partial: the atomic-step interleaving semantics of the model is sequentially consistent; it is
not the Go memory model.  Data-race freedom of the real code is sampled (reflection walk for
shared mutable objects + the race detector over the same scenarios), never proved.

Every `theorem` in this file is audited by `./check C08` (`#print axioms`).
-/
namespace Crem.Runs

variable {Sh P C : Type}

/-! ## independence of the runs -/

/-- For every schedule and every run `i` that has started annealing: what it saw when it started
is its own fresh state `(initP i, c₀)` (`c₀` = the template's cell when `Run()` was entered); its
local state now is what ITS OWN `steps i` steps make of that state; none of those steps was taken
after it was done or should have failed.  If the run has completed, then for every fuel that
suffices the run executed alone has the very same outcome: `failed` in the same local state if it
panicked, `finished` with the same final local state (= the same output) otherwise. -/
theorem noninterference (cfg : Config Sh P C) (hpriv : ClonePrivate cfg) (cells₀ : Nat → C)
    (sch : List Ev) (s : State P C) (hrun : run cfg (init cfg cells₀) sch = some s)
    (i : Nat) (hi : i < cfg.runs) :
    let l₀ := (cfg.initP i, cells₀ cfg.tmpl)
    (s.phase i = .running ∨ s.phase i = .released ∨ s.phase i = .finished →
        s.obs i = some l₀ ∧ loc cfg s i = iter (cfg.step cfg.shared) (s.steps i) l₀) ∧
    (s.phase i = .released ∨ s.phase i = .finished →
        ∀ fuel, s.steps i ≤ fuel →
          solo cfg.toWorker cfg.shared fuel l₀ =
            if s.err i then .failed (loc cfg s i) else .finished (loc cfg s i)) := by
  intro l₀
  have hw := (Tr.run hpriv hrun).2.worker i hi
  refine ⟨?_, ?_⟩
  · intro hph
    rcases hph with h | h | h <;> rw [h] at hw
    · exact ⟨hw.1, hw.2.1⟩
    · exact ⟨hw.1.1, hw.1.2.1⟩
    · exact ⟨hw.1.1, hw.1.2.1⟩
  · intro hph fuel hf
    rcases hph with h | h <;> rw [h] at hw <;> exact solo_of_core hw.1 hw.2 fuel hf

/-- The product-state reading `shared × (i → local i)`: when worker `i`'s cell simply IS cell `i + 1`
(and the template's is cell 0) nothing has to be assumed — the state is a product by construction
and `noninterference` holds outright. -/
theorem noninterference_product (cfg : Config Sh P C) (htmpl : cfg.tmpl = 0) (haddr : ∀ i, cfg.addr i = i + 1)
    (cells₀ : Nat → C) (sch : List Ev) (s : State P C) (hrun : run cfg (init cfg cells₀) sch = some s)
    (i : Nat) (hi : i < cfg.runs) :
    (s.phase i = .running ∨ s.phase i = .released ∨ s.phase i = .finished →
        s.obs i = some (cfg.initP i, cells₀ 0) ∧
        loc cfg s i = iter (cfg.step cfg.shared) (s.steps i) (cfg.initP i, cells₀ 0)) ∧
    (s.phase i = .released ∨ s.phase i = .finished →
        ∀ fuel, s.steps i ≤ fuel →
          solo cfg.toWorker cfg.shared fuel (cfg.initP i, cells₀ 0) =
            if s.err i then .failed (loc cfg s i) else .finished (loc cfg s i)) := by
  have hp : ClonePrivate cfg := by
    refine ⟨?_, ?_⟩
    · intro j _; rw [haddr j, htmpl]; omega
    · intro j _ k _ h; rw [haddr j, haddr k] at h; omega
  have := noninterference cfg hp cells₀ sch s hrun i hi
  rw [htmpl] at this
  exact this

/-- The result a run delivers is the result of executing it alone. -/
theorem result_is_solo (cfg : Config Sh P C) (hpriv : ClonePrivate cfg) (cells₀ : Nat → C)
    (sch : List Ev) (s : State P C) (hrun : run cfg (init cfg cells₀) sch = some s)
    (i : Nat) (hi : i < cfg.runs) (l : P × C) (hres : result cfg s i = some l) :
    ∀ fuel, s.steps i ≤ fuel → solo cfg.toWorker cfg.shared fuel (cfg.initP i, cells₀ cfg.tmpl) = .finished l := by
  intro fuel hf
  unfold result at hres
  split at hres
  · rename_i hc
    cases hres
    have := (noninterference cfg hpriv cells₀ sch s hrun i hi).2 hc.1 fuel hf
    rw [this, hc.2]; rfl
  · cases hres

/-- The template's cell is never written (so every clone, whenever it is made, copies `c₀`). -/
theorem template_untouched (cfg : Config Sh P C) (hpriv : ClonePrivate cfg) (cells₀ : Nat → C)
    (sch : List Ev) (s : State P C) (hrun : run cfg (init cfg cells₀) sch = some s) :
    s.cells cfg.tmpl = cells₀ cfg.tmpl :=
  (Tr.run hpriv hrun).2.tmpl_cell

/-- Provided `ClonePrivate`: whatever has run before or runs beside it, a run starts annealing
from its fresh private state and the template's original cell. -/
theorem fresh_start (cfg : Config Sh P C) (hpriv : ClonePrivate cfg) (cells₀ : Nat → C)
    (sch : List Ev) (s : State P C) (hrun : run cfg (init cfg cells₀) sch = some s)
    (i : Nat) (hi : i < cfg.runs) (hstarted : s.phase i ≠ .idle ∧ s.phase i ≠ .spawned) :
    s.obs i = some (cfg.initP i, cells₀ cfg.tmpl) := by
  have h := (noninterference cfg hpriv cells₀ sch s hrun i hi).1
  cases hph : s.phase i with
  | idle => exact absurd hph hstarted.1
  | spawned => exact absurd hph hstarted.2
  | running => exact (h (Or.inl hph)).1
  | released => exact (h (Or.inr (Or.inl hph))).1
  | finished => exact (h (Or.inr (Or.inr hph))).1

/-- every clone of `annealCfg … priv := true` owns its coolant -/
theorem annealCfg_private (inp : Inputs) (runs bound : Nat) (isolate : Bool) :
    ClonePrivate (annealCfg inp runs bound isolate true) := by
  refine ⟨?_, ?_⟩
  · intro i _; simp [annealCfg]
  · intro i _ j _ h; simp [annealCfg] at h; exact h

/-- The property's words: every run of an annealing scenario whose clones are private starts at
the configured starting temperature (no cooling applied: `T₀·a⁰`), iteration 1, with an empty
solution set and its data loaded — for every number of runs, every concurrency bound, every
schedule, with or without failing siblings. -/
theorem fresh_start_anneal (inp : Inputs) (runs bound : Nat) (isolate : Bool) (cells₀ : Nat → Coolant)
    (h0 : cells₀ 0 = ⟨0⟩) (sch : List Ev) (s : State RunPriv Coolant)
    (hrun : run (annealCfg inp runs bound isolate true) (init (annealCfg inp runs bound isolate true) cells₀) sch = some s)
    (i : Nat) (hi : i < runs) (hstarted : s.phase i ≠ .idle ∧ s.phase i ≠ .spawned) :
    s.obs i = some ({ runId := i, iteration := 1, archive := 0, dataLoaded := true }, { coolings := 0 }) := by
  have := fresh_start _ (annealCfg_private inp runs bound isolate) cells₀ sch s hrun i hi hstarted
  rw [this]
  show some (freshPriv i, cells₀ 0) = _
  rw [h0]; rfl

/-! ## the bounded-concurrency bookkeeping -/

/-- Counter invariant of `runScenario`, for every schedule: the channel holds exactly one token
per run in flight and never more than its capacity; runs are started in order and never more than
`runs`; the WaitGroup counter is the number of runs not yet finished; `Run()` has returned only
after all of them. -/
theorem counter_invariant (cfg : Config Sh P C) (cells₀ : Nat → C) (sch : List Ev) (s : State P C)
    (hrun : run cfg (init cfg cells₀) sch = some s) :
    s.chan = cnt inflight s.phase s.next ∧ s.chan ≤ cfg.bound ∧ s.next ≤ cfg.runs ∧
    (∀ i, s.next ≤ i → s.phase i = .idle) ∧ (∀ i, i < s.next → s.phase i ≠ .idle) ∧
    s.wg + cnt isFinished s.phase s.next = cfg.runs ∧
    (s.returned = true → s.next = cfg.runs ∧ s.wg = 0) := by
  have hB := Book.run hrun
  exact ⟨hB.chan_eq, hB.chan_le, hB.next_le, hB.idle_ge, hB.busy_lt, hB.wg_eq, hB.ret_done⟩

/-- No deadlock: with a concurrency bound of at least one, in every reachable state in which
`Run()` has not returned (and the process has not been killed) some event is enabled. -/
theorem progress_reachable (cfg : Config Sh P C) (hb : 0 < cfg.bound) (cells₀ : Nat → C) (sch : List Ev)
    (s : State P C) (hrun : run cfg (init cfg cells₀) sch = some s)
    (hc : s.crashed = false) (hr : s.returned = false) : ∃ e s', exec cfg s e = some s' :=
  progress hb (Book.run hrun) hc hr

/-- No livelock: every event strictly decreases a natural-number measure, so a schedule is never
longer than the measure of the initial state, `Σ_i (μ (initP i) + 5) + 2`, where `μ` bounds the
number of steps a run still has to take. -/
theorem schedule_bounded (cfg : Config Sh P C) (μ : P → Nat) (hμ : Terminates cfg μ) (cells₀ : Nat → C)
    (sch : List Ev) (s : State P C) (hrun : run cfg (init cfg cells₀) sch = some s) :
    sch.length + measure cfg μ s ≤ measure cfg μ (init cfg cells₀) ∧
    measure cfg μ (init cfg cells₀) = sumN (fun i => μ (cfg.initP i) + 5) cfg.runs + 2 := by
  refine ⟨?_, ?_⟩
  · have key : ∀ (sch : List Ev) (s₀ s : State P C), Book cfg s₀ → run cfg s₀ sch = some s →
        sch.length + measure cfg μ s ≤ measure cfg μ s₀ := by
      intro sch
      induction sch with
      | nil => intro s₀ s _ h; simp only [run] at h; cases h; simp
      | cons e es ih =>
        intro s₀ s hB h
        simp only [run] at h
        cases he : exec cfg s₀ e with
        | none => rw [he] at h; cases h
        | some s₁ =>
          rw [he] at h
          have h1 := ih s₁ s (hB.exec he) h
          have h2 := measure_dec hB hμ he
          simp only [List.length_cons]; omega
    exact key sch _ s (Book.init cfg cells₀) hrun
  · simp only [measure, init]
    have : sumN (weight cfg μ (init cfg cells₀)) cfg.runs = sumN (fun i => μ (cfg.initP i) + 5) cfg.runs :=
      sumN_congr (fun _ _ => rfl)
    simp only [init] at this
    rw [this]; simp

/-- Every schedule that cannot be extended has completed all runs: `Run()` has returned and every
one of the `runs` runs has finished.  (`Safe`: failures are isolated, or no run fails.) -/
theorem all_finish (cfg : Config Sh P C) (hb : 0 < cfg.bound) (hsafe : Safe cfg) (cells₀ : Nat → C)
    (sch : List Ev) (s : State P C) (hrun : run cfg (init cfg cells₀) sch = some s)
    (hmax : ∀ e, exec cfg s e = none) :
    s.returned = true ∧ ∀ i, i < cfg.runs → s.phase i = .finished := by
  have hB := Book.run hrun
  have hc := run_not_crashed hsafe hrun
  have hr : s.returned = true := by
    cases h : s.returned with
    | true => rfl
    | false =>
      obtain ⟨e, s', he⟩ := progress hb hB hc h
      rw [hmax e] at he; cases he
  refine ⟨hr, ?_⟩
  obtain ⟨hn, hw⟩ := hB.ret_done hr
  have hfin : cnt isFinished s.phase s.next = s.next := by have := hB.wg_eq; omega
  intro i hi
  -- all `next = runs` workers are counted as finished
  have hnot : cnt notFinished s.phase s.next = 0 := by
    have hsum : ∀ n, cnt isFinished s.phase n + cnt notFinished s.phase n = n := by
      intro n
      induction n with
      | zero => rfl
      | succ n ih =>
        simp only [cnt, notFinished]
        by_cases h : isFinished (s.phase n) = true <;> simp [h] <;> omega
    have := hsum s.next; omega
  have := forall_of_cnt_zero _ _ hnot i (by omega)
  cases hph : s.phase i <;> simp [notFinished, isFinished, hph] at this
  rfl

/-- From every reachable state the scenario can be completed, and (by `schedule_bounded`) every
way of continuing does complete it: whatever the scheduler has done so far, `Run()` returns. -/
theorem can_always_complete (cfg : Config Sh P C) (hb : 0 < cfg.bound) (hsafe : Safe cfg) (μ : P → Nat)
    (hμ : Terminates cfg μ) (cells₀ : Nat → C) (sch : List Ev) (s : State P C)
    (hrun : run cfg (init cfg cells₀) sch = some s) :
    ∃ sch' s', run cfg (init cfg cells₀) (sch ++ sch') = some s' ∧ s'.returned = true := by
  have key : ∀ (n : Nat) (s : State P C), measure cfg μ s ≤ n → Book cfg s → s.crashed = false →
      ∃ sch' s', run cfg s sch' = some s' ∧ s'.returned = true := by
    intro n
    induction n with
    | zero =>
      intro s hm _ hc
      simp only [measure, hc] at hm
      simp at hm
    | succ n ih =>
      intro s hm hB hc
      cases hr : s.returned with
      | true => exact ⟨[], s, rfl, hr⟩
      | false =>
        obtain ⟨e, s₁, he⟩ := progress hb hB hc hr
        have hdec := measure_dec hB hμ he
        obtain ⟨sch', s', h1, h2⟩ := ih s₁ (by omega) (hB.exec he) (exec_not_crashed hsafe hc he)
        exact ⟨e :: sch', s', by simp only [run, he]; exact h1, h2⟩
  obtain ⟨sch', s', h1, h2⟩ := key _ s (Nat.le_refl _) (Book.run hrun) (run_not_crashed hsafe hrun)
  exact ⟨sch', s', by rw [run_append, hrun]; exact h1, h2⟩

/-! ## failures -/

/-- The behaviour the property demands.  With a panic confined to the run it occurs in, for every
schedule that cannot be extended: the process is alive, `Run()` has returned, every run has
finished, and every run — failing siblings or not — has exactly the outcome of executing it
alone: `err i` iff its own solo execution fails (then in the same state), otherwise its result is
delivered and equals the solo result.  The runs `Run()` reports as failed are exactly those. -/
theorem failure_isolated (cfg : Config Sh P C) (hb : 0 < cfg.bound) (hiso : cfg.isolate = true)
    (hpriv : ClonePrivate cfg) (cells₀ : Nat → C) (sch : List Ev) (s : State P C)
    (hrun : run cfg (init cfg cells₀) sch = some s) (hmax : ∀ e, exec cfg s e = none) :
    s.crashed = false ∧ s.returned = true ∧
    ∀ i, i < cfg.runs →
      s.phase i = .finished ∧
      (∀ fuel, s.steps i ≤ fuel →
        solo cfg.toWorker cfg.shared fuel (cfg.initP i, cells₀ cfg.tmpl) =
          if s.err i then .failed (loc cfg s i) else .finished (loc cfg s i)) ∧
      (s.err i = false → result cfg s i = some (loc cfg s i)) ∧
      (s.err i = true ↔ i ∈ failedRuns cfg s) := by
  have hsafe : Safe cfg := Or.inl hiso
  obtain ⟨hr, hall⟩ := all_finish cfg hb hsafe cells₀ sch s hrun hmax
  refine ⟨run_not_crashed hsafe hrun, hr, ?_⟩
  intro i hi
  have hph := hall i hi
  refine ⟨hph, (noninterference cfg hpriv cells₀ sch s hrun i hi).2 (Or.inr hph), ?_, ?_⟩
  · intro he; simp [result, hph, he]
  · simp [failedRuns, hi]

/- Full statement for the code before the D26 repair (`isolate = false`, runs on bare
   goroutines), which does NOT hold:

     theorem today_all_finish (cfg) (hb : 0 < cfg.bound) (htoday : cfg.isolate = false) … (hmax : ∀ e, exec cfg s e = none) :
         s.returned = true ∧ ∀ i, i < cfg.runs → s.phase i = .finished

   Refuted by `bare_goroutine_panic_loses_siblings` below.  What holds is the statement under the
   additional hypothesis that no run ever fails: -/
theorem today_all_finish_partial (cfg : Config Sh P C) (hb : 0 < cfg.bound) (_htoday : cfg.isolate = false)
    (hnofault : ∀ l, cfg.fails cfg.shared l = false) (cells₀ : Nat → C)
    (sch : List Ev) (s : State P C) (hrun : run cfg (init cfg cells₀) sch = some s)
    (hmax : ∀ e, exec cfg s e = none) :
    s.returned = true ∧ ∀ i, i < cfg.runs → s.phase i = .finished :=
  all_finish cfg hb (Or.inr hnofault) cells₀ sch s hrun hmax

/-- A killed process does nothing any more: no event is enabled in a crashed state. -/
theorem crashed_stuck (cfg : Config Sh P C) (s : State P C) (hc : s.crashed = true) (e : Ev) :
    exec cfg s e = none := by
  cases e <;> simp [exec, hc]

/-! ## non-vacuity and refutations -/

section examples

/-- budget 2, no failure -/
def inpOK : Inputs := { budget := 2, archiveAfter := fun _ k => k, failRun := none, failAt := 0 }
/-- budget 2, run 0 panics in its first iteration -/
def inpFault : Inputs := { inpOK with failRun := some 0, failAt := 1 }

/-- the annealing worker terminates: `budget + 1 - iteration` decreases -/
theorem anneal_terminates (inp : Inputs) (runs bound : Nat) (isolate priv : Bool) :
    Terminates (annealCfg inp runs bound isolate priv) (fun p => inp.budget + 1 - p.iteration) := by
  intro l hd _
  simp only [annealCfg, annealWorker, decide_eq_false_iff_not, Nat.not_lt] at hd ⊢
  omega

/-- two concurrent private runs, bare goroutines, no failure -/
def cfgOK : Config Inputs RunPriv Coolant := annealCfg inpOK 2 2 false true
/-- two sequential runs sharing the template's coolant (the code before the D4 repair) -/
def cfgShared : Config Inputs RunPriv Coolant := annealCfg inpOK 2 1 false false
/-- two concurrent private runs, run 0 panics, bare goroutines (the code before the D26 repair) -/
def cfgBare : Config Inputs RunPriv Coolant := annealCfg inpFault 2 2 false true
/-- the same with failures isolated -/
def cfgIso : Config Inputs RunPriv Coolant := annealCfg inpFault 2 2 true true

def cells0 : Nat → Coolant := fun _ => ⟨0⟩

/-- Non-vacuity: a complete schedule of 2 concurrent private runs exists (13 events); it ends
returned with both runs finished after 2 steps each, both having started fresh. -/
example :
    (run cfgOK (init cfgOK cells0) (drive cfgOK 100 (init cfgOK cells0) []).2).map
        (fun s => (s.returned, s.phase 0, s.phase 1)) = some (true, .finished, .finished) ∧
    (run cfgOK (init cfgOK cells0) (drive cfgOK 100 (init cfgOK cells0) []).2).map
        (fun s => (s.steps 0, s.steps 1, s.obs 1)) = some (2, 2, some (freshPriv 1, ⟨0⟩)) ∧
    (drive cfgOK 100 (init cfgOK cells0) []).2.length = 13 ∧ ClonePrivate cfgOK := by
  decide

/-- Refutation of `fresh_start` without `ClonePrivate` (finding D4: the multi-objective explorer's
`DeepClone` copies the coolant pointer).  Two sequential runs (bound 1) of budget 2 sharing the
template's coolant: the second run starts with two coolings already applied — temperature
`T₀·a²` instead of `T₀`. -/
theorem shared_coolant_starts_cold :
    ¬ ClonePrivate cfgShared ∧
    (run cfgShared (init cfgShared cells0)
      [.spawn, .clone 0, .step 0, .step 0, .release 0, .wgDone 0, .spawn, .clone 1]).map (fun s => s.obs 1)
      = some (some (freshPriv 1, ⟨2⟩)) := by
  decide

/-- Refutation of the full `today_all_finish` (finding D26): bare goroutines, two concurrent runs,
run 0 panics in its first iteration.  The process is dead; by `crashed_stuck` nothing is enabled
any more, yet `Run()` has not returned and run 1 — whose solo execution finishes — is still
running and never delivers its result. -/
theorem bare_goroutine_panic_loses_siblings :
    ClonePrivate cfgBare ∧
    (run cfgBare (init cfgBare cells0) [.spawn, .spawn, .clone 0, .clone 1, .step 0]).map
        (fun s => (s.crashed, s.returned, s.phase 1, (result cfgBare s 1).isSome)) = some (true, false, .running, false) ∧
    solo cfgBare.toWorker cfgBare.shared 5 (freshPriv 1, ⟨0⟩) =
      .finished ({ freshPriv 1 with iteration := 3, archive := 2 }, ⟨2⟩) := by
  decide

/-- The same fault with isolation (`failure_isolated` is not vacuous): the scheduler completes,
`Run()` returns, run 1 delivers its solo result, run 0 is the one reported as failed. -/
example :
    (fun s : State RunPriv Coolant => (s.crashed, s.returned, s.phase 0, s.phase 1))
        (drive cfgIso 100 (init cfgIso cells0) []).1 = (false, true, .finished, .finished) ∧
    (fun s : State RunPriv Coolant => (result cfgIso s 1, result cfgIso s 0, failedRuns cfgIso s))
        (drive cfgIso 100 (init cfgIso cells0) []).1 =
      (some ({ freshPriv 1 with iteration := 3, archive := 2 }, ⟨2⟩), none, [0]) := by
  decide

/-- a bound of zero (which `WithMaximumConcurrentRuns` refuses) deadlocks at once: `0 < bound` is needed -/
example : ∀ e, exec (annealCfg inpOK 1 0 true true) (init (annealCfg inpOK 1 0 true true) cells0) e = none := by
  intro e; cases e <;> simp [exec, init, annealCfg]

end examples

end Crem.Runs
