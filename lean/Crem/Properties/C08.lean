import Crem.Proofs.Runs
/-!
# C08 — runs of a scenario are independent and safe to execute concurrently  (partial)

Property theorems about the model of `scenario.Runner.runScenario` (`Crem/Model/Runs.lean`): `runs`
workers, each annealing a clone of the configured annealer, started by the main goroutine through
a buffered channel of capacity `bound` and joined through a WaitGroup.  ALL workers act on ONE heap of
aliasable cells (template annealer, input data, observer state on the shared notifier, the saver's
decompression model, every clone's coolant / iteration counter / archive / model / data / output);
what a worker does is an arbitrary heap transformer, so nothing in the semantics keeps one run out
of another's cells.  A schedule is ANY list of atomic events each enabled in turn (= every
interleaving the channel and the WaitGroup admit), for every number of runs and every bound.

* `noninterference` — hypothesis `ClonePrivate cfg ft`: every run reads only `R i` and writes only
  `W i` (semantically: `Respects`), `W i ∩ (R j ∪ W j) ⊆ locked` for `i ≠ j`, and no run reads a
  lock-guarded cell outside the (atomic) section that wrote it.  Then for EVERY schedule each run is,
  on its own cells, exactly where its own steps take it from the INITIAL heap, and a run that has
  completed has the very outcome of executing it alone (`solo`): `failed` at the same site if it
  panicked, `finished` with the same own cells (= the same output) otherwise.  The hypothesis is NOT
  a theorem about the Go code: it is established on the real objects on every check (reflection walk
  over clones + content hash of everything the runs share before and after `Run()`).
  Without it: `shared_coolant_starts_cold` (D4), `shared_archive_starts_nonempty` (seed C08a class),
  `shared_counter_runs_nothing`, `shared_observer_cell_breaks_noninterference` (D28),
  `unlocked_saver_mixes_results`.
* `unwritten_untouched`, `template_untouched` — a cell in no write set (the template, the input
  data) keeps its value.
* `fresh_start`, `fresh_start_anneal`, `same_input_data`, `unloadable_data_fails_every_run` — every
  run starts annealing from (starting temperature, iteration counter 0 → first iteration 1, empty
  solution set, the data it loaded = the shared input data), whatever ran before or beside it;
  loading is part of the clone event, reads the shared data cell and fails when it cannot be loaded.
  Here "iteration 1" and "empty solution set" DEPEND on the hypothesis: counter and archive are
  aliasable cells like the coolant.
* `counter_invariant`, `progress_reachable`, `schedule_bounded`, `all_finish`, `can_always_complete`
  — the channel/WaitGroup bookkeeping: in-flight ≤ bound, spawned ≤ runs, WaitGroup counter = runs
  not yet finished; no reachable state is stuck; every schedule is finite (explicit bound); a schedule
  that cannot be extended has returned from `Run()` with all runs finished.  No fairness assumption
  is needed.  (Finiteness needs `ClonePrivate` now: a run whose counter another run writes need not
  end.)
* `failure_isolated` — with failures confined to the failing run (`isolate = true`, the `recover` in
  `doRun` since the D26 repair), a panic at ANY of the three sites (clone / initialise / load, an
  iteration, a FinishedAnnealing observer) changes nothing for the others and `Run()` still returns,
  reporting exactly the failed runs.  `today_all_finish_partial` is the statement that holds for bare
  goroutines (`isolate = false`, the code before the repair): only when no run fails;
  `bare_goroutine_panic_loses_siblings` refutes the full statement.

Partial: the atomic-step interleaving semantics of the model is sequentially consistent; it is
not the Go memory model.  Data-race freedom of the real code is sampled (reflection walk for
shared mutable objects, content hash of shared objects across `Run()`, the race detector over the
same scenarios), never proved.

Every `theorem` in this file is audited by `./check C08` (`#print axioms`).
-/
namespace Crem.Runs

variable {V : Type}

/-! ## independence of the runs -/

/-- For every schedule and every run `i`, on the cells that are `i`'s own business (`Own ft i`: what
it reads or writes, lock-guarded cells excepted):
(1) if it has started (and did not panic while being cloned) it reported, at StartedAnnealing, the
    clone of the INITIAL heap;
(2) while it anneals, the heap is what ITS OWN `steps i` iterations make of that clone;
(3) once it has completed, for every fuel that suffices the run executed alone on the initial heap
    has the very same outcome: `failed` (same site, same own cells) if it panicked, `finished` with
    the same own cells otherwise. -/
theorem noninterference (cfg : Config V) (ft : Footprint) (hpriv : ClonePrivate cfg ft) (h₀ : Heap V)
    (sch : List Ev) (s : State V) (hrun : run cfg (init cfg h₀) sch = some s)
    (i : Nat) (hi : i < cfg.runs) :
    (s.phase i ≠ .idle ∧ s.phase i ≠ .spawned →
        ((cfg.prog i).cloneFails h₀ = true ∧ s.err i = true ∧ s.steps i = 0) ∨
        ((cfg.prog i).cloneFails h₀ = false ∧
          ∃ o, s.obs i = some o ∧ AgreeOn (Own ft i) o ((cfg.prog i).clone h₀))) ∧
    (s.phase i = .running ∧ s.err i = false →
        AgreeOn (Own ft i) s.heap (iter (cfg.prog i).step (s.steps i) ((cfg.prog i).clone h₀))) ∧
    (s.phase i = .released ∨ s.phase i = .finished →
        ∀ fuel, s.steps i ≤ fuel →
          Outcome.SameOn (Own ft i) (if s.err i then .failed s.heap else .finished s.heap)
            (solo (cfg.prog i) fuel h₀)) := by
  have hw := (Tr.run hpriv hrun).2 i hi
  have stopped : ∀ {ob h k}, Stopped (cfg.prog i) (Own ft i) h₀ ob h k →
      ((cfg.prog i).cloneFails h₀ = true ∧ k = 0) ∨
      ((cfg.prog i).cloneFails h₀ = false ∧ ∃ o, ob = some o ∧ AgreeOn (Own ft i) o ((cfg.prog i).clone h₀)) := by
    intro ob h k hs
    rcases hs with ⟨hk, hc, _⟩ | ⟨hc, _⟩ | ⟨hc, _⟩
    · exact Or.inl ⟨hc, hk⟩
    · exact Or.inr ⟨hc.cloned, hc.obs⟩
    · exact Or.inr ⟨hc.cloned, hc.obs⟩
  have ended : ∀ {ob h k er}, Ended (cfg.prog i) (Own ft i) h₀ ob h k er →
      ((cfg.prog i).cloneFails h₀ = true ∧ er = true ∧ k = 0) ∨
      ((cfg.prog i).cloneFails h₀ = false ∧ ∃ o, ob = some o ∧ AgreeOn (Own ft i) o ((cfg.prog i).clone h₀)) := by
    intro ob h k er he
    rcases he with ⟨he, hs⟩ | ⟨_, hs⟩
    · rcases stopped hs with ⟨a, b⟩ | h
      · exact Or.inl ⟨a, he, b⟩
      · exact Or.inr h
    · exact Or.inr ⟨hs.1.cloned, hs.1.obs⟩
  refine ⟨?_, ?_, ?_⟩
  · intro hph
    cases hp : s.phase i with
    | idle => exact absurd hp hph.1
    | spawned => exact absurd hp hph.2
    | running =>
      rw [hp] at hw
      rcases hw with ⟨he, hs⟩ | ⟨_, hc, _⟩
      · rcases stopped hs with ⟨a, b⟩ | h
        · exact Or.inl ⟨a, he, b⟩
        · exact Or.inr h
      · exact Or.inr ⟨hc.cloned, hc.obs⟩
    | saved => rw [hp] at hw; exact Or.inr ⟨hw.2.1.cloned, hw.2.1.obs⟩
    | released => rw [hp] at hw; exact ended hw
    | finished => rw [hp] at hw; exact ended hw
  · intro ⟨hp, he⟩
    rw [hp] at hw
    rcases hw with ⟨he', _⟩ | ⟨_, _, hag⟩
    · rw [he] at he'; cases he'
    · exact hag
  · intro hph fuel hf
    rcases hph with hp | hp <;> rw [hp] at hw <;> exact solo_of_ended hw fuel hf

/-- The result a run delivers is, on its own cells, the result of executing it alone. -/
theorem result_is_solo (cfg : Config V) (ft : Footprint) (hpriv : ClonePrivate cfg ft) (h₀ : Heap V)
    (sch : List Ev) (s : State V) (hrun : run cfg (init cfg h₀) sch = some s)
    (i : Nat) (hi : i < cfg.runs) (h : Heap V) (hres : result s i = some h) :
    ∀ fuel, s.steps i ≤ fuel → ∃ h', solo (cfg.prog i) fuel h₀ = .finished h' ∧ AgreeOn (Own ft i) h h' := by
  intro fuel hf
  unfold result at hres
  split at hres
  · rename_i hc
    cases hres
    have := (noninterference cfg ft hpriv h₀ sch s hrun i hi).2.2 hc.1 fuel hf
    rw [hc.2] at this
    simp only [Bool.false_eq_true, if_false] at this
    cases hs : solo (cfg.prog i) fuel h₀ with
    | finished h' => rw [hs] at this; exact ⟨h', rfl, this⟩
    | failed h' => rw [hs] at this; exact this.elim
    | outOfFuel h' => rw [hs] at this; exact this.elim
  · cases hres

/-- A cell that is in no run's write set — the template annealer, the input data — is never
changed (so every clone, whenever it is made, copies the template as `Run()` found it). -/
theorem unwritten_untouched (cfg : Config V) (ft : Footprint) (hpriv : ClonePrivate cfg ft) (h₀ : Heap V)
    (sch : List Ev) (s : State V) (hrun : run cfg (init cfg h₀) sch = some s)
    (a : Nat) (ha : ∀ i, i < cfg.runs → a ∉ ft.W i) : s.heap a = h₀ a :=
  run_unwritten hpriv hrun a ha

/-- Provided `ClonePrivate`: whatever has run before or runs beside it, a run that gets through
its clone phase alone reports at StartedAnnealing, on its own cells, the clone of the heap `Run()`
was entered with. -/
theorem fresh_start (cfg : Config V) (ft : Footprint) (hpriv : ClonePrivate cfg ft) (h₀ : Heap V)
    (sch : List Ev) (s : State V) (hrun : run cfg (init cfg h₀) sch = some s)
    (i : Nat) (hi : i < cfg.runs) (hstarted : s.phase i ≠ .idle ∧ s.phase i ≠ .spawned)
    (hload : (cfg.prog i).cloneFails h₀ = false) :
    ∃ o, s.obs i = some o ∧ AgreeOn (Own ft i) o ((cfg.prog i).clone h₀) := by
  rcases (noninterference cfg ft hpriv h₀ sch s hrun i hi).1 hstarted with ⟨h, _⟩ | ⟨_, h⟩
  · rw [hload] at h; cases h
  · exact h

/-- with every clone owning six cells of its own (and no stateful observer on the shared notifier)
the annealing scenario is `ClonePrivate`: the footprint is PROVED for the program, the disjointness
is arithmetic -/
theorem annealCfg_private (inp : Inputs) (hinv : inp.invObserver = false) (runs bound : Nat) (isolate : Bool) :
    ClonePrivate (annealCfg inp runs bound isolate privLayout) (annealFoot privLayout inp) :=
  ⟨fun i _ => annealProg_respects privLayout inp i, privLayout_disjoint inp hinv runs⟩

/-- The footprint declared for the annealing program is what the program does, for EVERY layout
(aliased ones included): only the disjointness part of `ClonePrivate` depends on the layout. -/
theorem annealProg_footprint (lay : Layout) (inp : Inputs) (i : Nat) :
    Respects (annealProg lay inp i) ((annealFoot lay inp).R i) ((annealFoot lay inp).W i) :=
  annealProg_respects lay inp i

/-- The cells of the template annealer (coolant, iteration counter, archive storage, model: addresses
0-3) and the input data (address 4) are never written by a scenario whose clones are private: every
clone, whenever it is made, copies the template as `Run()` found it. -/
theorem template_untouched (inp : Inputs) (hinv : inp.invObserver = false) (runs bound : Nat) (isolate : Bool)
    (h₀ : Heap Nat) (sch : List Ev) (s : State Nat)
    (hrun : run (annealCfg inp runs bound isolate privLayout) (init (annealCfg inp runs bound isolate privLayout) h₀) sch = some s)
    (a : Nat) (ha : a ≤ sharedData) : s.heap a = h₀ a := by
  refine unwritten_untouched _ _ (annealCfg_private inp hinv runs bound isolate) h₀ sch s hrun a ?_
  intro i _ hmem
  simp only [annealFoot, privLayout, hinv, List.mem_append, List.mem_cons, List.not_mem_nil, or_false,
    Bool.false_eq_true, if_false] at hmem
  omega

/-- `noninterference` for the private layout needs no hypothesis about footprints any more. -/
theorem noninterference_product (inp : Inputs) (hinv : inp.invObserver = false) (runs bound : Nat) (isolate : Bool)
    (h₀ : Heap Nat) (sch : List Ev) (s : State Nat)
    (hrun : run (annealCfg inp runs bound isolate privLayout) (init (annealCfg inp runs bound isolate privLayout) h₀) sch = some s)
    (i : Nat) (hi : i < runs) :
    (s.phase i = .running ∧ s.err i = false →
        AgreeOn (Own (annealFoot privLayout inp) i) s.heap
          (iter (annealProg privLayout inp i).step (s.steps i) ((annealProg privLayout inp i).clone h₀))) ∧
    (s.phase i = .released ∨ s.phase i = .finished →
        ∀ fuel, s.steps i ≤ fuel →
          Outcome.SameOn (Own (annealFoot privLayout inp) i) (if s.err i then .failed s.heap else .finished s.heap)
            (solo (annealProg privLayout inp i) fuel h₀)) :=
  (noninterference _ _ (annealCfg_private inp hinv runs bound isolate) h₀ sch s hrun i hi).2

/-- The property's words: every run of an annealing scenario whose clones are private that gets
through its clone phase starts with no cooling applied (temperature `T₀·a⁰`), the iteration counter
the template had (0: its first iteration is numbered 1), an empty solution set, and has loaded
exactly the shared input data — for every number of runs, every concurrency bound, every schedule,
with or without failing siblings.  Coolant, counter, archive and data are aliasable cells: all four
clauses rest on `ClonePrivate` (see the refutations below). -/
theorem fresh_start_anneal (inp : Inputs) (hinv : inp.invObserver = false) (runs bound : Nat) (isolate : Bool)
    (h₀ : Heap Nat) (hc : h₀ tmplCool = 0) (hit : h₀ tmplIter = 0) (sch : List Ev) (s : State Nat)
    (hrun : run (annealCfg inp runs bound isolate privLayout) (init (annealCfg inp runs bound isolate privLayout) h₀) sch = some s)
    (i : Nat) (hi : i < runs) (hstarted : s.phase i ≠ .idle ∧ s.phase i ≠ .spawned)
    (hload : (annealProg privLayout inp i).cloneFails h₀ = false) :
    ∃ o, s.obs i = some o ∧ o (privLayout.cool i) = 0 ∧ o (privLayout.iter i) = 0 ∧ o (privLayout.arch i) = 0 ∧
      o (privLayout.data i) = h₀ sharedData ∧ h₀ sharedData ≠ 0 := by
  obtain ⟨o, ho, hag⟩ := fresh_start _ _ (annealCfg_private inp hinv runs bound isolate) h₀ sch s hrun i hi hstarted hload
  have own : ∀ a, a ∈ (annealFoot privLayout inp).R i → Own (annealFoot privLayout inp) i a :=
    read_own (privLayout_disjoint inp hinv runs) hi
  have hd : h₀ sharedData ≠ 0 := by
    intro h0
    simp [annealProg, h0] at hload
  obtain ⟨v1, v2, v3, v4⟩ := clone_priv_values inp hinv i h₀
  refine ⟨o, ho, ?_, ?_, ?_, ?_, hd⟩
  · rw [hag _ (own _ (by simp [annealFoot]))]; exact v1.trans hc
  · rw [hag _ (own _ (by simp [annealFoot]))]; exact v2.trans hit
  · rw [hag _ (own _ (by simp [annealFoot]))]; exact v3
  · rw [hag _ (own _ (by simp [annealFoot]))]; exact v4

/-- "loads the same input data": any two runs that got through their clone phase hold the same
data, the shared input data. -/
theorem same_input_data (inp : Inputs) (hinv : inp.invObserver = false) (runs bound : Nat) (isolate : Bool)
    (h₀ : Heap Nat) (sch : List Ev) (s : State Nat)
    (hrun : run (annealCfg inp runs bound isolate privLayout) (init (annealCfg inp runs bound isolate privLayout) h₀) sch = some s)
    (i j : Nat) (hi : i < runs) (hj : j < runs)
    (hsi : s.phase i ≠ .idle ∧ s.phase i ≠ .spawned) (hsj : s.phase j ≠ .idle ∧ s.phase j ≠ .spawned)
    (hli : (annealProg privLayout inp i).cloneFails h₀ = false) (hlj : (annealProg privLayout inp j).cloneFails h₀ = false) :
    ∃ oi oj, s.obs i = some oi ∧ s.obs j = some oj ∧ oi (privLayout.data i) = oj (privLayout.data j) := by
  have own : ∀ k, k < runs → Own (annealFoot privLayout inp) k (privLayout.data k) :=
    fun k hk => read_own (privLayout_disjoint inp hinv runs) hk _ (by simp [annealFoot])
  have val : ∀ k, (annealProg privLayout inp k).clone h₀ (privLayout.data k) = h₀ sharedData :=
    fun k => (clone_priv_values inp hinv k h₀).2.2.2
  obtain ⟨oi, hoi, hai⟩ := fresh_start _ _ (annealCfg_private inp hinv runs bound isolate) h₀ sch s hrun i hi hsi hli
  obtain ⟨oj, hoj, haj⟩ := fresh_start _ _ (annealCfg_private inp hinv runs bound isolate) h₀ sch s hrun j hj hsj hlj
  exact ⟨oi, oj, hoi, hoj, by rw [hai _ (own i hi), haj _ (own j hj)]; exact (val i).trans (val j).symm⟩

/-- Loading can fail, and then it fails for every run alike: with input data that cannot be loaded
every run that has got past `go doRun` and its clone event has stopped with an error before its
first iteration. -/
theorem unloadable_data_fails_every_run (inp : Inputs) (hinv : inp.invObserver = false) (runs bound : Nat)
    (isolate : Bool) (h₀ : Heap Nat) (hbad : h₀ sharedData = 0) (sch : List Ev) (s : State Nat)
    (hrun : run (annealCfg inp runs bound isolate privLayout) (init (annealCfg inp runs bound isolate privLayout) h₀) sch = some s)
    (i : Nat) (hi : i < runs) (hstarted : s.phase i ≠ .idle ∧ s.phase i ≠ .spawned) :
    s.err i = true ∧ s.steps i = 0 := by
  rcases (noninterference _ _ (annealCfg_private inp hinv runs bound isolate) h₀ sch s hrun i hi).1 hstarted with
    ⟨_, he, hk⟩ | ⟨hc, _⟩
  · exact ⟨he, hk⟩
  · simp [annealCfg, annealProg, hbad] at hc

/-! ## the bounded-concurrency bookkeeping -/

/-- Counter invariant of `runScenario`, for every schedule: the channel holds exactly one token
per run in flight and never more than its capacity; runs are started in order and never more than
`runs`; the WaitGroup counter is the number of runs not yet finished; `Run()` has returned only
after all of them. -/
theorem counter_invariant (cfg : Config V) (h₀ : Heap V) (sch : List Ev) (s : State V)
    (hrun : run cfg (init cfg h₀) sch = some s) :
    s.chan = cnt inflight s.phase s.next ∧ s.chan ≤ cfg.bound ∧ s.next ≤ cfg.runs ∧
    (∀ i, s.next ≤ i → s.phase i = .idle) ∧ (∀ i, i < s.next → s.phase i ≠ .idle) ∧
    s.wg + cnt isFinished s.phase s.next = cfg.runs ∧
    (s.returned = true → s.next = cfg.runs ∧ s.wg = 0) := by
  have hB := Book.run hrun
  exact ⟨hB.chan_eq, hB.chan_le, hB.next_le, hB.idle_ge, hB.busy_lt, hB.wg_eq, hB.ret_done⟩

/-- No deadlock: with a concurrency bound of at least one, in every reachable state in which
`Run()` has not returned (and the process has not been killed) some event is enabled. -/
theorem progress_reachable (cfg : Config V) (hb : 0 < cfg.bound) (h₀ : Heap V) (sch : List Ev)
    (s : State V) (hrun : run cfg (init cfg h₀) sch = some s)
    (hc : s.crashed = false) (hr : s.returned = false) : ∃ e s', exec cfg s e = some s' :=
  progress hb (Book.run hrun) hc hr

/-- No livelock: every event strictly decreases a natural-number measure, so a schedule is never
longer than the measure of the initial state, `Σ_i (B i + 6) + 2`, where `B i` bounds the number
of iterations run `i` takes ALONE (`Terminates`).  `ClonePrivate` is needed: a run whose iteration
counter another run writes need not end. -/
theorem schedule_bounded (cfg : Config V) (ft : Footprint) (hpriv : ClonePrivate cfg ft) (h₀ : Heap V)
    (B : Nat → Nat) (hμ : Terminates cfg h₀ B) (sch : List Ev) (s : State V)
    (hrun : run cfg (init cfg h₀) sch = some s) :
    sch.length + measure cfg B s ≤ measure cfg B (init cfg h₀) ∧
    measure cfg B (init cfg h₀) = sumN (fun i => B i + 6) cfg.runs + 2 := by
  refine ⟨?_, ?_⟩
  · have key : ∀ (sch : List Ev) (s₀ s : State V), Book cfg s₀ → Tr cfg ft h₀ s₀ → run cfg s₀ sch = some s →
        sch.length + measure cfg B s ≤ measure cfg B s₀ := by
      intro sch
      induction sch with
      | nil => intro s₀ s _ _ h; simp only [run] at h; cases h; simp
      | cons e es ih =>
        intro s₀ s hB hT h
        simp only [run] at h
        cases he : exec cfg s₀ e with
        | none => rw [he] at h; cases h
        | some s₁ =>
          rw [he] at h
          have hT₁ := Tr.exec hpriv hB hT he
          have h1 := ih s₁ s (hB.exec he) hT₁ h
          have h2 := measure_dec hB hT₁ hμ he
          simp only [List.length_cons]; omega
    exact key sch _ s (Book.init cfg h₀) (Tr.init cfg ft h₀) hrun
  · simp only [measure, init]
    have : sumN (weight B (init cfg h₀)) cfg.runs = sumN (fun i => B i + 6) cfg.runs :=
      sumN_congr (fun _ _ => rfl)
    simp only [init] at this
    rw [this]; simp

/-- Every schedule that cannot be extended has completed all runs: `Run()` has returned and every
one of the `runs` runs has finished.  (`Safe`: failures are isolated, or no run fails.) -/
theorem all_finish (cfg : Config V) (hb : 0 < cfg.bound) (hsafe : Safe cfg) (h₀ : Heap V)
    (sch : List Ev) (s : State V) (hrun : run cfg (init cfg h₀) sch = some s)
    (hmax : ∀ e, exec cfg s e = none) :
    s.returned = true ∧ ∀ i, i < cfg.runs → s.phase i = .finished := by
  have hB := Book.run hrun
  have hc := run_not_crashed hsafe hrun
  have hr : s.returned = true := by
    cases h : s.returned with
    | true => rfl
    | false =>
      obtain ⟨e, s', he⟩ := progress hb hB hc h
      rw [hmax e] at he; cases he
  refine ⟨hr, ?_⟩
  obtain ⟨hn, hw⟩ := hB.ret_done hr
  have hfin : cnt isFinished s.phase s.next = s.next := by have := hB.wg_eq; omega
  intro i hi
  have hnot : cnt notFinished s.phase s.next = 0 := by
    have hsum : ∀ n, cnt isFinished s.phase n + cnt notFinished s.phase n = n := by
      intro n
      induction n with
      | zero => rfl
      | succ n ih =>
        simp only [cnt, notFinished]
        by_cases h : isFinished (s.phase n) = true <;> simp [h] <;> omega
    have := hsum s.next; omega
  have := forall_of_cnt_zero _ _ hnot i (by omega)
  cases hph : s.phase i <;> simp [notFinished, isFinished, hph] at this
  rfl

/-- From every reachable state the scenario can be completed, and (by `schedule_bounded`) every
way of continuing does complete it: whatever the scheduler has done so far, `Run()` returns. -/
theorem can_always_complete (cfg : Config V) (ft : Footprint) (hpriv : ClonePrivate cfg ft) (hb : 0 < cfg.bound)
    (hsafe : Safe cfg) (h₀ : Heap V) (B : Nat → Nat) (hμ : Terminates cfg h₀ B) (sch : List Ev) (s : State V)
    (hrun : run cfg (init cfg h₀) sch = some s) :
    ∃ sch' s', run cfg (init cfg h₀) (sch ++ sch') = some s' ∧ s'.returned = true := by
  have key : ∀ (n : Nat) (s : State V), measure cfg B s ≤ n → Book cfg s → Tr cfg ft h₀ s → s.crashed = false →
      ∃ sch' s', run cfg s sch' = some s' ∧ s'.returned = true := by
    intro n
    induction n with
    | zero =>
      intro s hm _ _ hc
      simp only [measure, hc] at hm
      simp at hm
    | succ n ih =>
      intro s hm hB hT hc
      cases hr : s.returned with
      | true => exact ⟨[], s, rfl, hr⟩
      | false =>
        obtain ⟨e, s₁, he⟩ := progress hb hB hc hr
        have hT₁ := Tr.exec hpriv hB hT he
        have hdec := measure_dec hB hT₁ hμ he
        obtain ⟨sch', s', h1, h2⟩ := ih s₁ (by omega) (hB.exec he) hT₁ (exec_not_crashed hsafe hc he)
        exact ⟨e :: sch', s', by simp only [run, he]; exact h1, h2⟩
  obtain ⟨hB, hT⟩ := Tr.run hpriv hrun
  obtain ⟨sch', s', h1, h2⟩ := key _ s (Nat.le_refl _) hB hT (run_not_crashed hsafe hrun)
  exact ⟨sch', s', by rw [run_append, hrun]; exact h1, h2⟩

/-! ## failures -/

/-- The behaviour the property demands.  With a panic confined to the run it occurs in — at ANY of
the three sites: clone / initialise / load, an iteration, a FinishedAnnealing observer — for every
schedule that cannot be extended: the process is alive, `Run()` has returned, every run has
finished, and every run — failing siblings or not — has exactly the outcome of executing it alone:
`err i` iff its own solo execution fails (then at the same site, with the same own cells), otherwise
its result is delivered and equals the solo result on its own cells.  The runs `Run()` reports as
failed are exactly those. -/
theorem failure_isolated (cfg : Config V) (ft : Footprint) (hb : 0 < cfg.bound) (hiso : cfg.isolate = true)
    (hpriv : ClonePrivate cfg ft) (h₀ : Heap V) (sch : List Ev) (s : State V)
    (hrun : run cfg (init cfg h₀) sch = some s) (hmax : ∀ e, exec cfg s e = none) :
    s.crashed = false ∧ s.returned = true ∧
    ∀ i, i < cfg.runs →
      s.phase i = .finished ∧
      (∀ fuel, s.steps i ≤ fuel →
        Outcome.SameOn (Own ft i) (if s.err i then .failed s.heap else .finished s.heap) (solo (cfg.prog i) fuel h₀)) ∧
      (s.err i = false → result s i = some s.heap) ∧
      (s.err i = true ↔ i ∈ failedRuns cfg s) := by
  have hsafe : Safe cfg := Or.inl hiso
  obtain ⟨hr, hall⟩ := all_finish cfg hb hsafe h₀ sch s hrun hmax
  refine ⟨run_not_crashed hsafe hrun, hr, ?_⟩
  intro i hi
  have hph := hall i hi
  refine ⟨hph, (noninterference cfg ft hpriv h₀ sch s hrun i hi).2.2 (Or.inr hph), ?_, ?_⟩
  · intro he; simp [result, hph, he]
  · simp [failedRuns, hi]

/- Full statement for the code before the D26 repair (`isolate = false`, runs on bare
   goroutines), which does NOT hold:

     theorem today_all_finish (cfg) (hb : 0 < cfg.bound) (htoday : cfg.isolate = false) … (hmax : ∀ e, exec cfg s e = none) :
         s.returned = true ∧ ∀ i, i < cfg.runs → s.phase i = .finished

   Refuted by `bare_goroutine_panic_loses_siblings` below.  What holds is the statement under the
   additional hypothesis that no run ever fails (at any of the three sites): -/
theorem today_all_finish_partial (cfg : Config V) (hb : 0 < cfg.bound) (_htoday : cfg.isolate = false)
    (hnofault : ∀ i h, (cfg.prog i).cloneFails h = false ∧ (cfg.prog i).fails h = false ∧ (cfg.prog i).finishFails h = false)
    (h₀ : Heap V) (sch : List Ev) (s : State V) (hrun : run cfg (init cfg h₀) sch = some s)
    (hmax : ∀ e, exec cfg s e = none) :
    s.returned = true ∧ ∀ i, i < cfg.runs → s.phase i = .finished :=
  all_finish cfg hb (Or.inr hnofault) h₀ sch s hrun hmax

/-- A killed process does nothing any more: no event is enabled in a crashed state. -/
theorem crashed_stuck (cfg : Config V) (s : State V) (hc : s.crashed = true) (e : Ev) :
    exec cfg s e = none := by
  cases e <;> simp [exec, hc]

/-! ## non-vacuity and refutations -/

section examples

/-- budget 2, no failure; the archive grows by one member per iteration, the model state adds the
    run's number + 1, the saver writes 100·model + archive -/
def inpOK : Inputs :=
  { budget := 2, modelInit := fun i m _ => m + 10 * (i + 1), archiveAfter := fun _ _ a _ => a + 1,
    modelAfter := fun i _ m _ => m + i + 1, encode := fun _ m a _ => 100 * m + a, failRun := none, failSite := .step,
    failAt := 0, invObserver := false }
/-- run 0 panics in its first iteration -/
def inpFault : Inputs := { inpOK with failRun := some 0, failSite := .step, failAt := 1 }
/-- run 0 panics while it is cloned / initialised -/
def inpFaultClone : Inputs := { inpOK with failRun := some 0, failSite := .clone }
/-- run 0 panics in a FinishedAnnealing observer -/
def inpFaultFinish : Inputs := { inpOK with failRun := some 0, failSite := .finish }
/-- `CheckingLoopInvariant = true` -/
def inpInv : Inputs := { inpOK with invObserver := true }

/-- the heap `Run()` is entered with: a pristine template, loadable data (7) -/
def heap0 : Heap Nat := { cell := fun a => if a = sharedData then 7 else 0 }

/-- the annealing run alone takes at most `budget` iterations from `heap0` -/
theorem anneal_terminates (inp : Inputs) (runs bound : Nat) (isolate : Bool) (h₀ : Heap Nat) :
    Terminates (annealCfg inp runs bound isolate privLayout) h₀ (fun _ => inp.budget) := by
  intro i _ k hpath
  -- the counter of the run alone after j iterations is (template counter) + j
  have hcnt := iter_priv_value inp i h₀
  show k ≤ inp.budget
  apply Classical.byContradiction
  intro hk
  have hlast := (hpath (k - 1) (by omega)).1
  have hc := hcnt (k - 1)
  simp only [annealCfg, annealProg, decide_eq_false_iff_not, Nat.not_le] at hlast hc
  omega

/-- two concurrent private runs, bare goroutines, no failure -/
def cfgOK : Config Nat := annealCfg inpOK 2 2 false privLayout
/-- the coolant pointer copied by `DeepClone` (the code before the D4 repair): every clone uses the template's coolant -/
def coolShared : Layout := { privLayout with cool := fun _ => tmplCool }
/-- the archive storage reused by every clone (seed C08a class) -/
def archShared : Layout := { privLayout with arch := fun _ => tmplArch }
/-- the iteration counter reached through a pointer shared with the template -/
def iterShared : Layout := { privLayout with iter := fun _ => tmplIter }
def cfgCoolShared : Config Nat := annealCfg inpOK 2 1 false coolShared
def cfgArchShared : Config Nat := annealCfg inpOK 2 2 false archShared
def cfgIterShared : Config Nat := annealCfg inpOK 2 1 false iterShared
/-- two concurrent private runs with a stateful observer on the shared notifier (D28) -/
def cfgInv : Config Nat := annealCfg inpInv 2 2 false privLayout
/-- two concurrent private runs, run 0 panics, bare goroutines (the code before the D26 repair) -/
def cfgBare : Config Nat := annealCfg inpFault 2 2 false privLayout
/-- the same with failures isolated -/
def cfgIso : Config Nat := annealCfg inpFault 2 2 true privLayout
def cfgIsoClone : Config Nat := annealCfg inpFaultClone 2 2 true privLayout
def cfgIsoFinish : Config Nat := annealCfg inpFaultFinish 2 2 true privLayout

/-- Non-vacuity: a complete schedule of 2 concurrent private runs exists (15 events); it ends
returned with both runs finished after 2 iterations each, both having started fresh (no cooling,
counter 0, empty archive, data 7) and each with its own output. -/
example :
    (run cfgOK (init cfgOK heap0) (drive cfgOK 100 (init cfgOK heap0) []).2).map
        (fun s => (s.returned, s.phase 0, s.phase 1, s.steps 0, s.steps 1)) = some (true, .finished, .finished, 2, 2) ∧
    (run cfgOK (init cfgOK heap0) (drive cfgOK 100 (init cfgOK heap0) []).2).map
        (fun s => (s.obs 1).map (fun o => (o (privLayout.cool 1), o (privLayout.iter 1), o (privLayout.arch 1), o (privLayout.data 1))))
      = some (some (0, 0, 0, 7)) ∧
    (run cfgOK (init cfgOK heap0) (drive cfgOK 100 (init cfgOK heap0) []).2).map
        (fun s => (s.heap (privLayout.out 0), s.heap (privLayout.out 1))) = some (1202, 2402) ∧
    (drive cfgOK 100 (init cfgOK heap0) []).2.length = 15 ∧ Disjoint 2 (annealFoot privLayout inpOK) := by
  decide

/-- Refutation of `fresh_start_anneal` without `ClonePrivate` (finding D4: the multi-objective
explorer's `DeepClone` copied the coolant pointer).  Two sequential runs (bound 1) of budget 2 sharing
the template's coolant: the second run starts with two coolings already applied — temperature
`T₀·a²` instead of `T₀`. -/
theorem shared_coolant_starts_cold :
    ¬ Disjoint 2 (annealFoot coolShared inpOK) ∧
    (run cfgCoolShared (init cfgCoolShared heap0)
      [.spawn, .clone 0, .step 0, .step 0, .finish 0, .release 0, .wgDone 0, .spawn, .clone 1]).map
        (fun s => (s.obs 1).map (fun o => o (coolShared.cool 1)))
      = some (some 2) := by
  decide

/-- Refutation of "empty solution set" without `ClonePrivate` (the class of seed C08a: the clones
reuse one archive storage).  Two concurrent runs; run 1 has been cloned (its archive emptied) and
has not taken a single iteration yet, but its solution set already holds a member: run 0's. -/
theorem shared_archive_starts_nonempty :
    ¬ Disjoint 2 (annealFoot archShared inpOK) ∧
    (run cfgArchShared (init cfgArchShared heap0) [.spawn, .spawn, .clone 0, .clone 1, .step 0]).map
        (fun s => (s.phase 1, s.steps 1, s.heap (archShared.arch 1))) = some (.running, 0, 1) := by
  decide

/-- Refutation of "iteration 1" without `ClonePrivate`: an iteration counter shared with the
template.  Two sequential runs of budget 2: the second run finds the counter at 2, is done at once
and "completes" without a single iteration (its first iteration would have been numbered 3). -/
theorem shared_counter_runs_nothing :
    ¬ Disjoint 2 (annealFoot iterShared inpOK) ∧
    (run cfgIterShared (init cfgIterShared heap0)
      [.spawn, .clone 0, .step 0, .step 0, .finish 0, .release 0, .wgDone 0, .spawn, .clone 1, .finish 1]).map
        (fun s => (s.phase 1, s.steps 1, (s.obs 1).map (fun o => o (iterShared.iter 1)))) = some (.saved, 0, some 2) := by
  decide

/-- A shared WRITTEN cell breaks `noninterference` (finding D28: with `CheckingLoopInvariant` every
run writes `AnnealingInvariantObserver.previousObjectiveValue` on the shared notifier).  The clones
are private, only the observer's cell is shared: `Disjoint` fails, and after both runs have started
run 0 finds in that cell — one of ITS cells — run 1's objective value (20), where the run alone
leaves its own (10). -/
theorem shared_observer_cell_breaks_noninterference :
    ¬ Disjoint 2 (annealFoot privLayout inpInv) ∧ obsState ∈ (annealFoot privLayout inpInv).W 0 ∧
    obsState ∉ (annealFoot privLayout inpInv).locked ∧
    (run cfgInv (init cfgInv heap0) [.spawn, .spawn, .clone 0, .clone 1]).map
        (fun s => (s.phase 0, s.err 0, s.steps 0, s.heap obsState)) = some (.running, false, 0, 20) ∧
    (annealProg privLayout inpInv 0).clone heap0 obsState = 10 := by
  decide

/-- What the lock is for.  The saver's section "decompress the run's result into the shared model,
then build the solution from the shared model" as TWO events (= executed without
`decompressionMutex`): program `i` copies its result (cell `10 + i`) into the shared cell 5 in its
first step and writes its output (cell `30 + i`) from cell 5 in its second step. -/
def unlockedSaver (i : Nat) : Prog Nat where
  clone := fun h => h
  cloneFails := fun _ => false
  step := fun h =>
    if h (20 + i) = 0 then (h.set 5 (h (10 + i))).set (20 + i) 1
    else (h.set (30 + i) (h 5)).set (20 + i) 2
  done := fun h => decide (2 ≤ h (20 + i))
  fails := fun _ => false
  finish := fun h => h
  finishFails := fun _ => false

def cfgUnlocked : Config Nat := { runs := 2, bound := 2, isolate := true, prog := unlockedSaver }

/-- Without the lock the two halves of the section interleave: run 0 saves run 1's result (222)
where the run alone saves its own (111).  With the lock the section is one event (`finish` of
`annealProg`), the shared cell is written before it is read, and `noninterference` applies (the cell
is in `locked`, in no read set: `annealCfg_private`). -/
theorem unlocked_saver_mixes_results :
    (run cfgUnlocked (init cfgUnlocked { cell := fun a => if a = 10 then 111 else if a = 11 then 222 else 0 })
      [.spawn, .spawn, .clone 0, .clone 1, .step 0, .step 1, .step 0, .step 1]).map
        (fun s => (s.heap 30, s.heap 31)) = some (222, 222) ∧
    (match solo (unlockedSaver 0) 5 { cell := fun a => if a = 10 then 111 else if a = 11 then 222 else 0 } with
      | .finished h => h 30 | _ => 0) = 111 := by
  decide

/-- Refutation of the full `today_all_finish` (finding D26): bare goroutines, two concurrent runs,
run 0 panics in its first iteration.  The process is dead; by `crashed_stuck` nothing is enabled
any more, yet `Run()` has not returned and run 1 — whose solo execution finishes — is still
running and never delivers its result. -/
theorem bare_goroutine_panic_loses_siblings :
    Disjoint 2 (annealFoot privLayout inpFault) ∧
    (run cfgBare (init cfgBare heap0) [.spawn, .spawn, .clone 0, .clone 1, .step 0]).map
        (fun s => (s.crashed, s.returned, s.phase 1, (result s 1).isSome)) = some (true, false, .running, false) ∧
    (match solo (cfgBare.prog 1) 5 heap0 with
      | .finished h => h (privLayout.out 1) | _ => 0) = 2402 := by
  decide

/-- The same fault with isolation (`failure_isolated` is not vacuous): the scheduler completes,
`Run()` returns, run 1 delivers its solo result, run 0 is the one reported as failed.  Likewise for
a panic in the clone phase and for a panic in a FinishedAnnealing observer. -/
example :
    (fun s : State Nat => (s.crashed, s.returned, s.phase 0, s.phase 1)) (drive cfgIso 100 (init cfgIso heap0) []).1
      = (false, true, .finished, .finished) ∧
    (fun s : State Nat => ((result s 1).map (fun h => h (privLayout.out 1)), (result s 0).isSome, failedRuns cfgIso s))
      (drive cfgIso 100 (init cfgIso heap0) []).1 = (some 2402, false, [0]) ∧
    (fun s : State Nat => (s.crashed, s.returned, s.phase 0, s.phase 1)) (drive cfgIsoClone 100 (init cfgIsoClone heap0) []).1
      = (false, true, .finished, .finished) ∧
    (fun s : State Nat => ((result s 1).map (fun h => h (privLayout.out 1)), (s.obs 0).isSome, failedRuns cfgIsoClone s))
      (drive cfgIsoClone 100 (init cfgIsoClone heap0) []).1 = (some 2402, false, [0]) ∧
    (fun s : State Nat => (s.crashed, s.returned, s.phase 0, s.phase 1)) (drive cfgIsoFinish 100 (init cfgIsoFinish heap0) []).1
      = (false, true, .finished, .finished) ∧
    (fun s : State Nat => ((result s 1).map (fun h => h (privLayout.out 1)), s.steps 0, s.heap (privLayout.out 0),
        failedRuns cfgIsoFinish s))
      (drive cfgIsoFinish 100 (init cfgIsoFinish heap0) []).1 = (some 2402, 2, 0, [0]) := by
  decide

/-- data that cannot be loaded: both runs stop in their clone phase, `Run()` returns naming both
    (`unloadable_data_fails_every_run` is not vacuous) -/
example :
    (fun s : State Nat => (s.returned, s.steps 0, s.steps 1, (s.obs 0).isSome, (s.obs 1).isSome,
        failedRuns (annealCfg inpOK 2 2 true privLayout) s))
      (drive (annealCfg inpOK 2 2 true privLayout) 100 (init (annealCfg inpOK 2 2 true privLayout) { cell := fun _ => 0 }) []).1
      = (true, 0, 0, false, false, [0, 1]) := by
  decide

/-- a bound of zero (which `WithMaximumConcurrentRuns` refuses) deadlocks at once: `0 < bound` is needed -/
example : ∀ e, exec (annealCfg inpOK 1 0 true privLayout) (init (annealCfg inpOK 1 0 true privLayout) heap0) e = none := by
  intro e; cases e <;> simp [exec, init, annealCfg]

end examples

end Crem.Runs
