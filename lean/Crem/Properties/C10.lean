import Crem.Properties.C02
import Mathlib.Tactic.Linarith
/-!
# C10 — validity verdicts are exact: rejected iff the limit would really be exceeded

Theorems about the executable catchment model (`changeIsValid` = `ChangeIsValid`,
`undoableValue` = `UndoableValue()`, the value quoted in the rejection reason,
`withinBounds` = `Bounds.WithinBounds`, `maxOf D v` = the configured maximum of variable `v`),
exact in ℚ, for every dataset satisfying `InitConsistent` / `KeysDistinct`, every canonical state
(by C01: every state reachable by a conformant history), every action and every limit
configuration of the six variables.

The model follows the repaired `UndoableValue()` (total + change; defect D3 of DESIGN.md section 6
was `total + new unit value`), as validated against the Go code by the `catchment-walk` suite.

Every `theorem` in this file is audited by `./check C10` (`#print axioms`).
-/
namespace Crem.Catchment

/-- `WithinBounds` spelled out: no maximum, or the value does not exceed it -/
theorem withinBounds_iff (D : Data) (v : VarId) (x : Rat) :
    withinBounds D v x = true ↔ ∀ m, maxOf D v = some m → x ≤ m := by
  unfold withinBounds
  cases h : maxOf D v with
  | none => simp
  | some m => simp [not_lt]

/-- the value quoted for a proposal is the value the variable takes if the proposal is accepted -/
theorem quoted_value_is_prospective {D : Data} {s : State} (hI : InitConsistent D)
    (hK : KeysDistinct D.acts) (hc : Canon D s) {i : Nat} (hi : i < D.acts.length) (v : VarId) :
    undoableValue (propose D s i) v = total (accept (propose D s i)) v := by
  unfold undoableValue
  rw [accept_is_reported_change hI hK hc hi v, (propose_keeps_values D s i v).1]

/-- the verdict is "valid" exactly when every variable would be within its bounds after acceptance -/
theorem verdict_exact {D : Data} {s : State} (hI : InitConsistent D) (hK : KeysDistinct D.acts)
    (hc : Canon D s) {i : Nat} (hi : i < D.acts.length) :
    changeIsValid D (propose D s i) = true ↔
      ∀ v, withinBounds D v (total (accept (propose D s i)) v) = true := by
  unfold changeIsValid
  rw [List.all_eq_true]
  constructor
  · intro h v
    rw [← quoted_value_is_prospective hI hK hc hi v]
    exact h v (mem_allVars v)
  · intro h v _
    rw [quoted_value_is_prospective hI hK hc hi v]
    exact h v

/-- … i.e. a proposal is rejected iff some limited variable would really exceed its limit -/
theorem rejected_iff_exceeds {D : Data} {s : State} (hI : InitConsistent D) (hK : KeysDistinct D.acts)
    (hc : Canon D s) {i : Nat} (hi : i < D.acts.length) :
    changeIsValid D (propose D s i) = false ↔
      ∃ v m, maxOf D v = some m ∧ total (accept (propose D s i)) v > m := by
  rw [← Bool.not_eq_true, verdict_exact hI hK hc hi]
  simp only [withinBounds_iff]
  constructor
  · intro h
    by_contra hn
    apply h
    intro v m hm
    by_contra hle
    exact hn ⟨v, m, hm, lt_of_not_ge hle⟩
  · rintro ⟨v, m, hm, hgt⟩ h
    exact absurd (h v m hm) (not_le_of_gt hgt)

/-- a change that does not raise any limited variable, proposed in a state within its limits, is
never rejected -/
theorem lowering_never_rejected {D : Data} {s : State} (hI : InitConsistent D)
    (hK : KeysDistinct D.acts) (hc : Canon D s) {i : Nat} (hi : i < D.acts.length)
    (hvalid : stateIsValid D s = true)
    (hlow : ∀ v, (maxOf D v).isSome = true → total (accept (propose D s i)) v ≤ total s v) :
    changeIsValid D (propose D s i) = true := by
  rw [verdict_exact hI hK hc hi]
  intro v
  rw [withinBounds_iff]
  intro m hm
  have h1 : total s v ≤ m := by
    unfold stateIsValid at hvalid
    rw [List.all_eq_true] at hvalid
    exact (withinBounds_iff D v _).mp (hvalid v (mem_allVars v)) m hm
  have h2 := hlow v (by rw [hm]; rfl)
  linarith

/-- the same in terms of the *reported* change of the proposal -/
theorem nonpositive_change_never_rejected {D : Data} {s : State} (hI : InitConsistent D)
    (hK : KeysDistinct D.acts) (hc : Canon D s) {i : Nat} (hi : i < D.acts.length)
    (hvalid : stateIsValid D s = true)
    (hlow : ∀ v, (maxOf D v).isSome = true → change (propose D s i) v ≤ 0) :
    changeIsValid D (propose D s i) = true := by
  apply lowering_never_rejected hI hK hc hi hvalid
  intro v hv
  rw [accept_is_reported_change hI hK hc hi v]
  have := hlow v hv
  linarith

/-- a change that keeps every limited variable within its limit is never rejected, and every
accepted-as-valid change leads to a valid state -/
theorem valid_iff_result_valid {D : Data} {s : State} (hI : InitConsistent D)
    (hK : KeysDistinct D.acts) (hc : Canon D s) {i : Nat} (hi : i < D.acts.length) :
    changeIsValid D (propose D s i) = stateIsValid D (accept (propose D s i)) := by
  rw [Bool.eq_iff_iff, verdict_exact hI hK hc hi]
  unfold stateIsValid
  rw [List.all_eq_true]
  exact ⟨fun h v _ => h v, fun h v => h v (mem_allVars v)⟩

/-- in every state reachable by a conformant history (C01) -/
theorem verdict_exact_reachable {D : Data} (hI : InitConsistent D) (hK : KeysDistinct D.acts)
    (txs : List Tx) {i : Nat} (hi : i < D.acts.length) :
    (changeIsValid D (propose D (run D txs) i) = true ↔
      ∀ v m, maxOf D v = some m → total (accept (propose D (run D txs) i)) v ≤ m) ∧
    (∀ v, undoableValue (propose D (run D txs) i) v = total (accept (propose D (run D txs) i)) v) := by
  have hc := canon_of_history hI hK txs
  refine ⟨?_, quoted_value_is_prospective hI hK hc hi⟩
  rw [verdict_exact hI hK hc hi]
  simp only [withinBounds_iff]

/-! ### the property's own oracle: the fresh model at the resulting action set

The property judges a proposal by "the limit would be exceeded *by the resulting action set*".  The value a set
has is the value of a freshly initialised model to which exactly that set is applied (C01), which is how the
`catchment-walk` suite computes its ground truth.  These theorems state the verdict and the quoted value against
that oracle directly (composition of C02's accept theorem with C01's canonical form). -/

/-- the quoted value of a proposal is the value a FRESH model takes at the resulting action set -/
theorem quoted_value_is_fresh_model_value {D : Data} {s : State} (hI : InitConsistent D)
    (hK : KeysDistinct D.acts) (hc : Canon D s) {i : Nat} (hi : i < D.acts.length) (v : VarId) :
    undoableValue (propose D s i) v = total (setAll D (init D) (flipFlag s.flags i)) v := by
  rw [quoted_value_is_prospective hI hK hc hi v]
  have hacc := accept_propose_canon hI.facts hK hc hi
  have hlen : (flipFlag s.flags i).length = D.acts.length := by rw [flipFlag_length, hc.len]
  have hfresh := setAll_canon hI.facts hK (canon_init hI) (flipFlag s.flags i)
  have hff := setAll_init_flags hI hK _ hlen
  have hs := hacc.sameVals hfresh (by rw [hff, accept_flags hc hi])
  exact (hs.total_eq v).symm

/-- the verdict on a proposal is the validity of a FRESH model at the resulting action set -/
theorem verdict_is_fresh_model_validity {D : Data} {s : State} (hI : InitConsistent D)
    (hK : KeysDistinct D.acts) (hc : Canon D s) {i : Nat} (hi : i < D.acts.length) :
    changeIsValid D (propose D s i) = stateIsValid D (setAll D (init D) (flipFlag s.flags i)) := by
  unfold changeIsValid stateIsValid
  apply List.all_congr rfl
  intro v
  rw [quoted_value_is_fresh_model_value hI hK hc hi v]

/-- **in every reachable state, against the fresh-model oracle**: after any conformant history, a proposal is
rejected iff some limited variable of the fresh model at the resulting set exceeds its maximum, and the value
quoted for every variable is that model's value -/
theorem verdict_fresh_model_reachable {D : Data} (hI : InitConsistent D) (hK : KeysDistinct D.acts)
    (txs : List Tx) {i : Nat} (hi : i < D.acts.length) :
    (changeIsValid D (propose D (run D txs) i) = false ↔
      ∃ v m, maxOf D v = some m ∧ total (setAll D (init D) (flipFlag (run D txs).flags i)) v > m) ∧
    (∀ v, undoableValue (propose D (run D txs) i) v
            = total (setAll D (init D) (flipFlag (run D txs).flags i)) v) := by
  have hc := canon_of_history hI hK txs
  refine ⟨?_, quoted_value_is_fresh_model_value hI hK hc hi⟩
  rw [rejected_iff_exceeds hI hK hc hi]
  constructor
  · rintro ⟨v, m, hm, h⟩
    refine ⟨v, m, hm, ?_⟩
    rw [← quoted_value_is_fresh_model_value hI hK hc hi v, quoted_value_is_prospective hI hK hc hi v]
    exact h
  · rintro ⟨v, m, hm, h⟩
    refine ⟨v, m, hm, ?_⟩
    rw [← quoted_value_is_prospective hI hK hc hi v, quoted_value_is_fresh_model_value hI hK hc hi v]
    exact h

/-- the converse reading of `lowering_never_rejected`: a rejected change that raises no limited variable can
only come from a state that was already over a limit (the valid-start hypothesis cannot be dropped: example below) -/
theorem rejected_lowering_only_from_invalid {D : Data} {s : State} (hI : InitConsistent D)
    (hK : KeysDistinct D.acts) (hc : Canon D s) {i : Nat} (hi : i < D.acts.length)
    (hlow : ∀ v, (maxOf D v).isSome = true → total (accept (propose D s i)) v ≤ total s v)
    (hrej : changeIsValid D (propose D s i) = false) : stateIsValid D s = false := by
  cases hv : stateIsValid D s with
  | false => rfl
  | true => rw [lowering_never_rejected hI hK hc hi hv hlow] at hrej; cases hrej

/-! Non-vacuity / sanity (tests, labelled as such): the dataset of C01 with an implementation-cost
limit of 1300.  In the state {0} (cost 1234.57): activating action 2 (99.00) is rejected quoting
1333.57; activating action 1 (5.01) is valid; de-activating action 0 (lowering) is valid. -/

def exLim : Data := { exData with maxIC := some 1300 }
def exLimS : State := run exLim [.acceptToggle 0]

example : InitConsistent exLim ∧ KeysDistinct exLim.acts := by decide +kernel

example : stateIsValid exLim exLimS = true ∧ total exLimS .ic = 123457/100 ∧
    changeIsValid exLim (propose exLim exLimS 2) = false ∧
    undoableValue (propose exLim exLimS 2) .ic = 133357/100 ∧
    changeIsValid exLim (propose exLim exLimS 1) = true ∧
    changeIsValid exLim (propose exLim exLimS 0) = true := by decide +kernel

/-- the fresh-model oracle on the same proposals: the set {0,2} costs 1333.57 on a fresh model -/
example : total (setAll exLim (init exLim) (flipFlag exLimS.flags 2)) .ic = 133357/100 ∧
    stateIsValid exLim (setAll exLim (init exLim) (flipFlag exLimS.flags 2)) = false ∧
    stateIsValid exLim (setAll exLim (init exLim) (flipFlag exLimS.flags 1)) = true := by decide +kernel

/-- **the valid-start hypothesis of `lowering_never_rejected` is necessary.**  The state {0,1,2} (cost 1338.58,
over the limit of 1300; reachable through `SetManagementAction`, which does not consult the limit) is invalid;
de-activating action 1 lowers the cost to 1333.57, which is still over the limit: the lowering change IS rejected
(Go does the same: the verdict judges the resulting state, not the direction). -/
def exLimOver : State := run exLim [.setAll [true, true, true]]

example : stateIsValid exLim exLimOver = false ∧ total exLimOver .ic = 133858/100 ∧
    change (propose exLim exLimOver 1) .ic = -501/100 ∧
    total (accept (propose exLim exLimOver 1)) .ic ≤ total exLimOver .ic ∧
    changeIsValid exLim (propose exLim exLimOver 1) = false ∧
    undoableValue (propose exLim exLimOver 1) .ic = 133357/100 := by decide +kernel

end Crem.Catchment
