import Crem.Properties.C02
import Mathlib.Tactic.Linarith
/-!
# C10 — validity verdicts are exact: rejected iff the limit would really be exceeded

Theorems about the executable catchment model (`changeIsValid` = `ChangeIsValid`,
`undoableValue` = `UndoableValue()`, the value quoted in the rejection reason,
`withinBounds` = `Bounds.WithinBounds`, `maxOf D v` = the configured maximum of variable `v`),
exact in ℚ, for every dataset satisfying `InitConsistent` / `KeysDistinct`, every canonical state
(by C01: every state reachable by a conformant history), every action and every limit
configuration of the six variables.

The model follows the repaired `UndoableValue()` (total + change; defect D3 of DESIGN.md section 6
was `total + new unit value`), as validated against the Go code by the `catchment-walk` suite.

Every `theorem` in this file is audited by `./check C10` (`#print axioms`).
-/
namespace Crem.Catchment

/-- `WithinBounds` spelled out: no maximum, or the value does not exceed it -/
theorem withinBounds_iff (D : Data) (v : VarId) (x : Rat) :
    withinBounds D v x = true ↔ ∀ m, maxOf D v = some m → x ≤ m := by
  unfold withinBounds
  cases h : maxOf D v with
  | none => simp
  | some m => simp [not_lt]

/-- the value quoted for a proposal is the value the variable takes if the proposal is accepted -/
theorem quoted_value_is_prospective {D : Data} {s : State} (hI : InitConsistent D)
    (hK : KeysDistinct D.acts) (hc : Canon D s) {i : Nat} (hi : i < D.acts.length) (v : VarId) :
    undoableValue (propose D s i) v = total (accept (propose D s i)) v := by
  unfold undoableValue
  rw [accept_is_reported_change hI hK hc hi v, (propose_keeps_values D s i v).1]

/-- the verdict is "valid" exactly when every variable would be within its bounds after acceptance -/
theorem verdict_exact {D : Data} {s : State} (hI : InitConsistent D) (hK : KeysDistinct D.acts)
    (hc : Canon D s) {i : Nat} (hi : i < D.acts.length) :
    changeIsValid D (propose D s i) = true ↔
      ∀ v, withinBounds D v (total (accept (propose D s i)) v) = true := by
  unfold changeIsValid
  rw [List.all_eq_true]
  constructor
  · intro h v
    rw [← quoted_value_is_prospective hI hK hc hi v]
    exact h v (mem_allVars v)
  · intro h v _
    rw [quoted_value_is_prospective hI hK hc hi v]
    exact h v

/-- … i.e. a proposal is rejected iff some limited variable would really exceed its limit -/
theorem rejected_iff_exceeds {D : Data} {s : State} (hI : InitConsistent D) (hK : KeysDistinct D.acts)
    (hc : Canon D s) {i : Nat} (hi : i < D.acts.length) :
    changeIsValid D (propose D s i) = false ↔
      ∃ v m, maxOf D v = some m ∧ total (accept (propose D s i)) v > m := by
  rw [← Bool.not_eq_true, verdict_exact hI hK hc hi]
  simp only [withinBounds_iff]
  constructor
  · intro h
    by_contra hn
    apply h
    intro v m hm
    by_contra hle
    exact hn ⟨v, m, hm, lt_of_not_ge hle⟩
  · rintro ⟨v, m, hm, hgt⟩ h
    exact absurd (h v m hm) (not_le_of_gt hgt)

/-- a change that does not raise any limited variable, proposed in a state within its limits, is
never rejected -/
theorem lowering_never_rejected {D : Data} {s : State} (hI : InitConsistent D)
    (hK : KeysDistinct D.acts) (hc : Canon D s) {i : Nat} (hi : i < D.acts.length)
    (hvalid : stateIsValid D s = true)
    (hlow : ∀ v, (maxOf D v).isSome = true → total (accept (propose D s i)) v ≤ total s v) :
    changeIsValid D (propose D s i) = true := by
  rw [verdict_exact hI hK hc hi]
  intro v
  rw [withinBounds_iff]
  intro m hm
  have h1 : total s v ≤ m := by
    unfold stateIsValid at hvalid
    rw [List.all_eq_true] at hvalid
    exact (withinBounds_iff D v _).mp (hvalid v (mem_allVars v)) m hm
  have h2 := hlow v (by rw [hm]; rfl)
  linarith

/-- the same in terms of the *reported* change of the proposal -/
theorem nonpositive_change_never_rejected {D : Data} {s : State} (hI : InitConsistent D)
    (hK : KeysDistinct D.acts) (hc : Canon D s) {i : Nat} (hi : i < D.acts.length)
    (hvalid : stateIsValid D s = true)
    (hlow : ∀ v, (maxOf D v).isSome = true → change (propose D s i) v ≤ 0) :
    changeIsValid D (propose D s i) = true := by
  apply lowering_never_rejected hI hK hc hi hvalid
  intro v hv
  rw [accept_is_reported_change hI hK hc hi v]
  have := hlow v hv
  linarith

/-- a change that keeps every limited variable within its limit is never rejected, and every
accepted-as-valid change leads to a valid state -/
theorem valid_iff_result_valid {D : Data} {s : State} (hI : InitConsistent D)
    (hK : KeysDistinct D.acts) (hc : Canon D s) {i : Nat} (hi : i < D.acts.length) :
    changeIsValid D (propose D s i) = stateIsValid D (accept (propose D s i)) := by
  rw [Bool.eq_iff_iff, verdict_exact hI hK hc hi]
  unfold stateIsValid
  rw [List.all_eq_true]
  exact ⟨fun h v _ => h v, fun h v => h v (mem_allVars v)⟩

/-- in every state reachable by a conformant history (C01) -/
theorem verdict_exact_reachable {D : Data} (hI : InitConsistent D) (hK : KeysDistinct D.acts)
    (txs : List Tx) {i : Nat} (hi : i < D.acts.length) :
    (changeIsValid D (propose D (run D txs) i) = true ↔
      ∀ v m, maxOf D v = some m → total (accept (propose D (run D txs) i)) v ≤ m) ∧
    (∀ v, undoableValue (propose D (run D txs) i) v = total (accept (propose D (run D txs) i)) v) := by
  have hc := canon_of_history hI hK txs
  refine ⟨?_, quoted_value_is_prospective hI hK hc hi⟩
  rw [verdict_exact hI hK hc hi]
  simp only [withinBounds_iff]

/-! Non-vacuity / sanity (tests, labelled as such): the dataset of C01 with an implementation-cost
limit of 1300.  In the state {0} (cost 1234.57): activating action 2 (99.00) is rejected quoting
1333.57; activating action 1 (5.01) is valid; de-activating action 0 (lowering) is valid. -/

def exLim : Data := { exData with maxIC := some 1300 }
def exLimS : State := run exLim [.acceptToggle 0]

example : InitConsistent exLim ∧ KeysDistinct exLim.acts := by decide +kernel

example : stateIsValid exLim exLimS = true ∧ total exLimS .ic = 123457/100 ∧
    changeIsValid exLim (propose exLim exLimS 2) = false ∧
    undoableValue (propose exLim exLimS 2) .ic = 133357/100 ∧
    changeIsValid exLim (propose exLim exLimS 1) = true ∧
    changeIsValid exLim (propose exLim exLimS 0) = true := by decide +kernel

end Crem.Catchment
