import Crem.Model.CatchmentSpec
/-! # C10 — theorems under construction (see DESIGN.md section 5) -/
