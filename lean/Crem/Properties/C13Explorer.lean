import Crem.Proofs.ExplorerSummary
import Crem.Properties.C12Rows
/-!
# C13 (audit item 1a / 3b) — what the EXPLORER writes is `wellFormed`, so the engine loads and serves it

C13's theorems (`roundtrip`, `decoded_set`, `pareto_flag`, `history`; `Crem/Properties/C13.lean`) assume
`wellFormed sc names rows = true` over C13's BYTE level writer model `renderSummary names rows`.  The explorer's
writer is modelled a second time, at CHAR / Rat level, by C12 (`Crem.SummaryCsv`: `buildSummary`, `sortedRows`,
`renderCsv`; labels from `Crem.Naming`).  Both transcribe
`internal/pkg/annealing/solution/set/encoding/csv/Marshaler.go`.  This file ties them:

  * `explorer_summary_wellFormed_of_labels`  the text `renderCsv iter y` the explorer's model writes — for EVERY
      map iteration order `iter`, every yielded entry `y` — is, byte for byte (`ofChars`), a text
      `renderSummary names rows` of C13's writer model with `wellFormed sc names rows`, whose rows carry the
      encodings of the as-is state and of the members in archive order and the labels `As-Is`, `Optimised` /
      `k-of-n`; the LABELS are taken from a hypothesis `hlab` about the naming variant;
  * `explorer_summary_wellFormed`        `hlab` discharged for the round-3 code (`Variant.anchored`), EVERY run id;
  * `explorer_summary_wellFormed_fixed`  `hlab` discharged for the D6-D8 code (`Variant.fixed`), run ids of `Clean` names;
  * `explorer_summary_served`            end to end: the repaired engine accepts the text, serves `As-Is` as the
      empty action set and label `k-of-n` (`Optimised`) with exactly the flags member k was encoded from, and
      reports that encoding as a Pareto-front member (composition with `decoded_set_encode`, `pareto_flag`);
  * `explorer_summary_history`           the same over request sequences (composition with `history`);
  * `value_cell_numeric`, `value_cells_numeric`   ASSUMPTION A below, from a magnitude bound `|x| < B < 10^300`;
  * `explorer_summary_served_bounded`    `explorer_summary_served` with ASSUMPTION A replaced by that bound;
  * `explorer_summary_ascii`             the written text is ASCII when the variable names are: `ofChars` of it is
      the file's content and loses nothing.

Hypotheses of the tie (explicit, decidable on data; the theorems say nothing without them):
  * ASSUMPTION A  every `%.3f` cell is a number `ParseFloat` accepts (`isNumeric`).  Discharged by
    `value_cells_numeric` for values of magnitude below 10^300 - 1; it is false from about 1.8·10^308 on (ErrRange,
    refuting `example` at the end);
  * ASSUMPTION B  the as-is row's `%.3f` cells parse back to the scenario's as-is values (`asIsValuesOk`): the engine's
    own check `verifySolutionSummaryMatchesScenario`, a fact about the as-is model's values (three decimals must
    carry them; `example` at the end: 1/3 fails it), not about the writer;
  * the decision-variable names are the same in every row, as many as the scenario has, plain CSV fields, and none is
    `Solution` / `Actions` / `Summary`; there is at least one (with none the writer's rows have one field more than
    its header, `Row.fields`; `example` at the end);
  * every encoding is `BooleanArchive.Encoding()` of as many flags as the scenario has actions (at least one),
    the as-is one of no active action;
  * the single-objective family writes one member.

`ofChars` maps a character to the byte of its code: it is the file's content for ASCII text
(`explorer_summary_ascii`).  Helper lemmas: `Crem/Proofs/ExplorerSummary.lean`.  Every `theorem` in this file is
audited with `#print axioms`.
-/
namespace Crem.EngineSummary
open Crem.Csv
open Crem.Naming (Str natStr Family)
open Crem.SummaryCsv (Entry fmtFixed renderCsv buildSummary)

/-- **the tie, labels by hypothesis.**  Scenario `sc` with at least one action; summary of the as-is state `asIs` and
the archive `members` (one member for the single-objective family) under run id `rid`, naming variant `v`; `hlab`:
the variant labels the keys `As-Is`, then `Optimised` (a set of one) or `1-of-n … n-of-n`.  Then the written text
is a `wellFormed` summary of C13's writer model, row for row. -/
theorem explorer_summary_wellFormed_of_labels (sc : Scenario) (hn : 1 ≤ sc.nActions)
    (v : Naming.Variant) (f : Family) (rid : Str) (asIs : SummaryCsv.Row) (members : List SummaryCsv.Row)
    (hf : f = .single → members.length = 1)
    (hlab : (Naming.keys v f rid members.length).map (Naming.label v) =
      Naming.sAsIs :: canonicalLabels f members.length)
    (vnames : List Str) (hne : vnames ≠ [])
    (hvars : ∀ row ∈ asIs :: members, row.vars.map (·.1) = vnames)
    (hlen : vnames.length = sc.vars.length)
    (hnames : ∀ n ∈ vnames, plainField (ofChars n) = true ∧ ofChars n ≠ sSolution ∧ ofChars n ≠ sActions ∧
      ofChars n ≠ sSummary)
    (henc0 : asIs.actions = BoolArchive.encode (List.replicate sc.nActions false))
    (henc : ∀ m ∈ members, ∃ flags : List Bool, flags.length = sc.nActions ∧ m.actions = BoolArchive.encode flags)
    (hA : ∀ row ∈ asIs :: members, ∀ nv ∈ row.vars, isNumeric (ofChars (fmtFixed 3 nv.2)) = true)
    (hB : asIsValuesOk sc (vnames.map ofChars) (asIs.vars.map fun nv => ofChars (fmtFixed 3 nv.2)) = true)
    (iter : List Entry) (hiter : iter.Perm (buildSummary v f rid asIs members))
    (y : Option Entry) (e : Entry) (hy : y = some e) (he : e ∈ buildSummary v f rid asIs members) :
    ∃ names rows, ofChars (renderCsv iter y) = renderSummary names rows ∧ wellFormed sc names rows = true ∧
      rows.map (·.encoding) = (asIs :: members).map (fun r => ofChars r.actions) ∧
      rows.map (·.label) = (Naming.sAsIs :: canonicalLabels f members.length).map ofChars ∧
      rows.length = 1 + members.length :=
  explorer_core sc hn v f rid asIs members hf hlab vnames hne hvars hlen hnames henc0 henc hA hB iter hiter y e hy he

/-- **the tie for the round-3 code** (`Variant.anchored`): EVERY run id, hence every scenario name -/
theorem explorer_summary_wellFormed (sc : Scenario) (hn : 1 ≤ sc.nActions)
    (f : Family) (rid : Str) (asIs : SummaryCsv.Row) (members : List SummaryCsv.Row)
    (hf : f = .single → members.length = 1)
    (vnames : List Str) (hne : vnames ≠ [])
    (hvars : ∀ row ∈ asIs :: members, row.vars.map (·.1) = vnames)
    (hlen : vnames.length = sc.vars.length)
    (hnames : ∀ n ∈ vnames, plainField (ofChars n) = true ∧ ofChars n ≠ sSolution ∧ ofChars n ≠ sActions ∧
      ofChars n ≠ sSummary)
    (henc0 : asIs.actions = BoolArchive.encode (List.replicate sc.nActions false))
    (henc : ∀ m ∈ members, ∃ flags : List Bool, flags.length = sc.nActions ∧ m.actions = BoolArchive.encode flags)
    (hA : ∀ row ∈ asIs :: members, ∀ nv ∈ row.vars, isNumeric (ofChars (fmtFixed 3 nv.2)) = true)
    (hB : asIsValuesOk sc (vnames.map ofChars) (asIs.vars.map fun nv => ofChars (fmtFixed 3 nv.2)) = true)
    (iter : List Entry) (hiter : iter.Perm (buildSummary .anchored f rid asIs members))
    (y : Option Entry) (e : Entry) (hy : y = some e) (he : e ∈ buildSummary .anchored f rid asIs members) :
    ∃ names rows, ofChars (renderCsv iter y) = renderSummary names rows ∧ wellFormed sc names rows = true ∧
      rows.map (·.encoding) = (asIs :: members).map (fun r => ofChars r.actions) ∧
      rows.map (·.label) = (Naming.sAsIs :: canonicalLabels f members.length).map ofChars ∧
      rows.length = 1 + members.length :=
  explorer_summary_wellFormed_of_labels sc hn .anchored f rid asIs members hf
    (keys_labels_anchored f rid members.length) vnames hne hvars hlen hnames henc0 henc hA hB iter hiter y e hy he

/-- **the tie for the D6-D8 code** (`Variant.fixed`): run `r` of `R` of a scenario whose name is `Clean` -/
theorem explorer_summary_wellFormed_fixed (sc : Scenario) (hn : 1 ≤ sc.nActions)
    (name : Str) (hc : Naming.Clean name) (r R : Nat)
    (f : Family) (asIs : SummaryCsv.Row) (members : List SummaryCsv.Row)
    (hf : f = .single → members.length = 1)
    (vnames : List Str) (hne : vnames ≠ [])
    (hvars : ∀ row ∈ asIs :: members, row.vars.map (·.1) = vnames)
    (hlen : vnames.length = sc.vars.length)
    (hnames : ∀ n ∈ vnames, plainField (ofChars n) = true ∧ ofChars n ≠ sSolution ∧ ofChars n ≠ sActions ∧
      ofChars n ≠ sSummary)
    (henc0 : asIs.actions = BoolArchive.encode (List.replicate sc.nActions false))
    (henc : ∀ m ∈ members, ∃ flags : List Bool, flags.length = sc.nActions ∧ m.actions = BoolArchive.encode flags)
    (hA : ∀ row ∈ asIs :: members, ∀ nv ∈ row.vars, isNumeric (ofChars (fmtFixed 3 nv.2)) = true)
    (hB : asIsValuesOk sc (vnames.map ofChars) (asIs.vars.map fun nv => ofChars (fmtFixed 3 nv.2)) = true)
    (iter : List Entry) (hiter : iter.Perm (buildSummary .fixed f (Naming.runId name r R) asIs members))
    (y : Option Entry) (e : Entry) (hy : y = some e)
    (he : e ∈ buildSummary .fixed f (Naming.runId name r R) asIs members) :
    ∃ names rows, ofChars (renderCsv iter y) = renderSummary names rows ∧ wellFormed sc names rows = true ∧
      rows.map (·.encoding) = (asIs :: members).map (fun r => ofChars r.actions) ∧
      rows.map (·.label) = (Naming.sAsIs :: canonicalLabels f members.length).map ofChars ∧
      rows.length = 1 + members.length :=
  explorer_summary_wellFormed_of_labels sc hn .fixed f (Naming.runId name r R) asIs members hf
    (keys_labels_fixed name hc r R f members.length) vnames hne hvars hlen hnames henc0 henc hA hB iter hiter y e hy he

/-- **end to end** (round-3 explorer, repaired engine): the engine accepts the text the explorer writes; `As-Is` is
served as the empty action set; for every member `i` (0-based) encoded from `flags`, the label `(i+1)-of-n`
(`Optimised` for a set of one: `memberLabel`) is served with exactly `flags`, and `PATCH /model` with that encoding
reports a Pareto-front member. -/
theorem explorer_summary_served (sc : Scenario) (hn : 1 ≤ sc.nActions)
    (f : Family) (rid : Str) (asIs : SummaryCsv.Row) (members : List SummaryCsv.Row)
    (hf : f = .single → members.length = 1)
    (vnames : List Str) (hne : vnames ≠ [])
    (hvars : ∀ row ∈ asIs :: members, row.vars.map (·.1) = vnames)
    (hlen : vnames.length = sc.vars.length)
    (hnames : ∀ n ∈ vnames, plainField (ofChars n) = true ∧ ofChars n ≠ sSolution ∧ ofChars n ≠ sActions ∧
      ofChars n ≠ sSummary)
    (henc0 : asIs.actions = BoolArchive.encode (List.replicate sc.nActions false))
    (henc : ∀ m ∈ members, ∃ flags : List Bool, flags.length = sc.nActions ∧ m.actions = BoolArchive.encode flags)
    (hA : ∀ row ∈ asIs :: members, ∀ nv ∈ row.vars, isNumeric (ofChars (fmtFixed 3 nv.2)) = true)
    (hB : asIsValuesOk sc (vnames.map ofChars) (asIs.vars.map fun nv => ofChars (fmtFixed 3 nv.2)) = true)
    (iter : List Entry) (hiter : iter.Perm (buildSummary .anchored f rid asIs members))
    (y : Option Entry) (e : Entry) (hy : y = some e) (he : e ∈ buildSummary .anchored f rid asIs members) :
    ∃ t, loadSummary .fixed sc (ofChars (renderCsv iter y)) = .ok t ∧
      served .fixed sc sAsIs t = some (List.replicate sc.nActions false) ∧
      ∀ (i : Nat) (hi : i < members.length) (flags : List Bool), flags.length = sc.nActions →
        members[i].actions = BoolArchive.encode flags →
        served .fixed sc (ofChars (memberLabel members.length i)) t = some flags ∧
        paretoMember sc t (ofChars (BoolArchive.encode flags)) = some true := by
  obtain ⟨names, rows, htext, hwf, hencs, hlabels, _⟩ :=
    explorer_summary_wellFormed sc hn f rid asIs members hf vnames hne hvars hlen hnames henc0 henc hA hB iter hiter
      y e hy he
  obtain ⟨t, ht, hasis, hserved⟩ := served_core sc hn names rows hwf asIs members _ hencs hlabels
  rw [htext]
  refine ⟨t, ht, hasis, ?_⟩
  intro i hi flags hfl hact
  have hcl := canonicalLabels_eq f members.length hf
  have hi' : i < (canonicalLabels f members.length).length := by rw [hcl]; simpa using hi
  have hL : (canonicalLabels f members.length)[i] = memberLabel members.length i := by
    simp only [hcl, List.getElem_map, List.getElem_range]
  rw [← hL]
  exact hserved i hi hi' flags hfl hact

/-- **end to end over request sequences** (composition with C13 `history`): let the engine be in ANY state `e₀`, let
the text the round-3 explorer writes for `e₀`'s scenario be posted, and let any quiet request sequence follow.  Then the
POST was accepted, `As-Is` is answered from the pool's own entry, every member label is answered with the member's
encoding, membership flag `true` and exactly the flags it was encoded from, and every member encoding is reported as a
Pareto-front member. -/
theorem explorer_summary_history (e₀ : Engine) (hn : 1 ≤ e₀.sc.nActions)
    (f : Family) (rid : Str) (asIs : SummaryCsv.Row) (members : List SummaryCsv.Row)
    (hf : f = .single → members.length = 1)
    (vnames : List Str) (hne : vnames ≠ [])
    (hvars : ∀ row ∈ asIs :: members, row.vars.map (·.1) = vnames)
    (hlen : vnames.length = e₀.sc.vars.length)
    (hnames : ∀ n ∈ vnames, plainField (ofChars n) = true ∧ ofChars n ≠ sSolution ∧ ofChars n ≠ sActions ∧
      ofChars n ≠ sSummary)
    (henc0 : asIs.actions = BoolArchive.encode (List.replicate e₀.sc.nActions false))
    (henc : ∀ m ∈ members, ∃ flags : List Bool, flags.length = e₀.sc.nActions ∧ m.actions = BoolArchive.encode flags)
    (hA : ∀ row ∈ asIs :: members, ∀ nv ∈ row.vars, isNumeric (ofChars (fmtFixed 3 nv.2)) = true)
    (hB : asIsValuesOk e₀.sc (vnames.map ofChars) (asIs.vars.map fun nv => ofChars (fmtFixed 3 nv.2)) = true)
    (iter : List Entry) (hiter : iter.Perm (buildSummary .anchored f rid asIs members))
    (y : Option Entry) (e : Entry) (hy : y = some e) (he : e ∈ buildSummary .anchored f rid asIs members)
    (later : List Req) (hq : Quiet .fixed (step .fixed e₀ (.post (ofChars (renderCsv iter y)))).1 later) :
    (step .fixed e₀ (.post (ofChars (renderCsv iter y)))).2 = .ok ∧
    (step .fixed (exec .fixed (step .fixed e₀ (.post (ofChars (renderCsv iter y)))).1 later) (.get sAsIs)).2
      = .found (asIsCached e₀.sc) ∧
    ∀ (i : Nat) (hi : i < members.length) (flags : List Bool), flags.length = e₀.sc.nActions →
      members[i].actions = BoolArchive.encode flags →
      (∃ note, (step .fixed (exec .fixed (step .fixed e₀ (.post (ofChars (renderCsv iter y)))).1 later)
          (.get (ofChars (memberLabel members.length i)))).2
            = .found ⟨ofChars (BoolArchive.encode flags), some note, true, some flags⟩) ∧
      (step .fixed (exec .fixed (step .fixed e₀ (.post (ofChars (renderCsv iter y)))).1 later)
          (.patch (ofChars (BoolArchive.encode flags)))).2 = .member (some true) := by
  obtain ⟨names, rows, htext, hwf, hencs, hlabels, _⟩ :=
    explorer_summary_wellFormed e₀.sc hn f rid asIs members hf vnames hne hvars hlen hnames henc0 henc hA hB iter
      hiter y e hy he
  rw [htext] at hq ⊢
  obtain ⟨hok, hasis, hrest⟩ := history_core e₀ hn names rows hwf asIs members _ hencs hlabels later hq
  refine ⟨hok, hasis, ?_⟩
  intro i hi flags hfl hact
  have hcl := canonicalLabels_eq f members.length hf
  have hi' : i < (canonicalLabels f members.length).length := by rw [hcl]; simpa using hi
  have hL : (canonicalLabels f members.length)[i] = memberLabel members.length i := by
    simp only [hcl, List.getElem_map, List.getElem_range]
  rw [← hL]
  exact hrest i hi hi' flags hfl hact

/-! ## ASSUMPTION A from a magnitude bound -/

/-- the `%.3f` rendering of a value of magnitude below `B < 10^300` is a number `ParseFloat` accepts: the literal is
`[-]digits.ddd` with at most 300 integer digits, its value is below 2^1020·10^-3, so rounding to binary64 does not
overflow (`roundBits_lt_inf`) -/
theorem value_cell_numeric (x : Rat) (B : Nat) (hB : B < 10 ^ 300) (h1 : -(B : Rat) < x) (h2 : x < (B : Rat)) :
    isNumeric (ofChars (fmtFixed 3 x)) = true :=
  isNumeric_fmtFixed_of_abs_lt x B hB h1 h2

/-- ASSUMPTION A of the theorems above, for rows whose values all lie strictly between `-B` and `B` -/
theorem value_cells_numeric (rows : List SummaryCsv.Row) (B : Nat) (hB : B < 10 ^ 300)
    (h : ∀ row ∈ rows, ∀ nv ∈ row.vars, -(B : Rat) < nv.2 ∧ nv.2 < (B : Rat)) :
    ∀ row ∈ rows, ∀ nv ∈ row.vars, isNumeric (ofChars (fmtFixed 3 nv.2)) = true :=
  fun row hrow nv hnv => value_cell_numeric nv.2 B hB (h row hrow nv hnv).1 (h row hrow nv hnv).2

/-- **end to end without ASSUMPTION A**: `explorer_summary_served` with the numeric-cell hypothesis replaced by a
bound `B < 10^300` on the magnitude of every decision-variable value -/
theorem explorer_summary_served_bounded (sc : Scenario) (hn : 1 ≤ sc.nActions)
    (f : Family) (rid : Str) (asIs : SummaryCsv.Row) (members : List SummaryCsv.Row)
    (hf : f = .single → members.length = 1)
    (vnames : List Str) (hne : vnames ≠ [])
    (hvars : ∀ row ∈ asIs :: members, row.vars.map (·.1) = vnames)
    (hlen : vnames.length = sc.vars.length)
    (hnames : ∀ n ∈ vnames, plainField (ofChars n) = true ∧ ofChars n ≠ sSolution ∧ ofChars n ≠ sActions ∧
      ofChars n ≠ sSummary)
    (henc0 : asIs.actions = BoolArchive.encode (List.replicate sc.nActions false))
    (henc : ∀ m ∈ members, ∃ flags : List Bool, flags.length = sc.nActions ∧ m.actions = BoolArchive.encode flags)
    (B : Nat) (hB : B < 10 ^ 300)
    (hbound : ∀ row ∈ asIs :: members, ∀ nv ∈ row.vars, -(B : Rat) < nv.2 ∧ nv.2 < (B : Rat))
    (hB' : asIsValuesOk sc (vnames.map ofChars) (asIs.vars.map fun nv => ofChars (fmtFixed 3 nv.2)) = true)
    (iter : List Entry) (hiter : iter.Perm (buildSummary .anchored f rid asIs members))
    (y : Option Entry) (e : Entry) (hy : y = some e) (he : e ∈ buildSummary .anchored f rid asIs members) :
    ∃ t, loadSummary .fixed sc (ofChars (renderCsv iter y)) = .ok t ∧
      served .fixed sc sAsIs t = some (List.replicate sc.nActions false) ∧
      ∀ (i : Nat) (hi : i < members.length) (flags : List Bool), flags.length = sc.nActions →
        members[i].actions = BoolArchive.encode flags →
        served .fixed sc (ofChars (memberLabel members.length i)) t = some flags ∧
        paretoMember sc t (ofChars (BoolArchive.encode flags)) = some true :=
  explorer_summary_served sc hn f rid asIs members hf vnames hne hvars hlen hnames henc0 henc
    (value_cells_numeric _ B hB hbound) hB' iter hiter y e hy he

/-! ## `ofChars` of the written text is the file's content -/

/-- The text the explorer writes is ASCII as soon as the decision-variable names are (everything else — headings,
labels, notes, `%.3f` cells, encodings, separators — is ASCII by construction), so its bytes `ofChars …` are its
UTF-8 encoding and nothing is lost: `toChars` gives the text back. -/
theorem explorer_summary_ascii (f : Family) (rid : Str) (asIs : SummaryCsv.Row) (members : List SummaryCsv.Row)
    (hf : f = .single → members.length = 1)
    (vnames : List Str) (hvars : ∀ row ∈ asIs :: members, row.vars.map (·.1) = vnames)
    (hascii : ∀ n ∈ vnames, ∀ c ∈ n, c.toNat < 128)
    (henc : ∀ m ∈ asIs :: members, ∃ flags : List Bool, m.actions = BoolArchive.encode flags)
    (iter : List Entry) (hiter : iter.Perm (buildSummary .anchored f rid asIs members))
    (y : Option Entry) (e : Entry) (hy : y = some e) (he : e ∈ buildSummary .anchored f rid asIs members) :
    (∀ c ∈ renderCsv iter y, c.toNat < 128) ∧ toChars (ofChars (renderCsv iter y)) = renderCsv iter y := by
  have h := explorer_ascii_core .anchored f rid asIs members hf (keys_labels_anchored f rid members.length) vnames
    hvars hascii henc iter hiter y e hy he
  exact ⟨h, toChars_ofChars _ h⟩

/-! ## non-vacuity: the hypotheses are jointly satisfiable (tests, labelled as such)

A 13-action scenario with two decision variables `a` (as-is value 0) and `b` (as-is value 2.5, bits
`0x4004000000000000`); run 2 of 3 of the scenario `Best Solution` (a name outside `Clean`); a set of two members. -/

def exSc : Scenario := { nActions := 13, vars := [(ascii "a", 0), (ascii "b", 0x4004000000000000)] }
def exNames : List Str := ["a".toList, "b".toList]
def exFlags1 : List Bool := [false, false, true, true, true, true, false, true, false, true, false, true, true]
def exFlags2 : List Bool := [false, true, false, false, true, false, false, false, false, false, false, false, false]
def exAsIs : SummaryCsv.Row :=
  ⟨[("a".toList, 0), ("b".toList, 5/2)], BoolArchive.encode (List.replicate 13 false)⟩
def exMembers : List SummaryCsv.Row :=
  [⟨[("a".toList, 5/4), ("b".toList, -3)], BoolArchive.encode exFlags1⟩,
   ⟨[("a".toList, 12345/10000), ("b".toList, 1/3)], BoolArchive.encode exFlags2⟩]
def exRid : Str := Naming.runId "Best Solution".toList 2 3
/-- the summary map; `exMap.reverse` is one order Go might iterate it in, `exMap.getLast?` one entry it might yield -/
def exMap : List Entry := buildSummary .anchored .multi exRid exAsIs exMembers

/-- the text the writer model produces for it -/
example : renderCsv exMap.reverse exMap.getLast? =
    "Solution, a, b, Actions, Summary\n".toList ++
     "As-Is, 0.000, 2.500, 0, As-is state; zero active management actions\n".toList ++
     "1-of-2, 1.250, -3.000, 1ABC, Pareto front member 1 of 2\n".toList ++
     "2-of-2, 1.235, 0.333, 12, Pareto front member 2 of 2\n".toList := by decide +kernel

/-- every hypothesis of `explorer_summary_served` holds of the example, so its conclusion does -/
example : ∃ t, loadSummary .fixed exSc (ofChars (renderCsv exMap.reverse exMap.getLast?)) = .ok t ∧
    served .fixed exSc sAsIs t = some (List.replicate 13 false) ∧
    (served .fixed exSc (ascii "1-of-2") t = some exFlags1 ∧ paretoMember exSc t (ascii "1ABC") = some true) ∧
    (served .fixed exSc (ascii "2-of-2") t = some exFlags2 ∧ paretoMember exSc t (ascii "12") = some true) := by
  have h1 : (1 : Nat) ≤ exSc.nActions := by decide
  have h2 : Family.multi = .single → exMembers.length = 1 := by decide
  have h3 : exNames ≠ [] := by decide
  have h4 : ∀ row ∈ exAsIs :: exMembers, row.vars.map (·.1) = exNames := by decide
  have h5 : exNames.length = exSc.vars.length := by decide
  have h6 : ∀ n ∈ exNames, plainField (ofChars n) = true ∧ ofChars n ≠ sSolution ∧ ofChars n ≠ sActions ∧
      ofChars n ≠ sSummary := by decide
  have h7 : exAsIs.actions = BoolArchive.encode (List.replicate exSc.nActions false) := rfl
  have h8 : ∀ m ∈ exMembers, ∃ flags : List Bool, flags.length = exSc.nActions ∧
      m.actions = BoolArchive.encode flags := by
    intro m hm
    simp only [exMembers, List.mem_cons, List.not_mem_nil, or_false] at hm
    rcases hm with rfl | rfl
    · exact ⟨exFlags1, rfl, rfl⟩
    · exact ⟨exFlags2, rfl, rfl⟩
  have h9 : ∀ row ∈ exAsIs :: exMembers, ∀ nv ∈ row.vars, isNumeric (ofChars (fmtFixed 3 nv.2)) = true := by
    decide +kernel
  have h10 : asIsValuesOk exSc (exNames.map ofChars) (exAsIs.vars.map fun nv => ofChars (fmtFixed 3 nv.2)) = true := by
    decide +kernel
  have h11 : exMap.reverse.Perm exMap := List.reverse_perm _
  have h12 : ∃ e, exMap.getLast? = some e ∧ e ∈ exMap := by
    refine ⟨_, rfl, ?_⟩
    decide +kernel
  obtain ⟨e, hy, he⟩ := h12
  obtain ⟨t, ht, hasis, hs⟩ := explorer_summary_served exSc h1 .multi exRid exAsIs exMembers h2 exNames h3 h4 h5 h6 h7
    h8 h9 h10 exMap.reverse h11 exMap.getLast? e hy he
  exact ⟨t, ht, hasis, hs 0 (by decide) exFlags1 rfl rfl, hs 1 (by decide) exFlags2 rfl rfl⟩

/-- cross-check by evaluation, without the theorem: the engine model accepts that very text -/
example : (match loadSummary .fixed exSc (ofChars (renderCsv exMap.reverse exMap.getLast?)) with
    | .ok t => served .fixed exSc (ascii "2-of-2") t
    | _ => none) = some exFlags2 := by decide +kernel

/-- the single-objective family: one member, labelled `Optimised` -/
example : renderCsv (buildSummary .anchored .single exRid exAsIs (exMembers.take 1))
      (buildSummary .anchored .single exRid exAsIs (exMembers.take 1)).head? =
    "Solution, a, b, Actions, Summary\n".toList ++
     "As-Is, 0.000, 2.500, 0, As-is state; zero active management actions\n".toList ++
     "Optimised, 1.250, -3.000, 1ABC, Computationally optimised solution\n".toList := by decide +kernel

/-- hypothesis `hne` (at least one decision variable) is needed: with none the writer's rows have FOUR fields under
a THREE-column header (`joinAttributes` joins the empty value list to an empty field), which the engine rejects -/
example : renderCsv [Entry.mk [] 0 Naming.sAsIs [] "0".toList SummaryCsv.asIsNote]
      (some (Entry.mk [] 0 Naming.sAsIs [] "0".toList SummaryCsv.asIsNote)) =
    "Solution, Actions, Summary\n".toList ++ "As-Is, , 0, As-is state; zero active management actions\n".toList ∧
    loadSummary .fixed { nActions := 13, vars := [] }
      (ofChars (renderCsv [Entry.mk [] 0 Naming.sAsIs [] "0".toList SummaryCsv.asIsNote]
        (some (Entry.mk [] 0 Naming.sAsIs [] "0".toList SummaryCsv.asIsNote)))) = .rejected .csv := by
  decide +kernel

/-- ASSUMPTION B is needed: an as-is value that three decimals do not carry (1/3 against its float) is
"not produced from the current scenario" -/
example : asIsValuesOk { nActions := 13, vars := [(ascii "a", 0x3FD5555555555555)] } [ascii "a"]
    [ofChars (fmtFixed 3 (1/3))] = false := by decide +kernel

set_option exponentiation.threshold 2000 in
/-- `value_cell_numeric` is not vacuous -/
example : isNumeric (ofChars (fmtFixed 3 (-1234567/1000))) = true :=
  value_cell_numeric _ 2000 (by decide) (by decide +kernel) (by decide +kernel)

set_option exponentiation.threshold 2000 in
/-- … and ASSUMPTION A does need a bound: `%.3f` of 10^309 is a text `ParseFloat` rejects (ErrRange), the cell would
stay a string and the engine's type check would refuse the summary -/
example : isNumeric (ofChars (fmtFixed 3 ((10 ^ 309 : Nat) : Rat))) = false := by decide +kernel

/-! ## the values: "each label returns the row's … values"

The engine model ends at the ACTION SET of the served solution (`decoded_set`, `history`, `explorer_summary_served`):
`SolutionPool.AddSolution` clones the pool's as-is reference model, `Decode`s the row's encoding into its compressed
state and `Decompress`es (a whole-set load).  What that model's decision variables then read is a fact about the
catchment model, and it joins C12's `written_rows_faithful` at the set: -/

/-- **The served values are the row's values.**  Whatever model of the scenario the set `bits` is loaded into — any
conformant history `hp` behind it: the pool's reference clone, the served model after earlier patches — reading its
variables the way the Saver reads them (`saverRow`) gives exactly `freshRow D vs bits`: the values of a fresh model
evaluated at `bits` and the canonical text of `bits`.  By C12's `written_rows_faithful` that is, row for row, what the
explorer's Saver wrote (before `%.3f`).  So the solution the engine serves for a label has the values its row was
written from. -/
theorem served_values_are_row_values {D : Catchment.Data} (hI : Catchment.InitConsistent D)
    (hK : Catchment.KeysDistinct D.acts) (vs : List (Naming.Str × Catchment.VarId)) (hp : List Catchment.Tx)
    (bits : List Bool) (hl : bits.length = D.acts.length) :
    C12.saverRow vs (Catchment.setAll D (Catchment.run D hp) bits) = C12.freshRow D vs bits := by
  obtain ⟨hfl, hv⟩ := Catchment.saved_row_is_fresh_valuation hI hK hp bits hl
  unfold C12.saverRow C12.freshRow
  rw [hfl]
  congr 1
  apply List.map_congr_left
  intro nv _
  rw [(hv nv.2 0).1]

/-- non-vacuity on the example data of `Properties/C01.lean`: a model that has just served the set {0} is given the
set {1, 2} -/
example : C12.saverRow C12.exVars (Catchment.setAll Catchment.exData
      (Catchment.run Catchment.exData [.setAll [true, false, false]]) [false, true, true])
    = C12.freshRow Catchment.exData C12.exVars [false, true, true] :=
  served_values_are_row_values (by decide +kernel) (by decide +kernel) _ _ _ rfl

end Crem.EngineSummary
