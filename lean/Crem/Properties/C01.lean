import Crem.Model.CatchmentSpec
/-! # C01 — theorems under construction (see DESIGN.md section 5) -/
