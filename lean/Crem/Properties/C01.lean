import Crem.Proofs.CatchmentOps
/-!
# C01 — the valuation depends only on the active action set (history independence)

Theorems about the executable catchment model `Crem/Model/Catchment.lean` (validated line by line
against the Go code by the `catchment-walk` suite).  Exact in ℚ; for every dataset `D` satisfying the
decidable hypotheses `InitConsistent D` and `KeysDistinct D.acts` (both evaluated by the driver on
every dataset extracted from the running Go code), every number of planning units and actions, and
every finite history of whole transactions.

A *conformant* history (every proposal followed by exactly one accept or revert before the next
mutating operation) is represented as a list of whole transactions `Tx`.  `acceptToggle i` /
`revertToggle i` are `TryRandomChange` (index `i` drawn) followed by `AcceptChange` / `RevertChange`;
an index outside the action list cannot be drawn (`Intn(len)`), such a transaction is the identity.
`set` = `SetManagementAction`, `setAll` = `SynchroniseTo` / `ModelCompressor.Decompress`,
`reinit` = `Initialise(kind)`, `randomize` = `Randomize()` with the `Intn` draws given.

Non-conformant sequences are outside the theorems; the `example`s at the end show that the
restriction is necessary (`revert;revert` and `propose;revert;accept` separate flags and values,
in Go as in the model).

Every `theorem` in this file is audited by `./check C01` (`#print axioms`).
-/
namespace Crem.Catchment

/-- whole transactions of the `model.Model` protocol -/
inductive Tx
  | acceptToggle (i : Nat)
  | revertToggle (i : Nat)
  | set (i : Nat) (b : Bool)
  | setAll (bits : List Bool)
  | reinit (k : InitKind)
  | randomize (draws : List Nat)

def applyTx (D : Data) (s : State) : Tx → State
  | .acceptToggle i => if i < D.acts.length then accept (propose D s i) else s
  | .revertToggle i => if i < D.acts.length then revert (propose D s i) else s
  | .set i b => setAction D s i b
  | .setAll bits => setAll D s bits
  | .reinit k => initialise D k
  | .randomize draws => (randomize D s draws).state

/-- the state after a conformant history, starting from `Initialise(AsIs)` -/
def run (D : Data) (txs : List Tx) : State := txs.foldl (applyTx D) (init D)

/-- every transaction preserves the central invariant -/
theorem applyTx_canon {D : Data} (hI : InitConsistent D) (hK : KeysDistinct D.acts) {s : State}
    (hc : Canon D s) (tx : Tx) : Canon D (applyTx D s tx) := by
  cases tx with
  | acceptToggle i =>
    simp only [applyTx]
    split
    · rename_i hi; exact accept_propose_canon hI.facts hK hc hi
    · exact hc
  | revertToggle i =>
    simp only [applyTx]
    split
    · rename_i hi; exact revert_propose_canon hI.facts hc hi
    · exact hc
  | set i b => exact setAction_canon hI.facts hK hc i b
  | setAll bits => exact setAll_canon hI.facts hK hc bits
  | reinit k => exact initialise_canon hI hK k
  | randomize draws => exact randomize_canon hI.facts hK hc draws

/-- **Central invariant on all reachable states**: after any conformant history every hidden
attribute record, every per-unit value and every total of all six variables is the canonical one
for the current action flags. -/
theorem canon_of_history {D : Data} (hI : InitConsistent D) (hK : KeysDistinct D.acts) (txs : List Tx) :
    Canon D (run D txs) :=
  foldl_inv (Canon D) (applyTx D) (fun _ tx h => applyTx_canon hI hK h tx) txs (init D) (canon_init hI)

/-- **History independence** (the property): two conformant histories ending in the same active
set give the same catchment total and the same per-planning-unit value of every variable. -/
theorem history_independent {D : Data} (hI : InitConsistent D) (hK : KeysDistinct D.acts)
    (h₁ h₂ : List Tx) (hf : (run D h₁).flags = (run D h₂).flags) :
    ∀ v p, total (run D h₁) v = total (run D h₂) v ∧ unitVal (run D h₁) v p = unitVal (run D h₂) v p := by
  have hs := (canon_of_history hI hK h₂).sameVals (canon_of_history hI hK h₁) hf
  exact fun v p => ⟨hs.total_eq v, hs.unitVal_eq v p⟩

/-- … and the same hidden state: all attribute records (`Cell.ctx`) of the three pollutant
variables agree too, so the two models are indistinguishable by any later history as well. -/
theorem history_independent_hidden {D : Data} (hI : InitConsistent D) (hK : KeysDistinct D.acts)
    (h₁ h₂ : List Tx) (hf : (run D h₁).flags = (run D h₂).flags) :
    SameVals (run D h₂) (run D h₁) :=
  (canon_of_history hI hK h₂).sameVals (canon_of_history hI hK h₁) hf

/-- applying an assignment of the right length to the freshly initialised model yields exactly
that assignment -/
theorem setAll_init_flags {D : Data} (hI : InitConsistent D) (hK : KeysDistinct D.acts)
    (bits : List Bool) (hl : bits.length = D.acts.length) :
    (setAll D (init D) bits).flags = bits := by
  have := setAll_flags_aux hI.facts hK bits 0 (init D) [] (init D).flags (canon_init hI) rfl rfl
    (by rw [(canon_init hI).len, hl])
  simpa [setAll] using this

/-- **… the same values as a freshly initialised model to which exactly that set is applied**:
after any conformant history the model agrees, in action flags, every total and every
per-planning-unit value, with `setAll D (init D) flags`. -/
theorem equals_fresh_model {D : Data} (hI : InitConsistent D) (hK : KeysDistinct D.acts) (txs : List Tx) :
    (setAll D (init D) (run D txs).flags).flags = (run D txs).flags ∧
    ∀ v p, total (run D txs) v = total (setAll D (init D) (run D txs).flags) v ∧
           unitVal (run D txs) v p = unitVal (setAll D (init D) (run D txs).flags) v p := by
  have hc := canon_of_history hI hK txs
  have hfl := setAll_init_flags hI hK (run D txs).flags hc.len
  have hfresh := setAll_canon hI.facts hK (canon_init hI) (run D txs).flags
  have hs := hfresh.sameVals hc hfl.symm
  exact ⟨hfl, fun v p => ⟨hs.total_eq v, hs.unitVal_eq v p⟩⟩

/-! ### why float error cannot accumulate along a history (the per-step argument)

The theorems above are exact in ℚ.  The Go code computes every stored figure as `RoundFloat(x, p)` of a float
expression `x` (`SetPlanningUnitValue`: unit := round(new), total := round(total + (new − old))).  Let the *exact*
value of that expression be the grid value `g` (by the theorems) and the float evaluation be `g + e`.  As long as
`|e| < ½·10⁻ᵖ` the stored figure is again (the float nearest to) `g`: the error of one step is wiped out by that
step's own re-rounding and is never carried into the next one.  One addition and one subtraction of binary64 numbers
of magnitude `M` err by at most `2·2⁻⁵³·M`, so `|e| < ½·10⁻ᵖ` holds while `M·10ᵖ < 2⁵⁰` — totals below 10¹² t / 10¹³ $.
`reround_absorbs_error` is the exact-arithmetic half of that argument (the bound on `e` is IEEE-754's, outside the
model, DESIGN 3.1); the long walks of the thorough tier (200 000 operations, every figure compared with the fresh
model bit for bit) sample the whole. -/

/-- re-rounding to the reporting grid absorbs any evaluation error below half a grid unit: the stored total after
a step is the exact grid value `total + (new − old)`, whatever error `e` (|e|·10ᵖ < ½) the evaluation carried -/
theorem reround_absorbs_error {p : Nat} {tot new old e : Rat}
    (ht : OnGrid p tot) (hn : OnGrid p new) (ho : OnGrid p old)
    (h1 : -(1/2) < e * (10^p : Nat)) (h2 : e * (10^p : Nat) < 1/2) :
    (setPUValue p old tot (new + e)).1 = new ∧
    rnd p (tot + (new - old) + e) = tot + (new - old) :=
  ⟨rnd_absorbs hn h1 h2, rnd_absorbs (ht.add (hn.sub ho)) h1 h2⟩

/-! ### Non-vacuity and sanity examples (tests, labelled as such)

A concrete dataset: two planning units, three actions (gully and riparian in unit 1, hill-slope in
unit 2), non-trivial constants. -/

def exData : Data :=
  { acts := [ { pu := 1, typ := .gully,
                k := { implCost := 1234567/1000, oppCost := 10, origGullySed := 31/7, actGullySed := 5/3,
                       origPN := 2/9, actPN := 1/11, origDN := 7/13, actDN := 3/17 } },
              { pu := 1, typ := .riparian,
                k := { implCost := 5005/1000, oppCost := 77/3, origVeg := 1/5, actVeg := 4/5,
                       origRipSed := 12345/1000, actRipSed := 2/3, origFine := 40, actFine := 35,
                       origDN := 9/7, actDN := 1/3 } },
              { pu := 2, typ := .hillslope,
                k := { implCost := 99, oppCost := 1/8, origHillSed := 100/3, actHillSed := 50/7,
                       origPN := 3/2, actPN := 2/7, origDN := 5/6, actDN := 1/9 } } ],
    sed0 := [ (1, { veg := 1/5, rip := 12345/1000, gully := 31/7, hill := 8/3, wet := 0 }),
              (2, { veg := 1/2, rip := 1/3, gully := 0, hill := 100/3, wet := 0 }) ],
    pn0 := [ (1, { veg := 1/5, rip := 12345/1000 * 40 * (1/100), gully := 2/9, hill := 1/7, wet := 0 }),
             (2, { veg := 1/2, rip := 1/9, gully := 0, hill := 3/2, wet := 0 }) ],
    dn0 := [ (1, { veg := 1/5, rip := 9/7, gully := 7/13, hill := 1/7, wet := 0, aux := 1/2 }),
             (2, { veg := 1/2, rip := 1/9, gully := 0, hill := 5/6, wet := 0, aux := 1/3 }) ],
    maxIC := some 2000 }

example : InitConsistent exData := by decide +kernel
example : KeysDistinct exData.acts := by decide +kernel

/-- a concrete history … -/
def exS : State :=
  run exData [.acceptToggle 0, .set 2 true, .revertToggle 1, .acceptToggle 1, .acceptToggle 0]
/-- … and the model to which its final set is applied directly -/
def exF : State := run exData [.setAll [false, true, true]]

/-- evaluated: flags, a cost total (5.005 rounds half away from zero to 5.01; 5.01 + 99), and agreement
in all cells (hidden attribute records included) and totals -/
example :
    exS.flags = [false, true, true] ∧ total exS .ic = 10401/100 ∧
      exS.sed.cells = exF.sed.cells ∧ exS.sed.total = exF.sed.total ∧
      exS.pn.cells = exF.pn.cells ∧ exS.pn.total = exF.pn.total ∧
      exS.dn.cells = exF.dn.cells ∧ exS.dn.total = exF.dn.total ∧
      exS.tn.cells = exF.tn.cells ∧ exS.tn.total = exF.tn.total ∧
      exS.ic.cells = exF.ic.cells ∧ exS.ic.total = exF.ic.total ∧
      exS.oc.cells = exF.oc.cells ∧ exS.oc.total = exF.oc.total := by
  decide +kernel

/-- `reround_absorbs_error` on numbers: 12.345 + 0.0004 re-rounds to 12.345 (and 0.0005 would not: half a unit) -/
example : rnd 3 (12345/1000 + 4/10000) = 12345/1000 ∧ rnd 3 (12345/1000 + 5/10000) ≠ 12345/1000 := by decide +kernel

/-- values do move: the example is not trivially constant -/
example : total (run exData [.acceptToggle 0]) .sed ≠ total (run exData []) .sed := by decide +kernel

/-- a non-conformant sequence: `propose; revert; revert` -/
def exRevertRevert : State := revert (revert (propose exData (init exData) 0))

/-- **The restriction to whole transactions is necessary.**  `revert;revert` (API misuse no caller
performs) flips the action flag twice but undoes the values once: afterwards flag 0 says "active"
while every value is that of the empty set, so the state is not the canonical one. -/
example :
    exRevertRevert.flags = [true, false, false] ∧
    total exRevertRevert .sed = total (init exData) .sed ∧
    total exRevertRevert .sed ≠ total (setAll exData (init exData) exRevertRevert.flags) .sed := by
  decide +kernel

/-- a non-conformant sequence: `propose; revert; accept` -/
def exRevertAccept : State := accept (revert (propose exData (init exData) 0))

/-- likewise `propose;revert;accept`: the accept re-applies the reverted command, the values are
those of {0} while the flags say ∅. -/
example :
    exRevertAccept.flags = [false, false, false] ∧
    total exRevertAccept .sed ≠ total (init exData) .sed ∧
    total exRevertAccept .sed = total (setAll exData (init exData) [true, false, false]) .sed := by
  decide +kernel

/-- **`InitConsistent` is necessary** (the shape of defect D1, DESIGN.md section 6): one unit with a
hill-slope and a riparian action whose initial sediment record carries a hill-slope contribution (10)
other than the action's original constant (20). -/
def exBad : Data :=
  { acts := [ { pu := 1, typ := .hillslope, k := { origHillSed := 20, actHillSed := 5 } },
              { pu := 1, typ := .riparian,
                k := { origVeg := 3/10, actVeg := 7/10, origRipSed := 4, actRipSed := 1 } } ],
    sed0 := [ (1, { veg := 3/10, rip := 4, gully := 0, hill := 10, wet := 0 }) ],
    pn0 := [ (1, { veg := 3/10, rip := 0, gully := 0, hill := 0, wet := 0 }) ],
    dn0 := [ (1, { veg := 3/10, rip := 0, gully := 0, hill := 0, wet := 0 }) ] }

/-- the hypothesis fails, and two conformant histories ending in the same active set disagree -/
example : ¬ InitConsistent exBad ∧ KeysDistinct exBad.acts ∧
    (run exBad [.acceptToggle 0, .acceptToggle 1]).flags = (run exBad [.acceptToggle 1, .acceptToggle 0]).flags ∧
    total (run exBad [.acceptToggle 0, .acceptToggle 1]) .sed
      ≠ total (run exBad [.acceptToggle 1, .acceptToggle 0]) .sed := by
  decide +kernel

end Crem.Catchment
