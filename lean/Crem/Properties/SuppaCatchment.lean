import Crem.Properties.C03
import Crem.Properties.C06
/-!
# C05 / C06 over the real optimised model: the catchment model is a lawful `ModelOps`

`Properties/C06.lean` proves, for every *lawful* optimised model (`LawfulOps`), that the explorer's
solution set satisfies C05's invariant after every call of every run (`run_exOk`, `run_archive_inv`),
that "moves to it" / "replaced by a member" are statements about the model's state
(`moved_state_is_candidate`, `returned_state_is_member`) and that no iteration panics (`run_no_panic`).
Here the hypothesis is discharged for the model the explorer actually optimises: the catchment model
(`Crem/Model/SuppaCatchment.lean`, `modelOps D`), with the canonical-state invariant of C01 as `ok`,
for every dataset satisfying the decidable hypotheses `InitConsistent` / `KeysDistinct` (evaluated on
every extracted dataset by the correspondence suites, proved for data derived from well-formed tables
in `Properties/Derive.lean`).

Every `theorem` in this file is audited (`#print axioms`) by `./check C05` and `./check C06`.
-/
namespace Crem.Catchment
open Crem.Archive Crem.Suppa

variable {D : Data}

/-- **the catchment model is lawful** in the sense of `Crem.Suppa.LawfulOps`: whole-set loads and the
(limit-respecting) randomisation keep the canonical-state invariant; after loading the action set of
a canonical state the model holds exactly that set (`setAll_flags`); the six totals — hence the
objective vector `keysOf` and the values `valuesOf` — are functions of the action set (C01,
`Canon.sameVals`); the dimension is 6 -/
theorem catchment_lawfulOps (hI : InitConsistent D) (hK : KeysDistinct D.acts) :
    LawfulOps (modelOps D) (Canon D) 6 where
  sync_ok := fun _ t hs _ => setAll_canon hI.facts hK hs t.flags
  rand_ok := fun s ds hs => by
    show Canon D (outcomeState (randomize D s ds))
    rw [outcomeState_eq]; exact randomize_canon hI.facts hK hs ds
  sync_act := fun _ t hs ht => setAll_flags hI hK hs t.flags ht.len
  vec_fn := fun s t hs ht hf => by
    have h := ht.sameVals hs (show s.flags = t.flags from hf)
    show keysOf s = keysOf t
    unfold keysOf
    rw [h.dnT, h.icT, h.ocT, h.pnT, h.sedT, h.tnT]
  val_fn := fun s t hs ht hf => by
    have h := ht.sameVals hs (show s.flags = t.flags from hf)
    show valuesOf s = valuesOf t
    unfold valuesOf
    rw [h.dnT, h.icT, h.ocT, h.pnT, h.sedT, h.tnT]
  dim := fun _ _ => rfl
  val_dim := fun _ _ => rfl

/-- **C05 for full multi-objective runs over the catchment model**: from the state `Initialise()`
leaves (canonical current and potential model, empty solution set), after ANY sequence of
`TryRandomChange` / `CoolDown` calls with ANY inputs, under either coolant and every arithmetic, the
solution set has no member dominated by another and no two members with one action set, every member
carries the objective vector of a canonical state with its action set, and no iteration panicked
(neither the `CheckNonDominance` self-check nor the return-to-base pick on an empty set) -/
theorem catchment_run_archive_inv {α : Type} (hI : InitConsistent D) (hK : KeysDistinct D.acts)
    (A : Arith α) (P : Params α) (cs : List (Call α)) (e : Ex α State)
    (hc : Canon D e.current) (hp : Canon D e.potential) (ha : e.archive = []) :
    Inv (Suppa.run A (modelOps D) P e cs).1.archive ∧
    (∀ m ∈ (Suppa.run A (modelOps D) P e cs).1.archive, ∃ t, Canon D t ∧ m.vec = keysOf t ∧ m.act = t.flags) ∧
    ∀ o ∈ (Suppa.run A (modelOps D) P e cs).2, o.selfCheckPanic = false ∧ o.emptyPickPanic = false := by
  have L := catchment_lawfulOps hI hK
  obtain ⟨h1, h2⟩ := run_archive_inv L A P cs e hc hp ha
  refine ⟨h1, ?_, run_no_panic L A P cs e (exOk_initial _ _ e hc hp ha)⟩
  intro m hm
  obtain ⟨t, ht, rfl⟩ := h2 m hm
  exact ⟨t, ht, rfl, rfl⟩

/-! ### non-vacuity (test, labelled as such): the C10 example dataset, explorer as initialised -/

example : Canon exLim (initialise exLim .random) := by
  have h : InitConsistent exLim ∧ KeysDistinct exLim.acts := by decide +kernel
  exact initialise_canon h.1 h.2 .random

end Crem.Catchment
