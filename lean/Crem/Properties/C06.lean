import Crem.Proofs.Suppapitnarm
import Crem.Properties.C05
/-!
# C06 — multi-objective step rule and return-to-base schedule

Theorems about `Crem/Model/Suppapitnarm.lean` (`iterate` = `TryRandomChange`).  The step-rule
theorems hold for every arithmetic `A`, every optimised model `M`, every explorer state and every
input (candidate draws, uniform draw, pick).  The probability formula and its range are stated over
ℝ with `Real.exp`; the schedule theorems over ℝ with `⌊·⌋₊` as the truncation `uint64(x)`.

Layers (the audit of round 3 asked for them to be told apart):
* *transcription-level* theorems (`desirable_moves`, `undesirable_iff`, `moved_undesirable_forced`,
  `not_moved_archive`, `current_after`, `returned_iff`) unfold `iterate`; their weight is the
  transcription of `TryRandomChange` and the correspondence suites;
* *derived* theorems carry content beyond the definition: `held_moves` / `step_rule` (the property's
  own phrasing, on the archive's contents, through C05's `held_is_duplicate`), `iterate_archive_eq_offer`
  and `run_exOk` / `run_archive_inv` (the explorer's archive is C05's protocol; the invariant holds
  after every iteration of every run), `moved_state_is_candidate` / `returned_state_is_member`
  (statements about the model's *state*, for every lawful `ModelOps`), `run_returned_eq_returns`,
  `returns_eq_sched`, `sched_closed_form` (return times), `run_no_panic`, `accProb_range`.

What is trusted: that binary64 arithmetic (`*`, `math.Max`, `uint64(·)`, `>`) agrees with the real
operations on the values that occur (DESIGN.md 3.1); the correspondence runs the model on `Float`.
-/
namespace Crem.Suppa
open Crem.Archive

variable {α σ : Type}

/-- the candidate of an iteration: the potential model synchronised to the current one, randomised -/
def candidate (M : ModelOps σ) (e : Ex α σ) (i : In α) : Entry :=
  M.compress (M.randomize (M.syncTo e.potential (M.compress e.current).act) i.draws)

/-- `change_i` of the property: candidate value minus current value, one entry per objective -/
def changes (A : Arith α) (M : ModelOps σ) (e : Ex α σ) (i : In α) : List α :=
  diffs A (M.values (M.randomize (M.syncTo e.potential (M.compress e.current).act) i.draws)) (M.values e.current)

/-- the acceptance probability of an iteration -/
def stepProb (A : Arith α) (M : ModelOps σ) (P : Params α) (e : Ex α σ) (i : In α) : α :=
  accProb A P.kind e.temperature (changes A M e i)

/-- the current solution after the accept/revert decision, before any return-to-base -/
def afterDecision (M : ModelOps σ) (e : Ex α σ) (i : In α) (moved : Bool) : σ :=
  if moved then M.syncTo e.current (candidate M e i).act else e.current

/-- when the solution set stores the candidate or already holds its action set, the explorer moves
to it with certainty; nothing is forced and the set is what the offer left -/
theorem desirable_moves (A : Arith α) (M : ModelOps σ) (P : Params α) (e : Ex α σ) (i : In α)
    (h : desirableRes (Real.attempt e.archive (candidate M e i)).1 = true) :
    (iterate A M P e i).2.moved = true ∧ (iterate A M P e i).2.forced = false ∧
    (iterate A M P e i).2.prob = none ∧
    (iterate A M P e i).1.archive = (Real.attempt e.archive (candidate M e i)).2 := by
  unfold candidate at h ⊢
  simp [iterate, h]

/-- otherwise it moves exactly when the acceptance probability exceeds the uniform draw … -/
theorem undesirable_iff (A : Arith α) (M : ModelOps σ) (P : Params α) (e : Ex α σ) (i : In α)
    (h : desirableRes (Real.attempt e.archive (candidate M e i)).1 = false) :
    (iterate A M P e i).2.moved = A.gt (stepProb A M P e i) i.u ∧
    (iterate A M P e i).2.prob = some (stepProb A M P e i) ∧
    (iterate A M P e i).2.forced = (iterate A M P e i).2.moved := by
  unfold candidate at h
  simp [iterate, h, stepProb, changes]

/-- … in which case the candidate is forced into the solution set (after the refused offer) -/
theorem moved_undesirable_forced (A : Arith α) (M : ModelOps σ) (P : Params α) (e : Ex α σ) (i : In α)
    (h : desirableRes (Real.attempt e.archive (candidate M e i)).1 = false)
    (hm : (iterate A M P e i).2.moved = true) :
    (iterate A M P e i).1.archive =
      (Real.force (Real.attempt e.archive (candidate M e i)).2 (candidate M e i)).2 := by
  unfold candidate at h ⊢
  simp only [iterate, h, Bool.false_or] at hm ⊢
  simp [hm]

/-- if it does not move, the solution set is unchanged -/
theorem not_moved_archive (A : Arith α) (M : ModelOps σ) (P : Params α) (e : Ex α σ) (i : In α)
    (hm : (iterate A M P e i).2.moved = false) :
    (iterate A M P e i).1.archive = (Real.attempt e.archive (candidate M e i)).2 ∧
    desirableRes (Real.attempt e.archive (candidate M e i)).1 = false := by
  unfold candidate
  simp only [iterate] at hm ⊢
  rcases Bool.eq_false_or_eq_true (desirableRes (Real.attempt e.archive (M.compress (M.randomize (M.syncTo e.potential (M.compress e.current).act) i.draws))).1) with h | h
  · simp [h] at hm
  · simp only [h, Bool.false_or] at hm ⊢
    simp [hm]

/-- the current solution: without a return-to-base it is the candidate's action set if the explorer
moved and **unchanged** otherwise; on a return-to-base it is replaced by the picked member of the
solution set -/
theorem current_after (A : Arith α) (M : ModelOps σ) (P : Params α) (e : Ex α σ) (i : In α) :
    ((iterate A M P e i).2.returned = false →
      (iterate A M P e i).1.current = afterDecision M e i (iterate A M P e i).2.moved) ∧
    ((iterate A M P e i).2.returned = true → ∀ m, (iterate A M P e i).1.archive[i.pick]? = some m →
      (iterate A M P e i).1.current = M.syncTo (afterDecision M e i (iterate A M P e i).2.moved) m.act) := by
  unfold afterDecision candidate
  simp only [iterate]
  constructor
  · intro h
    simp [h]
  · intro h m hm
    rw [if_pos h]
    simp only [hm]
    rfl

/-- a return-to-base happens exactly when the decremented countdown reaches zero; the iteration
counter advances by one and the last-returned marker records the iteration -/
theorem returned_iff (A : Arith α) (M : ModelOps σ) (P : Params α) (e : Ex α σ) (i : In α) :
    ((iterate A M P e i).2.returned = true ↔ e.countdown - 1 = 0) ∧
    (iterate A M P e i).1.iter = e.iter + 1 ∧
    (iterate A M P e i).1.lastReturned = (if e.countdown - 1 = 0 then e.iter else e.lastReturned) := by
  simp only [iterate, tick]
  split <;> simp_all

/-- a moved-to candidate is in the solution set afterwards, or its action set already was -/
theorem accepted_in_archive (A : Arith α) (M : ModelOps σ) (P : Params α) (e : Ex α σ) (i : In α)
    (hm : (iterate A M P e i).2.moved = true) :
    candidate M e i ∈ (iterate A M P e i).1.archive ∨
      ∃ m ∈ (iterate A M P e i).1.archive, m.act = (candidate M e i).act := by
  rcases Bool.eq_false_or_eq_true (desirableRes (Real.attempt e.archive (candidate M e i)).1) with h | h
  · -- desirable: stored, or refused as a duplicate
    rw [(desirable_moves A M P e i h).2.2.2]
    rcases attempt_res_cases (dom := Crem.Dominance.dominates) e.archive (candidate M e i) with ⟨hc, _⟩ | ⟨_, h2⟩ | ⟨hc, h2⟩
    · left
      have := (attempt_of_cannot_none e.archive (candidate M e i) hc).1
      unfold Real.attempt; rw [this]; simp
    · unfold Real.attempt at h; rw [h2] at h; simp [desirableRes] at h
    · right
      unfold Real.attempt; rw [h2]
      exact cannot_rejDuplicate e.archive (candidate M e i) hc
  · left
    rw [moved_undesirable_forced A M P e i h hm]
    simp [Real.force, force]


/-! ### the step rule as the property phrases it: on the contents of the solution set -/

/-- **the explorer's archive step IS the C05 protocol step**: after an iteration the solution set is
`offer` (offer; force when refused as dominated and the draw allows) applied to the candidate, the
flag being "acceptance probability exceeds the uniform draw" -/
theorem iterate_archive_eq_offer (A : Arith α) (M : ModelOps σ) (P : Params α) (e : Ex α σ) (i : In α) :
    (iterate A M P e i).1.archive =
      Real.offer (A.gt (stepProb A M P e i) i.u) e.archive (candidate M e i) := by
  unfold candidate stepProb changes
  simp only [iterate, Real.offer, offer]
  rcases attempt_res_cases (dom := Crem.Dominance.dominates) e.archive
      (M.compress (M.randomize (M.syncTo e.potential (M.compress e.current).act) i.draws)) with
    ⟨_, h | h⟩ | ⟨_, h2⟩ | ⟨_, h2⟩
  · split <;> simp_all [desirableRes]
  · split <;> simp_all [desirableRes]
  · simp [Real.force, h2, desirableRes]
  · simp [h2, desirableRes]

/-- **"already holds its action set ⇒ moves with certainty"** (the clause of the property, conditioned
on the solution set's contents rather than on the verdict code).  Hypotheses: the solution set
satisfies C05's invariant, and members carrying the candidate's action set carry its objective vector
(C01; both hold in every run: `run_exOk`).  Conclusion: the explorer moves, nothing is forced, no
probability is computed, no draw is consumed, and the solution set is unchanged.  Without the
consistency hypothesis this is false (example in `Properties/C05.lean`). -/
theorem held_moves (A : Arith α) (M : ModelOps σ) (P : Params α) (e : Ex α σ) (i : In α)
    (hinv : Inv e.archive)
    (hcons : ∀ m ∈ e.archive, m.act = (candidate M e i).act → m.vec = (candidate M e i).vec)
    (hheld : ∃ m ∈ e.archive, m.act = (candidate M e i).act) :
    (iterate A M P e i).2.moved = true ∧ (iterate A M P e i).2.forced = false ∧
    (iterate A M P e i).2.prob = none ∧ (iterate A M P e i).2.result = .rejDuplicate ∧
    (iterate A M P e i).1.archive = e.archive := by
  have hd := held_is_duplicate e.archive (candidate M e i) hinv hcons hheld
  have h : desirableRes (Real.attempt e.archive (candidate M e i)).1 = true := by rw [hd]; rfl
  obtain ⟨h1, h2, h3, h4⟩ := desirable_moves A M P e i h
  refine ⟨h1, h2, h3, ?_, by rw [h4, hd]⟩
  unfold candidate at hd
  simp [iterate, hd]

/-- **the whole step rule on the solution set's contents** (under C05's invariant and consistency):
* nothing blocks the candidate (no member dominates it or holds its action set) ⇒ it is stored and the
  explorer moves to it with certainty;
* a member holds its action set ⇒ the explorer moves with certainty, the set is unchanged;
* otherwise (not held, some member dominates it) the explorer moves exactly when the acceptance
  probability exceeds the draw, and exactly then the candidate is forced into the set. -/
theorem step_rule (A : Arith α) (M : ModelOps σ) (P : Params α) (e : Ex α σ) (i : In α)
    (hinv : Inv e.archive)
    (hcons : ∀ m ∈ e.archive, m.act = (candidate M e i).act → m.vec = (candidate M e i).vec) :
    ((∀ m ∈ e.archive, Crem.Dominance.dominates m.vec (candidate M e i).vec = false ∧ m.act ≠ (candidate M e i).act) →
      (iterate A M P e i).2.moved = true ∧ (iterate A M P e i).2.forced = false ∧
      candidate M e i ∈ (iterate A M P e i).1.archive) ∧
    ((∃ m ∈ e.archive, m.act = (candidate M e i).act) →
      (iterate A M P e i).2.moved = true ∧ (iterate A M P e i).2.forced = false ∧
      (iterate A M P e i).1.archive = e.archive) ∧
    ((¬ ∃ m ∈ e.archive, m.act = (candidate M e i).act) →
     (∃ m ∈ e.archive, Crem.Dominance.dominates m.vec (candidate M e i).vec = true) →
      (iterate A M P e i).2.moved = A.gt (stepProb A M P e i) i.u ∧
      (iterate A M P e i).2.forced = (iterate A M P e i).2.moved ∧
      (iterate A M P e i).1.archive =
        (if (iterate A M P e i).2.moved then (Real.force e.archive (candidate M e i)).2 else e.archive)) := by
  refine ⟨fun hfree => ?_, fun hheld => ?_, fun hnh hdom => ?_⟩
  · have hs := (attempt_stored_iff e.archive (candidate M e i)).mpr hfree
    have h : desirableRes (Real.attempt e.archive (candidate M e i)).1 = true := by
      rcases hs with hs | hs <;> rw [hs] <;> rfl
    obtain ⟨h1, h2, _, h4⟩ := desirable_moves A M P e i h
    refine ⟨h1, h2, ?_⟩
    rw [h4, (attempt_stored e.archive (candidate M e i) hfree).1]
    simp
  · obtain ⟨h1, h2, _, _, h5⟩ := held_moves A M P e i hinv hcons hheld
    exact ⟨h1, h2, h5⟩
  · have hr := ((attempt_verdict_iff e.archive (candidate M e i) hinv hcons).2).mpr ⟨hnh, hdom⟩
    have h : desirableRes (Real.attempt e.archive (candidate M e i)).1 = false := by rw [hr]; rfl
    have ha : (Real.attempt e.archive (candidate M e i)).2 = e.archive :=
      ((attempt_refused_reason e.archive (candidate M e i)).1 hr).2
    obtain ⟨h1, _, h3⟩ := undesirable_iff A M P e i h
    refine ⟨h1, h3, ?_⟩
    rcases Bool.eq_false_or_eq_true (iterate A M P e i).2.moved with hm | hm
    · rw [moved_undesirable_forced A M P e i h hm, ha, hm]; rfl
    · rw [(not_moved_archive A M P e i hm).1, ha, hm]; rfl

/-- `change_i` is the candidate's value minus the current solution's value, for every objective: the
list of changes has one entry per objective and its `k`-th entry is that difference (over ℝ) -/
theorem changes_spec (M : ModelOps σ) (e : Ex ℝ σ) (i : In ℝ) :
    changes realArith M e i =
      List.zipWith (fun c b => ((c : ℚ) : ℝ) - ((b : ℚ) : ℝ))
        (M.values (M.randomize (M.syncTo e.potential (M.compress e.current).act) i.draws)) (M.values e.current) := rfl

/-! ### lawful models: the theorems above become statements about the model's *state* -/

/-- what the explorer needs of the optimised model, relative to an invariant `ok` of its states
(catchment model: the canonical-state invariant of C01; proved in `Properties/SuppaCatchment.lean`):
loading an action set and randomising keep `ok`; after loading the action set of an `ok` state the
model HOLDS that action set; objective vector and objective values are functions of the action set
(C01); all vectors have dimension `d` -/
structure LawfulOps (M : ModelOps σ) (ok : σ → Prop) (d : Nat) : Prop where
  sync_ok : ∀ s t, ok s → ok t → ok (M.syncTo s (M.compress t).act)
  rand_ok : ∀ s ds, ok s → ok (M.randomize s ds)
  sync_act : ∀ s t, ok s → ok t → (M.compress (M.syncTo s (M.compress t).act)).act = (M.compress t).act
  vec_fn : ∀ s t, ok s → ok t → (M.compress s).act = (M.compress t).act → (M.compress s).vec = (M.compress t).vec
  val_fn : ∀ s t, ok s → ok t → (M.compress s).act = (M.compress t).act → M.values s = M.values t
  dim : ∀ s, ok s → (M.compress s).vec.length = d
  val_dim : ∀ s, ok s → (M.values s).length = d

/-- loading the action set of `t` makes the model's compressed state equal to `t`'s -/
theorem LawfulOps.compress_sync {M : ModelOps σ} {ok : σ → Prop} {d : Nat} (L : LawfulOps M ok d)
    (s t : σ) (hs : ok s) (ht : ok t) : M.compress (M.syncTo s (M.compress t).act) = M.compress t := by
  have ha := L.sync_act s t hs ht
  have hv := L.vec_fn _ t (L.sync_ok s t hs ht) ht ha
  generalize M.compress (M.syncTo s (M.compress t).act) = x at ha hv
  cases x; cases h : M.compress t; simp_all

/-- the explorer invariant: current and potential model `ok`; every member of the solution set is the
compressed form of an `ok` state; the solution set satisfies C05's invariant -/
structure ExOk (M : ModelOps σ) (ok : σ → Prop) (e : Ex α σ) : Prop where
  cur : ok e.current
  pot : ok e.potential
  arch : ∀ m ∈ e.archive, ∃ t, ok t ∧ m = M.compress t
  inv : Inv e.archive

/-- an explorer as `Initialise()` leaves it (empty solution set) satisfies the invariant -/
theorem exOk_initial (M : ModelOps σ) (ok : σ → Prop) (e : Ex α σ) (hc : ok e.current) (hp : ok e.potential)
    (ha : e.archive = []) : ExOk M ok e :=
  ⟨hc, hp, by rw [ha]; intro m hm; simp at hm, by
    rw [ha]; exact ⟨by intro m hm; simp at hm, by simp [NoDup]⟩⟩

section lawful
variable {M : ModelOps σ} {ok : σ → Prop} {d : Nat}

/-- the candidate is the compressed form of an `ok` state, and the consistency hypothesis of
`held_moves` / `step_rule` / C05's `offer_inv` holds of it -/
theorem candidate_ok (L : LawfulOps M ok d) (e : Ex α σ) (i : In α) (h : ExOk M ok e) :
    ok (M.randomize (M.syncTo e.potential (M.compress e.current).act) i.draws) ∧
    (candidate M e i).vec.length = d ∧
    ∀ m ∈ e.archive, m.act = (candidate M e i).act → m.vec = (candidate M e i).vec := by
  have hp := L.rand_ok _ i.draws (L.sync_ok _ _ h.pot h.cur)
  refine ⟨hp, L.dim _ hp, ?_⟩
  intro m hm hact
  obtain ⟨t, ht, rfl⟩ := h.arch m hm
  exact L.vec_fn t _ ht hp hact

/-- "over all objectives": the coolant receives exactly one change per objective -/
theorem changes_length (L : LawfulOps M ok d) (A : Arith α) (e : Ex α σ) (i : In α) (h : ExOk M ok e) :
    (changes A M e i).length = d := by
  unfold changes diffs
  rw [List.length_zipWith, L.val_dim _ (candidate_ok L e i h).1, L.val_dim _ h.cur]
  simp

/-- the current solution after an iteration, in full -/
theorem current_eq (A : Arith α) (M : ModelOps σ) (P : Params α) (e : Ex α σ) (i : In α) :
    (iterate A M P e i).1.current =
      if (iterate A M P e i).2.returned then
        match (iterate A M P e i).1.archive[i.pick]? with
        | some m => M.syncTo (afterDecision M e i (iterate A M P e i).2.moved) m.act
        | none => afterDecision M e i (iterate A M P e i).2.moved
      else afterDecision M e i (iterate A M P e i).2.moved := by
  unfold afterDecision candidate
  simp only [iterate]
  rfl

/-- **one iteration keeps the explorer invariant** — in particular C05's invariant of the solution set -/
theorem iterate_exOk (L : LawfulOps M ok d) (A : Arith α) (P : Params α) (e : Ex α σ) (i : In α)
    (h : ExOk M ok e) : ExOk M ok (iterate A M P e i).1 := by
  obtain ⟨hp, hdim, hcons⟩ := candidate_ok L e i h
  have hmem : ∀ m ∈ (iterate A M P e i).1.archive, ∃ t, ok t ∧ m = M.compress t := by
    intro m hm
    rw [iterate_archive_eq_offer] at hm
    rcases mem_offer_of_mem _ _ _ _ hm with h1 | h1
    · exact h.arch m h1
    · exact ⟨_, hp, h1⟩
  have hdec : ∀ b, ok (afterDecision M e i b) := by
    intro b
    unfold afterDecision candidate
    cases b
    · exact h.cur
    · exact L.sync_ok _ _ h.cur hp
  refine ⟨?_, ?_, hmem, ?_⟩
  · rw [current_eq]
    split
    · split
      · rename_i m hm
        obtain ⟨t, ht, rfl⟩ := hmem m (List.mem_of_getElem? hm)
        exact L.sync_ok _ _ (hdec _) ht
      · exact hdec _
    · exact hdec _
  · have : (iterate A M P e i).1.potential =
        M.randomize (M.syncTo e.potential (M.compress e.current).act) i.draws := by simp [iterate]
    rw [this]; exact hp
  · rw [iterate_archive_eq_offer]
    refine offer_inv d _ e.archive _ ?_ hdim h.inv hcons
    intro m hm
    obtain ⟨t, ht, rfl⟩ := h.arch m hm
    exact L.dim t ht

theorem coolDown_exOk (A : Arith α) (f : α) (e : Ex α σ) (h : ExOk M ok e) : ExOk M ok (coolDown A f e) :=
  ⟨h.cur, h.pot, h.arch, h.inv⟩

/-- **after every call of every run** — any interleaving of `TryRandomChange` and `CoolDown`, any
inputs (candidate draws, uniform draws, picks), any cooling factors, any length — the explorer
invariant holds.  (Every prefix of a call sequence is a call sequence, so this is "after every
iteration".) -/
theorem run_exOk (L : LawfulOps M ok d) (A : Arith α) (P : Params α) :
    ∀ (cs : List (Call α)) (e : Ex α σ), ExOk M ok e → ExOk M ok (run A M P e cs).1
  | [], _, h => h
  | .iter i :: cs, e, h => by
    simp only [run]
    exact run_exOk L A P cs _ (iterate_exOk L A P e i h)
  | .cool f :: cs, e, h => by
    simp only [run]
    exact run_exOk L A P cs _ (coolDown_exOk A f e h)

/-- **C05 for the explorer's own solution set**: started from an empty solution set, after every call
sequence the set contains no member dominated by another and no two members with one action set, and
every member is the compressed form (objective vector AND action set) of a state the model accepts —
so its values are the model's values at its action set (`LawfulOps.vec_fn`) -/
theorem run_archive_inv (L : LawfulOps M ok d) (A : Arith α) (P : Params α) (cs : List (Call α)) (e : Ex α σ)
    (hc : ok e.current) (hp : ok e.potential) (ha : e.archive = []) :
    Inv (run A M P e cs).1.archive ∧
    ∀ m ∈ (run A M P e cs).1.archive, ∃ t, ok t ∧ m = M.compress t :=
  have h := run_exOk L A P cs e (exOk_initial M ok e hc hp ha)
  ⟨h.inv, h.arch⟩

/-- **"moves to it"** as a statement about the state: when the explorer moved and no return-to-base
happened, the current solution's compressed state — objective vector and action set — is the candidate -/
theorem moved_state_is_candidate (L : LawfulOps M ok d) (A : Arith α) (P : Params α) (e : Ex α σ) (i : In α)
    (h : ExOk M ok e) (hm : (iterate A M P e i).2.moved = true) (hr : (iterate A M P e i).2.returned = false) :
    M.compress (iterate A M P e i).1.current = candidate M e i := by
  rw [(current_after A M P e i).1 hr, hm]
  unfold afterDecision candidate
  simp only [if_true]
  exact L.compress_sync _ _ h.cur (candidate_ok L e i h).1

/-- **"the current solution is unchanged"** when it does not move (and no return-to-base happened) -/
theorem not_moved_state_unchanged (A : Arith α) (M : ModelOps σ) (P : Params α) (e : Ex α σ) (i : In α)
    (hm : (iterate A M P e i).2.moved = false) (hr : (iterate A M P e i).2.returned = false) :
    (iterate A M P e i).1.current = e.current := by
  rw [(current_after A M P e i).1 hr, hm]; rfl

/-- **"a return-to-base replaces the current solution by a member of the solution set"** as a
statement about the state: for every pick within the set (Go draws `Intn(len)`), the current
solution's compressed state afterwards IS the picked member, which is in the solution set -/
theorem returned_state_is_member (L : LawfulOps M ok d) (A : Arith α) (P : Params α) (e : Ex α σ) (i : In α)
    (h : ExOk M ok e) (hr : (iterate A M P e i).2.returned = true)
    (hpick : i.pick < (iterate A M P e i).1.archive.length) :
    (iterate A M P e i).1.archive[i.pick]? = some (M.compress (iterate A M P e i).1.current) ∧
    M.compress (iterate A M P e i).1.current ∈ (iterate A M P e i).1.archive := by
  have h' := iterate_exOk L A P e i h
  have hget : (iterate A M P e i).1.archive[i.pick]? = some ((iterate A M P e i).1.archive[i.pick]) :=
    List.getElem?_eq_getElem hpick
  obtain ⟨t, ht, hmt⟩ := h'.arch _ (List.getElem_mem hpick)
  have hdec : ok (afterDecision M e i (iterate A M P e i).2.moved) := by
    unfold afterDecision candidate
    split
    · exact L.sync_ok _ _ h.cur (candidate_ok L e i h).1
    · exact h.cur
  have hcur := (current_after A M P e i).2 hr _ hget
  have : M.compress (iterate A M P e i).1.current = (iterate A M P e i).1.archive[i.pick] := by
    rw [hcur, hmt]
    exact L.compress_sync _ _ hdec ht
  rw [this]
  exact ⟨hget, List.getElem_mem hpick⟩

end lawful

/-! ### no panic: the archive is never empty at a return-to-base, and the self-check never fires -/

/-- after ANY iteration (whatever the archive was before) the solution set is non-empty: a stored or
forced candidate is in it, and a refusal is caused by a member -/
theorem iterate_archive_ne_nil (A : Arith α) (M : ModelOps σ) (P : Params α) (e : Ex α σ) (i : In α) :
    (iterate A M P e i).1.archive ≠ [] := by
  rw [iterate_archive_eq_offer]; exact offer_ne_nil _ _ _

/-- so a return-to-base never selects from an empty solution set (`SelectRandomModel` would fail its
range assertion / `Intn(0)` would panic) — unconditionally -/
theorem no_empty_pick (A : Arith α) (M : ModelOps σ) (P : Params α) (e : Ex α σ) (i : In α) :
    (iterate A M P e i).2.emptyPickPanic = false := by
  have h := iterate_archive_ne_nil A M P e i
  have : (iterate A M P e i).2.emptyPickPanic =
      ((iterate A M P e i).2.returned && (iterate A M P e i).1.archive.isEmpty) := by simp [iterate]
  rw [this]
  cases hl : (iterate A M P e i).1.archive with
  | nil => exact absurd hl h
  | cons x xs => simp

/-- with `CheckNonDominance = true` the explorer panics when the archive's self-check fails; it never
does where the invariant holds (C05 `inv_passes_selfcheck`) -/
theorem no_selfcheck_panic {M : ModelOps σ} {ok : σ → Prop} {d : Nat} (L : LawfulOps M ok d) (A : Arith α)
    (P : Params α) (e : Ex α σ) (i : In α) (h : ExOk M ok e) :
    (iterate A M P e i).2.selfCheckPanic = false := by
  have h' := (iterate_exOk L A P e i h).inv
  have : (iterate A M P e i).2.selfCheckPanic =
      (P.checkNonDominance && !isNonDominantAsWritten Crem.Dominance.dominates (iterate A M P e i).1.archive) := by
    simp [iterate]
  rw [this, inv_passes_selfcheck _ h']; simp

/-- **no iteration of any run panics** (neither panic site of `TryRandomChange` is reachable) -/
theorem run_no_panic {M : ModelOps σ} {ok : σ → Prop} {d : Nat} (L : LawfulOps M ok d) (A : Arith α) (P : Params α) :
    ∀ (cs : List (Call α)) (e : Ex α σ), ExOk M ok e →
      ∀ o ∈ (run A M P e cs).2, o.selfCheckPanic = false ∧ o.emptyPickPanic = false
  | [], _, _ => by intro o ho; simp [run] at ho
  | .iter i :: cs, e, h => by
    intro o ho
    simp only [run, List.mem_cons] at ho
    rcases ho with rfl | ho
    · exact ⟨no_selfcheck_panic L A P e i h, no_empty_pick A M P e i⟩
    · exact run_no_panic L A P cs _ (iterate_exOk L A P e i h) o ho
  | .cool f :: cs, e, h => by
    intro o ho
    simp only [run] at ho
    exact run_no_panic L A P cs _ (coolDown_exOk A f e h) o ho

/-! ### the acceptance probability (over ℝ) -/

/-- product coolant: p = Π exp(−|Δᵢ|/T) -/
theorem accProb_product (T : ℝ) (ds : List ℝ) :
    accProb realArith .product T ds = (ds.map fun d => Real.exp (-|d| / T)).prod := by
  simp [accProb, realArith, foldl_mul_eq_prod]

/-- averaged coolant: p = (Σ exp(−|Δᵢ|/T)) / n -/
theorem accProb_averaged (T : ℝ) (ds : List ℝ) :
    accProb realArith .averaged T ds = (ds.map fun d => Real.exp (-|d| / T)).sum / ds.length := by
  simp [accProb, realArith, foldl_add_eq_sum]

/-- acceptance probabilities lie in [0,1] for every positive temperature -/
theorem accProb_range (k : CoolantKind) (T : ℝ) (hT : 0 < T) (ds : List ℝ) (hne : ds ≠ []) :
    0 ≤ accProb realArith k T ds ∧ accProb realArith k T ds ≤ 1 := by
  have hmem : ∀ x ∈ ds.map (fun d => Real.exp (-|d| / T)), 0 < x ∧ x ≤ 1 := by
    intro x hx
    simp only [List.mem_map] at hx
    obtain ⟨d, _, rfl⟩ := hx
    exact exp_term_mem_unit d T hT
  cases k with
  | product =>
    rw [accProb_product]
    have := prod_mem_unit _ hmem
    exact ⟨this.1.le, this.2⟩
  | averaged =>
    rw [accProb_averaged]
    have hs := sum_bounds _ hmem
    simp only [List.length_map] at hs
    have hl : (0 : ℝ) < ds.length := by
      have : 0 < ds.length := List.length_pos_of_ne_nil hne
      exact_mod_cast this
    exact ⟨div_nonneg hs.1 hl.le, by rw [div_le_one hl]; exact hs.2⟩

/-! ### the return-to-base schedule (over ℝ, truncation = ⌊·⌋₊) -/

/-- the step after a return-to-base: `max(minimum, step · factor)` -/
noncomputable def nextStep (P : Params ℝ) (s : ℝ) : ℝ := max P.minRate (s * P.factor)

/-- while the countdown is above one, a tick only decrements it -/
theorem tick_decrements (P : Params ℝ) (c : BitVec 64) (s : ℝ) (h : 1 < c.toNat) :
    tick realArith P c s = (false, c - 1, s) := by
  have hne : c - 1#64 ≠ 0#64 := by
    intro h0
    have := congrArg BitVec.toNat h0
    simp [BitVec.toNat_sub] at this
    omega
  simp [tick, hne]

/-- at countdown one, the tick returns to base, shrinks the step (never below the minimum) and
restarts the countdown at the truncated step -/
theorem tick_returns (P : Params ℝ) (s : ℝ) :
    tick realArith P 1#64 s = (true, BitVec.ofNat 64 ⌊nextStep P s⌋₊, nextStep P s) := by
  simp [tick, realArith, nextStep]

/-- **first return and recurrence**: from a countdown `c ≥ 1`, within `n ≥ c` iterations the first
return-to-base happens at exactly the `c`-th iteration, and the schedule continues from there with
countdown `⌊max(min, step·factor)⌋`.  Applied to the initial countdown `⌊S₀⌋` this gives "first after
the configured initial number of iterations, thereafter at intervals that shrink by the factor". -/
theorem returns_recurrence (P : Params ℝ) : ∀ (c : Nat) (n k : Nat) (s : ℝ), 1 ≤ c → c < 2^64 → c ≤ n →
    returns realArith P n k (BitVec.ofNat 64 c) s =
      (k + c) :: returns realArith P (n - c) (k + c) (BitVec.ofNat 64 ⌊nextStep P s⌋₊) (nextStep P s)
  | 0, _, _, _, h, _, _ => by omega
  | 1, n + 1, k, s, _, _, _ => by
    simp only [returns]
    have : BitVec.ofNat 64 1 = 1#64 := rfl
    rw [this, tick_returns]
    simp
  | c + 2, 0, _, _, _, _, h => by omega
  | c + 2, n + 1, k, s, _, hlt, hle => by
    simp only [returns]
    have h1 : 1 < (BitVec.ofNat 64 (c + 2)).toNat := by
      simp [BitVec.toNat_ofNat]; omega
    rw [tick_decrements P _ s h1]
    simp only [Bool.false_eq_true, if_false]
    have hsub : BitVec.ofNat 64 (c + 2) - 1 = BitVec.ofNat 64 (c + 1) := by
      apply BitVec.eq_of_toNat_eq
      simp [BitVec.toNat_sub, BitVec.toNat_ofNat]
      omega
    rw [hsub, returns_recurrence P (c + 1) n (k + 1) s (by omega) (by omega) (by omega)]
    have e1 : k + 1 + (c + 1) = k + (c + 2) := by omega
    have e2 : n - (c + 1) = n + 1 - (c + 2) := by omega
    rw [e1, e2]

/-- no return-to-base before the countdown has run out -/
theorem no_early_return (P : Params ℝ) : ∀ (c : Nat) (n k : Nat) (s : ℝ), n < c → c < 2^64 →
    returns realArith P n k (BitVec.ofNat 64 c) s = []
  | _, 0, _, _, _, _ => rfl
  | 0, _ + 1, _, _, h, _ => by omega
  | 1, _ + 1, _, _, h, _ => by omega
  | c + 2, n + 1, k, s, h, hlt => by
    simp only [returns]
    have h1 : 1 < (BitVec.ofNat 64 (c + 2)).toNat := by
      simp [BitVec.toNat_ofNat]; omega
    rw [tick_decrements P _ s h1]
    simp only [Bool.false_eq_true, if_false]
    have hsub : BitVec.ofNat 64 (c + 2) - 1 = BitVec.ofNat 64 (c + 1) := by
      apply BitVec.eq_of_toNat_eq
      simp [BitVec.toNat_sub, BitVec.toNat_ofNat]
      omega
    rw [hsub]
    exact no_early_return P (c + 1) n (k + 1) s (by omega) (by omega)

/-- intervals never fall below the configured minimum (an integer `m ≥ 1`) -/
theorem interval_ge_min (P : Params ℝ) (m : Nat) (hm : P.minRate = (m : ℝ)) (s : ℝ) :
    m ≤ ⌊nextStep P s⌋₊ := by
  have h : (m : ℝ) ≤ nextStep P s := by rw [← hm]; exact le_max_left _ _
  exact Nat.le_floor h

/-- intervals shrink: with 0 ≤ factor ≤ 1 and a non-negative step, the next step is at most the
larger of the minimum and the previous step -/
theorem nextStep_le (P : Params ℝ) (s : ℝ) (hs : 0 ≤ s) (hf1 : P.factor ≤ 1) :
    nextStep P s ≤ max P.minRate s := by
  unfold nextStep
  have : s * P.factor ≤ s := by nlinarith
  exact max_le_max le_rfl this


/-! ### the schedule of a run: return times in closed form -/

/-- the return flag, the countdown and the step after an iteration are those of `tick` -/
theorem iterate_tick (A : Arith α) (M : ModelOps σ) (P : Params α) (e : Ex α σ) (i : In α) :
    ((iterate A M P e i).2.returned, (iterate A M P e i).1.countdown, (iterate A M P e i).1.step) =
      tick A P e.countdown e.step := by
  simp only [iterate]

/-- **the `returned` flags of the iterations of a run are exactly the countdown sequence `returns`**:
for every arithmetic, model, call sequence (cool-downs do not touch the schedule) and inputs, the
iterations at which a return-to-base happens — counted from `k` — are `returns … n k countdown step`,
`n` the number of iterations -/
theorem run_returned_eq_returns (A : Arith α) (M : ModelOps σ) (P : Params α) :
    ∀ (cs : List (Call α)) (e : Ex α σ) (k : Nat),
      timesOf k ((run A M P e cs).2.map (·.returned)) = returns A P (iterCount cs) k e.countdown e.step
  | [], _, _ => rfl
  | .iter i :: cs, e, k => by
    have ht := iterate_tick A M P e i
    have ih := run_returned_eq_returns A M P cs (iterate A M P e i).1 (k + 1)
    simp only [run, iterCount, returns, List.map_cons, timesOf]
    generalize tick A P e.countdown e.step = t at ht ⊢
    obtain ⟨due, c', s'⟩ := t
    simp only [Prod.mk.injEq] at ht
    obtain ⟨h1, h2, h3⟩ := ht
    rw [ih, h1, h2, h3]
  | .cool f :: cs, e, k => by
    simp only [run, iterCount]
    exact run_returned_eq_returns A M P cs (coolDown A f e) k

theorem iterCount_annealCalls (f : α) : ∀ ins : List (In α), iterCount (annealCalls f ins) = ins.length
  | [] => rfl
  | _ :: is => by simp [annealCalls, iterCount, iterCount_annealCalls f is]

/-- … in particular for the annealer's own loop (iterate, cool, iterate, cool, …) over `n` inputs: the
iterations that return to base are `returns … n 0 countdown step` -/
theorem iterate_returned_eq_returns (A : Arith α) (M : ModelOps σ) (P : Params α) (f : α) (ins : List (In α))
    (e : Ex α σ) :
    timesOf 0 ((run A M P e (annealCalls f ins)).2.map (·.returned)) =
      returns A P ins.length 0 e.countdown e.step := by
  rw [run_returned_eq_returns, iterCount_annealCalls]

/-- the side conditions under which the schedule theorems re-apply after every return-to-base:
minimum rate in [1, 2^64), factor in [0, 1], step in [1, 2^64) (the property's premise
"initial step ≥ 1 and minimum rate ≥ 1"; the validators give the factor range; 2^64 bounds the
`uint64` conversion) -/
structure SchedOk (P : Params ℝ) (s : ℝ) : Prop where
  min_ge : 1 ≤ P.minRate
  min_lt : P.minRate < 2 ^ 64
  f_nonneg : 0 ≤ P.factor
  f_le : P.factor ≤ 1
  s_ge : 1 ≤ s
  s_lt : s < 2 ^ 64

/-- … they are preserved by `step := max(minimum, step · factor)` … -/
theorem SchedOk.next {P : Params ℝ} {s : ℝ} (h : SchedOk P s) : SchedOk P (nextStep P s) := by
  refine ⟨h.min_ge, h.min_lt, h.f_nonneg, h.f_le, le_trans h.min_ge (le_max_left _ _), ?_⟩
  have := nextStep_le P s (by linarith [h.s_ge]) h.f_le
  exact lt_of_le_of_lt this (max_lt h.min_lt h.s_lt)

/-- … and give a countdown `⌊step⌋` in [1, 2^64): never zero before the decrement, exact as `uint64` -/
theorem SchedOk.floor {P : Params ℝ} {s : ℝ} (h : SchedOk P s) : 1 ≤ ⌊s⌋₊ ∧ ⌊s⌋₊ < 2 ^ 64 := by
  refine ⟨Nat.le_floor (by simpa using h.s_ge), ?_⟩
  rw [Nat.floor_lt (by linarith [h.s_ge])]
  have : ((2 ^ 64 : ℕ) : ℝ) = 2 ^ 64 := by norm_num
  rw [this]; exact h.s_lt

/-- the first `fuel` return times of the unbounded schedule from step `s`, counted from `k`:
`k + ⌊s⌋`, then that plus `⌊max(min, s·factor)⌋`, … -/
noncomputable def sched (P : Params ℝ) : Nat → Nat → ℝ → List Nat
  | 0, _, _ => []
  | fuel + 1, k, s => (k + ⌊s⌋₊) :: sched P fuel (k + ⌊s⌋₊) (nextStep P s)

/-- the step after `l` returns -/
noncomputable def stepAt (P : Params ℝ) (s : ℝ) : Nat → ℝ
  | 0 => s
  | l + 1 => stepAt P (nextStep P s) l

theorem sched_takeWhile_fuel (P : Params ℝ) : ∀ (N f₁ f₂ k : Nat) (s : ℝ), SchedOk P s → N ≤ f₁ → N ≤ f₂ →
    (sched P f₁ k s).takeWhile (· ≤ k + N) = (sched P f₂ k s).takeWhile (· ≤ k + N) := by
  intro N
  induction N using Nat.strong_induction_on with
  | _ N ih =>
    intro f₁ f₂ k s h h1 h2
    have hc := h.floor.1
    rcases f₁ with _ | g₁ <;> rcases f₂ with _ | g₂
    · rfl
    · have : N = 0 := by omega
      subst this
      simp only [sched, List.takeWhile_nil, List.takeWhile_cons]
      rw [if_neg (by simp only [decide_eq_true_eq]; omega)]
    · have : N = 0 := by omega
      subst this
      simp only [sched, List.takeWhile_nil, List.takeWhile_cons]
      rw [if_neg (by simp only [decide_eq_true_eq]; omega)]
    · simp only [sched, List.takeWhile_cons]
      by_cases hcn : ⌊s⌋₊ ≤ N
      · rw [if_pos (by simp; omega), if_pos (by simp; omega)]
        have := ih (N - ⌊s⌋₊) (by omega) g₁ g₂ (k + ⌊s⌋₊) (nextStep P s) h.next (by omega) (by omega)
        have e : k + ⌊s⌋₊ + (N - ⌊s⌋₊) = k + N := by omega
        rw [e] at this
        rw [this]
      · rw [if_neg (by simp; omega), if_neg (by simp; omega)]

/-- **return times of `n` iterations**: starting with countdown `⌊s⌋` (as
`deriveIterationsUntilReturnToBase` sets it) the iterations at which a return-to-base happens are
exactly the members of the unbounded schedule that are ≤ `n` — the recurrence `returns_recurrence`
re-applied after every return, its side conditions discharged by `SchedOk.next` / `SchedOk.floor` -/
theorem returns_eq_sched (P : Params ℝ) : ∀ (n k : Nat) (s : ℝ), SchedOk P s →
    returns realArith P n k (BitVec.ofNat 64 ⌊s⌋₊) s = (sched P n k s).takeWhile (· ≤ k + n) := by
  intro n
  induction n using Nat.strong_induction_on with
  | _ n ih =>
    intro k s h
    obtain ⟨hc1, hc2⟩ := h.floor
    by_cases hcn : ⌊s⌋₊ ≤ n
    · rw [returns_recurrence P ⌊s⌋₊ n k s hc1 hc2 hcn, ih (n - ⌊s⌋₊) (by omega) _ _ h.next]
      obtain ⟨n', rfl⟩ : ∃ n', n = n' + 1 := ⟨n - 1, by omega⟩
      simp only [sched, List.takeWhile_cons]
      rw [if_pos (by simp; omega)]
      have e : k + ⌊s⌋₊ + (n' + 1 - ⌊s⌋₊) = k + (n' + 1) := by omega
      rw [e]
      have := sched_takeWhile_fuel P (n' + 1 - ⌊s⌋₊) (n' + 1 - ⌊s⌋₊) n' (k + ⌊s⌋₊) (nextStep P s) h.next
        (by omega) (by omega)
      rw [e] at this
      rw [this]
    · rw [no_early_return P ⌊s⌋₊ n k s (by omega) hc2]
      rcases n with _ | n'
      · rfl
      · simp only [sched, List.takeWhile_cons]
        rw [if_neg (by simp; omega)]

/-- the unbounded schedule in closed form: the `(j+1)`-th return happens at `k + Σ_{l ≤ j} ⌊step_l⌋` -/
theorem sched_closed_form (P : Params ℝ) : ∀ (fuel k : Nat) (s : ℝ),
    sched P fuel k s =
      (List.range fuel).map (fun j => k + ((List.range (j + 1)).map (fun l => ⌊stepAt P s l⌋₊)).sum)
  | 0, _, _ => rfl
  | fuel + 1, k, s => by
    rw [sched, sched_closed_form P fuel, List.range_succ_eq_map, List.map_cons, List.map_map]
    have hstep : ∀ j, ((List.range (j + 1 + 1)).map (fun l => ⌊stepAt P s l⌋₊)).sum =
        ⌊s⌋₊ + ((List.range (j + 1)).map (fun l => ⌊stepAt P (nextStep P s) l⌋₊)).sum := by
      intro j
      rw [List.range_succ_eq_map (n := j + 1), List.map_cons, List.map_map, List.sum_cons]
      rfl
    have h0 : k + ((List.range (0 + 1)).map (fun l => ⌊stepAt P s l⌋₊)).sum = k + ⌊s⌋₊ := by simp [stepAt]
    rw [h0]
    refine congrArg _ (List.map_congr_left ?_)
    intro j _
    simp only [Function.comp, Nat.succ_eq_add_one]
    rw [hstep]
    omega

/-- the step after `l + 1` returns is `max(minimum, s · factor^(l+1))`: the intervals shrink by the
configured factor but never below the configured minimum -/
theorem stepAt_closed (P : Params ℝ) (hm : 0 ≤ P.minRate) (hf0 : 0 ≤ P.factor) (hf1 : P.factor ≤ 1) :
    ∀ (l : Nat) (s : ℝ), stepAt P s (l + 1) = max P.minRate (s * P.factor ^ (l + 1))
  | 0, s => by simp [stepAt, nextStep]
  | l + 1, s => by
    rw [stepAt, stepAt_closed P hm hf0 hf1 l, nextStep]
    have hg0 : 0 ≤ P.factor ^ (l + 1) := pow_nonneg hf0 _
    have hg1 : P.factor ^ (l + 1) ≤ 1 := pow_le_one₀ hf0 hf1
    rw [max_mul_of_nonneg _ _ hg0, ← max_assoc]
    have : max P.minRate (P.minRate * P.factor ^ (l + 1)) = P.minRate :=
      max_eq_left (by nlinarith)
    rw [this]
    congr 1
    ring

/-- successive intervals do not grow (after the first return) and never fall below `⌊minimum⌋` -/
theorem intervals_shrink (P : Params ℝ) (s : ℝ) (h : SchedOk P s) (l : Nat) :
    ⌊stepAt P s (l + 2)⌋₊ ≤ ⌊stepAt P s (l + 1)⌋₊ ∧ ⌊P.minRate⌋₊ ≤ ⌊stepAt P s (l + 1)⌋₊ := by
  have hm : 0 ≤ P.minRate := by linarith [h.min_ge]
  have hs : 0 ≤ s := by linarith [h.s_ge]
  rw [stepAt_closed P hm h.f_nonneg h.f_le, stepAt_closed P hm h.f_nonneg h.f_le]
  refine ⟨Nat.floor_le_floor (max_le_max le_rfl ?_), Nat.floor_le_floor (le_max_left _ _)⟩
  have hg0 : 0 ≤ P.factor ^ (l + 1) := pow_nonneg h.f_nonneg _
  rw [pow_succ P.factor (l + 1), ← mul_assoc]
  have : s * P.factor ^ (l + 1) * P.factor ≤ s * P.factor ^ (l + 1) * 1 :=
    mul_le_mul_of_nonneg_left h.f_le (mul_nonneg hs hg0)
  linarith

/-- **the return times of a run, assembled**: an explorer whose countdown is `⌊step⌋` (as
`Initialise()` and every return-to-base leave it), under the property's premises, run through ANY
call sequence with `n` iterations, returns to base exactly at the iterations
`⌊S₀⌋`, `⌊S₀⌋ + ⌊S₁⌋`, `⌊S₀⌋ + ⌊S₁⌋ + ⌊S₂⌋`, … that are ≤ `n`, where `S₀` is the initial step and
`S_l = max(minimum, S₀ · factor^l)` for `l ≥ 1` (`stepAt_closed`) -/
theorem run_return_times (M : ModelOps σ) (P : Params ℝ) (cs : List (Call ℝ)) (e : Ex ℝ σ)
    (hcd : e.countdown = BitVec.ofNat 64 ⌊e.step⌋₊) (h : SchedOk P e.step) :
    timesOf 0 ((run realArith M P e cs).2.map (·.returned)) =
      ((List.range (iterCount cs)).map
        (fun j => ((List.range (j + 1)).map (fun l => ⌊stepAt P e.step l⌋₊)).sum)).takeWhile (· ≤ iterCount cs) := by
  rw [run_returned_eq_returns, hcd, returns_eq_sched P _ 0 _ h, sched_closed_form]
  simp

/-- with initial step and minimum ≥ 1 the countdown is never zero before the decrement
(premise of the property); for a zero countdown the unsigned decrement wraps to 2^64 − 1, i.e. no
return-to-base for 2^64 iterations — this is why the property assumes initial step ≥ 1 -/
theorem zero_countdown_wraps (P : Params ℝ) (s : ℝ) :
    tick realArith P 0#64 s = (false, BitVec.ofNat 64 (2^64 - 1), s) := by
  simp [tick]

/-! ### examples: non-vacuity (tests, labelled as such) -/

/-- a toy optimised model: the state is the action set; the objective vector counts actives -/
private def toy : ModelOps (List Bool) where
  compress := fun s => ⟨[(s.filter id).length, (s.filter (!·)).length], s⟩
  values := fun s => [((s.filter id).length : Int), ((s.filter (!·)).length : Int)]
  syncTo := fun _ bits => bits
  randomize := fun s draws => (s.zipIdx).map fun (b, i) => if draws.contains i then !b else b

example : desirableRes (Real.attempt [] (toy.compress [true, false])).1 = true := by decide

/-- the toy model is lawful (every state is `ok`): `LawfulOps` is satisfiable; for the catchment model
it is the theorem `catchment_lawfulOps` of `Properties/SuppaCatchment.lean` -/
example : LawfulOps toy (fun _ => True) 2 where
  sync_ok := fun _ _ _ _ => trivial
  rand_ok := fun _ _ _ => trivial
  sync_act := fun _ _ _ _ => rfl
  vec_fn := fun s t _ _ h => by
    have : s = t := h
    rw [this]
  val_fn := fun s t _ _ h => by
    have : s = t := h
    rw [this]
  dim := fun _ _ => rfl
  val_dim := fun _ _ => rfl

/-- the hypotheses of `held_moves` are satisfiable with a held candidate -/
example : Inv [toy.compress [true, false]] ∧ ∃ m ∈ [toy.compress [true, false]], m.act = (toy.compress [true, false]).act :=
  ⟨⟨by intro m hm n hn; simp at hm hn; subst hm; subst hn; decide, by simp [NoDup]⟩, _, by simp, rfl⟩

/-- the side conditions of the schedule theorems are satisfiable: initial step 10, minimum 2, factor ½;
the first return is then at iteration 10 -/
example : SchedOk ⟨.product, 2, 1 / 2, false⟩ 10 := by
  constructor <;> norm_num
example : sched ⟨.product, 2, 1 / 2, false⟩ 1 0 10 = [10] := by
  simp only [sched, Nat.zero_add]
  congr 1
  exact Nat.floor_ofNat 10
example : stepAt ⟨.product, 2, 1 / 2, false⟩ 10 3 = 2 := by
  rw [stepAt_closed _ (by norm_num) (by norm_num) (by norm_num)]
  norm_num
example : (Real.attempt [⟨[1, 1], [true, false]⟩] ⟨[2, 1], [true, true]⟩).1 = .rejDominated := by decide

end Crem.Suppa
