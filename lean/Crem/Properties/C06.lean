import Crem.Proofs.Suppapitnarm
/-!
# C06 — multi-objective step rule and return-to-base schedule

Theorems about `Crem/Model/Suppapitnarm.lean` (`iterate` = `TryRandomChange`).  The step-rule
theorems hold for every arithmetic `A`, every optimised model `M`, every explorer state and every
input (candidate draws, uniform draw, pick).  The probability formula and its range are stated over
ℝ with `Real.exp`; the schedule theorems over ℝ with `⌊·⌋₊` as the truncation `uint64(x)`.
What is trusted: that binary64 arithmetic (`*`, `math.Max`, `uint64(·)`, `>`) agrees with the real
operations on the values that occur (DESIGN.md 3.1); the correspondence runs the model on `Float`.
-/
namespace Crem.Suppa
open Crem.Archive

variable {α σ : Type}

/-- the candidate of an iteration: the potential model synchronised to the current one, randomised -/
def candidate (M : ModelOps σ) (e : Ex α σ) (i : In α) : Entry :=
  M.compress (M.randomize (M.syncTo e.potential (M.compress e.current).act) i.draws)

/-- the current solution after the accept/revert decision, before any return-to-base -/
def afterDecision (M : ModelOps σ) (e : Ex α σ) (i : In α) (moved : Bool) : σ :=
  if moved then M.syncTo e.current (candidate M e i).act else e.current

/-- when the solution set stores the candidate or already holds its action set, the explorer moves
to it with certainty; nothing is forced and the set is what the offer left -/
theorem desirable_moves (A : Arith α) (M : ModelOps σ) (P : Params α) (e : Ex α σ) (i : In α)
    (h : desirableRes (Real.attempt e.archive (candidate M e i)).1 = true) :
    (iterate A M P e i).2.moved = true ∧ (iterate A M P e i).2.forced = false ∧
    (iterate A M P e i).2.prob = none ∧
    (iterate A M P e i).1.archive = (Real.attempt e.archive (candidate M e i)).2 := by
  unfold candidate at h ⊢
  simp [iterate, h]

/-- otherwise it moves exactly when the acceptance probability exceeds the uniform draw … -/
theorem undesirable_iff (A : Arith α) (M : ModelOps σ) (P : Params α) (e : Ex α σ) (i : In α)
    (h : desirableRes (Real.attempt e.archive (candidate M e i)).1 = false) :
    (iterate A M P e i).2.moved = A.gt (accProb A P.kind e.temperature i.diffs) i.u ∧
    (iterate A M P e i).2.prob = some (accProb A P.kind e.temperature i.diffs) ∧
    (iterate A M P e i).2.forced = (iterate A M P e i).2.moved := by
  unfold candidate at h
  simp [iterate, h]

/-- … in which case the candidate is forced into the solution set (after the refused offer) -/
theorem moved_undesirable_forced (A : Arith α) (M : ModelOps σ) (P : Params α) (e : Ex α σ) (i : In α)
    (h : desirableRes (Real.attempt e.archive (candidate M e i)).1 = false)
    (hm : (iterate A M P e i).2.moved = true) :
    (iterate A M P e i).1.archive =
      (Real.force (Real.attempt e.archive (candidate M e i)).2 (candidate M e i)).2 := by
  unfold candidate at h ⊢
  simp only [iterate, h, Bool.false_or] at hm ⊢
  simp [hm]

/-- if it does not move, the solution set is unchanged -/
theorem not_moved_archive (A : Arith α) (M : ModelOps σ) (P : Params α) (e : Ex α σ) (i : In α)
    (hm : (iterate A M P e i).2.moved = false) :
    (iterate A M P e i).1.archive = (Real.attempt e.archive (candidate M e i)).2 ∧
    desirableRes (Real.attempt e.archive (candidate M e i)).1 = false := by
  unfold candidate
  simp only [iterate] at hm ⊢
  rcases Bool.eq_false_or_eq_true (desirableRes (Real.attempt e.archive (M.compress (M.randomize (M.syncTo e.potential (M.compress e.current).act) i.draws))).1) with h | h
  · simp [h] at hm
  · simp only [h, Bool.false_or] at hm ⊢
    simp [hm]

/-- the current solution: without a return-to-base it is the candidate's action set if the explorer
moved and **unchanged** otherwise; on a return-to-base it is replaced by the picked member of the
solution set -/
theorem current_after (A : Arith α) (M : ModelOps σ) (P : Params α) (e : Ex α σ) (i : In α) :
    ((iterate A M P e i).2.returned = false →
      (iterate A M P e i).1.current = afterDecision M e i (iterate A M P e i).2.moved) ∧
    ((iterate A M P e i).2.returned = true → ∀ m, (iterate A M P e i).1.archive[i.pick]? = some m →
      (iterate A M P e i).1.current = M.syncTo (afterDecision M e i (iterate A M P e i).2.moved) m.act) := by
  unfold afterDecision candidate
  simp only [iterate]
  constructor
  · intro h
    simp [h]
  · intro h m hm
    rw [if_pos h]
    simp only [hm]
    rfl

/-- a return-to-base happens exactly when the decremented countdown reaches zero; the iteration
counter advances by one and the last-returned marker records the iteration -/
theorem returned_iff (A : Arith α) (M : ModelOps σ) (P : Params α) (e : Ex α σ) (i : In α) :
    ((iterate A M P e i).2.returned = true ↔ e.countdown - 1 = 0) ∧
    (iterate A M P e i).1.iter = e.iter + 1 ∧
    (iterate A M P e i).1.lastReturned = (if e.countdown - 1 = 0 then e.iter else e.lastReturned) := by
  simp only [iterate, tick]
  split <;> simp_all

/-- a moved-to candidate is in the solution set afterwards, or its action set already was -/
theorem accepted_in_archive (A : Arith α) (M : ModelOps σ) (P : Params α) (e : Ex α σ) (i : In α)
    (hm : (iterate A M P e i).2.moved = true) :
    candidate M e i ∈ (iterate A M P e i).1.archive ∨
      ∃ m ∈ (iterate A M P e i).1.archive, m.act = (candidate M e i).act := by
  rcases Bool.eq_false_or_eq_true (desirableRes (Real.attempt e.archive (candidate M e i)).1) with h | h
  · -- desirable: stored, or refused as a duplicate
    rw [(desirable_moves A M P e i h).2.2.2]
    rcases attempt_res_cases (dom := Crem.Dominance.dominates) e.archive (candidate M e i) with ⟨hc, _⟩ | ⟨_, h2⟩ | ⟨hc, h2⟩
    · left
      have := (attempt_of_cannot_none e.archive (candidate M e i) hc).1
      unfold Real.attempt; rw [this]; simp
    · unfold Real.attempt at h; rw [h2] at h; simp [desirableRes] at h
    · right
      unfold Real.attempt; rw [h2]
      exact cannot_rejDuplicate e.archive (candidate M e i) hc
  · left
    rw [moved_undesirable_forced A M P e i h hm]
    simp [Real.force, force]

/-! ### the acceptance probability (over ℝ) -/

/-- product coolant: p = Π exp(−|Δᵢ|/T) -/
theorem accProb_product (T : ℝ) (ds : List ℝ) :
    accProb realArith .product T ds = (ds.map fun d => Real.exp (-|d| / T)).prod := by
  simp [accProb, realArith, foldl_mul_eq_prod]

/-- averaged coolant: p = (Σ exp(−|Δᵢ|/T)) / n -/
theorem accProb_averaged (T : ℝ) (ds : List ℝ) :
    accProb realArith .averaged T ds = (ds.map fun d => Real.exp (-|d| / T)).sum / ds.length := by
  simp [accProb, realArith, foldl_add_eq_sum]

/-- acceptance probabilities lie in [0,1] for every positive temperature -/
theorem accProb_range (k : CoolantKind) (T : ℝ) (hT : 0 < T) (ds : List ℝ) (hne : ds ≠ []) :
    0 ≤ accProb realArith k T ds ∧ accProb realArith k T ds ≤ 1 := by
  have hmem : ∀ x ∈ ds.map (fun d => Real.exp (-|d| / T)), 0 < x ∧ x ≤ 1 := by
    intro x hx
    simp only [List.mem_map] at hx
    obtain ⟨d, _, rfl⟩ := hx
    exact exp_term_mem_unit d T hT
  cases k with
  | product =>
    rw [accProb_product]
    have := prod_mem_unit _ hmem
    exact ⟨this.1.le, this.2⟩
  | averaged =>
    rw [accProb_averaged]
    have hs := sum_bounds _ hmem
    simp only [List.length_map] at hs
    have hl : (0 : ℝ) < ds.length := by
      have : 0 < ds.length := List.length_pos_of_ne_nil hne
      exact_mod_cast this
    exact ⟨div_nonneg hs.1 hl.le, by rw [div_le_one hl]; exact hs.2⟩

/-! ### the return-to-base schedule (over ℝ, truncation = ⌊·⌋₊) -/

/-- the step after a return-to-base: `max(minimum, step · factor)` -/
noncomputable def nextStep (P : Params ℝ) (s : ℝ) : ℝ := max P.minRate (s * P.factor)

/-- while the countdown is above one, a tick only decrements it -/
theorem tick_decrements (P : Params ℝ) (c : BitVec 64) (s : ℝ) (h : 1 < c.toNat) :
    tick realArith P c s = (false, c - 1, s) := by
  have hne : c - 1#64 ≠ 0#64 := by
    intro h0
    have := congrArg BitVec.toNat h0
    simp [BitVec.toNat_sub] at this
    omega
  simp [tick, hne]

/-- at countdown one, the tick returns to base, shrinks the step (never below the minimum) and
restarts the countdown at the truncated step -/
theorem tick_returns (P : Params ℝ) (s : ℝ) :
    tick realArith P 1#64 s = (true, BitVec.ofNat 64 ⌊nextStep P s⌋₊, nextStep P s) := by
  simp [tick, realArith, nextStep]

/-- **first return and recurrence**: from a countdown `c ≥ 1`, within `n ≥ c` iterations the first
return-to-base happens at exactly the `c`-th iteration, and the schedule continues from there with
countdown `⌊max(min, step·factor)⌋`.  Applied to the initial countdown `⌊S₀⌋` this gives "first after
the configured initial number of iterations, thereafter at intervals that shrink by the factor". -/
theorem returns_recurrence (P : Params ℝ) : ∀ (c : Nat) (n k : Nat) (s : ℝ), 1 ≤ c → c < 2^64 → c ≤ n →
    returns realArith P n k (BitVec.ofNat 64 c) s =
      (k + c) :: returns realArith P (n - c) (k + c) (BitVec.ofNat 64 ⌊nextStep P s⌋₊) (nextStep P s)
  | 0, _, _, _, h, _, _ => by omega
  | 1, n + 1, k, s, _, _, _ => by
    simp only [returns]
    have : BitVec.ofNat 64 1 = 1#64 := rfl
    rw [this, tick_returns]
    simp
  | c + 2, 0, _, _, _, _, h => by omega
  | c + 2, n + 1, k, s, _, hlt, hle => by
    simp only [returns]
    have h1 : 1 < (BitVec.ofNat 64 (c + 2)).toNat := by
      simp [BitVec.toNat_ofNat]; omega
    rw [tick_decrements P _ s h1]
    simp only [Bool.false_eq_true, if_false]
    have hsub : BitVec.ofNat 64 (c + 2) - 1 = BitVec.ofNat 64 (c + 1) := by
      apply BitVec.eq_of_toNat_eq
      simp [BitVec.toNat_sub, BitVec.toNat_ofNat]
      omega
    rw [hsub, returns_recurrence P (c + 1) n (k + 1) s (by omega) (by omega) (by omega)]
    have e1 : k + 1 + (c + 1) = k + (c + 2) := by omega
    have e2 : n - (c + 1) = n + 1 - (c + 2) := by omega
    rw [e1, e2]

/-- no return-to-base before the countdown has run out -/
theorem no_early_return (P : Params ℝ) : ∀ (c : Nat) (n k : Nat) (s : ℝ), n < c → c < 2^64 →
    returns realArith P n k (BitVec.ofNat 64 c) s = []
  | _, 0, _, _, _, _ => rfl
  | 0, _ + 1, _, _, h, _ => by omega
  | 1, _ + 1, _, _, h, _ => by omega
  | c + 2, n + 1, k, s, h, hlt => by
    simp only [returns]
    have h1 : 1 < (BitVec.ofNat 64 (c + 2)).toNat := by
      simp [BitVec.toNat_ofNat]; omega
    rw [tick_decrements P _ s h1]
    simp only [Bool.false_eq_true, if_false]
    have hsub : BitVec.ofNat 64 (c + 2) - 1 = BitVec.ofNat 64 (c + 1) := by
      apply BitVec.eq_of_toNat_eq
      simp [BitVec.toNat_sub, BitVec.toNat_ofNat]
      omega
    rw [hsub]
    exact no_early_return P (c + 1) n (k + 1) s (by omega) (by omega)

/-- intervals never fall below the configured minimum (an integer `m ≥ 1`) -/
theorem interval_ge_min (P : Params ℝ) (m : Nat) (hm : P.minRate = (m : ℝ)) (s : ℝ) :
    m ≤ ⌊nextStep P s⌋₊ := by
  have h : (m : ℝ) ≤ nextStep P s := by rw [← hm]; exact le_max_left _ _
  exact Nat.le_floor h

/-- intervals shrink: with 0 ≤ factor ≤ 1 and a non-negative step, the next step is at most the
larger of the minimum and the previous step -/
theorem nextStep_le (P : Params ℝ) (s : ℝ) (hs : 0 ≤ s) (hf1 : P.factor ≤ 1) :
    nextStep P s ≤ max P.minRate s := by
  unfold nextStep
  have : s * P.factor ≤ s := by nlinarith
  exact max_le_max le_rfl this

/-- with initial step and minimum ≥ 1 the countdown is never zero before the decrement
(premise of the property); for a zero countdown the unsigned decrement wraps to 2^64 − 1, i.e. no
return-to-base for 2^64 iterations — this is why the property assumes initial step ≥ 1 -/
theorem zero_countdown_wraps (P : Params ℝ) (s : ℝ) :
    tick realArith P 0#64 s = (false, BitVec.ofNat 64 (2^64 - 1), s) := by
  simp [tick]

/-! ### examples: non-vacuity (tests, labelled as such) -/

/-- a toy optimised model: the state is the action set; the objective vector counts actives -/
private def toy : ModelOps (List Bool) where
  compress := fun s => ⟨[(s.filter id).length, (s.filter (!·)).length], s⟩
  syncTo := fun _ bits => bits
  randomize := fun s draws => (s.zipIdx).map fun (b, i) => if draws.contains i then !b else b

example : desirableRes (Real.attempt [] (toy.compress [true, false])).1 = true := by decide
example : (Real.attempt [⟨[1, 1], [true, false]⟩] ⟨[2, 1], [true, true]⟩).1 = .rejDominated := by decide

end Crem.Suppa
