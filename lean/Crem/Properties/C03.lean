import Crem.Proofs.Limits
import Crem.Proofs.Archive
import Crem.Proofs.CatchmentSums
import Crem.Properties.C10
/-!
# C03 — a configured variable limit is never exceeded by any held or reported state

`Valid D s` : every limited total of the model state `s` is within its configured maximum.
The theorems say that validity, once it holds at the optimiser's starting extreme, is preserved

* by the initial randomisation (`Randomize()`: the activate-while-valid and deactivate-while-valid loops), for
  every sequence of draws and whatever the loop's outcome (`randomize_valid`, `initial_state_valid`);
* by every iteration of the single-objective annealer over the catchment model, whatever the
  Metropolis decision (`kirk_iter_valid`, `kirk_run_valid`): an invalid proposal is reverted, an
  accepted one lands exactly on the prospective value the verdict checked (C10);
* by every iteration of the multi-objective annealer (`suppa_iter_valid`, `suppa_run_valid`): the
  current model, and **every member of the solution set**, stays valid — candidates come from the
  limit-respecting randomisation of a copy of the current state, and return-to-base only loads
  archived action sets, whose values are those they were archived with (C01).

The `…_from_start` theorems compose these END TO END from the optimiser's starting extreme: the only
hypothesis about states is the property's own premise — the limit is attainable at the starting extreme,
`Valid D (initialise D .random)` (everything inactive under a cost limit, everything active under a pollutant
limit); the state after `Explorer.Initialise()` is *derived* (`kirk_initial_valid`, `exInv_initial`), not assumed.

`Valid` is spelled out by `valid_spelled_out`: every limited variable's total is ≤ its configured maximum.

All for every dataset satisfying the decidable hypotheses, every limit value, every iteration count
and every sequence of random choices.  What is written to output files / served by the engine is
re-evaluated by the correspondence suites (`saved-runs`, `engine-summaries`), not by a theorem.
-/
namespace Crem.Catchment
open Crem.Archive Crem.Suppa

theorem outcomeState_eq (o : LoopOutcome) : outcomeState o = o.state := by cases o <;> rfl

variable {D : Data}

/-- what `Valid` says, spelled out: every variable with a configured maximum has its total within it -/
theorem valid_spelled_out (D : Data) (s : State) :
    Valid D s ↔ ∀ v m, maxOf D v = some m → total s v ≤ m := valid_iff D s

/-- `Randomize()` keeps a valid state valid — both limit-seeking loops and the unbounded variant -/
theorem randomize_valid (hI : InitConsistent D) (hK : KeysDistinct D.acts) {s : State}
    (hc : Canon D s) (hv : Valid D s) (draws : List Nat) :
    Valid D (randomize D s draws).state := by
  unfold randomize
  split
  · exact seekLimit_valid hI.facts hK true draws _ s hc hv
  · split
    · exact seekLimit_valid hI.facts hK false draws _ s hc hv
    · rename_i h1 h2
      exact valid_of_no_limit D (by simpa using h1) (by simpa using h2) _

/-- if the limit is attainable at the optimiser's starting extreme (all actions inactive for a
cost limit, all active for a pollutant limit), the state after the initial randomisation respects it -/
theorem initial_state_valid (hI : InitConsistent D) (hK : KeysDistinct D.acts)
    (hstart : Valid D (initialise D .random)) (draws : List Nat) :
    Valid D (randomize D (initialise D .random) draws).state :=
  randomize_valid hI hK (initialise_canon hI hK .random) hstart draws

/-! ### single-objective annealer -/

/-- one iteration of the single-objective annealer over the catchment model: propose action `i`;
revert when the verdict is negative; otherwise the Metropolis rule (C04) decides — its decision is
an arbitrary input here -/
def kirkIter (D : Data) (s : State) (i : Nat) (metropolisAccepts : Bool) : State :=
  if changeIsValid D (propose D s i) && metropolisAccepts then accept (propose D s i)
  else revert (propose D s i)

theorem kirk_iter_valid (hI : InitConsistent D) (hK : KeysDistinct D.acts) {s : State}
    (hc : Canon D s) (hv : Valid D s) {i : Nat} (hi : i < D.acts.length) (m : Bool) :
    Canon D (kirkIter D s i m) ∧ Valid D (kirkIter D s i m) := by
  unfold kirkIter
  split
  · rename_i h
    simp only [Bool.and_eq_true] at h
    refine ⟨accept_propose_canon hI.facts hK hc hi, ?_⟩
    unfold Valid
    rw [← valid_iff_result_valid hI hK hc hi]
    exact h.1
  · have hs := revert_propose_sameVals hI.facts hc hi
    exact ⟨hc.of_sameVals hs, (hs.valid (D := D)).mpr hv⟩

/-- after every number of iterations, for every sequence of picked actions and decisions -/
theorem kirk_run_valid (hI : InitConsistent D) (hK : KeysDistinct D.acts) :
    ∀ (steps : List (Nat × Bool)) (s : State), Canon D s → Valid D s →
      (∀ x ∈ steps, x.1 < D.acts.length) →
      Valid D (steps.foldl (fun s x => kirkIter D s x.1 x.2) s)
  | [], _, _, hv, _ => hv
  | x :: xs, s, hc, hv, hx => by
    have h := kirk_iter_valid hI hK hc hv (hx x (by simp)) x.2
    exact kirk_run_valid hI hK xs _ h.1 h.2 (fun y hy => hx y (by simp [hy]))

/-- the state the single-objective explorer holds after `Explorer.Initialise()`
(`Model().Initialise(Random)` then `Model().Randomize()`), for the randomisation's draws -/
def kirkStart (D : Data) (draws : List Nat) : State := (randomize D (initialise D .random) draws).state

/-- … is canonical and, if the limit is attainable at the starting extreme, valid -/
theorem kirk_initial_valid (hI : InitConsistent D) (hK : KeysDistinct D.acts)
    (hstart : Valid D (initialise D .random)) (draws : List Nat) :
    Canon D (kirkStart D draws) ∧ Valid D (kirkStart D draws) :=
  ⟨randomize_canon hI.facts hK (initialise_canon hI hK .random) draws, initial_state_valid hI hK hstart draws⟩

/-- **end to end, single-objective annealer**: if the limit is attainable at the optimiser's starting extreme,
then after `Explorer.Initialise()` and after every number of iterations — for every sequence of randomisation
draws, picked actions and Metropolis decisions — the state the annealer holds is within every limit -/
theorem kirk_run_valid_from_start (hI : InitConsistent D) (hK : KeysDistinct D.acts)
    (hstart : Valid D (initialise D .random)) (draws : List Nat) (steps : List (Nat × Bool))
    (hsteps : ∀ x ∈ steps, x.1 < D.acts.length) :
    Valid D (steps.foldl (fun s x => kirkIter D s x.1 x.2) (kirkStart D draws)) :=
  have h := kirk_initial_valid hI hK hstart draws
  kirk_run_valid hI hK steps _ h.1 h.2 hsteps

/-! ### multi-objective annealer -/

theorem setAll_flags (hI : InitConsistent D) (hK : KeysDistinct D.acts) {s : State} (hc : Canon D s)
    (bits : List Bool) (hl : bits.length = D.acts.length) : (setAll D s bits).flags = bits := by
  have := setAll_flags_aux hI.facts hK bits 0 s [] s.flags hc rfl rfl (by rw [hc.len, hl])
  simpa [setAll] using this

/-- loading the action set of a valid canonical state into any canonical state gives a valid
canonical state (C01: the values depend only on the set) -/
theorem syncTo_valid (hI : InitConsistent D) (hK : KeysDistinct D.acts) {s t : State}
    (hs : Canon D s) (ht : Canon D t) (hv : Valid D t) :
    Canon D (setAll D s t.flags) ∧ Valid D (setAll D s t.flags) ∧ (setAll D s t.flags).flags = t.flags := by
  have hc := setAll_canon hI.facts hK hs t.flags
  have hf := setAll_flags hI hK hs t.flags ht.len
  exact ⟨hc, ((ht.sameVals hc hf).valid (D := D)).mpr hv, hf⟩

/-- the explorer invariant: current and potential models canonical, the current one valid, and
every member of the solution set is the compressed form of some valid canonical state -/
structure ExInv (D : Data) {α : Type} (e : Ex α State) : Prop where
  cur : Canon D e.current
  curValid : Valid D e.current
  pot : Canon D e.potential
  arch : ∀ m ∈ e.archive, ∃ t, Canon D t ∧ Valid D t ∧ m = (modelOps D).compress t

theorem suppa_iter_valid {α : Type} (hI : InitConsistent D) (hK : KeysDistinct D.acts)
    (A : Arith α) (P : Params α) (e : Ex α State) (i : In α) (h : ExInv D e) :
    ExInv D (iterate A (modelOps D) P e i).1 := by
  -- the candidate: a copy of the current state, randomised under the limit
  obtain ⟨hc0, hv0, hf0⟩ := syncTo_valid hI hK h.pot h.cur h.curValid
  have hpc : Canon D (outcomeState (randomize D (setAll D e.potential e.current.flags) i.draws)) := by
    rw [outcomeState_eq]; exact randomize_canon hI.facts hK hc0 i.draws
  have hpv : Valid D (outcomeState (randomize D (setAll D e.potential e.current.flags) i.draws)) := by
    rw [outcomeState_eq]; exact randomize_valid hI hK hc0 hv0 i.draws
  generalize hpot : outcomeState (randomize D (setAll D e.potential e.current.flags) i.draws) = pot at hpc hpv
  -- members of the new solution set
  have harch : ∀ (moved : Bool) m,
      m ∈ (if moved then (Real.force (Real.attempt e.archive ⟨keysOf pot, pot.flags⟩).2 ⟨keysOf pot, pot.flags⟩).2
           else (Real.attempt e.archive ⟨keysOf pot, pot.flags⟩).2) →
      ∃ t, Canon D t ∧ Valid D t ∧ m = (modelOps D).compress t := by
    intro moved m hm
    have hcases : m ∈ e.archive ∨ m = ⟨keysOf pot, pot.flags⟩ := by
      split at hm
      · rcases mem_force_of_mem _ _ _ hm with h1 | h1
        · exact mem_attempt_of_mem _ _ _ h1
        · exact Or.inr h1
      · exact mem_attempt_of_mem _ _ _ hm
    rcases hcases with h1 | h1
    · exact h.arch m h1
    · exact ⟨pot, hpc, hpv, h1⟩
  -- the current model after the decision
  have hcur1 : ∀ (moved : Bool), Canon D (if moved then setAll D e.current pot.flags else e.current) ∧
      Valid D (if moved then setAll D e.current pot.flags else e.current) := by
    intro moved
    cases moved
    · exact ⟨h.cur, h.curValid⟩
    · obtain ⟨a, b, _⟩ := syncTo_valid hI hK h.cur hpc hpv
      exact ⟨a, b⟩
  simp only [iterate, modelOps, hpot]
  refine ⟨?_, ?_, hpc, ?_⟩
  · -- current canonical
    split
    · split
      · exact setAll_canon hI.facts hK (hcur1 _).1 _
      · exact (hcur1 _).1
    · exact (hcur1 _).1
  · -- current valid
    split
    · split
      · rename_i m hm
        obtain ⟨t, ht, htv, rfl⟩ := harch _ m (List.mem_of_getElem? hm)
        exact (syncTo_valid hI hK (hcur1 _).1 ht htv).2.1
      · exact (hcur1 _).2
    · exact (hcur1 _).2
  · intro m hm
    exact harch _ m hm

/-- after every number of iterations, for every sequence of inputs: the current model and every
member of the solution set respect the limit -/
theorem suppa_run_valid {α : Type} (hI : InitConsistent D) (hK : KeysDistinct D.acts)
    (A : Arith α) (P : Params α) :
    ∀ (ins : List (In α)) (e : Ex α State), ExInv D e →
      ExInv D (ins.foldl (fun e i => (iterate A (modelOps D) P e i).1) e)
  | [], _, h => h
  | i :: is, e, h => suppa_run_valid hI hK A P is _ (suppa_iter_valid hI hK A P e i h)

/-- position of a variable's order key in an archived objective vector (`keysOf`: the variable names sorted) -/
def vecIndex : VarId → Nat
  | .dn => 0 | .ic => 1 | .oc => 2 | .pn => 3 | .sed => 4 | .tn => 5

/-- the order key `keysOf` stores for variable `v` is `total · 10^precision`, floored -/
theorem keysOf_getElem (s : State) (v : VarId) :
    (keysOf s)[vecIndex v]? = some ((total s v * (10 ^ reportingPrecision v : Nat)).floor) := by
  cases v <;> rfl

/-- **every member of the solution set respects the limit**, stated on what an archive entry *is*: an action set
and an objective vector.  For every member `m`: the FRESH model at `m.act` (the valuation the saver / engine
re-derive, C01) is within every limit, `m.vec` is exactly that model's objective vector (so the vector is tied to
the set), and the observable inequality holds — the stored component of every limited variable, read back at its
reporting precision, is ≤ the configured maximum. -/
theorem archive_members_valid {α : Type} {e : Ex α State} (hI : InitConsistent D) (hK : KeysDistinct D.acts)
    (h : ExInv D e) :
    ∀ m ∈ e.archive,
      (setAll D (init D) m.act).flags = m.act ∧
      Valid D (setAll D (init D) m.act) ∧
      m.vec = keysOf (setAll D (init D) m.act) ∧
      ∀ v mx, maxOf D v = some mx →
        ∃ k : Int, m.vec[vecIndex v]? = some k ∧ (k : Rat) / (10 ^ reportingPrecision v : Nat) ≤ mx := by
  intro m hm
  obtain ⟨t, htc, htv, rfl⟩ := h.arch m hm
  show (setAll D (init D) t.flags).flags = t.flags ∧ Valid D (setAll D (init D) t.flags) ∧
    keysOf t = keysOf (setAll D (init D) t.flags) ∧ _
  have hfl := setAll_init_flags hI hK t.flags htc.len
  have hfc := setAll_canon hI.facts hK (canon_init hI) t.flags
  have hs : SameVals t (setAll D (init D) t.flags) := htc.sameVals hfc hfl
  refine ⟨hfl, (hs.valid (D := D)).mpr htv, ?_, ?_⟩
  · unfold keysOf
    rw [hs.dnT, hs.icT, hs.ocT, hs.pnT, hs.sedT, hs.tnT]
  · intro v mx hmx
    refine ⟨_, keysOf_getElem t v, ?_⟩
    rw [floor_key_of_onGrid (htc.total_onGrid v)]
    exact (valid_iff D t).mp htv v mx hmx

/-- the state the multi-objective explorer is in after `Explorer.Initialise()`: the current model initialised at
the starting extreme and randomised, the potential model initialised only, the solution set empty
(`modelArchive.Initialise()`); temperature, countdown, step and counters are whatever was configured.
If the limit is attainable at the starting extreme, this state satisfies the explorer invariant. -/
theorem exInv_initial {α : Type} (hI : InitConsistent D) (hK : KeysDistinct D.acts)
    (hstart : Valid D (initialise D .random)) (draws : List Nat) (e : Ex α State)
    (hcur : e.current = (randomize D (initialise D .random) draws).state)
    (hpot : e.potential = initialise D .random) (harch : e.archive = []) : ExInv D e where
  cur := by rw [hcur]; exact randomize_canon hI.facts hK (initialise_canon hI hK .random) draws
  curValid := by rw [hcur]; exact initial_state_valid hI hK hstart draws
  pot := by rw [hpot]; exact initialise_canon hI hK .random
  arch := by rw [harch]; intro m hm; cases hm

/-- **end to end, multi-objective annealer**: if the limit is attainable at the optimiser's starting extreme, then
after `Explorer.Initialise()` and after every number of iterations — for every sequence of randomisation draws and
per-iteration inputs (candidate draws, uniform draws, return-to-base picks), every arithmetic and every explorer
parameter — the current model is within every limit, and so is every member of the solution set (as the fresh
model at its action set, with the stored vector being that model's, component by component within the maximum) -/
theorem suppa_run_valid_from_start {α : Type} (hI : InitConsistent D) (hK : KeysDistinct D.acts)
    (A : Arith α) (P : Params α) (hstart : Valid D (initialise D .random)) (draws : List Nat) (e : Ex α State)
    (hcur : e.current = (randomize D (initialise D .random) draws).state)
    (hpot : e.potential = initialise D .random) (harch : e.archive = []) (ins : List (In α)) :
    Valid D (ins.foldl (fun e i => (iterate A (modelOps D) P e i).1) e).current ∧
    ∀ m ∈ (ins.foldl (fun e i => (iterate A (modelOps D) P e i).1) e).archive,
      (setAll D (init D) m.act).flags = m.act ∧
      Valid D (setAll D (init D) m.act) ∧
      m.vec = keysOf (setAll D (init D) m.act) ∧
      ∀ v mx, maxOf D v = some mx →
        ∃ k : Int, m.vec[vecIndex v]? = some k ∧ (k : Rat) / (10 ^ reportingPrecision v : Nat) ≤ mx :=
  have h := suppa_run_valid hI hK A P ins e (exInv_initial hI hK hstart draws e hcur hpot harch)
  ⟨h.curValid, archive_members_valid hI hK h⟩

/-! ### examples: non-vacuity (tests, labelled as such) -/

-- the C10 example dataset with an implementation-cost limit: the all-inactive start is valid
example : Valid exLim (initialise exLim .random) := by unfold Valid; decide +kernel

/-- the deactivation loop (a POLLUTANT limit): the dataset of C01 with sediment limited to 13 t and no cost limit.
The optimiser starts with everything active (6.905 t ≤ 13: the premise holds; with nothing active it would be
36.44 t).  `Randomize()` drawing actions 0, 2: de-activating 0 gives 9.667 t (the loop's conservative check on the
already applied change sees 9.667 + 2.762 = 12.429 ≤ 13: kept), de-activating 2 gives 22.762 t: invalid, put back,
"solution close to limit found".  From there the single-objective annealer proposing action 2 (rejected: reverted)
and action 0 (re-activation, accepted) stays within the limit. -/
def exPol : Data := { exData with maxIC := none, maxSed := some 13 }

example : InitConsistent exPol ∧ KeysDistinct exPol.acts ∧
    hasCostLimit exPol = false ∧ hasPollutantLimit exPol = true := by decide +kernel

example : Valid exPol (initialise exPol .random) ∧ ¬ Valid exPol (init exPol) := by unfold Valid; decide +kernel

example : (initialise exPol .random).flags = [true, true, true] ∧
    total (initialise exPol .random) .sed = 1381/200 ∧
    (kirkStart exPol [0, 2]).flags = [false, true, true] ∧
    total (kirkStart exPol [0, 2]) .sed = 9667/1000 ∧
    (match randomize exPol (initialise exPol .random) [0, 2] with | .found _ => true | _ => false) = true ∧
    -- the attempt that was put back really was over the limit
    total (setAll exPol (init exPol) [false, true, false]) .sed = 11381/500 ∧
    changeIsValid exPol (propose exPol (kirkStart exPol [0, 2]) 2) = false ∧
    (kirkIter exPol (kirkStart exPol [0, 2]) 2 true).flags = [false, true, true] ∧
    (kirkIter exPol (kirkStart exPol [0, 2]) 0 true).flags = [true, true, true] := by decide +kernel

/-- the hypotheses of `exInv_initial` / `suppa_run_valid_from_start` are satisfiable: the multi-objective explorer's
state after `Initialise()` on that dataset (any temperature / countdown) satisfies the invariant -/
example : ExInv exPol (⟨kirkStart exPol [0, 2], initialise exPol .random, [], (1 : Rat), 5, 1, 1, 0⟩ : Ex Rat State) :=
  exInv_initial (by decide +kernel) (by decide +kernel) (by unfold Valid; decide +kernel) [0, 2] _ rfl rfl rfl

end Crem.Catchment
