import Crem.Proofs.Limits
import Crem.Proofs.Archive
import Crem.Properties.C10
/-!
# C03 — a configured variable limit is never exceeded by any held or reported state

`Valid D s` : every limited total of the model state `s` is within its configured maximum.
The theorems say that validity, once it holds at the optimiser's starting extreme, is preserved

* by the initial randomisation (`Randomize()`: the activate-while-valid and deactivate-while-valid loops), for
  every sequence of draws and whatever the loop's outcome (`randomize_valid`, `initial_state_valid`);
* by every iteration of the single-objective annealer over the catchment model, whatever the
  Metropolis decision (`kirk_iter_valid`, `kirk_run_valid`): an invalid proposal is reverted, an
  accepted one lands exactly on the prospective value the verdict checked (C10);
* by every iteration of the multi-objective annealer (`suppa_iter_valid`, `suppa_run_valid`): the
  current model, and **every member of the solution set**, stays valid — candidates come from the
  limit-respecting randomisation of a copy of the current state, and return-to-base only loads
  archived action sets, whose values are those they were archived with (C01).

All for every dataset satisfying the decidable hypotheses, every limit value, every iteration count
and every sequence of random choices.  What is written to output files / served by the engine is
re-evaluated by the correspondence suites (`saved-runs`, `engine-summaries`), not by a theorem.
-/
namespace Crem.Catchment
open Crem.Archive Crem.Suppa

theorem outcomeState_eq (o : LoopOutcome) : outcomeState o = o.state := by cases o <;> rfl

variable {D : Data}

/-- `Randomize()` keeps a valid state valid — both limit-seeking loops and the unbounded variant -/
theorem randomize_valid (hI : InitConsistent D) (hK : KeysDistinct D.acts) {s : State}
    (hc : Canon D s) (hv : Valid D s) (draws : List Nat) :
    Valid D (randomize D s draws).state := by
  unfold randomize
  split
  · exact seekLimit_valid hI.facts hK true draws _ s hc hv
  · split
    · exact seekLimit_valid hI.facts hK false draws _ s hc hv
    · rename_i h1 h2
      exact valid_of_no_limit D (by simpa using h1) (by simpa using h2) _

/-- if the limit is attainable at the optimiser's starting extreme (all actions inactive for a
cost limit, all active for a pollutant limit), the state after the initial randomisation respects it -/
theorem initial_state_valid (hI : InitConsistent D) (hK : KeysDistinct D.acts)
    (hstart : Valid D (initialise D .random)) (draws : List Nat) :
    Valid D (randomize D (initialise D .random) draws).state :=
  randomize_valid hI hK (initialise_canon hI hK .random) hstart draws

/-! ### single-objective annealer -/

/-- one iteration of the single-objective annealer over the catchment model: propose action `i`;
revert when the verdict is negative; otherwise the Metropolis rule (C04) decides — its decision is
an arbitrary input here -/
def kirkIter (D : Data) (s : State) (i : Nat) (metropolisAccepts : Bool) : State :=
  if changeIsValid D (propose D s i) && metropolisAccepts then accept (propose D s i)
  else revert (propose D s i)

theorem kirk_iter_valid (hI : InitConsistent D) (hK : KeysDistinct D.acts) {s : State}
    (hc : Canon D s) (hv : Valid D s) {i : Nat} (hi : i < D.acts.length) (m : Bool) :
    Canon D (kirkIter D s i m) ∧ Valid D (kirkIter D s i m) := by
  unfold kirkIter
  split
  · rename_i h
    simp only [Bool.and_eq_true] at h
    refine ⟨accept_propose_canon hI.facts hK hc hi, ?_⟩
    unfold Valid
    rw [← valid_iff_result_valid hI hK hc hi]
    exact h.1
  · have hs := revert_propose_sameVals hI.facts hc hi
    exact ⟨hc.of_sameVals hs, (hs.valid (D := D)).mpr hv⟩

/-- after every number of iterations, for every sequence of picked actions and decisions -/
theorem kirk_run_valid (hI : InitConsistent D) (hK : KeysDistinct D.acts) :
    ∀ (steps : List (Nat × Bool)) (s : State), Canon D s → Valid D s →
      (∀ x ∈ steps, x.1 < D.acts.length) →
      Valid D (steps.foldl (fun s x => kirkIter D s x.1 x.2) s)
  | [], _, _, hv, _ => hv
  | x :: xs, s, hc, hv, hx => by
    have h := kirk_iter_valid hI hK hc hv (hx x (by simp)) x.2
    exact kirk_run_valid hI hK xs _ h.1 h.2 (fun y hy => hx y (by simp [hy]))

/-! ### multi-objective annealer -/

theorem setAll_flags (hI : InitConsistent D) (hK : KeysDistinct D.acts) {s : State} (hc : Canon D s)
    (bits : List Bool) (hl : bits.length = D.acts.length) : (setAll D s bits).flags = bits := by
  have := setAll_flags_aux hI.facts hK bits 0 s [] s.flags hc rfl rfl (by rw [hc.len, hl])
  simpa [setAll] using this

/-- loading the action set of a valid canonical state into any canonical state gives a valid
canonical state (C01: the values depend only on the set) -/
theorem syncTo_valid (hI : InitConsistent D) (hK : KeysDistinct D.acts) {s t : State}
    (hs : Canon D s) (ht : Canon D t) (hv : Valid D t) :
    Canon D (setAll D s t.flags) ∧ Valid D (setAll D s t.flags) ∧ (setAll D s t.flags).flags = t.flags := by
  have hc := setAll_canon hI.facts hK hs t.flags
  have hf := setAll_flags hI hK hs t.flags ht.len
  exact ⟨hc, ((ht.sameVals hc hf).valid (D := D)).mpr hv, hf⟩

/-- the explorer invariant: current and potential models canonical, the current one valid, and
every member of the solution set is the compressed form of some valid canonical state -/
structure ExInv (D : Data) {α : Type} (e : Ex α State) : Prop where
  cur : Canon D e.current
  curValid : Valid D e.current
  pot : Canon D e.potential
  arch : ∀ m ∈ e.archive, ∃ t, Canon D t ∧ Valid D t ∧ m = (modelOps D).compress t

theorem suppa_iter_valid {α : Type} (hI : InitConsistent D) (hK : KeysDistinct D.acts)
    (A : Arith α) (P : Params α) (e : Ex α State) (i : In α) (h : ExInv D e) :
    ExInv D (iterate A (modelOps D) P e i).1 := by
  -- the candidate: a copy of the current state, randomised under the limit
  obtain ⟨hc0, hv0, hf0⟩ := syncTo_valid hI hK h.pot h.cur h.curValid
  have hpc : Canon D (outcomeState (randomize D (setAll D e.potential e.current.flags) i.draws)) := by
    rw [outcomeState_eq]; exact randomize_canon hI.facts hK hc0 i.draws
  have hpv : Valid D (outcomeState (randomize D (setAll D e.potential e.current.flags) i.draws)) := by
    rw [outcomeState_eq]; exact randomize_valid hI hK hc0 hv0 i.draws
  generalize hpot : outcomeState (randomize D (setAll D e.potential e.current.flags) i.draws) = pot at hpc hpv
  -- members of the new solution set
  have harch : ∀ (moved : Bool) m,
      m ∈ (if moved then (Real.force (Real.attempt e.archive ⟨keysOf pot, pot.flags⟩).2 ⟨keysOf pot, pot.flags⟩).2
           else (Real.attempt e.archive ⟨keysOf pot, pot.flags⟩).2) →
      ∃ t, Canon D t ∧ Valid D t ∧ m = (modelOps D).compress t := by
    intro moved m hm
    have hcases : m ∈ e.archive ∨ m = ⟨keysOf pot, pot.flags⟩ := by
      split at hm
      · rcases mem_force_of_mem _ _ _ hm with h1 | h1
        · exact mem_attempt_of_mem _ _ _ h1
        · exact Or.inr h1
      · exact mem_attempt_of_mem _ _ _ hm
    rcases hcases with h1 | h1
    · exact h.arch m h1
    · exact ⟨pot, hpc, hpv, h1⟩
  -- the current model after the decision
  have hcur1 : ∀ (moved : Bool), Canon D (if moved then setAll D e.current pot.flags else e.current) ∧
      Valid D (if moved then setAll D e.current pot.flags else e.current) := by
    intro moved
    cases moved
    · exact ⟨h.cur, h.curValid⟩
    · obtain ⟨a, b, _⟩ := syncTo_valid hI hK h.cur hpc hpv
      exact ⟨a, b⟩
  simp only [iterate, modelOps, hpot]
  refine ⟨?_, ?_, hpc, ?_⟩
  · -- current canonical
    split
    · split
      · exact setAll_canon hI.facts hK (hcur1 _).1 _
      · exact (hcur1 _).1
    · exact (hcur1 _).1
  · -- current valid
    split
    · split
      · rename_i m hm
        obtain ⟨t, ht, htv, rfl⟩ := harch _ m (List.mem_of_getElem? hm)
        exact (syncTo_valid hI hK (hcur1 _).1 ht htv).2.1
      · exact (hcur1 _).2
    · exact (hcur1 _).2
  · intro m hm
    exact harch _ m hm

/-- after every number of iterations, for every sequence of inputs: the current model and every
member of the solution set respect the limit -/
theorem suppa_run_valid {α : Type} (hI : InitConsistent D) (hK : KeysDistinct D.acts)
    (A : Arith α) (P : Params α) :
    ∀ (ins : List (In α)) (e : Ex α State), ExInv D e →
      ExInv D (ins.foldl (fun e i => (iterate A (modelOps D) P e i).1) e)
  | [], _, h => h
  | i :: is, e, h => suppa_run_valid hI hK A P is _ (suppa_iter_valid hI hK A P e i h)

/-- every member of the solution set respects the limit, stated on the archived objective vector -/
theorem archive_members_valid {α : Type} {e : Ex α State} (h : ExInv D e) :
    ∀ m ∈ e.archive, ∃ t, Valid D t ∧ m.vec = keysOf t ∧ m.act = t.flags := by
  intro m hm
  obtain ⟨t, _, htv, rfl⟩ := h.arch m hm
  exact ⟨t, htv, rfl, rfl⟩

/-! ### examples: non-vacuity (tests, labelled as such) -/

-- the C10 example dataset with an implementation-cost limit: the all-inactive start is valid
example : Valid exLim (initialise exLim .random) := by unfold Valid; decide +kernel

end Crem.Catchment
