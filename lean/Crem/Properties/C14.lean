import Crem.Proofs.Engine
/-!
# C14 — engine resources reflect exactly the writes applied, whatever the route taken

Theorems about the engine spec `Crem.Engine.step Quirks.spec` (`Crem/Model/Engine.lean`): the behaviour
the property demands, with every divergence of the code as it stands switched off (each of those
divergences is observed and reported by the `engine-seq` suite, see the header of the model file).
All request sequences of every length, all request contents, all scenarios, all action sets, all texts.
Every `theorem` in this file is audited by `./check C14` (`#print axioms`).

Reading guide.  `step q W s r = (response, next state)`; `exec` runs a request list; `view` collects the
answers of all GET resources; `Inv W s` is the invariant of the demanded behaviour (`Proofs/Engine.lean`):
the snapshot every model read is served from equals the live model, the text resources exist exactly
when their parsed forms do, and the served model's `Encoding`, `ValidAgainstScenario`,
`ParetoFrontMember`, `ValidationErrors` entries describe its own action set (`Shows`).
The catchment model enters as the action set itself: the abstract body `Body.model m` stands for the
document whose decision variables are `repr m.active` for the model's valuation `repr`, which by
property C01 depends on nothing but the set.
-/
namespace Crem.Engine

/-! ## a request answered with an error status leaves every resource unchanged -/

/-- A request that is not answered 200 leaves the whole state (hence every readable resource) unchanged. -/
theorem error_leaves_state (W : World) (s : State) (r : Request)
    (h : (step Quirks.spec W s r).1.status ≠ 200) : (step Quirks.spec W s r).2 = s := by
  rcases step_good W s r with h200 | ⟨_, hs⟩
  · exact absurd h200 h
  · exact hs

/-- … in particular what a client can read afterwards is what it could read before. -/
theorem error_leaves_view (W : World) (s : State) (r : Request)
    (h : (step Quirks.spec W s r).1.status ≠ 200) :
    view Quirks.spec W (step Quirks.spec W s r).2 = view Quirks.spec W s := by
  rw [error_leaves_state W s r h]

/-- A GET never changes the state (in every variant, also the code as it stands). -/
theorem reads_leave_state (q : Quirks) (W : World) (s : State) (r : Request) (h : r.method = .get) :
    (step q W s r).2 = s := step_get q W s r h

/-! ## after ANY request sequence the resources are a function of the successful writes so far -/

/-- the requests of a sequence that were writes answered 200, in order -/
def successfulWrites (W : World) : State → List Request → List Request
  | _, [] => []
  | s, r :: rs =>
    if (step Quirks.spec W s r).1.status = 200 ∧ r.method ≠ .get then
      r :: successfulWrites W (step Quirks.spec W s r).2 rs
    else successfulWrites W s rs

/-- After any request sequence (valid and invalid requests, every endpoint and method) the state — and so
every readable resource — is exactly the one produced by executing only the writes that were answered 200,
in their order: failed requests and reads contribute nothing, and nothing else does. -/
theorem reads_reflect_writes (W : World) (s : State) (rs : List Request) :
    exec Quirks.spec W s rs = exec Quirks.spec W s (successfulWrites W s rs) := by
  induction rs generalizing s with
  | nil => rfl
  | cons r rs ih =>
    unfold successfulWrites
    split
    · simp only [exec, run] at ih ⊢
      exact ih _
    · rename_i hnot
      have hsame : (step Quirks.spec W s r).2 = s := by
        by_cases h200 : (step Quirks.spec W s r).1.status = 200
        · have : r.method = .get := by
            by_cases hm : r.method = .get
            · exact hm
            · exact absurd ⟨h200, hm⟩ hnot
          exact step_get _ W s r this
        · exact error_leaves_state W s r h200
      have := ih s
      simp only [exec, run] at this ⊢
      rw [hsame]; exact this

/-- the same, stated for what a client reads -/
theorem view_reflects_writes (W : World) (s : State) (rs : List Request) :
    view Quirks.spec W (exec Quirks.spec W s rs) =
    view Quirks.spec W (exec Quirks.spec W s (successfulWrites W s rs)) := by
  rw [reads_reflect_writes]

/-- every request kept by `successfulWrites` is again answered 200 when only those are executed -/
theorem successfulWrites_all_succeed (W : World) (s : State) (rs : List Request) :
    ∀ resp ∈ (run Quirks.spec W s (successfulWrites W s rs)).1, resp.status = 200 := by
  induction rs generalizing s with
  | nil => simp [successfulWrites, run]
  | cons r rs ih =>
    unfold successfulWrites
    split
    · rename_i h
      simp only [run, List.mem_cons]
      intro resp hresp
      rcases hresp with rfl | hresp
      · exact h.1
      · exact ih _ resp hresp
    · exact ih s

/-! ## what the resources say: the served model is the live model and describes its own action set -/

/-- The invariant holds in every state reachable from the empty engine. -/
theorem reachable_inv (W : World) (rs : List Request) : Inv W (exec Quirks.spec W State.init rs) :=
  inv_exec W State.init rs (inv_init W)

/-- In every reachable state GET /model serves exactly the live model, whose attributes contain the encoding of
its own action set, the validity verdict of that set, (when a solution table is loaded) whether that encoding is
a member of the loaded front, and a `ValidationErrors` entry when the set is invalid. -/
theorem model_describes_active_set (W : World) (rs : List Request) (m : Mdl)
    (h : (exec Quirks.spec W State.init rs).live = some m) :
    (step Quirks.spec W (exec Quirks.spec W State.init rs) (getReq "/api/v1/model")).1 = ok (.model m) ∧
    Shows W (exec Quirks.spec W State.init rs).table m := by
  have hinv := reachable_inv W rs
  refine ⟨?_, (hinv.shows m h).1⟩
  have hsnap := hinv.snap_eq
  rw [h] at hsnap
  simp [step, classifyPath, getReq, getModel, hsnap]

/-- … and GET /model/actions/active shows that same set. -/
theorem active_resource_is_live_set (W : World) (rs : List Request) (m : Mdl)
    (h : (exec Quirks.spec W State.init rs).live = some m) :
    (step Quirks.spec W (exec Quirks.spec W State.init rs) (getReq "/api/v1/model/actions/active")).1 =
      ok (.active m.u m.active) := by
  have hsnap := (reachable_inv W rs).snap_eq
  rw [h] at hsnap
  simp [step, classifyPath, getReq, getActive, hsnap]

/-! ## text resources are returned byte for byte as posted -/

def postScenarioReq (text : Bytes) (name : String) (u : Universe) : Request :=
  { method := .post, path := "/api/v1/scenario", ctype := tomlMime, text := text, facts := .scen (.ok name u) }

/-- A scenario that is accepted is read back exactly as posted: the same bytes, whatever they are
(`%`, `%s`, invalid UTF-8, anything), never marked as altered. -/
theorem text_verbatim (W : World) (s : State) (text : Bytes) (name : String) (u : Universe) :
    (step Quirks.spec W s (postScenarioReq text name u)).1 = ok .success ∧
    (step Quirks.spec W (step Quirks.spec W s (postScenarioReq text name u)).2 (getReq "/api/v1/scenario")).1 =
      ok (.text .toml text false) := by
  simp [step, classifyPath, postScenarioReq, postScenario, getReq, getScenario, tomlMime, textBody, Quirks.spec]

/-- One step changes the scenario text only by a POST /scenario answered 200, and then to the posted bytes. -/
theorem scenario_text_step (W : World) (s : State) (r : Request) :
    (step Quirks.spec W s r).2.scenText =
      if classifyPath r.path = .scenario ∧ r.method = .post ∧ (step Quirks.spec W s r).1.status = 200
      then some r.text else s.scenText := by
  by_cases hg : r.method = .get
  · rw [step_get _ W s r hg]; simp [hg]
  · unfold step
    split
    all_goals (rename_i hc; simp only [hc])
    · simp
    · split <;> simp
    · split
      · rename_i hm
        simp only [hm, true_and]
        exact postScenario_scenText W s r
      · rename_i hm; exact absurd hm hg
      · rename_i hm1 hm2
        have : r.method ≠ .post := fun h => hm1 h
        simp [this]
    · simp only [reduceCtorEq, false_and, ↓reduceIte]
      split
      · exact postSolutions_scenText W s r
      · rename_i hm; exact absurd hm hg
      · rfl
    · simp only [reduceCtorEq, false_and, ↓reduceIte]
    · simp only [reduceCtorEq, false_and, ↓reduceIte]
      split
      · rename_i hm; exact absurd hm hg
      · exact (patchModel_texts W s r).1
      · rfl
    · simp only [reduceCtorEq, false_and, ↓reduceIte]
      split
      · exact (putActive_texts W s r).1
      · rename_i hm; exact absurd hm hg
      · rfl
    · simp only [reduceCtorEq, false_and, ↓reduceIte]
    · simp only [reduceCtorEq, false_and, ↓reduceIte]
      split
      · rename_i hm; exact absurd hm hg
      · exact (putSub_texts W s r _).1
      · rfl

/-- the scenario text a sequence leaves behind: the text of its last POST /scenario answered 200 -/
def lastScenarioText (W : World) : State → List Request → Option Bytes
  | s, [] => s.scenText
  | s, r :: rs => lastScenarioText W (step Quirks.spec W s r).2 rs

/-- After any request sequence GET /scenario returns exactly the bytes of the last POST /scenario that was
answered 200 (404 if there was none), unaltered. -/
theorem scenario_text_is_last_posted (W : World) (s : State) (rs : List Request) :
    (step Quirks.spec W (exec Quirks.spec W s rs) (getReq "/api/v1/scenario")).1 =
      match lastScenarioText W s rs with
      | none => err 404
      | some t => ok (.text .toml t false) := by
  induction rs generalizing s with
  | nil =>
    simp only [exec, run, lastScenarioText]
    cases h : s.scenText <;> simp [step, classifyPath, getReq, getScenario, h, textBody, Quirks.spec]
  | cons r rs ih =>
    have := ih (step Quirks.spec W s r).2
    simpa [exec, run, lastScenarioText] using this

/-- The solutions text is stored by a POST /solutions answered 200 exactly as posted. -/
theorem solutions_text_verbatim (W : World) (s : State) (r : Request)
    (hp : classifyPath r.path = .solutions) (hm : r.method = .post)
    (h200 : (step Quirks.spec W s r).1.status = 200) :
    (step Quirks.spec W (step Quirks.spec W s r).2 (getReq "/api/v1/solutions")).1 = ok (.text .csv r.text false) := by
  have hstep : step Quirks.spec W s r = postSolutions Quirks.spec W s r := by
    simp [step, hp, hm]
  rw [hstep] at h200 ⊢
  have hsol := postSolutions_solText_ok W s r h200
  have hscen : (postSolutions Quirks.spec W s r).2.scenText = s.scenText := postSolutions_scenText W s r
  have hs : s.scenText.isNone = false := by
    cases hn : s.scenText.isNone
    · rfl
    · simp [postSolutions, hn, err] at h200
  generalize postSolutions Quirks.spec W s r = res at *
  have hs' : res.2.scenText.isNone = false := by rw [hscen]; exact hs
  simp [step, classifyPath, getReq, getSolutions, hsol, hs', textBody, Quirks.spec]

/-! ## active actions are those last set -/

def patchReq (entries : List PatchEntry) : Request :=
  { method := .patch, path := "/api/v1/model", ctype := jsonMime, text := [], facts := .patch (some entries) }

/-- An accepted PATCH whose last `Encoding` entry decodes to `S` leaves exactly `S` active
(`S` is the last element of the decoded sets). -/
theorem patch_sets_last_encoding (W : World) (s : State) (m : Mdl) (entries : List PatchEntry)
    (sets : List ActiveSet) (S : ActiveSet)
    (hinv : Inv W s) (hlive : s.live = some m)
    (hdec : decodeEntries m.u.acts.length entries = some sets) (hlast : sets.getLast? = some S) :
    (step Quirks.spec W s (patchReq entries)).1 = ok .success ∧
    ∃ m', (step Quirks.spec W s (patchReq entries)).2.live = some m' ∧ m'.active = S ∧ m'.u = m.u ∧ m'.id = m.id := by
  have hsnap := hinv.snap_eq
  rw [hlive] at hsnap
  have hne : sets.isEmpty = false := by
    cases sets with
    | nil => simp at hlast
    | cons _ _ => rfl
  have hf := foldl_derive W s.table sets
    { m with attrs := join m.attrs (List.map (fun (e : PatchEntry) => ({ name := e.name, val := e.val } : Attr)) entries) } S hlast
  obtain ⟨_, hact, hu, hid⟩ := hf
  have hstep : step Quirks.spec W s (patchReq entries) =
      (ok .success, { s with
        live := some (sets.foldl (fun acc set => derive W s.table { acc with active := set })
          { m with attrs := join m.attrs (List.map (fun (e : PatchEntry) => ({ name := e.name, val := e.val } : Attr)) entries) }),
        snap := some (sets.foldl (fun acc set => derive W s.table { acc with active := set })
          { m with attrs := join m.attrs (List.map (fun (e : PatchEntry) => ({ name := e.name, val := e.val } : Attr)) entries) }) }) := by
    simp [step, classifyPath, patchReq, patchModel, hsnap, hlive, Quirks.spec, jsonMime, hdec, hne]
  rw [hstep]
  exact ⟨rfl, _, rfl, hact, hu, hid⟩

/-- Encoding patch as a route: posting the canonical encoding of ANY set `S` (of the scenario's size) makes exactly
`S` the active set — the encoding is lossless (property C09's `decode_encode`). -/
theorem patch_canonical_encoding_reaches (W : World) (s : State) (m : Mdl) (S : ActiveSet)
    (hinv : Inv W s) (hlive : s.live = some m) (hn : 1 ≤ m.u.acts.length) (hS : S.length = m.u.acts.length) :
    let r := patchReq [{ name := "Encoding", val := strTok (encodeStr S), enc := .text (encodeStr S) }]
    (step Quirks.spec W s r).1 = ok .success ∧
    ∃ m', (step Quirks.spec W s r).2.live = some m' ∧ m'.active = S ∧ m'.u = m.u ∧ m'.id = m.id := by
  apply patch_sets_last_encoding W s m _ [S] S hinv hlive
  · have := Crem.BoolArchive.decode_encode' m.u.acts.length S hn hS
    simp [decodeEntries, encodeStr, this]
  · rfl

def putActiveReq (c : Csv) : Request :=
  { method := .put, path := "/api/v1/model/actions/active", ctype := csvMime, text := [], facts := .csv c }

/-- Whole-table upload as a route: an accepted table leaves active exactly what its cells say, row by row and
column by column over the set active before (`applyTable`; cells of unknown planning units or action types change
nothing). -/
theorem put_table_sets (W : World) (s : State) (m : Mdl) (c : Csv) (types : List String)
    (rows : List (Option Nat × List Bool))
    (hinv : Inv W s) (hlive : s.live = some m) (hc : classifyTable c = .ok types rows) :
    (step Quirks.spec W s (putActiveReq c)).1 = ok .success ∧
    ∃ m', (step Quirks.spec W s (putActiveReq c)).2.live = some m' ∧
      m'.active = applyTable m.u types rows m.active ∧ m'.u = m.u ∧ m'.id = m.id := by
  have hsnap := hinv.snap_eq
  rw [hlive] at hsnap
  simp only [step, classifyPath, putActiveReq, putActive, hsnap, hlive, csvMime, hc]
  simp [derive_active, derive_u, derive_id]

def putSubReq (entries : List SubEntry) : Request :=
  { method := .put, path := "", ctype := jsonMime, text := [], facts := .sub (some entries) }

/-- Per-subcatchment update as a route: an accepted update leaves active exactly what its entries say for that
planning unit, in order (`applySub`), everything else as before.  (Stated for the handler: the URL path
`/api/v1/model/subcatchment/<digits>` is what selects it, `classifyPath`.) -/
theorem put_sub_sets (W : World) (s : State) (m : Mdl) (id : String) (pu : Nat) (entries : List SubEntry)
    (hinv : Inv W s) (hlive : s.live = some m) (hid : atoi? id = some pu) (hpu : m.u.pus.contains pu = true)
    (hsyn : subSyntaxOk entries = true) (hsup : subSupported m.u pu entries = true) :
    (putSub Quirks.spec W s (putSubReq entries) id).1 = ok .success ∧
    ∃ m', (putSub Quirks.spec W s (putSubReq entries) id).2.live = some m' ∧
      m'.active = applySub m.u pu entries m.active ∧ m'.u = m.u ∧ m'.id = m.id := by
  have hsnap := hinv.snap_eq
  rw [hlive] at hsnap
  simp only [putSub, putSubReq, hsnap, hlive, hid, hpu, hsyn, hsup, Quirks.spec]
  simp [derive_active, derive_u, derive_id]

/-- one cell of an accepted update: `setWhere` changes exactly the actions of that planning unit and type -/
theorem setWhere_get (u : Universe) (set : ActiveSet) (pu : Nat) (ty : String) (b : Bool) (i : Nat)
    (hi : i < u.acts.length) (hs : set.length = u.acts.length) :
    (setWhere u set pu ty b)[i]'(by rw [setWhere_length u set pu ty b hs]; exact hi) =
      if u.acts[i].1 = pu ∧ u.acts[i].2 = ty then b else set[i]'(by omega) := by
  simp [setWhere]

/-! ## route independence: the representation depends on the action set reached, not on how it was reached -/

/-- Two engines that have been through ANY request histories (whole-table uploads, per-subcatchment updates,
encoding patches, failed requests, anything) and whose served models belong to the same scenario and have the
same active set answer identically on /model/actions/active, /model/actions/applicable and every
/model/subcatchment/<id>; their /model documents carry the same scenario, id and action set — so the same
decision-variable representation `repr` for every valuation `repr` (C01) — and both contain the same
`Encoding` and `ValidAgainstScenario` entries. -/
theorem route_independent (W : World) (rs₁ rs₂ : List Request) (m₁ m₂ : Mdl)
    (h₁ : (exec Quirks.spec W State.init rs₁).live = some m₁)
    (h₂ : (exec Quirks.spec W State.init rs₂).live = some m₂)
    (hu : m₁.u = m₂.u) (hact : m₁.active = m₂.active) :
    let s₁ := exec Quirks.spec W State.init rs₁
    let s₂ := exec Quirks.spec W State.init rs₂
    (step Quirks.spec W s₁ (getReq "/api/v1/model/actions/active")).1 =
      (step Quirks.spec W s₂ (getReq "/api/v1/model/actions/active")).1 ∧
    (step Quirks.spec W s₁ (getReq "/api/v1/model/actions/applicable")).1 =
      (step Quirks.spec W s₂ (getReq "/api/v1/model/actions/applicable")).1 ∧
    (∀ path id, classifyPath path = .sub id →
      (step Quirks.spec W s₁ (getReq path)).1 = (step Quirks.spec W s₂ (getReq path)).1) ∧
    (∀ {ρ : Type} (repr : Universe → ActiveSet → ρ), repr m₁.u m₁.active = repr m₂.u m₂.active) ∧
    (∃ e, e ∈ m₁.attrs ∧ e ∈ m₂.attrs ∧ e = ⟨"Encoding", strTok (encodeStr m₁.active)⟩) ∧
    (∃ e, e ∈ m₁.attrs ∧ e ∈ m₂.attrs ∧ e = ⟨"ValidAgainstScenario", boolTok (W.valid m₁.u.key m₁.active)⟩) := by
  intro s₁ s₂
  have i₁ := reachable_inv W rs₁
  have i₂ := reachable_inv W rs₂
  have sn₁ : s₁.snap = some m₁ := by rw [i₁.snap_eq]; exact h₁
  have sn₂ : s₂.snap = some m₂ := by rw [i₂.snap_eq]; exact h₂
  have sh₁ := (i₁.shows m₁ h₁).1
  have sh₂ := (i₂.shows m₂ h₂).1
  refine ⟨?_, ?_, ?_, ?_, ?_, ?_⟩
  · simp [step, classifyPath, getReq, getActive, sn₁, sn₂, hu, hact]
  · simp [step, classifyPath, getReq, getApplicable, sn₁, sn₂, hu]
  · intro path id hc
    have hsub : ∀ p, subEntries m₁ p = subEntries m₂ p := by intro p; simp [subEntries, hu, hact]
    simp only [step, getReq, hc, getSub, sn₁, sn₂, hu, hsub]
    cases atoi? id with
    | none => rfl
    | some pu => simp only; split <;> rfl
  · intro ρ repr; rw [hu, hact]
  · exact ⟨_, sh₁.1, by rw [hact]; exact sh₂.1, rfl⟩
  · exact ⟨_, sh₁.2.1, by rw [hu, hact]; exact sh₂.2.1, rfl⟩


/-! ## Non-vacuity and sanity examples (tests, labelled as such) -/

namespace Example

def W : World := { valid := fun _ set => set.count true ≤ 2 }

def u : Universe :=
  { key := "k", acts := [(1, "GullyRestoration"), (1, "RiverBankRestoration"), (2, "RiverBankRestoration")],
    pus := [1, 2, 3], asIs := [] }

def one : Cell := .num bitsOne "1"
def zero : Cell := .num bitsZero "0"
/-- 1.0, 2.0 as IEEE bit patterns -/
def pu1 : Cell := .num 0x3FF0000000000000 "1"
def pu2 : Cell := .num 0x4000000000000000 "2"

def text : Bytes := [0x31, 0x30, 0x30, 0x25, 0x20, 0x25, 0x73]   -- "100% %s"

def s0 : State := exec Quirks.spec W State.init [postScenarioReq text "S" u]

def table : Csv := .table ["SubCatchment", "GullyRestoration", "RiverBankRestoration"]
  [[pu1, one, zero], [pu2, zero, one]]

def viaTable : State := exec Quirks.spec W s0 [putActiveReq table]

def subReq (path : String) (entries : List SubEntry) : Request :=
  { method := .put, path := path, ctype := jsonMime, text := [], facts := .sub (some entries) }

def viaSubs : State := exec Quirks.spec W s0
  [ subReq "/api/v1/model/subcatchment/1" [⟨"GullyRestoration", .active⟩, ⟨"RiverBankRestoration", .inactive⟩],
    subReq "/api/v1/model/subcatchment/2" [⟨"RiverBankRestoration", .active⟩] ]

def viaPatch : State := exec Quirks.spec W s0 [patchReq [⟨"Encoding", "\"5\"", .text "5"⟩]]

/-- the three routes end in the same state, so in the same readable resources -/
example : viaTable = viaSubs ∧ viaSubs = viaPatch := by decide
example : viaTable.live.map (·.active) = some [true, false, true] := by decide
example : view Quirks.spec W viaTable = view Quirks.spec W viaPatch := by decide
/-- the posted text (it contains `%`) is read back byte for byte -/
example : (step Quirks.spec W viaSubs (getReq "/api/v1/scenario")).1 = ok (.text .toml text false) := by decide
/-- a failed request (undecodable encoding after a joined attribute) changes nothing … -/
example : exec Quirks.spec W viaTable [patchReq [⟨"Note", "1", .notEncoding⟩, ⟨"Encoding", "\"zz\"", .text "zz"⟩]] = viaTable := by
  decide
/-- … whereas in the code as it stands (quirk `patchEager`) the attribute has been joined into the live model -/
example : (exec { patchEager := true, patchNoRefresh := true } W viaTable
    [patchReq [⟨"Note", "1", .notEncoding⟩, ⟨"Encoding", "\"zz\"", .text "zz"⟩]]).live ≠ viaTable.live := by decide
/-- all three of the set being valid (at most two actions), its encoding and the derived attributes are shown -/
example : (viaPatch.live.map (·.attrs)) = some
    [⟨"ModelSuppliedPlanningUnitName", "\"SubCatchment\""⟩, ⟨"Encoding", "\"5\""⟩, ⟨"ValidAgainstScenario", "true"⟩] := by decide
/-- an invalid set carries `ValidationErrors` -/
example : ((exec Quirks.spec W s0 [patchReq [⟨"Encoding", "\"7\"", .text "7"⟩]]).live.map (·.attrs)) = some
    [⟨"ModelSuppliedPlanningUnitName", "\"SubCatchment\""⟩, ⟨"Encoding", "\"7\""⟩, ⟨"ValidAgainstScenario", "false"⟩,
     ⟨"ValidationErrors", "VE"⟩] := by decide
/-- hypotheses of `route_independent` / `patch_canonical_encoding_reaches` are satisfiable -/
example : Inv W s0 := inv_exec W _ _ (inv_init W)
example : s0.live.isSome = true := by decide

end Example

end Crem.Engine
