import Crem.Proofs.Engine
/-!
# C14 — engine resources reflect exactly the writes applied, whatever the route taken

Theorems about the engine spec `Crem.Engine.step Quirks.spec` (`Crem/Model/Engine.lean`): the behaviour
the property demands, with every divergence of the code as it stands switched off (each of those
divergences is observed and reported by the `engine-seq` suite, see the header of the model file).
All request sequences of every length, all request contents, all scenarios, all action sets, all texts.
Every `theorem` in this file is audited by `./check C14` (`#print axioms`).

Reading guide.  `step q W s r = (response, next state)`; `exec` runs a request list; `view` collects the
answers of all GET resources; `Inv W s` is the invariant of the demanded behaviour (`Proofs/Engine.lean`):
the snapshot every model read is served from equals the live model, the text resources exist exactly
when their parsed forms do, and the served model's `Encoding`, `ValidAgainstScenario`,
`ParetoFrontMember`, `ValidationErrors` entries describe its own action set (`Shows`).
The catchment model enters as the action set itself: the abstract body `Body.model m` stands for the
document whose decision variables are `repr m.active` for the model's valuation `repr`, which by
property C01 depends on nothing but the set.
-/
namespace Crem.Engine

/-! ## a request answered with an error status leaves every resource unchanged -/

/-- A request that is not answered 200 leaves the whole state (hence every readable resource) unchanged. -/
theorem error_leaves_state (W : World) (s : State) (r : Request)
    (h : (step Quirks.spec W s r).1.status ≠ 200) : (step Quirks.spec W s r).2 = s := by
  rcases step_good W s r with h200 | ⟨_, hs⟩
  · exact absurd h200 h
  · exact hs

/-- … in particular what a client can read afterwards is what it could read before. -/
theorem error_leaves_view (W : World) (s : State) (r : Request)
    (h : (step Quirks.spec W s r).1.status ≠ 200) :
    view Quirks.spec W (step Quirks.spec W s r).2 = view Quirks.spec W s := by
  rw [error_leaves_state W s r h]

/-- A GET never changes the state (in every variant, also the code as it stands). -/
theorem reads_leave_state (q : Quirks) (W : World) (s : State) (r : Request) (h : r.method = .get) :
    (step q W s r).2 = s := step_get q W s r h

/-! ## after ANY request sequence the resources are a function of the successful writes so far -/

/-- the requests of a sequence that were writes answered 200, in order -/
def successfulWrites (W : World) : State → List Request → List Request
  | _, [] => []
  | s, r :: rs =>
    if (step Quirks.spec W s r).1.status = 200 ∧ r.method ≠ .get then
      r :: successfulWrites W (step Quirks.spec W s r).2 rs
    else successfulWrites W s rs

/-- After any request sequence (valid and invalid requests, every endpoint and method) the state — and so
every readable resource — is exactly the one produced by executing only the writes that were answered 200,
in their order: failed requests and reads contribute nothing, and nothing else does. -/
theorem reads_reflect_writes (W : World) (s : State) (rs : List Request) :
    exec Quirks.spec W s rs = exec Quirks.spec W s (successfulWrites W s rs) := by
  induction rs generalizing s with
  | nil => rfl
  | cons r rs ih =>
    unfold successfulWrites
    split
    · simp only [exec, run] at ih ⊢
      exact ih _
    · rename_i hnot
      have hsame : (step Quirks.spec W s r).2 = s := by
        by_cases h200 : (step Quirks.spec W s r).1.status = 200
        · have : r.method = .get := by
            by_cases hm : r.method = .get
            · exact hm
            · exact absurd ⟨h200, hm⟩ hnot
          exact step_get _ W s r this
        · exact error_leaves_state W s r h200
      have := ih s
      simp only [exec, run] at this ⊢
      rw [hsame]; exact this

/-- the same, stated for what a client reads -/
theorem view_reflects_writes (W : World) (s : State) (rs : List Request) :
    view Quirks.spec W (exec Quirks.spec W s rs) =
    view Quirks.spec W (exec Quirks.spec W s (successfulWrites W s rs)) := by
  rw [reads_reflect_writes]

/-- every request kept by `successfulWrites` is again answered 200 when only those are executed -/
theorem successfulWrites_all_succeed (W : World) (s : State) (rs : List Request) :
    ∀ resp ∈ (run Quirks.spec W s (successfulWrites W s rs)).1, resp.status = 200 := by
  induction rs generalizing s with
  | nil => simp [successfulWrites, run]
  | cons r rs ih =>
    unfold successfulWrites
    split
    · rename_i h
      simp only [run, List.mem_cons]
      intro resp hresp
      rcases hresp with rfl | hresp
      · exact h.1
      · exact ih _ resp hresp
    · exact ih s

/-! ## what the resources say: the served model is the live model and describes its own action set -/

/-- The invariant holds in every state reachable from the empty engine. -/
theorem reachable_inv (W : World) (rs : List Request) : Inv W (exec Quirks.spec W State.init rs) :=
  inv_exec W State.init rs (inv_init W)

/-- In every reachable state GET /model serves exactly the live model, whose attributes contain the encoding of
its own action set, the validity verdict of that set, (when a solution table is loaded) whether that encoding is
a member of the loaded front, and a `ValidationErrors` entry when the set is invalid. -/
theorem model_describes_active_set (W : World) (rs : List Request) (m : Mdl)
    (h : (exec Quirks.spec W State.init rs).live = some m) :
    (step Quirks.spec W (exec Quirks.spec W State.init rs) (getReq "/api/v1/model")).1 = ok (.model m) ∧
    Shows W (exec Quirks.spec W State.init rs).table m := by
  have hinv := reachable_inv W rs
  refine ⟨?_, (hinv.shows m h).1⟩
  have hsnap := hinv.snap_eq
  rw [h] at hsnap
  simp [step, classifyPath, getReq, getModel, hsnap]

/-- … and GET /model/actions/active shows that same set. -/
theorem active_resource_is_live_set (W : World) (rs : List Request) (m : Mdl)
    (h : (exec Quirks.spec W State.init rs).live = some m) :
    (step Quirks.spec W (exec Quirks.spec W State.init rs) (getReq "/api/v1/model/actions/active")).1 =
      ok (.active m.u m.active) := by
  have hsnap := (reachable_inv W rs).snap_eq
  rw [h] at hsnap
  simp [step, classifyPath, getReq, getActive, hsnap]

/-! ## text resources are returned byte for byte as posted -/

def postScenarioReq (text : Bytes) (name : String) (u : Universe) : Request :=
  { method := .post, path := "/api/v1/scenario", ctype := tomlMime, text := text, facts := .scen (.ok name u) }

/-- A scenario that is accepted is read back exactly as posted: the same bytes, whatever they are
(`%`, `%s`, invalid UTF-8, anything), never marked as altered. -/
theorem text_verbatim (W : World) (s : State) (text : Bytes) (name : String) (u : Universe) :
    (step Quirks.spec W s (postScenarioReq text name u)).1 = ok .success ∧
    (step Quirks.spec W (step Quirks.spec W s (postScenarioReq text name u)).2 (getReq "/api/v1/scenario")).1 =
      ok (.text .toml text false) := by
  simp [step, classifyPath, postScenarioReq, postScenario, getReq, getScenario, tomlMime, textBody, Quirks.spec]

/-- One step changes the scenario text only by a POST /scenario answered 200, and then to the posted bytes. -/
theorem scenario_text_step (W : World) (s : State) (r : Request) :
    (step Quirks.spec W s r).2.scenText =
      if classifyPath r.path = .scenario ∧ r.method = .post ∧ (step Quirks.spec W s r).1.status = 200
      then some r.text else s.scenText := by
  by_cases hg : r.method = .get
  · rw [step_get _ W s r hg]; simp [hg]
  · unfold step
    split
    all_goals (rename_i hc; simp only [hc])
    · simp
    · split <;> simp
    · split
      · rename_i hm
        simp only [hm, true_and]
        exact postScenario_scenText W s r
      · rename_i hm; exact absurd hm hg
      · rename_i hm1 hm2
        have : r.method ≠ .post := fun h => hm1 h
        simp [this]
    · simp only [reduceCtorEq, false_and, ↓reduceIte]
      split
      · exact postSolutions_scenText W s r
      · rename_i hm; exact absurd hm hg
      · rfl
    · simp only [reduceCtorEq, false_and, ↓reduceIte]
    · simp only [reduceCtorEq, false_and, ↓reduceIte]
      split
      · rename_i hm; exact absurd hm hg
      · exact (patchModel_texts W s r).1
      · rfl
    · simp only [reduceCtorEq, false_and, ↓reduceIte]
      split
      · exact (putActive_texts _ W s r).1
      · rename_i hm; exact absurd hm hg
      · rfl
    · simp only [reduceCtorEq, false_and, ↓reduceIte]
    · simp only [reduceCtorEq, false_and, ↓reduceIte]
      split
      · rename_i hm; exact absurd hm hg
      · exact (putSub_texts W s r _).1
      · rfl

/-- the scenario text a sequence leaves behind: the text of its last POST /scenario answered 200 -/
def lastScenarioText (W : World) : State → List Request → Option Bytes
  | s, [] => s.scenText
  | s, r :: rs => lastScenarioText W (step Quirks.spec W s r).2 rs

/-- After any request sequence GET /scenario returns exactly the bytes of the last POST /scenario that was
answered 200 (404 if there was none), unaltered. -/
theorem scenario_text_is_last_posted (W : World) (s : State) (rs : List Request) :
    (step Quirks.spec W (exec Quirks.spec W s rs) (getReq "/api/v1/scenario")).1 =
      match lastScenarioText W s rs with
      | none => err 404
      | some t => ok (.text .toml t false) := by
  induction rs generalizing s with
  | nil =>
    simp only [exec, run, lastScenarioText]
    cases h : s.scenText <;> simp [step, classifyPath, getReq, getScenario, h, textBody, Quirks.spec]
  | cons r rs ih =>
    have := ih (step Quirks.spec W s r).2
    simpa [exec, run, lastScenarioText] using this

/-- The solutions text is stored by a POST /solutions answered 200 exactly as posted. -/
theorem solutions_text_verbatim (W : World) (s : State) (r : Request)
    (hp : classifyPath r.path = .solutions) (hm : r.method = .post)
    (h200 : (step Quirks.spec W s r).1.status = 200) :
    (step Quirks.spec W (step Quirks.spec W s r).2 (getReq "/api/v1/solutions")).1 = ok (.text .csv r.text false) := by
  have hstep : step Quirks.spec W s r = postSolutions Quirks.spec W s r := by
    simp [step, hp, hm]
  rw [hstep] at h200 ⊢
  have hsol := postSolutions_solText_ok W s r h200
  have hscen : (postSolutions Quirks.spec W s r).2.scenText = s.scenText := postSolutions_scenText W s r
  have hs : s.scenText.isNone = false := by
    cases hn : s.scenText.isNone
    · rfl
    · simp [postSolutions, hn, err] at h200
  generalize postSolutions Quirks.spec W s r = res at *
  have hs' : res.2.scenText.isNone = false := by rw [hscen]; exact hs
  simp [step, classifyPath, getReq, getSolutions, hsol, hs', textBody, Quirks.spec]

/-- One step changes the solutions text only by a POST /solutions answered 200, and then to the posted bytes
(POST /scenario, PATCH, the PUTs, failed requests and reads leave it alone). -/
theorem solutions_text_step (W : World) (s : State) (r : Request) :
    (step Quirks.spec W s r).2.solText =
      if classifyPath r.path = .solutions ∧ r.method = .post ∧ (step Quirks.spec W s r).1.status = 200
      then some r.text else s.solText := by
  by_cases hne : (step Quirks.spec W s r).1.status ≠ 200
  · rw [error_leaves_state W s r hne]; simp [hne]
  have h200 : (step Quirks.spec W s r).1.status = 200 := Decidable.of_not_not hne
  by_cases hg : r.method = .get
  · rw [step_get _ W s r hg]; simp [hg]
  by_cases hsol : classifyPath r.path = .solutions ∧ r.method = .post
  · have hstep : step Quirks.spec W s r = postSolutions Quirks.spec W s r := by simp [step, hsol.1, hsol.2]
    simp only [hsol, h200, and_self, ↓reduceIte]
    rw [hstep] at h200 ⊢
    exact postSolutions_solText_ok W s r h200
  · have hc : ¬ (classifyPath r.path = .solutions ∧ r.method = .post ∧ (step Quirks.spec W s r).1.status = 200) :=
      fun h => hsol ⟨h.1, h.2.1⟩
    simp only [hc, ↓reduceIte]
    unfold step
    split
    · rfl
    · split <;> rfl
    · split
      · exact postScenario_solText W s r
      · simp only [getScenario]; split <;> rfl
      · rfl
    · rename_i hp
      split
      · rename_i hm; exact absurd ⟨hp, hm⟩ hsol
      · rename_i hm; exact absurd hm hg
      · rfl
    · split
      · rename_i hm; exact absurd hm hg
      · rfl
    · split
      · rename_i hm; exact absurd hm hg
      · exact (patchModel_texts W s r).2
      · rfl
    · split
      · exact (putActive_texts _ W s r).2
      · rename_i hm; exact absurd hm hg
      · rfl
    · split
      · rename_i hm; exact absurd hm hg
      · rfl
    · split
      · rename_i hm; exact absurd hm hg
      · exact (putSub_texts W s r _).2
      · rfl

/-- the solutions text a sequence leaves behind: the text of its last POST /solutions answered 200 -/
def lastSolutionsText (W : World) : State → List Request → Option Bytes
  | s, [] => s.solText
  | s, r :: rs => lastSolutionsText W (step Quirks.spec W s r).2 rs

/-- After any request sequence from the empty engine GET /solutions returns exactly the bytes of the last
POST /solutions that was answered 200 (404 if there was none), unaltered — whatever was posted to /scenario, patched or
PUT in between. -/
theorem solutions_text_is_last_posted (W : World) (rs : List Request) :
    (step Quirks.spec W (exec Quirks.spec W State.init rs) (getReq "/api/v1/solutions")).1 =
      match lastSolutionsText W State.init rs with
      | none => err 404
      | some t => ok (.text .csv t false) := by
  have hinv := reachable_inv W rs
  have hlast : ∀ (s : State) (rs : List Request), lastSolutionsText W s rs = (exec Quirks.spec W s rs).solText := by
    intro s rs
    induction rs generalizing s with
    | nil => rfl
    | cons r rs ih => simpa [exec, run, lastSolutionsText] using ih (step Quirks.spec W s r).2
  rw [hlast]
  generalize exec Quirks.spec W State.init rs = s at hinv
  cases hsol : s.solText with
  | none =>
    simp only [step, classifyPath, getReq, getSolutions, hsol]
    simp
  | some t =>
    have h1 : s.table.isSome = true := by rw [← hinv.sol_iff, hsol]; rfl
    have h2 : s.scenText.isSome = true := by rw [hinv.text_iff]; exact hinv.tbl_live h1
    have h3 : s.scenText.isNone = false := by
      cases hsc : s.scenText with
      | none => rw [hsc] at h2; cases h2
      | some _ => rfl
    simp [step, classifyPath, getReq, getSolutions, hsol, h3, textBody, Quirks.spec]

/-! ## active actions are those last set -/


/-- the action set of the live model after a request, by request kind: a request that is not answered 200 leaves it;
an accepted POST /scenario resets it to "nothing active" over the new scenario's actions; an accepted PATCH sets the
last decoded `Encoding` entry (none: unchanged); an accepted table PUT applies the table's cells; an accepted
subcatchment PUT applies its entries to that planning unit; everything else — POST /solutions, every GET, every other
method — leaves it. -/
def nextActive (W : World) (s : State) (r : Request) : Option ActiveSet :=
  if (step Quirks.spec W s r).1.status ≠ 200 then s.live.map (·.active)
  else
    match classifyPath r.path with
    | .scenario =>
      match r.method, r.facts with
      | .post, .scen (.ok _ u) => some (allInactive u)
      | _, _ => s.live.map (·.active)
    | .model =>
      match r.method, r.facts, s.live with
      | .patch, .patch (some entries), some m => some (patchActive m entries)
      | _, _, _ => s.live.map (·.active)
    | .active =>
      match r.method, r.facts, s.live with
      | .put, .csv c, some m =>
        match classifyTable c with
        | .ok types rows => some (applyTable m.u types rows m.active)
        | _ => some m.active
      | _, _, _ => s.live.map (·.active)
    | .sub id =>
      match r.method, r.facts, s.live with
      | .put, .sub (some entries), some m =>
        match atoi? id with
        | some pu => some (applySub m.u pu entries m.active)
        | none => some m.active
      | _, _, _ => s.live.map (·.active)
    | _ => s.live.map (·.active)

/-- **Active actions are those last set, one step.**  Whatever the state and the request, the live model's action set
after the request is `nextActive`: in particular POST /solutions, a PATCH without `Encoding`, failed requests and reads
leave it alone, and POST /scenario resets it. -/
theorem active_step (W : World) (s : State) (r : Request) :
    (step Quirks.spec W s r).2.live.map (·.active) = nextActive W s r := by
  unfold nextActive
  by_cases hne : (step Quirks.spec W s r).1.status ≠ 200
  · rw [error_leaves_state W s r hne]; simp [hne]
  have h200 : (step Quirks.spec W s r).1.status = 200 := Decidable.of_not_not hne
  simp only [hne, ↓reduceIte]
  clear hne
  by_cases hg : r.method = .get
  · rw [step_get _ W s r hg]
    rw [hg]
    cases classifyPath r.path <;> rfl
  revert h200
  cases hp : classifyPath r.path with
  | root => simp only [step, hp]; intro _; split <;> rfl
  | other => simp only [step, hp]; intro _; trivial
  | scenario =>
    simp only [step, hp]
    split
    · rename_i hm
      intro h200
      obtain ⟨name, u, hf, ha⟩ := postScenario_active_ok W s r h200
      rw [ha, hf, hm]
    · rename_i hm; exact absurd hm hg
    · rename_i hm1 hm2
      intro _
      split
      · rename_i hm _; exact absurd hm hm1
      · rfl
  | solutions =>
    simp only [step, hp]
    intro _
    split
    · exact postSolutions_active W s r
    · rename_i hm; exact absurd hm hg
    · rfl
  | solution label =>
    simp only [step, hp]
    intro _
    trivial
  | model =>
    simp only [step, hp]
    split
    · rename_i hm; exact absurd hm hg
    · rename_i hm
      intro h200
      obtain ⟨m, entries, hl, hf, ha⟩ := patchModel_active_ok W s r h200
      rw [ha, hf, hl, hm]
    · rename_i hm1 hm2
      intro _
      split
      · rename_i hm _ _; exact absurd hm hm2
      · rfl
  | active =>
    simp only [step, hp]
    split
    · rename_i hm
      intro h200
      obtain ⟨m, c, types, rows, hl, hf, hcl, ha⟩ := putActive_active_ok W s r h200
      rw [ha, hf, hl, hm]
      simp only [hcl]
    · rename_i hm; exact absurd hm hg
    · rename_i hm1 hm2
      intro _
      split
      · rename_i hm _ _; exact absurd hm hm1
      · rfl
  | applicable =>
    simp only [step, hp]
    intro _
    trivial
  | sub id =>
    simp only [step, hp]
    split
    · rename_i hm; exact absurd hm hg
    · rename_i hm
      intro h200
      obtain ⟨m, pu, entries, hl, hat, hf, _, _, ha⟩ := putSub_active_ok W s r _ h200
      rw [ha, hf, hl, hm]
      simp only [hat]
    · rename_i hm1 hm2
      intro _
      split
      · rename_i hm _ _; exact absurd hm hm2
      · rfl

/-- the action set a sequence leaves behind: `nextActive` request by request -/
def lastActive (W : World) : State → List Request → Option ActiveSet
  | s, [] => s.live.map (·.active)
  | s, r :: rs => lastActive W (step Quirks.spec W s r).2 rs

/-- **Active actions are those last set, any sequence.**  After any request sequence GET /model/actions/active shows
exactly the set the sequence's successful writes leave behind (`lastActive`: `nextActive` folded over the requests),
404 while no scenario has been accepted. -/
theorem active_is_last_set (W : World) (rs : List Request) :
    (step Quirks.spec W (exec Quirks.spec W State.init rs) (getReq "/api/v1/model/actions/active")).1 =
      match (exec Quirks.spec W State.init rs).live, lastActive W State.init rs with
      | some m, some set => ok (.active m.u set)
      | _, _ => err 404 := by
  have hlast : ∀ (s : State) (rs : List Request), lastActive W s rs = (exec Quirks.spec W s rs).live.map (·.active) := by
    intro s rs
    induction rs generalizing s with
    | nil => rfl
    | cons r rs ih => simpa [exec, run, lastActive] using ih (step Quirks.spec W s r).2
  rw [hlast]
  have hsnap := (reachable_inv W rs).snap_eq
  generalize exec Quirks.spec W State.init rs = s at hsnap
  cases hl : s.live with
  | none => simp [step, classifyPath, getReq, getActive, hsnap, hl]
  | some m => simp [step, classifyPath, getReq, getActive, hsnap, hl]

/-- the step equation of `lastActive` in terms of `nextActive` -/
theorem lastActive_cons (W : World) (s : State) (r : Request) (rs : List Request) :
    lastActive W s (r :: rs) = lastActive W (step Quirks.spec W s r).2 rs ∧
    (step Quirks.spec W s r).2.live.map (·.active) = nextActive W s r :=
  ⟨rfl, active_step W s r⟩

def patchReq (entries : List PatchEntry) : Request :=
  { method := .patch, path := "/api/v1/model", ctype := jsonMime, text := [], facts := .patch (some entries) }

/-- An accepted PATCH whose last `Encoding` entry decodes to `S` leaves exactly `S` active
(`S` is the last element of the decoded sets). -/
theorem patch_sets_last_encoding (W : World) (s : State) (m : Mdl) (entries : List PatchEntry)
    (sets : List ActiveSet) (S : ActiveSet)
    (hinv : Inv W s) (hlive : s.live = some m)
    (hdec : decodeEntries m.u.acts.length entries = some sets) (hlast : sets.getLast? = some S) :
    (step Quirks.spec W s (patchReq entries)).1 = ok .success ∧
    ∃ m', (step Quirks.spec W s (patchReq entries)).2.live = some m' ∧ m'.active = S ∧ m'.u = m.u ∧ m'.id = m.id := by
  have hsnap := hinv.snap_eq
  rw [hlive] at hsnap
  have hne : sets.isEmpty = false := by
    cases sets with
    | nil => simp at hlast
    | cons _ _ => rfl
  have hnd := (hinv.shows m hlive).1.1
  have hf := foldl_derive W s.table sets
    { m with attrs := join Quirks.spec m.attrs (List.map (fun (e : PatchEntry) => ({ name := e.name, val := e.val } : Attr)) entries) } S
    (join_spec _ hnd).1 hlast
  obtain ⟨_, hact, hu, hid⟩ := hf
  have hstep : step Quirks.spec W s (patchReq entries) =
      (ok .success, { s with
        live := some (sets.foldl (fun acc set => derive Quirks.spec W s.table { acc with active := set })
          { m with attrs := join Quirks.spec m.attrs (List.map (fun (e : PatchEntry) => ({ name := e.name, val := e.val } : Attr)) entries) }),
        snap := some (sets.foldl (fun acc set => derive Quirks.spec W s.table { acc with active := set })
          { m with attrs := join Quirks.spec m.attrs (List.map (fun (e : PatchEntry) => ({ name := e.name, val := e.val } : Attr)) entries) }) }) := by
    simp [step, classifyPath, patchReq, patchModel, hsnap, hlive, Quirks.spec, jsonMime, hdec, hne]
  rw [hstep]
  exact ⟨rfl, _, rfl, hact, hu, hid⟩

/-- Encoding patch as a route: posting the canonical encoding of ANY set `S` (of the scenario's size) makes exactly
`S` the active set — the encoding is lossless (property C09's `decode_encode`). -/
theorem patch_canonical_encoding_reaches (W : World) (s : State) (m : Mdl) (S : ActiveSet)
    (hinv : Inv W s) (hlive : s.live = some m) (hn : 1 ≤ m.u.acts.length) (hS : S.length = m.u.acts.length) :
    let r := patchReq [{ name := "Encoding", val := strTok (encodeStr S), enc := .text (encodeStr S) }]
    (step Quirks.spec W s r).1 = ok .success ∧
    ∃ m', (step Quirks.spec W s r).2.live = some m' ∧ m'.active = S ∧ m'.u = m.u ∧ m'.id = m.id := by
  apply patch_sets_last_encoding W s m _ [S] S hinv hlive
  · have := Crem.BoolArchive.decode_encode' m.u.acts.length S hn hS
    simp [decodeEntries, encodeStr, this]
  · rfl

def putActiveReq (c : Csv) : Request :=
  { method := .put, path := "/api/v1/model/actions/active", ctype := csvMime, text := [], facts := .csv c }

/-- Whole-table upload as a route: an accepted table leaves active exactly what its cells say, row by row and
column by column over the set active before (`applyTable`; cells of unknown planning units or action types change
nothing). -/
theorem put_table_sets (W : World) (s : State) (m : Mdl) (c : Csv) (types : List String)
    (rows : List (Option Nat × List Bool))
    (hinv : Inv W s) (hlive : s.live = some m) (hc : classifyTable c = .ok types rows) :
    (step Quirks.spec W s (putActiveReq c)).1 = ok .success ∧
    ∃ m', (step Quirks.spec W s (putActiveReq c)).2.live = some m' ∧
      m'.active = applyTable m.u types rows m.active ∧ m'.u = m.u ∧ m'.id = m.id := by
  have hsnap := hinv.snap_eq
  rw [hlive] at hsnap
  simp only [step, classifyPath, putActiveReq, putActive, hsnap, hlive, csvMime, hc]
  simp [derive_active, derive_u, derive_id]

def putSubReq (entries : List SubEntry) : Request :=
  { method := .put, path := "", ctype := jsonMime, text := [], facts := .sub (some entries) }

/-- Per-subcatchment update as a route: an accepted update leaves active exactly what its entries say for that
planning unit, in order (`applySub`), everything else as before.  (Stated for the handler: the URL path
`/api/v1/model/subcatchment/<digits>` is what selects it, `classifyPath`.) -/
theorem put_sub_sets (W : World) (s : State) (m : Mdl) (id : String) (pu : Nat) (entries : List SubEntry)
    (hinv : Inv W s) (hlive : s.live = some m) (hid : atoi? id = some pu) (hpu : m.u.pus.contains pu = true)
    (hsyn : subSyntaxOk entries = true) (hsup : subSupported m.u pu entries = true) :
    (putSub Quirks.spec W s (putSubReq entries) id).1 = ok .success ∧
    ∃ m', (putSub Quirks.spec W s (putSubReq entries) id).2.live = some m' ∧
      m'.active = applySub m.u pu entries m.active ∧ m'.u = m.u ∧ m'.id = m.id := by
  have hsnap := hinv.snap_eq
  rw [hlive] at hsnap
  simp only [putSub, putSubReq, hsnap, hlive, hid, hpu, hsyn, hsup, Quirks.spec]
  simp [derive_active, derive_u, derive_id]

/-- one cell of an accepted update: `setWhere` changes exactly the actions of that planning unit and type -/
theorem setWhere_get (u : Universe) (set : ActiveSet) (pu : Nat) (ty : String) (b : Bool) (i : Nat)
    (hi : i < u.acts.length) (hs : set.length = u.acts.length) :
    (setWhere u set pu ty b)[i]'(by rw [setWhere_length u set pu ty b hs]; exact hi) =
      if u.acts[i].1 = pu ∧ u.acts[i].2 = ty then b else set[i]'(by omega) := by
  simp [setWhere]

/-! ## route independence: the representation depends on the action set reached, not on how it was reached -/

/-- Two engines that have been through ANY request histories (whole-table uploads, per-subcatchment updates,
encoding patches, failed requests, anything) and whose served models belong to the same scenario and have the
same active set answer identically on /model/actions/active, /model/actions/applicable and every
/model/subcatchment/<id>; their /model documents carry the same scenario and action set and both contain the same
`Encoding` and `ValidAgainstScenario` entries.  (Conjunct 4 — "the same decision-variable representation `repr u set` for
every valuation `repr`" — is trivial from the hypotheses: it records that the representation enters the spec only through
scenario and set, which is property C01's content.  The statement about the WHOLE /model document, id and attribute
list included, is `route_independent_model` below.) -/
theorem route_independent (W : World) (rs₁ rs₂ : List Request) (m₁ m₂ : Mdl)
    (h₁ : (exec Quirks.spec W State.init rs₁).live = some m₁)
    (h₂ : (exec Quirks.spec W State.init rs₂).live = some m₂)
    (hu : m₁.u = m₂.u) (hact : m₁.active = m₂.active) :
    let s₁ := exec Quirks.spec W State.init rs₁
    let s₂ := exec Quirks.spec W State.init rs₂
    (step Quirks.spec W s₁ (getReq "/api/v1/model/actions/active")).1 =
      (step Quirks.spec W s₂ (getReq "/api/v1/model/actions/active")).1 ∧
    (step Quirks.spec W s₁ (getReq "/api/v1/model/actions/applicable")).1 =
      (step Quirks.spec W s₂ (getReq "/api/v1/model/actions/applicable")).1 ∧
    (∀ path id, classifyPath path = .sub id →
      (step Quirks.spec W s₁ (getReq path)).1 = (step Quirks.spec W s₂ (getReq path)).1) ∧
    (∀ {ρ : Type} (repr : Universe → ActiveSet → ρ), repr m₁.u m₁.active = repr m₂.u m₂.active) ∧
    (∃ e, e ∈ m₁.attrs ∧ e ∈ m₂.attrs ∧ e = ⟨"Encoding", strTok (encodeStr m₁.active)⟩) ∧
    (∃ e, e ∈ m₁.attrs ∧ e ∈ m₂.attrs ∧ e = ⟨"ValidAgainstScenario", boolTok (W.valid m₁.u.key m₁.active)⟩) := by
  intro s₁ s₂
  have i₁ := reachable_inv W rs₁
  have i₂ := reachable_inv W rs₂
  have sn₁ : s₁.snap = some m₁ := by rw [i₁.snap_eq]; exact h₁
  have sn₂ : s₂.snap = some m₂ := by rw [i₂.snap_eq]; exact h₂
  have sh₁ := shows_mem (i₁.shows m₁ h₁).1
  have sh₂ := shows_mem (i₂.shows m₂ h₂).1
  refine ⟨?_, ?_, ?_, ?_, ?_, ?_⟩
  · simp [step, classifyPath, getReq, getActive, sn₁, sn₂, hu, hact]
  · simp [step, classifyPath, getReq, getApplicable, sn₁, sn₂, hu]
  · intro path id hc
    have hsub : ∀ p, subEntries m₁ p = subEntries m₂ p := by intro p; simp [subEntries, hu, hact]
    simp only [step, getReq, hc, getSub, sn₁, sn₂, hu, hsub]
    cases atoi? id with
    | none => rfl
    | some pu => simp only; split <;> rfl
  · intro ρ repr; rw [hu, hact]
  · exact ⟨_, sh₁.1, by rw [hact]; exact sh₂.1, rfl⟩
  · exact ⟨_, sh₁.2.1, by rw [hu, hact]; exact sh₂.2.1, rfl⟩


/-- **The model representation is a function of what was written.**  In ANY two states of the demanded behaviour
(`Inv`: in particular any two reachable ones) whose live models have the same scenario, id and action set, with the same
solution table loaded and the same posted attributes (the entries whose names `deriveExtraModelAttributes` does not
manage, as multisets), GET /model serves the same document up to the order of the attribute entries (`SameRepr`): the
managed entries — exactly ONE `Encoding`, ONE `ValidAgainstScenario`, ONE `ParetoFrontMember` when a table is loaded,
`ValidationErrors` exactly when the set is invalid — are determined by the action set, the scenario and the table. -/
theorem model_representation_determined (W : World) (s₁ s₂ : State) (m₁ m₂ : Mdl)
    (i₁ : Inv W s₁) (i₂ : Inv W s₂) (h₁ : s₁.live = some m₁) (h₂ : s₂.live = some m₂)
    (hu : m₁.u = m₂.u) (hid : m₁.id = m₂.id) (hact : m₁.active = m₂.active) (htbl : s₁.table = s₂.table)
    (huser : (m₁.attrs.filter (fun a => !managed s₁.table a.name)).Perm
             (m₂.attrs.filter (fun a => !managed s₁.table a.name))) :
    (step Quirks.spec W s₁ (getReq "/api/v1/model")).1 = ok (.model m₁) ∧
    (step Quirks.spec W s₂ (getReq "/api/v1/model")).1 = ok (.model m₂) ∧
    SameRepr m₁ m₂ := by
  have sn₁ : s₁.snap = some m₁ := by rw [i₁.snap_eq]; exact h₁
  have sn₂ : s₂.snap = some m₂ := by rw [i₂.snap_eq]; exact h₂
  refine ⟨by simp [step, classifyPath, getReq, getModel, sn₁], by simp [step, classifyPath, getReq, getModel, sn₂], ?_⟩
  have sh₁ := (i₁.shows m₁ h₁).1
  have sh₂ := (i₂.shows m₂ h₂).1
  rw [← htbl] at sh₂
  exact sameRepr_of_shows sh₁ sh₂ hu hid hact huser

/-- **Route independence of the whole /model document.**  Two engines that have been through ANY request histories
(whole-table uploads, per-subcatchment updates, encoding patches, failed requests, null-valued and repeated attributes,
anything) and end with the same scenario, id, action set, solution table and posted attributes serve the same /model
document up to the order of the attribute entries. -/
theorem route_independent_model (W : World) (rs₁ rs₂ : List Request) (m₁ m₂ : Mdl)
    (h₁ : (exec Quirks.spec W State.init rs₁).live = some m₁)
    (h₂ : (exec Quirks.spec W State.init rs₂).live = some m₂)
    (hu : m₁.u = m₂.u) (hid : m₁.id = m₂.id) (hact : m₁.active = m₂.active)
    (htbl : (exec Quirks.spec W State.init rs₁).table = (exec Quirks.spec W State.init rs₂).table)
    (huser : (m₁.attrs.filter (fun a => !managed (exec Quirks.spec W State.init rs₁).table a.name)).Perm
             (m₂.attrs.filter (fun a => !managed (exec Quirks.spec W State.init rs₁).table a.name))) :
    (step Quirks.spec W (exec Quirks.spec W State.init rs₁) (getReq "/api/v1/model")).1 = ok (.model m₁) ∧
    (step Quirks.spec W (exec Quirks.spec W State.init rs₂) (getReq "/api/v1/model")).1 = ok (.model m₂) ∧
    SameRepr m₁ m₂ :=
  model_representation_determined W _ _ m₁ m₂ (reachable_inv W rs₁) (reachable_inv W rs₂) h₁ h₂ hu hid hact htbl huser

/-- In every reachable state no attribute name is listed twice in the /model document, and the managed names carry
exactly the values of the model's own action set (`Shows`, in its `Value(name)` form). -/
theorem model_attributes_unique (W : World) (rs : List Request) (m : Mdl)
    (h : (exec Quirks.spec W State.init rs).live = some m) :
    (names m.attrs).Nodup ∧
    valueOf m.attrs "Encoding" = some (strTok (encodeStr m.active)) ∧
    valueOf m.attrs "ValidAgainstScenario" = some (boolTok (W.valid m.u.key m.active)) ∧
    (∀ t, (exec Quirks.spec W State.init rs).table = some t →
      valueOf m.attrs "ParetoFrontMember" = some (boolTok (paretoHas t (encodeStr m.active)))) ∧
    valueOf m.attrs "ValidationErrors" = (if W.valid m.u.key m.active then none else some veTok) :=
  ((reachable_inv W rs).shows m h).1

/-! ## Non-vacuity and sanity examples (tests, labelled as such) -/

namespace Example

def W : World := { valid := fun _ set => set.count true ≤ 2 }

def u : Universe :=
  { key := "k", acts := [(1, "GullyRestoration"), (1, "RiverBankRestoration"), (2, "RiverBankRestoration")],
    pus := [1, 2, 3], asIs := [] }

def one : Cell := .num bitsOne "1"
def zero : Cell := .num bitsZero "0"
/-- 1.0, 2.0 as IEEE bit patterns -/
def pu1 : Cell := .num 0x3FF0000000000000 "1"
def pu2 : Cell := .num 0x4000000000000000 "2"

def text : Bytes := [0x31, 0x30, 0x30, 0x25, 0x20, 0x25, 0x73]   -- "100% %s"

def s0 : State := exec Quirks.spec W State.init [postScenarioReq text "S" u]

def table : Csv := .table ["SubCatchment", "GullyRestoration", "RiverBankRestoration"]
  [[pu1, one, zero], [pu2, zero, one]]

def viaTable : State := exec Quirks.spec W s0 [putActiveReq table]

def subReq (path : String) (entries : List SubEntry) : Request :=
  { method := .put, path := path, ctype := jsonMime, text := [], facts := .sub (some entries) }

def viaSubs : State := exec Quirks.spec W s0
  [ subReq "/api/v1/model/subcatchment/1" [⟨"GullyRestoration", .active⟩, ⟨"RiverBankRestoration", .inactive⟩],
    subReq "/api/v1/model/subcatchment/2" [⟨"RiverBankRestoration", .active⟩] ]

def viaPatch : State := exec Quirks.spec W s0 [patchReq [⟨"Encoding", "\"5\"", .text "5"⟩]]

/-- the three routes end in the same state, so in the same readable resources -/
example : viaTable = viaSubs ∧ viaSubs = viaPatch := by decide
example : viaTable.live.map (·.active) = some [true, false, true] := by decide
example : view Quirks.spec W viaTable = view Quirks.spec W viaPatch := by decide
/-- the posted text (it contains `%`) is read back byte for byte -/
example : (step Quirks.spec W viaSubs (getReq "/api/v1/scenario")).1 = ok (.text .toml text false) := by decide
/-- a failed request (undecodable encoding after a joined attribute) changes nothing … -/
example : exec Quirks.spec W viaTable [patchReq [⟨"Note", "1", .notEncoding⟩, ⟨"Encoding", "\"zz\"", .text "zz"⟩]] = viaTable := by
  decide
/-- … whereas in the code as it stands (quirk `patchEager`) the attribute has been joined into the live model -/
example : (exec { patchEager := true, patchNoRefresh := true } W viaTable
    [patchReq [⟨"Note", "1", .notEncoding⟩, ⟨"Encoding", "\"zz\"", .text "zz"⟩]]).live ≠ viaTable.live := by decide
/-- all three of the set being valid (at most two actions), its encoding and the derived attributes are shown -/
example : (viaPatch.live.map (·.attrs)) = some
    [⟨"ModelSuppliedPlanningUnitName", "\"SubCatchment\""⟩, ⟨"Encoding", "\"5\""⟩, ⟨"ValidAgainstScenario", "true"⟩] := by decide
/-- an invalid set carries `ValidationErrors` -/
example : ((exec Quirks.spec W s0 [patchReq [⟨"Encoding", "\"7\"", .text "7"⟩]]).live.map (·.attrs)) = some
    [⟨"ModelSuppliedPlanningUnitName", "\"SubCatchment\""⟩, ⟨"Encoding", "\"7\""⟩, ⟨"ValidAgainstScenario", "false"⟩,
     ⟨"ValidationErrors", "VE"⟩] := by decide
/-! null-valued and repeated attributes: in the demanded behaviour a name is listed once, whatever the route -/

def nullV : Request := patchReq [⟨"ValidAgainstScenario", "null", .notEncoding⟩]
def sNull : State := exec Quirks.spec W s0 [nullV]
def nullTable : State := exec Quirks.spec W sNull [putActiveReq table]
def nullSubs : State := exec Quirks.spec W sNull
  [ subReq "/api/v1/model/subcatchment/1" [⟨"GullyRestoration", .active⟩, ⟨"RiverBankRestoration", .inactive⟩],
    subReq "/api/v1/model/subcatchment/2" [⟨"RiverBankRestoration", .active⟩] ]
def nullPatch : State := exec Quirks.spec W sNull [patchReq [⟨"Encoding", "\"5\"", .text "5"⟩]]

/-- after `PATCH [ValidAgainstScenario: null]` the three routes still end in the same state, with ONE verdict entry … -/
example : nullTable = nullSubs ∧ nullSubs = nullPatch := by decide
example : nullTable.live.map (·.attrs) = some
    [⟨"ModelSuppliedPlanningUnitName", "\"SubCatchment\""⟩, ⟨"Encoding", "\"5\""⟩, ⟨"ValidAgainstScenario", "true"⟩] := by decide
/-- … and re-PUTting the identical table changes nothing … -/
example : exec Quirks.spec W nullTable [putActiveReq table] = nullTable := by decide
/-- … whereas the code as it stands (quirk `nullShadow`) lists the verdict three times after the table route and four
times after the two subcatchment PUTs: different /model documents for one action set -/
example : (exec { nullShadow := true } W (exec { nullShadow := true } W s0 [nullV]) [putActiveReq table]).live.map (·.attrs) = some
    [⟨"ModelSuppliedPlanningUnitName", "\"SubCatchment\""⟩, ⟨"Encoding", "\"5\""⟩, ⟨"ValidAgainstScenario", "null"⟩,
     ⟨"ValidAgainstScenario", "true"⟩, ⟨"ValidAgainstScenario", "true"⟩] := by decide
example : ((exec { nullShadow := true } W (exec { nullShadow := true } W s0 [nullV])
      [ subReq "/api/v1/model/subcatchment/1" [⟨"GullyRestoration", .active⟩, ⟨"RiverBankRestoration", .inactive⟩],
        subReq "/api/v1/model/subcatchment/2" [⟨"RiverBankRestoration", .active⟩] ]).live.map (fun m => m.attrs.length)) = some 6 := by
  decide
/-- a `ValidationErrors` posted as null, or twice in one PATCH, does not survive on a valid set -/
example : (exec Quirks.spec W s0 [patchReq [⟨"ValidationErrors", "null", .notEncoding⟩]]).live.map (·.attrs) = s0.live.map (·.attrs) := by
  decide
example : (exec Quirks.spec W s0 [patchReq [⟨"ValidationErrors", "1", .notEncoding⟩, ⟨"ValidationErrors", "2", .notEncoding⟩]]).live.map (·.attrs) =
    s0.live.map (·.attrs) := by decide
example : ((exec { joinStale := true } W s0 [patchReq [⟨"ValidationErrors", "1", .notEncoding⟩, ⟨"ValidationErrors", "2", .notEncoding⟩]]).live.map
    (fun m => valueOf m.attrs "ValidationErrors")) = some (some "1") := by decide
/-- the hypotheses of `model_representation_determined` are satisfiable by genuinely different histories: two posted
attributes in either order, the set reached by the table route / by two encoding patches: the attribute lists differ
(in order), the posted parts are permutations of each other -/
def hist₁ : State := exec Quirks.spec W s0
  [patchReq [⟨"Note", "1", .notEncoding⟩], patchReq [⟨"Owner", "2", .notEncoding⟩], putActiveReq table]
def hist₂ : State := exec Quirks.spec W s0
  [patchReq [⟨"Encoding", "\"7\"", .text "7"⟩, ⟨"Owner", "2", .notEncoding⟩], patchReq [⟨"Encoding", "\"5\"", .text "5"⟩, ⟨"Note", "1", .notEncoding⟩]]
example : hist₁.live.map (·.active) = hist₂.live.map (·.active) ∧ hist₁.live.map (·.attrs) ≠ hist₂.live.map (·.attrs) := by decide
example : ∃ m₁ m₂, hist₁.live = some m₁ ∧ hist₂.live = some m₂ ∧
    (m₁.attrs.filter (fun a => !managed hist₁.table a.name)).Perm (m₂.attrs.filter (fun a => !managed hist₁.table a.name)) :=
  ⟨_, _, rfl, rfl, by decide⟩
/-- accepted POST /solutions: the hypothesis of `solutions_text_verbatim` / a non-trivial `lastSolutionsText` -/
def solCsv : Csv := .table ["Solution", "Actions", "Summary"] [[.text "As-Is", .text "0", .text "n"], [.text "1-of-1", .text "5", .text "n"]]
def solReq : Request := { method := .post, path := "/api/v1/solutions", ctype := csvMime, text := [0x25, 0x73], facts := .csv solCsv }
example : (step Quirks.spec W viaPatch solReq).1.status = 200 ∧
    lastSolutionsText W viaPatch [solReq, postScenarioReq [] "T" u, patchReq []] = some [0x25, 0x73] := by decide
example : ((exec Quirks.spec W viaPatch [solReq]).live.map (fun m => valueOf m.attrs "ParetoFrontMember")) = some (some "true") := by decide
/-- `nextActive`: POST /solutions leaves the set, POST /scenario resets it -/
example : nextActive W viaPatch solReq = some [true, false, true] ∧
    nextActive W viaPatch (postScenarioReq [] "T" u) = some [false, false, false] := by decide
/-- hypotheses of `route_independent` / `patch_canonical_encoding_reaches` are satisfiable -/
example : Inv W s0 := inv_exec W _ _ (inv_init W)
example : s0.live.isSome = true := by decide

end Example

end Crem.Engine
