import Crem.Proofs.Params
/-!
# C18 — parameter validation is sound

Property theorems about the model of `parameters.Parameters`, the validators of
`specification/Validators.go` and the component-level `SetParameters`
(`Crem/Model/Params.lean`).  They hold for **every** specification table, every key, every
value of every dynamic type (int64, float64 by bit pattern incl. NaN/±Inf/−0, string, bool,
array, table, datetime, nil), every user map and every *sequence* of user maps.

What is a theorem and what is checked on every run:
* theorems below: the assignment machinery is sound
  - **per key** (`perkey_invariant`, `perkey_range`, `perkey_stated_ranges_partial`): for any table
    whose keys are distinct, for every key whose OWN specification is well formed
    (`specWellFormed`), whatever the other specifications of the table look like;
  - **per table** (`well_typed_invariant`, `no_later_range_failure`,
    `no_errors_no_later_failure_stated_ranges_partial`): for any table that is `specsWellFormed`
    as a whole (resp. `specsTypeWellFormed` for the type-level statements);
* which form applies where: the table-global `specsWellFormed` holds for 8 of crem's 9 components
  and is FALSE for the shipped catchment table (`DataSourcePath`: default `""` is rejected by its
  own validator `IsReadableFile`; known finding), so the per-table range theorems say nothing
  about the catchment model; the per-key theorems cover its other 16 keys (every
  `HYP SpecsWellFormed:catchment:<key>` line except `DataSourcePath` is true), and for
  `DataSourcePath` itself `perkey_invariant` still gives "a readable file, or the untouched
  default";
* `specWellFormed` (per key), `nodupKeys` and `specTypeWellFormed` are decidable and are evaluated
  by the driver on the specification table of every crem component, extracted from the running
  Go code (`HYP SpecsWellFormed:<component>:<key>`, `HYP SpecsTypeWellFormed:<component>:<key>`
  and `HYP SpecKeysDistinct:<component>` lines of the `params` suite);
* that the Go code computes the model's functions is the `params` correspondence suite;
* NOT a theorem: the last clause of the property in full ("a component that reports no parameter
  errors never fails later on parameter type or range").  It is false on the code (known findings
  D15, D18, D23); what is proved is the part about the ranges the specifications STATE
  (`…_stated_ranges_partial`), with refuting examples for the rest at the end of this file.

Every `theorem` in this file is audited by `./check C18` (`#print axioms`).
-/
namespace Crem.Params

/-- `WT`: every stored entry satisfies the validator of its specification (type **and** range),
and every non-optional specification has an entry. -/
def WT (env : Env) (p : Params) : Prop := Inv (Sat env) p

/-- `WTy`: the type-level part of `WT` (dynamic type only). -/
def WTy (p : Params) : Prop := Inv HasSpecTy p

/-! ## what the validators accept -/

/-- a validator only accepts values of the one dynamic type it demands
(so `IsDecimal` rejects an int64, `IsInteger` rejects an integral float64, …) -/
theorem validates_type (env : Env) (val : Validator) (v : Value) (h : validates env val v = true) :
    v.hasTy val.ty = true :=
  validates_hasTy env val v h

/-- inclusive integer bounds mean exactly `lo ≤ i ≤ hi` on an int64 -/
theorem integerBounds_iff (env : Env) (lo hi : Int) (v : Value) :
    validates env (.integerBounds lo hi) v = true ↔ ∃ i, v = .int i ∧ lo ≤ i ∧ i ≤ hi := by
  cases v <;> simp [validates]

/-- inclusive decimal bounds are Go's `!(v < min || v > max)` on float64 … -/
theorem decimalBounds_iff (env : Env) (lo hi : UInt64) (v : Value) :
    validates env (.decimalBounds lo hi) v = true ↔
      ∃ f, v = .float f ∧ F64.lt f lo = false ∧ F64.lt hi f = false := by
  cases v <;> simp [validates]

/-- … which for numbers (no NaN among value and bounds) is exactly `lo ≤ v ≤ hi` in the float order -/
theorem decimalBounds_range (env : Env) (lo hi f : UInt64)
    (hf : F64.isNaN f = false) (hlo : F64.isNaN lo = false) (hhi : F64.isNaN hi = false) :
    validates env (.decimalBounds lo hi) (.float f) = true ↔ F64.key lo ≤ F64.key f ∧ F64.key f ≤ F64.key hi := by
  simp [validates, F64.lt, hf, hlo, hhi]

/-- quirk transcribed from the code: a NaN passes every bounded decimal validator
(`NaN < min` and `NaN > max` are both false).  TOML v0.3.1 cannot express NaN. -/
theorem decimalBounds_nan (env : Env) (lo hi f : UInt64) (hf : F64.isNaN f = true) :
    validates env (.decimalBounds lo hi) (.float f) = true := by
  simp [validates, F64.lt, hf]

/-! ## `assign_sound`: one user entry -/

/-- a valid user value replaces whatever was stored, adds no error, touches no other key -/
theorem assign_sound_valid (env : Env) (p : Params) (k : String) (v : Value)
    (h : verdict env p.specs k v = .valid) :
    (assignOne env p (k, v)).get k = some v ∧
    (assignOne env p (k, v)).errors = p.errors ∧
    ∀ k', k' ≠ k → (assignOne env p (k, v)).get k' = p.get k' := by
  refine ⟨?_, ?_, ?_⟩
  · rw [assignOne_get]; simp [h]
  · rw [assignOne_errors]; simp [h, errOf]
  · intro k' hk; rw [assignOne_get, if_neg]; exact fun hc => hk hc.2.symm

/-- an invalid user value leaves the map (hence the default) exactly as it was and adds exactly one error -/
theorem assign_sound_invalid (env : Env) (p : Params) (k : String) (v : Value)
    (h : verdict env p.specs k v = .invalid) :
    (assignOne env p (k, v)).map = p.map ∧
    (assignOne env p (k, v)).errors = p.errors ++ [.invalid k] := by
  rw [assignOne_invalid env p k v h]; exact ⟨rfl, rfl⟩

/-- an unsupported key offered to the assignment step is reported and never stored -/
theorem assign_sound_unsupported (env : Env) (p : Params) (k : String) (v : Value)
    (h : verdict env p.specs k v = .unsupported) :
    (assignOne env p (k, v)).map = p.map ∧
    (assignOne env p (k, v)).errors = p.errors ++ [.unsupported k] := by
  rw [assignOne_unsupported env p k v h]; exact ⟨rfl, rfl⟩

/-- the verdict is `valid` exactly when the key is specified and its validator accepts the value;
`unsupported` exactly when the key is not specified -/
theorem verdict_iff (env : Env) (specs : Specs) (k : String) (v : Value) :
    (verdict env specs k v = .valid ↔ ∃ s, specs.find k = some s ∧ validates env s.validator v = true) ∧
    (verdict env specs k v = .unsupported ↔ specs.find k = none) := by
  refine ⟨verdict_valid_iff env specs k v, ?_⟩
  unfold verdict
  cases h : Specs.find specs k with
  | none => simp
  | some s => simp only; split <;> simp

/-! ## `assign_sound`: whole user maps -/

/-- `AssignAllUserValues` on a user map (distinct keys, any iteration order): each key ends up with
the user's value iff that value is valid, else keeps what it had; the error list grows by exactly
one entry per rejected user entry (invalid value **or unsupported key**). -/
theorem assignAll_sound (env : Env) (p : Params) (user : List (String × Value))
    (hn : nodupKeys (user.map (·.1)) = true) :
    (∀ k, (assignAll env p user).get k =
        match getKey user k with
        | some v => if verdict env p.specs k v = .valid then some v else p.get k
        | none => p.get k) ∧
    (assignAll env p user).errors =
      p.errors ++ user.filterMap (fun kv => errOf (verdict env p.specs kv.1 kv.2) kv.1) ∧
    (assignAll env p user).errors.length =
      p.errors.length + (user.filter (fun kv => decide (verdict env p.specs kv.1 kv.2 ≠ .valid))).length := by
  refine ⟨assignAll_get env p user hn, assignAll_errors env p user, ?_⟩
  have hlen : ∀ l : List (String × Value),
      (l.filterMap (fun kv => errOf (verdict env p.specs kv.1 kv.2) kv.1)).length =
        (l.filter (fun kv => decide (verdict env p.specs kv.1 kv.2 ≠ .valid))).length := by
    intro l
    induction l with
    | nil => rfl
    | cons kv rest ih =>
      rw [List.filterMap_cons, List.filter_cons]
      cases hv : verdict env p.specs kv.1 kv.2 <;> simpa [errOf] using ih
  rw [assignAll_errors, List.length_append, hlen]

/-- keys a model does not support are reported rather than ignored (`AssignAllUserValues`) -/
theorem assignAll_reports_unsupported (env : Env) (p : Params) (user : List (String × Value))
    (k : String) (v : Value) (hmem : (k, v) ∈ user) (hk : k ∉ p.specs.keys) :
    Err.unsupported k ∈ (assignAll env p user).errors := by
  rw [assignAll_errors]
  apply List.mem_append_right
  rw [List.mem_filterMap]
  refine ⟨(k, v), hmem, ?_⟩
  have : Specs.find p.specs k = none := by
    cases h : Specs.find p.specs k with
    | none => rfl
    | some s =>
      exfalso; apply hk
      obtain ⟨hs, hkey⟩ := find_some h
      exact List.mem_map.mpr ⟨s, hs, hkey⟩
  simp [verdict, this, errOf]

/-- `AssignOnlyEnforcedUserValues` (specification keys distinct, any `Keys()` order): specified keys
behave as under `AssignAllUserValues`; **unsupported user keys are ignored by design** — no entry,
no error. -/
theorem assignEnforced_sound (env : Env) (p : Params) (user : List (String × Value))
    (hn : nodupKeys p.specs.keys = true) :
    (∀ k, (assignEnforced env p user).get k =
        if k ∈ p.specs.keys then
          match getKey user k with
          | some v => if verdict env p.specs k v = .valid then some v else p.get k
          | none => p.get k
        else p.get k) ∧
    (assignEnforced env p user).errors =
      p.errors ++ p.specs.keys.filterMap (fun k => match getKey user k with
        | some v => errOf (verdict env p.specs k v) k
        | none => none) :=
  ⟨foldl_enforceOne_get env user _ p hn, foldl_enforceOne_errors env user _ p⟩

/-- under `AssignOnlyEnforcedUserValues` no `unsupported` error is ever produced, and every new
error names a specified key whose user value its validator rejected -/
theorem assignEnforced_ignores_unsupported (env : Env) (p : Params) (user : List (String × Value)) :
    ∃ extra, (assignEnforced env p user).errors = p.errors ++ extra ∧
      ∀ e ∈ extra, ∃ k v, e = .invalid k ∧ k ∈ p.specs.keys ∧ getKey user k = some v ∧
        verdict env p.specs k v = .invalid := by
  refine ⟨_, foldl_enforceOne_errors env user _ p, ?_⟩
  intro e he
  rw [List.mem_filterMap] at he
  obtain ⟨k, hk, hek⟩ := he
  cases hu : getKey user k with
  | none => simp [hu] at hek
  | some v =>
    simp only [hu] at hek
    have hfind : ∃ s, Specs.find p.specs k = some s := by
      cases h : Specs.find p.specs k with
      | none => exact absurd hk (find_none h)
      | some s => exact ⟨s, rfl⟩
    obtain ⟨s, hs⟩ := hfind
    cases hv : verdict env p.specs k v with
    | valid => simp [hv, errOf] at hek
    | invalid =>
      simp only [hv, errOf, Option.some.injEq] at hek
      exact ⟨k, v, hek.symm, hk, hu, hv⟩
    | unsupported =>
      exfalso
      have := ((verdict_iff env p.specs k v).2).mp hv
      rw [hs] at this; cases this

/-- Go iterates the user map in arbitrary order: the resulting map does not depend on it and the
errors are the same up to order -/
theorem assignAll_order_independent (env : Env) (p : Params) (u₁ u₂ : List (String × Value))
    (hp : u₁.Perm u₂) (h₁ : nodupKeys (u₁.map (·.1)) = true) (h₂ : nodupKeys (u₂.map (·.1)) = true) :
    (∀ k, (assignAll env p u₁).get k = (assignAll env p u₂).get k) ∧
    (assignAll env p u₁).errors.Perm (assignAll env p u₂).errors := by
  have hget : ∀ k, getKey u₁ k = getKey u₂ k := by
    intro k
    cases h : getKey u₁ k with
    | some v => exact (getKey_of_mem_nodup h₂ (hp.mem_iff.mp (getKey_some_mem h))).symm
    | none =>
      cases h' : getKey u₂ k with
      | none => rfl
      | some v =>
        have := getKey_of_mem_nodup h₁ (hp.mem_iff.mpr (getKey_some_mem h'))
        rw [h] at this; cases this
  constructor
  · intro k
    rw [assignAll_get env p u₁ h₁ k, assignAll_get env p u₂ h₂ k, hget k]
  · rw [assignAll_errors, assignAll_errors]
    exact List.Perm.append_left _ (hp.filterMap _)

/-- `Keys()` returns the specification keys in arbitrary order as well: whatever order `ks` the loop
of `AssignOnlyEnforcedUserValues` runs in, the resulting map is the same and the errors are the same
up to order -/
theorem assignEnforced_order_independent (env : Env) (p : Params) (user : List (String × Value))
    (ks : List String) (hp : ks.Perm p.specs.keys) (hn : nodupKeys p.specs.keys = true) :
    (∀ k, (ks.foldl (enforceOne env user) p).get k = (assignEnforced env p user).get k) ∧
    (ks.foldl (enforceOne env user) p).errors.Perm (assignEnforced env p user).errors := by
  have hn' : nodupKeys ks = true := (nodupKeys_iff ks).mpr (hp.nodup_iff.mpr ((nodupKeys_iff _).mp hn))
  constructor
  · intro k
    unfold assignEnforced
    rw [foldl_enforceOne_get env user ks p hn' k, foldl_enforceOne_get env user _ p hn k]
    by_cases hk : k ∈ ks
    · simp [hk, hp.mem_iff.mp hk]
    · have : k ∉ Specs.keys p.specs := fun h => hk (hp.mem_iff.mpr h)
      simp [hk, this]
  · unfold assignEnforced
    rw [foldl_enforceOne_errors, foldl_enforceOne_errors]
    exact List.Perm.append_left _ (hp.filterMap _)

/-- **`assign_sound`** in one statement, for one user entry offered to either loop: by verdict,
the value replaces the stored one and no error is added; or nothing is stored and exactly one error
of the matching class is appended. -/
theorem assign_sound (env : Env) (p : Params) (k : String) (v : Value) :
    match verdict env p.specs k v with
    | .valid => (assignOne env p (k, v)).get k = some v ∧ (assignOne env p (k, v)).errors = p.errors
    | .invalid => (assignOne env p (k, v)).map = p.map ∧ (assignOne env p (k, v)).errors = p.errors ++ [.invalid k]
    | .unsupported => (assignOne env p (k, v)).map = p.map ∧ (assignOne env p (k, v)).errors = p.errors ++ [.unsupported k] := by
  cases h : verdict env p.specs k v
  · exact ⟨(assign_sound_valid env p k v h).1, (assign_sound_valid env p k v h).2.1⟩
  · exact assign_sound_invalid env p k v h
  · exact assign_sound_unsupported env p k v h

/-! ## `well_typed_invariant` -/

/-- a freshly created parameter set of a well-formed table is `WT` -/
theorem createDefaults_wt (env : Env) (specs : Specs) (hwf : specsWellFormed env specs = true) :
    WT env (createDefaults specs) := by
  rw [specsWellFormed_iff] at hwf
  exact createDefaults_inv hwf.1 hwf.2

/-- one `SetParameters` keeps `WT` (whatever the user map contains) -/
theorem setParameters_wt (env : Env) (c : Component) (p : Params) (user : List (String × Value))
    (h : WT env p) : WT env (setParameters env c p user) :=
  setParameters_inv env (fun _ _ hv => hv) c p user h

/-- **`well_typed_invariant`**: for a well-formed specification table, after ANY sequence of user maps
(each of any shape: wrong types, out-of-range values, unknown keys, duplicates) every entry of the
parameter map satisfies its specification's validator and every non-optional key is present. -/
theorem well_typed_invariant (env : Env) (c : Component) (hwf : specsWellFormed env c.specs = true)
    (users : List (List (String × Value))) : WT env (afterSequence env c users) :=
  foldl_setParameters_inv env (fun _ _ hv => hv) c users _ (createDefaults_wt env c.specs hwf)

/-- the type-level invariant needs only the weaker `specsTypeWellFormed` -/
theorem well_typed_invariant_types (env : Env) (c : Component) (hwf : specsTypeWellFormed c.specs = true)
    (users : List (List (String × Value))) : WTy (afterSequence env c users) := by
  rw [specsTypeWellFormed_iff] at hwf
  exact foldl_setParameters_inv env (fun s v hv => validates_hasTy env s.validator v hv) c users _
    (createDefaults_inv hwf.1 hwf.2)

/-- the specification table never changes -/
theorem afterSequence_specs (env : Env) (c : Component) (users : List (List (String × Value))) :
    (afterSequence env c users).specs = c.specs :=
  foldl_setParameters_specs env c users _

/-! ## `getter_total` -/

/-- **`getter_total`**: in a type-correct parameter set the typed getter of the declared type of a
specified key succeeds whenever the key is non-optional or `HasEntry` holds -/
theorem getter_total (p : Params) (h : WTy p) (k : String) (s : Spec) (τ : Ty)
    (hs : p.specs.find k = some s) (hτ : s.validator.ty = τ)
    (hpresent : s.optional = false ∨ p.hasEntry k = true) :
    p.getterOk k τ = true := by
  have hv : ∃ v, p.get k = some v := by
    rcases hpresent with ho | he
    · exact h.2 k s hs ho
    · unfold Params.hasEntry at he
      cases hg : p.get k with
      | none => rw [hg] at he; cases he
      | some v => exact ⟨v, rfl⟩
  obtain ⟨v, hv⟩ := hv
  obtain ⟨s', hs', hty⟩ := h.1 k v hv
  rw [hs] at hs'; cases hs'
  unfold Params.getterOk
  rw [hv]
  show v.hasTy τ = true
  rw [← hτ]; exact hty

/-- the four Go getters, as `≠ none` (none = run-time panic of the type assertion) -/
theorem getters_total (p : Params) (h : WTy p) (k : String) (s : Spec)
    (hs : p.specs.find k = some s) (hpresent : s.optional = false ∨ p.hasEntry k = true) :
    (s.validator.ty = .int → p.getInt64 k ≠ none) ∧
    (s.validator.ty = .float → p.getFloat64 k ≠ none) ∧
    (s.validator.ty = .str → p.getString k ≠ none) ∧
    (s.validator.ty = .bool → p.getBoolean k ≠ none) := by
  refine ⟨fun hτ => ?_, fun hτ => ?_, fun hτ => ?_, fun hτ => ?_⟩ <;>
  · have := getter_total p h k s _ hs hτ hpresent
    unfold Params.getterOk at this
    simp only [Params.getInt64, Params.getFloat64, Params.getString, Params.getBoolean]
    cases hg : p.get k with
    | none => rw [hg] at this; cases this
    | some v => rw [hg] at this; cases v <;> simp_all [Value.hasTy]

/-! ## "a component that reports no parameter errors never fails later on type or range" -/

/-- After any sequence of `SetParameters` calls on a component whose table is type-well-formed, no
typed read of a specified key with its declared type can panic (errors reported or not). -/
theorem no_later_type_failure (env : Env) (c : Component) (hwf : specsTypeWellFormed c.specs = true)
    (users : List (List (String × Value))) (k : String) (s : Spec)
    (hs : c.specs.find k = some s)
    (hpresent : s.optional = false ∨ (afterSequence env c users).hasEntry k = true) :
    (afterSequence env c users).getterOk k s.validator.ty = true :=
  getter_total _ (well_typed_invariant_types env c hwf users) k s _
    (by rw [afterSequence_specs]; exact hs) rfl hpresent

/-- … and for a well-formed table the value read is in the range the specification states. -/
theorem no_later_range_failure (env : Env) (c : Component) (hwf : specsWellFormed env c.specs = true)
    (users : List (List (String × Value))) (k : String) (s : Spec) (v : Value)
    (hs : c.specs.find k = some s) (hv : (afterSequence env c users).get k = some v) :
    validates env s.validator v = true := by
  obtain ⟨s', hs', hsat⟩ := (well_typed_invariant env c hwf users).1 k v hv
  rw [afterSequence_specs, hs] at hs'
  cases hs'
  exact hsat

/-- FULL CLAUSE (not proved, false on the code): "a component that reports no parameter errors never
fails later on parameter type or range", i.e. for every consumer of the parameter set,
`(afterSequence env c users).errors = [] → the component runs without a parameter-caused failure`.

PROVED PART: every specified non-optional key reads back with its declared type and a value inside
the range its specification STATES — with or without reported errors (the "no errors" premise is not
needed for this part and is therefore not a hypothesis).

MISSING: that the stated range is as narrow as the code consuming the value needs.  Refuted on the
code by D15 (unbounded `IsDecimal` keys accept overflow-sized values, `RoundFloat` panics later),
D18 (an accepted `Maximum…` limit the data cannot meet ends in the "Attempt limit reached" panic) and
D23 (no / unusable `DataSourcePath`: no error, failure at `Initialise`); see the refuting examples
`FullClause` at the end of this file.  Needs `specsWellFormed`, hence does not apply to the catchment
table: use `perkey_stated_ranges_partial` there. -/
theorem no_errors_no_later_failure_stated_ranges_partial (env : Env) (c : Component)
    (hwf : specsWellFormed env c.specs = true) (users : List (List (String × Value)))
    (k : String) (s : Spec) (hs : c.specs.find k = some s) (ho : s.optional = false) :
    ∃ v, (afterSequence env c users).get k = some v ∧ v.hasTy s.validator.ty = true ∧
      validates env s.validator v = true := by
  have hwt := well_typed_invariant env c hwf users
  obtain ⟨v, hv⟩ := hwt.2 k s (by rw [afterSequence_specs]; exact hs) ho
  have := no_later_range_failure env c hwf users k s v hs hv
  exact ⟨v, hv, validates_hasTy env _ _ this, this⟩

/-- former name of `no_errors_no_later_failure_stated_ranges_partial`, kept because other files cite
it; the premise `_hnoerr` is not needed (see there) -/
theorem no_errors_no_later_failure (env : Env) (c : Component) (hwf : specsWellFormed env c.specs = true)
    (users : List (List (String × Value)))
    (_hnoerr : (afterSequence env c users).errors = [])
    (k : String) (s : Spec) (hs : c.specs.find k = some s) (ho : s.optional = false) :
    ∃ v, (afterSequence env c users).get k = some v ∧ v.hasTy s.validator.ty = true ∧
      validates env s.validator v = true :=
  no_errors_no_later_failure_stated_ranges_partial env c hwf users k s hs ho

/-! ## the same, per key: no table-global hypothesis

`specsWellFormed` is a statement about the whole table; one ill-formed entry (the catchment model's
`DataSourcePath`) makes it false and the theorems above silent about every other key of that table.
The statements below need only distinct keys. -/

/-- `PerKey`: every stored entry satisfies its specification's validator **or is the untouched default
of a non-optional specification**; every non-optional specification has an entry. -/
def PerKey (env : Env) (p : Params) : Prop :=
  Inv (fun s v => validates env s.validator v = true ∨ (s.optional = false ∧ v = s.default)) p

/-- **`perkey_invariant`**: for ANY table with distinct keys (well formed or not), after any sequence
of user maps every stored entry is accepted by its validator or is still its specification's default. -/
theorem perkey_invariant (env : Env) (c : Component) (hn : nodupKeys c.specs.keys = true)
    (users : List (List (String × Value))) : PerKey env (afterSequence env c users) :=
  foldl_setParameters_inv env (fun _ _ hv => Or.inl hv) c users _
    (createDefaults_inv hn (fun _ _ ho => Or.inr ⟨ho, rfl⟩))

/-- **`perkey_range`**: a key whose OWN specification is well formed reads back inside the range that
specification states, whatever the other specifications of the table are. -/
theorem perkey_range (env : Env) (c : Component) (hn : nodupKeys c.specs.keys = true)
    (users : List (List (String × Value))) (k : String) (s : Spec) (v : Value)
    (hs : c.specs.find k = some s) (hwf : specWellFormed env s = true)
    (hv : (afterSequence env c users).get k = some v) :
    validates env s.validator v = true := by
  obtain ⟨s', hs', h⟩ := (perkey_invariant env c hn users).1 k v hv
  rw [afterSequence_specs, hs] at hs'
  cases hs'
  rcases h with h | ⟨ho, hd⟩
  · exact h
  · subst hd
    unfold specWellFormed at hwf
    simp [ho] at hwf
    exact hwf

/-- per-key form of `no_errors_no_later_failure_stated_ranges_partial` (same FULL CLAUSE, same missing
part): a non-optional key whose own specification is well formed is present, has its declared type
and lies in its stated range after any history.  This is the statement that applies to the 16
catchment keys other than `DataSourcePath`. -/
theorem perkey_stated_ranges_partial (env : Env) (c : Component) (hn : nodupKeys c.specs.keys = true)
    (users : List (List (String × Value)))
    (k : String) (s : Spec) (hs : c.specs.find k = some s) (hwf : specWellFormed env s = true)
    (ho : s.optional = false) :
    ∃ v, (afterSequence env c users).get k = some v ∧ v.hasTy s.validator.ty = true ∧
      validates env s.validator v = true := by
  obtain ⟨v, hv⟩ := (perkey_invariant env c hn users).2 k s (by rw [afterSequence_specs]; exact hs) ho
  have := perkey_range env c hn users k s v hs hwf hv
  exact ⟨v, hv, validates_hasTy env _ _ this, this⟩

/-- the table-global theorem is the per-key one applied to every key -/
theorem specsWellFormed_iff_perkey (env : Env) (specs : Specs) :
    specsWellFormed env specs = true ↔
      nodupKeys specs.keys = true ∧ ∀ s, s ∈ specs → specWellFormed env s = true := by
  simp [specsWellFormed, List.all_eq_true]

/-! ## whole histories: what a key holds, which errors are there -/

/-- **`afterSequence_get`**: after any history of user maps (each a Go map: distinct keys) a key holds
the value of the LATEST map that offered a value its specification accepts; if no map did, the default
of its non-optional specification; otherwise nothing.  Both assignment modes. -/
theorem afterSequence_get (env : Env) (c : Component) (hn : nodupKeys c.specs.keys = true)
    (users : List (List (String × Value))) (hu : ∀ u ∈ users, nodupKeys (u.map (·.1)) = true)
    (k : String) :
    (afterSequence env c users).get k =
      (users.reverse.findSome? (validOffer env c.specs k)).or (defaultEntry c.specs k) := by
  unfold afterSequence
  rw [foldl_setParameters_get env c users _ rfl hn hu k, createDefaults_get hn]

/-- **`setParameters_errors_prefix`**: one `SetParameters` only appends to the error list … -/
theorem setParameters_errors_prefix (env : Env) (c : Component) (p : Params) (u : List (String × Value)) :
    ∃ extra, (setParameters env c p u).errors = p.errors ++ extra :=
  setParameters_errors_prefix' env c p u

/-- … so over a history errors only ever grow: what was reported after `users` is a prefix of what is
reported after `users ++ more` (nothing clears `validationErrors`). -/
theorem afterSequence_errors_prefix (env : Env) (c : Component) (users more : List (List (String × Value))) :
    ∃ extra, (afterSequence env c (users ++ more)).errors = (afterSequence env c users).errors ++ extra := by
  unfold afterSequence
  rw [List.foldl_append]
  exact foldl_setParameters_errors_prefix env c more _

/-- **`afterSequence_reports_unsupported`**: for an `AssignAllUserValues` component (the three models),
every unsupported key of every map of the history is in the final error list. -/
theorem afterSequence_reports_unsupported (env : Env) (c : Component) (hm : c.mode = .all)
    (users : List (List (String × Value))) (u : List (String × Value)) (hu : u ∈ users)
    (k : String) (v : Value) (hmem : (k, v) ∈ u) (hk : k ∉ c.specs.keys) :
    Err.unsupported k ∈ (afterSequence env c users).errors :=
  foldl_setParameters_reports_unsupported env c hm users _ rfl u hu k v hmem hk

/-! ## fan-out: annealer → explorer → coolant

One user map is handed down the chain (`fanOut`); each component keeps its own table, map and error
list; `ParameterErrors()` merges the error lists (`mergedErrors`, `reportsErrors`).  The property names
the `SetParameters()` result as an observation point: it has to agree with `reportsErrors` of the whole
chain.  On the code as found it did not (own errors only; `nil` for two coolants) — finding
"SetParameters omits nested errors", checked directly by the `params` suite on every `set`. -/

/-- **`fanOut_sequence`**: over any history, every component of a chain evolves exactly as it would
alone under the same user maps — so every single-component theorem of this file (`perkey_invariant`,
`perkey_range`, `afterSequence_get`, `getter_total`, …) holds for each component of a composite. -/
theorem fanOut_sequence (users : List (List (String × Value))) (parts : List Part) :
    users.foldl fanOut parts =
      parts.map fun pt => { pt with p := users.foldl (setParameters pt.env pt.comp) pt.p } :=
  foldl_fanOut users parts

/-- **`fanOut_reports_invalid`**: a value offered for a key that ANY component of the chain specifies
and whose validator rejects it makes the composite report errors (nested components included: an
invalid `CoolingFactor` handed to an annealer is reported). -/
theorem fanOut_reports_invalid (parts : List Part) (user : List (String × Value)) (pt : Part)
    (hpt : pt ∈ parts) (k : String) (v : Value) (hoffer : getKey user k = some v)
    (hv : verdict pt.env pt.p.specs k v = .invalid) :
    reportsErrors (fanOut parts user) = true := by
  rw [reportsErrors_iff]
  refine ⟨pt.set user, List.mem_map.mpr ⟨pt, hpt, rfl⟩, ?_⟩
  exact List.ne_nil_of_mem (setParameters_reports_invalid pt.env pt.comp pt.p user k v hoffer hv)

/-- reported errors are never lost by a later `SetParameters` on the chain -/
theorem fanOut_errors_persist (parts : List Part) (user : List (String × Value))
    (h : reportsErrors parts = true) : reportsErrors (fanOut parts user) = true := by
  rw [reportsErrors_iff] at h ⊢
  obtain ⟨pt, hpt, hne⟩ := h
  refine ⟨pt.set user, List.mem_map.mpr ⟨pt, hpt, rfl⟩, ?_⟩
  obtain ⟨extra, he⟩ := setParameters_errors_prefix pt.env pt.comp pt.p user
  show (setParameters pt.env pt.comp pt.p user).errors ≠ []
  rw [he]
  intro h0
  exact hne (List.append_eq_nil_iff.mp h0).1

/-- the composite reports no errors exactly when no component of the chain holds one — in particular
not when only the head's own list is empty -/
theorem fanOut_silent_iff (parts : List Part) (user : List (String × Value)) :
    reportsErrors (fanOut parts user) = false ↔ ∀ pt ∈ parts, (pt.set user).p.errors = [] := by
  rw [← Bool.not_eq_true, reportsErrors_iff]
  constructor
  · intro h pt hpt
    apply Classical.byContradiction
    intro hne
    exact h ⟨pt.set user, List.mem_map.mpr ⟨pt, hpt, rfl⟩, hne⟩
  · rintro h ⟨pt', hpt', hne⟩
    obtain ⟨pt, hpt, rfl⟩ := List.mem_map.mp hpt'
    exact hne (h pt hpt)

/-- "no errors" is informative: under `AssignAllUserValues`, an error-free call means every user
entry is now in force (nothing was dropped silently). -/
theorem no_errors_all_user_values_in_force (env : Env) (p : Params) (user : List (String × Value))
    (hn : nodupKeys (user.map (·.1)) = true) (hp : p.errors = [])
    (hnoerr : (assignAll env p user).errors = []) (k : String) (v : Value) (hmem : (k, v) ∈ user) :
    (assignAll env p user).get k = some v := by
  rw [assignAll_get env p user hn k, getKey_of_mem_nodup hn hmem]
  rw [assignAll_errors, hp, List.nil_append] at hnoerr
  have : errOf (verdict env p.specs k v) k = none := by
    cases h : errOf (verdict env p.specs k v) k with
    | none => rfl
    | some e =>
      have : e ∈ user.filterMap (fun kv => errOf (verdict env p.specs kv.1 kv.2) kv.1) :=
        List.mem_filterMap.mpr ⟨(k, v), hmem, h⟩
      rw [hnoerr] at this; cases this
  cases hv : verdict env p.specs k v <;> simp_all [errOf]

/-- the component's own extra checks only ever append `message` errors and never touch the map -/
theorem post_check_only_adds_messages (env : Env) (post : Post) (p : Params) :
    (applyPost env post p).map = p.map ∧
    ∃ extra, (applyPost env post p).errors = p.errors ++ extra ∧ ∀ e ∈ extra, ∃ t, e = Err.message t :=
  ⟨applyPost_map env post p, applyPost_errors_prefix env post p⟩

/-! ## Non-vacuity and sanity examples (tests, labelled as such) -/

section Examples

def exEnv : Env := { readable := fun s => s == "data.csv", offers := fun s => s == "ObjectiveValue" }

/-- the Kirkpatrick coolant's table, as shipped -/
def exCoolant : Component :=
  { specs := [ { key := "StartingTemperature", validator := .nonNegativeDecimal, default := .float F64.zero, optional := false },
               { key := "CoolingFactor", validator := .decimalBetweenZeroAndOne, default := .float F64.one, optional := false } ],
    mode := .enforced, post := .none }

/-- a table shaped like the catchment model's (mode `.all`, an optional key, a post check, an unbounded
`IsDecimal` key) with the catchment's ill-formed default: `DataSourcePath` defaults to `""`, which its
own validator `IsReadableFile` rejects -/
def exPathSpec : Spec := { key := "DataSourcePath", validator := .readableFile, default := .str "", optional := false }

/-- `YearsOfErosion` as shipped since /repo 40146da: `validateIsYearsOfErosion` = inclusive bounds 1..MaxInt64 -/
def exYearsSpec : Spec := { key := "YearsOfErosion", validator := .integerBounds 1 maxInt64, default := .int 100, optional := false }

/-- `WaterDensity` as shipped: `IsDecimal` (any float64), default 1.0 -/
def exDensitySpec : Spec := { key := "WaterDensity", validator := .decimal, default := .float F64.one, optional := false }

def exLimitSpec : Spec := { key := "MaximumImplementationCost", validator := .nonNegativeDecimal, default := .null, optional := true }

def exModel : Component :=
  { specs := [ exPathSpec, exYearsSpec, exDensitySpec, exLimitSpec ],
    mode := .all, post := .atMostOneOf ["MaximumImplementationCost"] }

/-- the same table with the defect repaired (a readable default): mode `.all`, an optional key and a
post check, and well formed as a whole -/
def exModelRepaired : Component :=
  { exModel with specs := [ { exPathSpec with default := .str "data.csv" }, exYearsSpec, exDensitySpec, exLimitSpec ] }

-- the hypotheses of the per-table theorems are satisfiable (an `enforced` component and an `all`
-- component with an optional key and a post check) …
example : specsWellFormed exEnv exCoolant.specs = true := by decide
example : specsWellFormed exEnv exModelRepaired.specs = true := by decide
-- … and not trivially so: the catchment-like table fails them because of the empty default path,
example : specsWellFormed exEnv exModel.specs = false := by decide
-- while it is still type-well-formed ("" is a string)
example : specsTypeWellFormed exModel.specs = true := by decide
-- the per-key theorems apply to that ill-formed table: its keys are distinct and three of its four
-- specifications are well formed on their own; `DataSourcePath` is the one that is not
example : nodupKeys exModel.specs.keys = true := by decide
example : specWellFormed exEnv exYearsSpec = true ∧ specWellFormed exEnv exDensitySpec = true ∧
    specWellFormed exEnv exLimitSpec = true ∧ specWellFormed exEnv exPathSpec = false := by decide
-- `perkey_range` instantiated on the ill-formed table (hypotheses discharged by `decide`/`rfl`)
example (users : List (List (String × Value))) (v : Value)
    (hv : (afterSequence exEnv exModel users).get "YearsOfErosion" = some v) :
    validates exEnv (.integerBounds 1 maxInt64) v = true :=
  perkey_range exEnv exModel (by decide) users "YearsOfErosion" exYearsSpec v rfl (by decide) hv

-- 0.5 = 0x3fe0000000000000 is accepted for CoolingFactor, 2.0 and an int64 1 are not
example : validates exEnv .decimalBetweenZeroAndOne (.float 0x3fe0000000000000) = true := by decide
example : validates exEnv .decimalBetweenZeroAndOne (.float 0x4000000000000000) = false := by decide
example : validates exEnv .decimalBetweenZeroAndOne (.int 1) = false := by decide
-- bounds are inclusive; -0.0 counts as 0; the next float above 1 is out
example : validates exEnv .decimalBetweenZeroAndOne (.float F64.one) = true := by decide
example : validates exEnv .decimalBetweenZeroAndOne (.float 0x8000000000000000) = true := by decide
example : validates exEnv .decimalBetweenZeroAndOne (.float 0x3ff0000000000001) = false := by decide
example : validates exEnv .decimalBetweenZeroAndOne (.float 0x8000000000000001) = false := by decide
-- +Inf is not a non-negative decimal (it exceeds MaxFloat64), NaN is (quirk)
example : validates exEnv .nonNegativeDecimal (.float 0x7ff0000000000000) = false := by decide
example : validates exEnv .nonNegativeDecimal (.float 0x7ff8000000000001) = true := by decide
-- `IsNonNegativeInteger` accepts 0 (this is why YearsOfErosion = 0 was accepted and divided by zero:
-- finding D15a, repaired by /repo 40146da); the validator the catchment model declares since then does not
example : validates exEnv .nonNegativeInteger (.int 0) = true := by decide
example : validates exEnv .nonNegativeInteger (.int (-1)) = false := by decide
example : validates exEnv exYearsSpec.validator (.int 0) = false := by decide
example : validates exEnv exYearsSpec.validator (.int 1) = true := by decide
example : validates exEnv exYearsSpec.validator (.int maxInt64) = true := by decide
example : validates exEnv .integer (.float 0x4000000000000000) = false := by decide

-- a valid value replaces the default, an invalid one leaves it and adds one error,
-- an unknown key is ignored in `enforced` mode …
example :
    let p := afterSequence exEnv exCoolant
      [[("CoolingFactor", .float 0x3fe0000000000000), ("StartingTemperature", .int 5), ("Bogus", .bool true)]]
    p.getFloat64 "CoolingFactor" = some 0x3fe0000000000000 ∧
    p.getFloat64 "StartingTemperature" = some F64.zero ∧
    p.errors = [.invalid "StartingTemperature"] ∧ p.hasEntry "Bogus" = false := by decide
-- … and reported in `all` mode; errors accumulate over a sequence of maps; YearsOfErosion = 0 is
-- rejected (the default 100 stays), a later valid 7 replaces it
example :
    let p := afterSequence exEnv exModel
      [[("Bogus", .bool true)], [("YearsOfErosion", .int 0), ("DataSourcePath", .str "data.csv")], [("YearsOfErosion", .int 7)],
       [("YearsOfErosion", .float F64.one)]]
    p.errors = [.unsupported "Bogus", .invalid "YearsOfErosion", .invalid "YearsOfErosion"] ∧ p.getInt64 "YearsOfErosion" = some 7 ∧
    p.getString "DataSourcePath" = some "data.csv" ∧ p.hasEntry "MaximumImplementationCost" = false := by decide
-- `afterSequence_get` on that history: the latest ACCEPTED offer (7, not the later float), the default
-- where nothing valid was offered, nothing for an optional key never offered
def exHistory : List (List (String × Value)) :=
  [[("Bogus", .bool true)], [("YearsOfErosion", .int 0), ("DataSourcePath", .str "data.csv")], [("YearsOfErosion", .int 7)],
   [("YearsOfErosion", .float F64.one)]]
example : ∀ u ∈ exHistory, nodupKeys (u.map (·.1)) = true := by decide
example : (exHistory.reverse.findSome? (validOffer exEnv exModel.specs "YearsOfErosion")).or
    (defaultEntry exModel.specs "YearsOfErosion") = some (.int 7) := rfl
example : (exHistory.reverse.findSome? (validOffer exEnv exModel.specs "WaterDensity")).or
    (defaultEntry exModel.specs "WaterDensity") = some (.float F64.one) := rfl
example : (exHistory.reverse.findSome? (validOffer exEnv exModel.specs "MaximumImplementationCost")).or
    (defaultEntry exModel.specs "MaximumImplementationCost") = none := rfl
example : (afterSequence exEnv exModel exHistory).get "YearsOfErosion" = some (.int 7) :=
  (afterSequence_get exEnv exModel (by decide) exHistory (by decide) "YearsOfErosion").trans rfl
-- `afterSequence_reports_unsupported`: hypotheses satisfiable (mode `.all`, an unknown key in the first map)
example : exModel.mode = .all ∧ "Bogus" ∉ exModel.specs.keys := by decide
-- the post check of the catchment-like table fires (a `message` error) and leaves the map alone
example :
    let spec2 : Spec := { exLimitSpec with key := "MaximumOpportunityCost" }
    let c : Component := { exModel with specs := exModel.specs ++ [spec2], post := .atMostOneOf ["MaximumImplementationCost", "MaximumOpportunityCost"] }
    let p := afterSequence exEnv c [[("MaximumImplementationCost", .float F64.one)], [("MaximumOpportunityCost", .float F64.one)]]
    p.errors = [.message "only-one-limit"] ∧ p.hasEntry "MaximumImplementationCost" = true ∧ p.hasEntry "MaximumOpportunityCost" = true := by decide
-- a getter of the wrong type is the Go panic
example : (createDefaults exCoolant.specs).getInt64 "CoolingFactor" = none := by decide
-- without well-formedness the invariant really fails: the empty default path is stored although
-- `IsReadableFile` rejects it (this is the shipped catchment table)
example : ¬ WT exEnv (createDefaults exModel.specs) := by
  intro h
  obtain ⟨s, hs, hsat⟩ := h.1 "DataSourcePath" (.str "") (by
    simp [createDefaults, defaultsOf, Params.get, getKey, exModel, exPathSpec])
  have : s = exPathSpec := by
    have : Specs.find exModel.specs "DataSourcePath" = some exPathSpec := by
      simp [Specs.find, exModel, exPathSpec]
    rw [show (createDefaults exModel.specs).specs = exModel.specs from rfl, this] at hs
    exact (Option.some.inj hs).symm
  subst this
  revert hsat
  unfold Sat
  decide

-- fan-out: an annealer-like head (one integer key) over the Kirkpatrick coolant's table; an invalid
-- CoolingFactor leaves the head's OWN error list empty (what `SetParameters` returned on the code as
-- found) while the chain reports an error (what `ParameterErrors()` says, and `Build()` must see)
def exAnnealer : Component :=
  { specs := [ { key := "MaximumIterations", validator := .nonNegativeInteger, default := .int 0, optional := false } ],
    mode := .enforced, post := .none }

def exChain : List Part :=
  [ { env := exEnv, comp := exAnnealer, p := createDefaults exAnnealer.specs },
    { env := exEnv, comp := exCoolant, p := createDefaults exCoolant.specs } ]

example :
    let after := fanOut exChain [("CoolingFactor", .float 0x4014000000000000), ("MaximumIterations", .int 10)]
    (after.map (·.p.errors)) = [[], [.invalid "CoolingFactor"]] ∧ reportsErrors after = true ∧
    (after.map (·.p.getInt64 "MaximumIterations")) = [some 10, none] ∧ reportsErrors exChain = false := by decide
-- hypotheses of `fanOut_reports_invalid` on that chain
example : verdict exEnv (createDefaults exCoolant.specs).specs "CoolingFactor" (.float 0x4014000000000000) = .invalid := by decide

/-! ### the full last clause is false: refuting examples

`FullClause env c needs`: "whenever component `c` reports no parameter errors after a history, every
value it holds is one its consumer can work with" (`needs k v`: what the code reading key `k` needs
of the value).  The theorems above prove it for `needs := the key's own validator` on well-formed
specifications.  It fails as soon as the consumer needs more than the specification states (D15, D18)
and for the ill-formed `DataSourcePath` specification even with `needs := the validator` (D23). -/

def FullClause (env : Env) (c : Component) (needs : String → Value → Bool) : Prop :=
  ∀ users, (afterSequence env c users).errors = [] →
    ∀ k v, (afterSequence env c users).get k = some v → needs k v = true

/-- what the consumer needs = what the key's own specification states -/
def statedRange (env : Env) (c : Component) (k : String) (v : Value) : Bool :=
  match c.specs.find k with
  | some s => validates env s.validator v
  | none => false

-- provable instance: a well-formed table, consumer content with the stated ranges
example : FullClause exEnv exModelRepaired (statedRange exEnv exModelRepaired) := by
  intro users _ k v hv
  obtain ⟨s, hs, hsat⟩ := (well_typed_invariant exEnv exModelRepaired (by decide) users).1 k v hv
  rw [afterSequence_specs] at hs
  simp only [statedRange, hs]
  exact hsat

-- D23: the shipped (ill-formed) table, no user value at all: no error is reported, yet the stored
-- `DataSourcePath` is not a readable file — the clause fails even for the stated range
example : ¬ FullClause exEnv exModel (statedRange exEnv exModel) := by
  intro h
  have := h [] (by decide) "DataSourcePath" (.str "") rfl
  revert this
  decide

/-- D15: the catchment model multiplies `WaterDensity * LocalAcceleration * …` and rounds the result,
which panics on ±Inf; so it needs (at least) magnitudes below 1e150 = 0x5f138d352e5096af.  As a
predicate on bit patterns: -/
def needsModerateMagnitude (k : String) (v : Value) : Bool :=
  match k, v with
  | "WaterDensity", .float f => !F64.lt 0x5f138d352e5096af f && !F64.lt f 0xdf138d352e5096af
  | _, _ => true

-- the reviewer's witness value 1e160 = 0x6126c2d4256ffcc3 is accepted without any error (`IsDecimal`
-- states no range at all), and is not a magnitude the consumer can work with
example : ¬ FullClause exEnv exModelRepaired needsModerateMagnitude := by
  intro h
  have := h [[("WaterDensity", .float 0x6126c2d4256ffcc3)]] (by decide) "WaterDensity" (.float 0x6126c2d4256ffcc3) rfl
  revert this
  decide

/-- D18: an accepted `Maximum…` limit must be attainable on the data set (here: at least 5.0 =
0x4014000000000000, standing for the cheapest attainable cost); `IsNonNegativeDecimal` states only `≥ 0` -/
def needsAttainableLimit (k : String) (v : Value) : Bool :=
  match k, v with
  | "MaximumImplementationCost", .float f => !F64.lt f 0x4014000000000000
  | _, _ => true

example : ¬ FullClause exEnv exModelRepaired needsAttainableLimit := by
  intro h
  have := h [[("MaximumImplementationCost", .float F64.zero)]] (by decide) "MaximumImplementationCost" (.float F64.zero) rfl
  revert this
  decide

end Examples

end Crem.Params
