import Crem.Proofs.BoolArchive
import Crem.Proofs.ActionOrder
/-!
# C09 — action-set encodings are canonical, lossless and portable

Property theorems about the model of `pkg/archive/BooleanArchive.go`
(`Crem/Model/BoolArchive.lean`) and of the action order of a model instance
(`Crem/Model/ActionOrder.lean`).  All sizes (not only 1..200; in particular sizes
that are not multiples of 64 and sizes above 64), all bit patterns, all
histories of `SetValue` / `Value` (natural-number and Go `int` indices, negative ones
included) / `Encoding` / `Decode` (every text, except the *partially written* failing
`Decode` characterised by `validOp_false_iff`: more than 64 entries, first entry good, a
later one bad), all gathering orders.  Every `theorem` in this file is audited by
`./check C09` (`#print axioms`).  "Same decision-variable values" after a transfer is the
composition with C01 in `Properties/Compose.lean` (`saved_row_is_run_valuation`, audited by
`./check C09` as well).

Reading guide: `encode` / `decode n` are the abstract spec on `List Bool`;
`Archive` with `setValue`, `value`, `encoding`, `decodeC`, `isEquivalentTo` is the
transcription of the Go type; `absBits a` is the list of booleans a concrete archive
holds; `WF a` is the invariant (word count, unused high bits of the last word
clear, cached text empty or current).
-/
namespace Crem.BoolArchive

/-! ## hex words -/

/-- `ParseUint(·,16,64)` reads back what `%X` prints, for every `uint64` -/
theorem parseHex_toHex (n : Nat) (h : n < 2 ^ 64) : parseHex (toHex n) = .ok n :=
  parseHex_toHex' n h

/-! ## the spec: lossless and canonical, every size -/

/-- lossless: decoding the encoding of any `n ≥ 1` booleans gives them back —
every `n`, multiples of 64 or not, above 64 or not -/
theorem decode_encode (n : Nat) (bs : List Bool) (hn : 1 ≤ n) (hl : bs.length = n) :
    decode n (encode bs) = .ok bs :=
  decode_encode' n bs hn hl

/-- canonical: two action sets of the same scenario (equal length) have equal encodings
exactly when they are equal -/
theorem encode_injective (a b : List Bool) (hl : a.length = b.length) :
    encode a = encode b ↔ a = b :=
  ⟨encode_injective' a b hl, fun h => by rw [h]⟩

/-! ## the Go data structure refines the spec -/

/-- for every sequence of `SetValue` / `Value` (index a natural number or any Go `int`) /
`Encoding` / `Decode` calls on a fresh archive of any size, every answer of the concrete model
(`+mask`/`-mask` words, memoised text, overwrite-then-clear decode, panics on `index >= size`, the
silent no-op on indices `-63..-1`) is the answer of the spec.  `Decode` arguments: every text the spec
accepts AND every failing text (wrong entry count, bad first entry, anything at all for sizes up to 64)
except a partial write (`validOp`, characterised exactly by `validOp_false_iff`) -/
theorem refines (n : Nat) (ops : List Op) (hv : ∀ op ∈ ops, validOp n op = true) :
    runC (new n) ops = runA (List.replicate n false) ops :=
  runC_eq_runA (new n) _ (sim_new n) ops (by simpa using hv)

/-- the same from any well-formed archive (e.g. one produced by `ModelCompressor.Compress`) -/
theorem refines_from (a : Archive) (h : WF a) (ops : List Op)
    (hv : ∀ op ∈ ops, validOp a.size op = true) :
    runC a ops = runA (absBits a) ops :=
  runC_eq_runA a _ ⟨h, rfl⟩ ops (by simpa using hv)

/-- the inductive part of `refines`: after any such history the archive still has the right
number of words, its unused high bits are clear, it holds what the spec holds, and the
memoised text is either absent or the encoding of the *current* content (cache coherence:
no stale text can be returned) -/
theorem invariant_reachable (n : Nat) (ops : List Op) (hv : ∀ op ∈ ops, validOp n op = true) :
    let a := execC (new n) ops
    WF a ∧ absBits a = execA (List.replicate n false) ops ∧
      (a.cache = [] ∨ a.cache = encode (absBits a)) := by
  have h := sim_exec (new n) _ (sim_new n) ops (by simpa using hv)
  refine ⟨h.1, h.2, ?_⟩
  rcases h.1.cache with hc | hc
  · exact Or.inl hc
  · exact Or.inr (by rw [hc, encodeLoop_eq_encode _ h.1.len h.1.high])

/-! ### failing `Decode`s: which are inside the refinement, and what the others leave behind -/

/-- for archives of at most 64 entries (one word: every dataset shipped with crem) NO operation is
excluded: `refines`, `refines_from` and `invariant_reachable` hold for every history whatsoever -/
theorem validOp_of_le_64 (n : Nat) (hn : n ≤ 64) (op : Op) : validOp n op = true := by
  cases op <;> simp [validOp, partialWrite_false_of_le n hn]

/-- the excluded operations, exactly: a `Decode` whose text has the right number of entries, at least
two of them, whose first entry parses and one of whose later entries does not.  In particular the
archive has more than 64 entries -/
theorem validOp_false_iff (n : Nat) (op : Op) :
    validOp n op = false ↔
      ∃ t e e' es, op = .decode t ∧ splitOn ':' t = e :: e' :: es ∧ es.length + 2 = nWords n ∧
        (∃ v, parseHex e = .ok v) ∧ (∃ err, parseAll (e' :: es) = .error err) := by
  constructor
  · intro h
    cases op with
    | decode t =>
      refine ⟨t, ?_⟩
      simp only [validOp, partialWrite, Bool.not_eq_false'] at h
      split at h
      · rename_i e e' es hsp
        simp only [Bool.and_eq_true, decide_eq_true_eq, Bool.not_eq_true'] at h
        refine ⟨e, e', es, rfl, hsp, by simpa using h.1.1, ?_, ?_⟩
        · cases hp : parseHex e with
          | ok v => exact ⟨v, rfl⟩
          | error err => simp [hp, isOk] at h
        · cases hq : parseAll (e' :: es) with
          | ok vs => simp [hq, isOk] at h
          | error err => exact ⟨err, rfl⟩
      · cases h
    | _ => simp [validOp] at h
  · rintro ⟨t, e, e', es, rfl, hsp, hlen, ⟨v, hp⟩, ⟨err, hq⟩⟩
    simp [validOp, partialWrite, hsp, hp, hq, isOk, hlen]

theorem validOp_false_size (n : Nat) (op : Op) (h : validOp n op = false) : 64 < n := by
  rcases Nat.lt_or_ge 64 n with h' | h'
  · exact h'
  · rw [validOp_of_le_64 n h' op] at h; cases h

/-- a failing `Decode` inside the refinement returns its error and leaves the archive — words, size
and memoised text — exactly as it was (count error, bad first entry, any failure for sizes ≤ 64) -/
theorem failed_decode_unchanged (a : Archive) (hl : a.words.length = nWords a.size) (t : List Char)
    (hv : validOp a.size (.decode t) = true) (hf : (decodeC a t).2 ≠ none) : (decodeC a t).1 = a :=
  decodeC_fail_unchanged a hl t (by simpa [validOp] using hv) hf

/-- what EVERY failing `Decode` keeps, the excluded partial writes included: the size, the word
count, every entry at or above `size` clear (two thirds of `WF`), the last word, and the memoised text.
So the only damage of a partial write is: some words in front of the bad entry hold the new text's
values and the memoised text (if any) still describes the old ones -/
theorem failed_decode_keeps_len_high (a : Archive) (h : WF a) (t : List Char)
    (hf : (decodeC a t).2 ≠ none) :
    let a' := (decodeC a t).1
    a'.size = a.size ∧ a'.words.length = nWords a'.size ∧
    (∀ i, a'.size ≤ i → bitAt a'.words i = false) ∧ a'.cache = a.cache ∧
    a'.words.getD (a.words.length - 1) 0#64 = a.words.getD (a.words.length - 1) 0#64 := by
  obtain ⟨p1, p2, p3, p4, p5⟩ := decodeC_fail_props a h.len t hf
  refine ⟨p1, by rw [p2, p1, h.len], ?_, p3, p5 _ (by omega)⟩
  intro i hi
  rw [p1] at hi
  rw [p4 i hi, h.high i hi]

/-- … and that damage does not outlive the next successful mutation: after ANY failing `Decode` (partial
writes included) a successful `SetValue` or a successful `Decode` re-establishes the whole invariant,
and a successful `Decode` yields exactly what the spec decodes -/
theorem failed_decode_recovers (a : Archive) (h : WF a) (t : List Char) (hf : (decodeC a t).2 ≠ none) :
    let a' := (decodeC a t).1
    (∀ i v, i < a.size → ∃ a'', setValue a' i v = some a'' ∧ WF a'') ∧
    (∀ t' bs, decode a.size t' = .ok bs →
      (decodeC a' t').2 = none ∧ WF (decodeC a' t').1 ∧ absBits (decodeC a' t').1 = bs) := by
  obtain ⟨k1, k2, k3, _, _⟩ := failed_decode_keeps_len_high a h t hf
  constructor
  · intro i v hi
    have hi' : i < (decodeC a t).1.size := by rw [k1]; exact hi
    exact ⟨_, setValue_some _ i v hi', wf_setValue_raw _ k2 k3 i v hi'⟩
  · intro t' bs hd
    exact decodeC_ok_raw_wf _ k2 t' bs (by rw [k1]; exact hd)

/-- `Encoding()` of a well-formed archive is the canonical text of its content, whatever
the cache holds -/
theorem encoding_eq_encode (a : Archive) (h : WF a) : (encoding a).2 = encode (absBits a) :=
  encoding_snd a h

/-- canonical, on the Go structure: two well-formed archives of the same size have equal
`Encoding()` exactly when they hold the same booleans, exactly when `IsEquivalentTo` -/
theorem encoding_eq_iff (a b : Archive) (ha : WF a) (hb : WF b) (hs : a.size = b.size) :
    ((encoding a).2 = (encoding b).2 ↔ absBits a = absBits b) ∧
    (isEquivalentTo a b = true ↔ absBits a = absBits b) := by
  rw [encoding_snd a ha, encoding_snd b hb, isEquivalentTo_iff' a b ha hb]
  exact ⟨encode_injective _ _ (by simp [hs]), by simp [hs]⟩

/-- a successful `Decode` clears every bit at or above `size`, whatever the text carried
there and whatever the words held before (only the word count is assumed) -/
theorem decode_clears_high_bits (a : Archive) (hl : a.words.length = nWords a.size)
    (text : List Char) (hok : (decodeC a text).2 = none) :
    ∀ i, a.size ≤ i → bitAt (decodeC a text).1.words i = false := by
  intro i hi
  rw [decodeC_class a hl] at hok
  cases hd : decode a.size text with
  | error e => simp [hd] at hok
  | ok bs =>
    obtain ⟨vs, hlen, hp, _⟩ := decode_ok_inv _ _ _ hd
    rw [(decodeC_ok_raw a hl text vs hlen hp).2.2.2.2 i, if_neg (by omega)]

/-- `Decode` succeeds exactly on the texts the spec accepts and otherwise reports the spec's
error class (wrong entry count / syntax / range, first error from the left) — every text -/
theorem decode_result_class (a : Archive) (hl : a.words.length = nWords a.size) (text : List Char) :
    (decodeC a text).2 = (match decode a.size text with | .ok _ => none | .error e => some e) :=
  decodeC_class a hl text

/-- `ModelCompressor`: compress the flags of one model instance, take the text, `Decode` it
into the compressed state of *any* other instance with the same number of actions,
`Decompress`: the flags handed to that instance are the original ones -/
theorem compress_decompress (flags other : List Bool) (h1 : 1 ≤ flags.length)
    (hl : other.length = flags.length) :
    ∃ a b, compress flags = some a ∧ compress other = some b ∧
      (decodeC b (encoding a).2).2 = none ∧
      decompress (decodeC b (encoding a).2).1 = some flags := by
  obtain ⟨a, ha1, ha2, ha3, ha4⟩ := compress_spec flags
  obtain ⟨b, hb1, hb2, hb3, _⟩ := compress_spec other
  refine ⟨a, b, ha1, hb1, ?_⟩
  have hd : decode b.size (encoding a).2 = .ok flags := by
    rw [encoding_snd a ha2, ha4, hb3, hl]
    exact decode_encode _ _ h1 rfl
  obtain ⟨d1, _, d3, _⟩ := decodeC_ok b hb2 _ _ hd
  exact ⟨d1, by rw [decompress_spec, d3]⟩

/-- `ModelCompressor.Compress` never panics, and the archive it returns is well-formed, has one
entry per action and holds exactly the flags (the glue between the archive theorems and the
model-level ones below) -/
theorem compress_correct (flags : List Bool) :
    ∃ a, compress flags = some a ∧ WF a ∧ a.size = flags.length ∧ absBits a = flags :=
  compress_spec flags

/-! Non-vacuity, sanity and the excluded points (tests, labelled as such). -/

-- 67 entries, entries 64 and 66 set: two words
example : encode (List.replicate 64 false ++ [true, false, true]) = "0:5".toList := by decide
example : decode 67 "0:5".toList = .ok (List.replicate 64 false ++ [true, false, true]) := by rfl
-- `1 ≤ n` is needed: the empty archive encodes to "" and `Decode("")` is a count error (1 entry ≠ 0)
example : encode [] = [] ∧ decode 0 (encode []) = .error .count := ⟨rfl, rfl⟩
-- equal lengths are needed: trailing `false` entries do not show in the text
example : encode [true, false, true] = encode [true, false, true, false, false] := by decide
-- lower case and leading zeros are accepted by `Decode`, and `Encoding()` then returns the canonical text
set_option maxRecDepth 8000 in
example : runC (new 8) [.decode "0ff".toList, .encoding] = [.done, .text "FF".toList] := by decide
-- bits beyond the size are dropped by `Decode`
set_option maxRecDepth 8000 in
example : runC (new 3) [.decode "FF".toList, .encoding, .value 2, .value 3]
    = [.done, .text "7".toList, .bool true, .panic] := by decide
-- a history exercising the cache: the text is recomputed after each mutation
set_option maxRecDepth 8000 in
example : runC (new 70) [.encoding, .setValue 69 true, .encoding, .setValue 0 true, .encoding,
      .setValue 69 false, .encoding]
    = [.text "0:0".toList, .done, .text "0:20".toList, .done, .text "1:20".toList, .done,
       .text "1:0".toList] := by decide
-- malformed text classes
set_option maxRecDepth 8000 in
example : (decodeC (new 70) "1".toList).2 = some .count ∧ (decodeC (new 70) "1:-1".toList).2 = some .syntax ∧
    (decodeC (new 70) "1:10000000000000000".toList).2 = some .range ∧
    (decodeC (new 70) "1:".toList).2 = some .syntax := by decide
-- failing `Decode`s INSIDE `refines`: wrong count, bad first entry, and (one word) any failure; the archive,
-- its memoised text included, is as before
set_option maxRecDepth 8000 in
example : (∀ op ∈ [Op.setValue 3 true, .encoding, .decode "zz".toList, .encoding, .value 3, .decode "1:2".toList,
      .encoding], validOp 13 op = true) ∧
    runC (new 13) [.setValue 3 true, .encoding, .decode "zz".toList, .encoding, .value 3, .decode "1:2".toList, .encoding]
      = [.done, .text "8".toList, .err .syntax, .text "8".toList, .bool true, .err .count, .text "8".toList] := by
  decide
set_option maxRecDepth 8000 in
example : validOp 70 (.decode "zz:1".toList) = true ∧ validOp 70 (.decode "1".toList) = true ∧
    validOp 70 (.decode "1:2:3".toList) = true ∧ validOp 70 (.decode "1:2".toList) = true ∧
    runC (new 70) [.setValue 69 true, .encoding, .decode "zz:1".toList, .encoding, .value 69]
      = [.done, .text "0:20".toList, .err .syntax, .text "0:20".toList, .bool true] := by decide
-- Go `int` indices: -1..-63 are silent no-ops on a non-empty archive (but the memoised text is dropped and
-- recomputed), <= -64 and anything on the empty archive panic
set_option maxRecDepth 8000 in
example : runC (new 70) [.setValueInt 69 true, .encoding, .setValueInt (-1) true, .valueInt (-63), .encoding,
      .setValueInt (-64) true, .valueInt (-64), .valueInt 70, .valueInt 69]
    = [.done, .text "0:20".toList, .done, .bool false, .text "0:20".toList, .panic, .panic, .panic, .bool true] ∧
    runC (new 0) [.setValueInt (-1) true, .valueInt (-1), .valueInt 0] = [.panic, .panic, .panic] := by decide
-- the excluded point of `refines` (more than 64 entries, right count, first entry good, a later one bad):
-- word 0 is already overwritten and the memoised text is kept, so `Encoding()` is stale.  Transcribed Go
-- behaviour, confirmed by the correspondence suite; reachable in crem only through
-- `SolutionPool.AddSolution`, which ignores the error of `Decode` (see C13), on models with > 64 actions.
set_option maxRecDepth 8000 in
example : validOp 70 (.decode "1:zz".toList) = false ∧
    runC (new 70) [.encoding, .decode "1:zz".toList, .encoding, .value 0]
      = [.text "0:0".toList, .err .syntax, .text "0:0".toList, .bool true] ∧
    runA (List.replicate 70 false) [.encoding, .decode "1:zz".toList, .encoding, .value 0]
      = [.text "0:0".toList, .err .syntax, .text "0:0".toList, .bool false] := by decide
-- … and the next successful mutation ends it (`failed_decode_recovers`)
set_option maxRecDepth 8000 in
example : runC (new 70) [.encoding, .decode "1:zz".toList, .setValue 1 true, .encoding]
    = [.text "0:0".toList, .err .syntax, .done, .text "3:0".toList] := by decide

end Crem.BoolArchive

namespace Crem.ActionOrder

/-! ## portability: the action order is a function of the data

Hypotheses of this section and where they come from (`assumptions` of `./check C09`):
* `hk : KeysDistinct g1` (hypothesis H) — decidable (`keysDistinct_iff`); the driver evaluates it on every
  action list gathered by a real model instance; for the catchment model it is a theorem about crem's
  derivation from any tables (`Properties/Derive.lean`: `derive_keysDistinct`, and `derive_acts_unique` is
  the analogue of `action_order_portable` over that model's own action type; audited by `./check C01`);
* `hg : g1.Perm g2` — the two instances gather the same actions (they load the same scenario), in whatever
  order their Go maps yield them;
* `hs1 hs2 h1 h2` — each instance's list is a sorted permutation of what it gathered: the contract of
  `sort.Sort` (trusted; checked by the suite on every `sort` line and every construction). -/

/-- if no two actions share (planning unit, type), a list has at most one sorted permutation:
whatever `sort.Sort` does internally, its result is determined -/
theorem sorted_perm_unique (l1 l2 : List Action) (hk : KeysDistinct l1) (hp : l1.Perm l2)
    (h1 : Sorted l1) (h2 : Sorted l2) : l1 = l2 :=
  sorted_perm_unique_keyInj l1 l2 (keyInj_of_keysDistinct l1 hk) hp h1 h2

/-- two model instances gather the same actions in different (map iteration) orders `g1`, `g2`
and sort them by any means that returns a sorted permutation: they end with the same list,
so index `i` means the same action in both -/
theorem action_order_portable (g1 g2 s1 s2 : List Action) (hk : KeysDistinct g1)
    (hg : g1.Perm g2) (hs1 : s1.Perm g1) (hs2 : s2.Perm g2) (h1 : Sorted s1) (h2 : Sorted s2) :
    s1 = s2 :=
  sorted_perm_unique_keyInj s1 s2 ((keyInj_of_keysDistinct g1 hk).perm hs1.symm)
    (hs1.trans (hg.trans hs2.symm)) h1 h2

/-- sorted permutations exist (the model's insertion sort is one), so the two theorems above
are not vacuous and `sortActions g` *is* the order every instance ends with -/
theorem sortActions_sorted (l : List Action) : Sorted (sortActions l) := sortActions_sorted' l

theorem sortActions_perm (l : List Action) : (sortActions l).Perm l := sortActions_perm' l

/-- hence the model's sort does not depend on the gathering order (instance of the theorem above,
showing all its hypotheses are jointly satisfiable for every pair of gathering orders) -/
theorem sortActions_order_independent (g1 g2 : List Action) (hk : KeysDistinct g1) (hg : g1.Perm g2) :
    sortActions g1 = sortActions g2 :=
  action_order_portable g1 g2 _ _ hk hg (sortActions_perm g1) (sortActions_perm g2)
    (sortActions_sorted g1) (sortActions_sorted g2)

/-- the hypothesis is decidable; the driver evaluates it on every extracted action list -/
theorem keysDistinct_iff (l : List Action) : keysDistinct l = true ↔ KeysDistinct l :=
  keysDistinct_iff' l

end Crem.ActionOrder

namespace Crem.BoolArchive
open Crem.ActionOrder

/-- the whole property on the model: instance 1 (gathering order `g1`, sorted `s1`) holds the
active set `act`; its encoding, decoded into the compressed state of an independently built
instance 2 (gathering order `g2`, sorted `s2`, any current flags `other`) and decompressed,
hands instance 2 exactly the flags of the same actions (`s2.map act`) -/
theorem encoding_portable (g1 g2 s1 s2 : List Action) (hk : KeysDistinct g1) (hg : g1.Perm g2)
    (hs1 : s1.Perm g1) (hs2 : s2.Perm g2) (h1 : Sorted s1) (h2 : Sorted s2)
    (act : Action → Bool) (hne : 1 ≤ g1.length) (other : List Bool) (hl : other.length = s2.length) :
    ∃ a b, compress (s1.map act) = some a ∧ compress other = some b ∧
      (decodeC b (encoding a).2).2 = none ∧
      decompress (decodeC b (encoding a).2).1 = some (s2.map act) := by
  have he := action_order_portable g1 g2 s1 s2 hk hg hs1 hs2 h1 h2
  subst he
  exact compress_decompress (s1.map act) other (by simp [hs1.length_eq]; omega) (by simp [hl])

/-- **canonical across instances**: two independently built instances of one scenario (gathering orders
`g1`, `g2`, each sorted by any means into `s1`, `s2`) holding the active sets `act1`, `act2`: their
`ModelCompressor.Compress(..).Encoding()` texts are equal exactly when the two active sets agree on every
action.  (`encode_injective`, `encoding_eq_iff` and `action_order_portable` composed.) -/
theorem canonical_across (g1 g2 s1 s2 : List Action) (hk : KeysDistinct g1) (hg : g1.Perm g2)
    (hs1 : s1.Perm g1) (hs2 : s2.Perm g2) (h1 : Sorted s1) (h2 : Sorted s2)
    (act1 act2 : Action → Bool) :
    ∃ a b, compress (s1.map act1) = some a ∧ compress (s2.map act2) = some b ∧
      ((encoding a).2 = (encoding b).2 ↔ ∀ x ∈ g1, act1 x = act2 x) ∧
      (isEquivalentTo a b = true ↔ ∀ x ∈ g1, act1 x = act2 x) := by
  have he := action_order_portable g1 g2 s1 s2 hk hg hs1 hs2 h1 h2
  subst he
  obtain ⟨a, ha1, ha2, ha3, ha4⟩ := compress_spec (s1.map act1)
  obtain ⟨b, hb1, hb2, hb3, hb4⟩ := compress_spec (s1.map act2)
  refine ⟨a, b, ha1, hb1, ?_⟩
  have hs : a.size = b.size := by simp [ha3, hb3]
  have hiff : absBits a = absBits b ↔ ∀ x ∈ g1, act1 x = act2 x := by
    rw [ha4, hb4]
    constructor
    · intro h x hx
      exact List.map_inj_left.mp h x (hs1.mem_iff.mpr hx)
    · intro h
      exact List.map_inj_left.mpr (fun x hx => h x (hs1.mem_iff.mp hx))
  rw [(encoding_eq_iff a b ha2 hb2 hs).1, (encoding_eq_iff a b ha2 hb2 hs).2]
  exact ⟨hiff, hiff⟩

/-- the text-free route (`Saver.deriveSolutionFrom`: the compressed state of the run's instance is
`Decompress`ed straight into the saver's own, independently built instance): that instance is handed the
flags of the same actions -/
theorem compressed_state_portable (g1 g2 s1 s2 : List Action) (hk : KeysDistinct g1) (hg : g1.Perm g2)
    (hs1 : s1.Perm g1) (hs2 : s2.Perm g2) (h1 : Sorted s1) (h2 : Sorted s2) (act : Action → Bool) :
    ∃ a, compress (s1.map act) = some a ∧ decompress a = some (s2.map act) := by
  have he := action_order_portable g1 g2 s1 s2 hk hg hs1 hs2 h1 h2
  subst he
  obtain ⟨a, ha1, _, _, ha4⟩ := compress_spec (s1.map act)
  exact ⟨a, ha1, by rw [decompress_spec, ha4]⟩

/-- non-canonical but valid texts (lower case, leading zeros, stray bits at or above the number of
actions) are portable as well: whatever text the spec reads as `bits`, decoded into the compressed state
of any instance and decompressed, hands that instance `bits`, and the instance's own text is then the
canonical `encode bits` -/
theorem any_valid_text_portable (other bits : List Bool) (text : List Char)
    (hd : decode other.length text = .ok bits) :
    ∃ b, compress other = some b ∧ (decodeC b text).2 = none ∧
      decompress (decodeC b text).1 = some bits ∧
      (encoding (decodeC b text).1).2 = encode bits := by
  obtain ⟨b, hb1, hb2, hb3, _⟩ := compress_spec other
  obtain ⟨d1, d2, d3, _⟩ := decodeC_ok b hb2 text bits (by rw [hb3]; exact hd)
  exact ⟨b, hb1, d1, by rw [decompress_spec, d3], by rw [encoding_snd _ d2, d3]⟩

-- non-vacuity of `canonical_across`: two gathering orders of three actions, two different active sets
example : ∃ a b,
    compress ((sortActions [⟨2, "R", 0⟩, ⟨1, "H", 1⟩, ⟨1, "G", 2⟩]).map (fun x => x.pu == 1)) = some a ∧
    compress ((sortActions [⟨1, "G", 2⟩, ⟨2, "R", 0⟩, ⟨1, "H", 1⟩]).map (fun x => x.type == "R")) = some b ∧
    (encoding a).2 = "3".toList ∧ (encoding b).2 = "4".toList := by
  refine ⟨_, _, rfl, rfl, ?_, ?_⟩ <;> decide
-- non-canonical text into a 3-action instance: lower case, leading zero, stray high bits
set_option maxRecDepth 8000 in
example : decode 3 "0fd".toList = .ok [true, false, true] ∧ encode [true, false, true] = "5".toList :=
  ⟨by rfl, by decide⟩

end Crem.BoolArchive

namespace Crem.ActionOrder

/-! Non-vacuity and the excluded point (tests, labelled as such). -/

example : sortActions [⟨2, "RiverBankRestoration", 0⟩, ⟨1, "HillSlopeRestoration", 1⟩, ⟨1, "GullyRestoration", 2⟩]
    = [⟨1, "GullyRestoration", 2⟩, ⟨1, "HillSlopeRestoration", 1⟩, ⟨2, "RiverBankRestoration", 0⟩] := by decide
example : keysDistinct [⟨2, "RiverBankRestoration", 0⟩, ⟨1, "HillSlopeRestoration", 1⟩, ⟨1, "GullyRestoration", 2⟩] = true := by
  decide
-- distinct keys are needed: two objects with one key are sorted in either order
example : Sorted [⟨1, "A", 0⟩, ⟨1, "A", 1⟩] ∧ Sorted [⟨1, "A", 1⟩, ⟨1, "A", 0⟩] ∧
    [(⟨1, "A", 0⟩ : Action), ⟨1, "A", 1⟩].Perm [⟨1, "A", 1⟩, ⟨1, "A", 0⟩] :=
  ⟨sorted_pair _ _ (by decide), sorted_pair _ _ (by decide), List.Perm.swap _ _ _⟩

end Crem.ActionOrder
