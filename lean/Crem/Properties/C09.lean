import Crem.Proofs.BoolArchive
import Crem.Proofs.ActionOrder
/-!
# C09 — action-set encodings are canonical, lossless and portable

Property theorems about the model of `pkg/archive/BooleanArchive.go`
(`Crem/Model/BoolArchive.lean`) and of the action order of a model instance
(`Crem/Model/ActionOrder.lean`).  All sizes (not only 1..200; in particular sizes
that are not multiples of 64 and sizes above 64), all bit patterns, all
operation histories, all gathering orders.  Every `theorem` in this file is
audited by `./check C09` (`#print axioms`).

Reading guide: `encode` / `decode n` are the abstract spec on `List Bool`;
`Archive` with `setValue`, `value`, `encoding`, `decodeC`, `isEquivalentTo` is the
transcription of the Go type; `absBits a` is the list of booleans a concrete archive
holds; `WF a` is the invariant (word count, unused high bits of the last word
clear, cached text empty or current).
-/
namespace Crem.BoolArchive

/-! ## hex words -/

/-- `ParseUint(·,16,64)` reads back what `%X` prints, for every `uint64` -/
theorem parseHex_toHex (n : Nat) (h : n < 2 ^ 64) : parseHex (toHex n) = .ok n :=
  parseHex_toHex' n h

/-! ## the spec: lossless and canonical, every size -/

/-- lossless: decoding the encoding of any `n ≥ 1` booleans gives them back —
every `n`, multiples of 64 or not, above 64 or not -/
theorem decode_encode (n : Nat) (bs : List Bool) (hn : 1 ≤ n) (hl : bs.length = n) :
    decode n (encode bs) = .ok bs :=
  decode_encode' n bs hn hl

/-- canonical: two action sets of the same scenario (equal length) have equal encodings
exactly when they are equal -/
theorem encode_injective (a b : List Bool) (hl : a.length = b.length) :
    encode a = encode b ↔ a = b :=
  ⟨encode_injective' a b hl, fun h => by rw [h]⟩

/-! ## the Go data structure refines the spec -/

/-- for every sequence of `SetValue` / `Value` / `Encoding` / `Decode`(well-formed text)
calls on a fresh archive of any size, every answer of the concrete model (`+mask`/`-mask`
words, memoised text, overwrite-then-clear decode, panics on `index >= size`) is the
answer of the spec -/
theorem refines (n : Nat) (ops : List Op) (hv : ∀ op ∈ ops, validOp n op = true) :
    runC (new n) ops = runA (List.replicate n false) ops :=
  runC_eq_runA (new n) _ (sim_new n) ops (by simpa using hv)

/-- the same from any well-formed archive (e.g. one produced by `ModelCompressor.Compress`) -/
theorem refines_from (a : Archive) (h : WF a) (ops : List Op)
    (hv : ∀ op ∈ ops, validOp a.size op = true) :
    runC a ops = runA (absBits a) ops :=
  runC_eq_runA a _ ⟨h, rfl⟩ ops (by simpa using hv)

/-- the inductive part of `refines`: after any such history the archive still has the right
number of words, its unused high bits are clear, it holds what the spec holds, and the
memoised text is either absent or the encoding of the *current* content (cache coherence:
no stale text can be returned) -/
theorem invariant_reachable (n : Nat) (ops : List Op) (hv : ∀ op ∈ ops, validOp n op = true) :
    let a := execC (new n) ops
    WF a ∧ absBits a = execA (List.replicate n false) ops ∧
      (a.cache = [] ∨ a.cache = encode (absBits a)) := by
  have h := sim_exec (new n) _ (sim_new n) ops (by simpa using hv)
  refine ⟨h.1, h.2, ?_⟩
  rcases h.1.cache with hc | hc
  · exact Or.inl hc
  · exact Or.inr (by rw [hc, encodeLoop_eq_encode _ h.1.len h.1.high])

/-- `Encoding()` of a well-formed archive is the canonical text of its content, whatever
the cache holds -/
theorem encoding_eq_encode (a : Archive) (h : WF a) : (encoding a).2 = encode (absBits a) :=
  encoding_snd a h

/-- canonical, on the Go structure: two well-formed archives of the same size have equal
`Encoding()` exactly when they hold the same booleans, exactly when `IsEquivalentTo` -/
theorem encoding_eq_iff (a b : Archive) (ha : WF a) (hb : WF b) (hs : a.size = b.size) :
    ((encoding a).2 = (encoding b).2 ↔ absBits a = absBits b) ∧
    (isEquivalentTo a b = true ↔ absBits a = absBits b) := by
  rw [encoding_snd a ha, encoding_snd b hb, isEquivalentTo_iff' a b ha hb]
  exact ⟨encode_injective _ _ (by simp [hs]), by simp [hs]⟩

/-- a successful `Decode` clears every bit at or above `size`, whatever the text carried
there and whatever the words held before (only the word count is assumed) -/
theorem decode_clears_high_bits (a : Archive) (hl : a.words.length = nWords a.size)
    (text : List Char) (hok : (decodeC a text).2 = none) :
    ∀ i, a.size ≤ i → bitAt (decodeC a text).1.words i = false := by
  intro i hi
  rw [decodeC_class a hl] at hok
  cases hd : decode a.size text with
  | error e => simp [hd] at hok
  | ok bs =>
    obtain ⟨vs, hlen, hp, _⟩ := decode_ok_inv _ _ _ hd
    rw [(decodeC_ok_raw a hl text vs hlen hp).2.2.2.2 i, if_neg (by omega)]

/-- `Decode` succeeds exactly on the texts the spec accepts and otherwise reports the spec's
error class (wrong entry count / syntax / range, first error from the left) — every text -/
theorem decode_result_class (a : Archive) (hl : a.words.length = nWords a.size) (text : List Char) :
    (decodeC a text).2 = (match decode a.size text with | .ok _ => none | .error e => some e) :=
  decodeC_class a hl text

/-- `ModelCompressor`: compress the flags of one model instance, take the text, `Decode` it
into the compressed state of *any* other instance with the same number of actions,
`Decompress`: the flags handed to that instance are the original ones -/
theorem compress_decompress (flags other : List Bool) (h1 : 1 ≤ flags.length)
    (hl : other.length = flags.length) :
    ∃ a b, compress flags = some a ∧ compress other = some b ∧
      (decodeC b (encoding a).2).2 = none ∧
      decompress (decodeC b (encoding a).2).1 = some flags := by
  obtain ⟨a, ha1, ha2, ha3, ha4⟩ := compress_spec flags
  obtain ⟨b, hb1, hb2, hb3, _⟩ := compress_spec other
  refine ⟨a, b, ha1, hb1, ?_⟩
  have hd : decode b.size (encoding a).2 = .ok flags := by
    rw [encoding_snd a ha2, ha4, hb3, hl]
    exact decode_encode _ _ h1 rfl
  obtain ⟨d1, _, d3, _⟩ := decodeC_ok b hb2 _ _ hd
  exact ⟨d1, by rw [decompress_spec, d3]⟩

/-! Non-vacuity, sanity and the excluded points (tests, labelled as such). -/

-- 67 entries, entries 64 and 66 set: two words
example : encode (List.replicate 64 false ++ [true, false, true]) = "0:5".toList := by decide
example : decode 67 "0:5".toList = .ok (List.replicate 64 false ++ [true, false, true]) := by rfl
-- `1 ≤ n` is needed: the empty archive encodes to "" and `Decode("")` is a count error (1 entry ≠ 0)
example : encode [] = [] ∧ decode 0 (encode []) = .error .count := ⟨rfl, rfl⟩
-- equal lengths are needed: trailing `false` entries do not show in the text
example : encode [true, false, true] = encode [true, false, true, false, false] := by decide
-- lower case and leading zeros are accepted by `Decode`, and `Encoding()` then returns the canonical text
set_option maxRecDepth 8000 in
example : runC (new 8) [.decode "0ff".toList, .encoding] = [.done, .text "FF".toList] := by decide
-- bits beyond the size are dropped by `Decode`
set_option maxRecDepth 8000 in
example : runC (new 3) [.decode "FF".toList, .encoding, .value 2, .value 3]
    = [.done, .text "7".toList, .bool true, .panic] := by decide
-- a history exercising the cache: the text is recomputed after each mutation
set_option maxRecDepth 8000 in
example : runC (new 70) [.encoding, .setValue 69 true, .encoding, .setValue 0 true, .encoding,
      .setValue 69 false, .encoding]
    = [.text "0:0".toList, .done, .text "0:20".toList, .done, .text "1:20".toList, .done,
       .text "1:0".toList] := by decide
-- malformed text classes
set_option maxRecDepth 8000 in
example : (decodeC (new 70) "1".toList).2 = some .count ∧ (decodeC (new 70) "1:-1".toList).2 = some .syntax ∧
    (decodeC (new 70) "1:10000000000000000".toList).2 = some .range ∧
    (decodeC (new 70) "1:".toList).2 = some .syntax := by decide
-- the excluded point of `refines` (a `Decode` that fails after its first entry): word 0 is already
-- overwritten and the memoised text is kept, so `Encoding()` is stale.  Transcribed Go behaviour,
-- confirmed by the correspondence suite; no crem caller reuses an archive after a failed decode
-- except `SolutionPool.AddSolution`, which ignores the error (see the report for C13/C15).
set_option maxRecDepth 8000 in
example : runC (new 70) [.encoding, .decode "1:zz".toList, .encoding, .value 0]
    = [.text "0:0".toList, .err .syntax, .text "0:0".toList, .bool true] := by decide

end Crem.BoolArchive

namespace Crem.ActionOrder

/-! ## portability: the action order is a function of the data -/

/-- if no two actions share (planning unit, type), a list has at most one sorted permutation:
whatever `sort.Sort` does internally, its result is determined -/
theorem sorted_perm_unique (l1 l2 : List Action) (hk : KeysDistinct l1) (hp : l1.Perm l2)
    (h1 : Sorted l1) (h2 : Sorted l2) : l1 = l2 :=
  sorted_perm_unique_keyInj l1 l2 (keyInj_of_keysDistinct l1 hk) hp h1 h2

/-- two model instances gather the same actions in different (map iteration) orders `g1`, `g2`
and sort them by any means that returns a sorted permutation: they end with the same list,
so index `i` means the same action in both -/
theorem action_order_portable (g1 g2 s1 s2 : List Action) (hk : KeysDistinct g1)
    (hg : g1.Perm g2) (hs1 : s1.Perm g1) (hs2 : s2.Perm g2) (h1 : Sorted s1) (h2 : Sorted s2) :
    s1 = s2 :=
  sorted_perm_unique_keyInj s1 s2 ((keyInj_of_keysDistinct g1 hk).perm hs1.symm)
    (hs1.trans (hg.trans hs2.symm)) h1 h2

/-- sorted permutations exist (the model's insertion sort is one), so the two theorems above
are not vacuous and `sortActions g` *is* the order every instance ends with -/
theorem sortActions_sorted (l : List Action) : Sorted (sortActions l) := sortActions_sorted' l

theorem sortActions_perm (l : List Action) : (sortActions l).Perm l := sortActions_perm' l

/-- hence the model's sort does not depend on the gathering order (instance of the theorem above,
showing all its hypotheses are jointly satisfiable for every pair of gathering orders) -/
theorem sortActions_order_independent (g1 g2 : List Action) (hk : KeysDistinct g1) (hg : g1.Perm g2) :
    sortActions g1 = sortActions g2 :=
  action_order_portable g1 g2 _ _ hk hg (sortActions_perm g1) (sortActions_perm g2)
    (sortActions_sorted g1) (sortActions_sorted g2)

/-- the hypothesis is decidable; the driver evaluates it on every extracted action list -/
theorem keysDistinct_iff (l : List Action) : keysDistinct l = true ↔ KeysDistinct l :=
  keysDistinct_iff' l

end Crem.ActionOrder

namespace Crem.BoolArchive
open Crem.ActionOrder

/-- the whole property on the model: instance 1 (gathering order `g1`, sorted `s1`) holds the
active set `act`; its encoding, decoded into the compressed state of an independently built
instance 2 (gathering order `g2`, sorted `s2`, any current flags `other`) and decompressed,
hands instance 2 exactly the flags of the same actions (`s2.map act`) -/
theorem encoding_portable (g1 g2 s1 s2 : List Action) (hk : KeysDistinct g1) (hg : g1.Perm g2)
    (hs1 : s1.Perm g1) (hs2 : s2.Perm g2) (h1 : Sorted s1) (h2 : Sorted s2)
    (act : Action → Bool) (hne : 1 ≤ g1.length) (other : List Bool) (hl : other.length = s2.length) :
    ∃ a b, compress (s1.map act) = some a ∧ compress other = some b ∧
      (decodeC b (encoding a).2).2 = none ∧
      decompress (decodeC b (encoding a).2).1 = some (s2.map act) := by
  have he := action_order_portable g1 g2 s1 s2 hk hg hs1 hs2 h1 h2
  subst he
  exact compress_decompress (s1.map act) other (by simp [hs1.length_eq]; omega) (by simp [hl])

end Crem.BoolArchive

namespace Crem.ActionOrder

/-! Non-vacuity and the excluded point (tests, labelled as such). -/

example : sortActions [⟨2, "RiverBankRestoration", 0⟩, ⟨1, "HillSlopeRestoration", 1⟩, ⟨1, "GullyRestoration", 2⟩]
    = [⟨1, "GullyRestoration", 2⟩, ⟨1, "HillSlopeRestoration", 1⟩, ⟨2, "RiverBankRestoration", 0⟩] := by decide
example : keysDistinct [⟨2, "RiverBankRestoration", 0⟩, ⟨1, "HillSlopeRestoration", 1⟩, ⟨1, "GullyRestoration", 2⟩] = true := by
  decide
-- distinct keys are needed: two objects with one key are sorted in either order
example : Sorted [⟨1, "A", 0⟩, ⟨1, "A", 1⟩] ∧ Sorted [⟨1, "A", 1⟩, ⟨1, "A", 0⟩] ∧
    [(⟨1, "A", 0⟩ : Action), ⟨1, "A", 1⟩].Perm [⟨1, "A", 1⟩, ⟨1, "A", 0⟩] :=
  ⟨sorted_pair _ _ (by decide), sorted_pair _ _ (by decide), List.Perm.swap _ _ _⟩

end Crem.ActionOrder
