import Crem.Proofs.Csv
/-!
# C20 — CSV text is parsed totally and faithfully into tables

Theorems about the model `Crem/Model/Csv.lean` of
`csv.DataSet.ParseCsvTextIntoTable` (encoding/csv reader as configured -> `deriveTableFromRecords`
-> `BaseCaster.Cast`) and `baseTable.ColumnAndRowSize/CellString/CellFloat64`.
All quantifiers range over **all byte strings** (`Bytes = List UInt8`), no length bound.
Every `theorem` in this file is audited by `./check C20` (`#print axioms`).

The property, at full strength, for every text:

    load text = error e
  ∨ (load text = ok t ∧ t.header = first record ∧ rectangular t
       ∧ cells = the other records' fields, numeric ones as numbers, all others as text
       ∧ ColumnAndRowSize t = (|first record|, records − 1))
  and never a panic.

Two of the three defects found here were repaired in /repo (the guard in
`deriveTableFromRecords`: a record-free text is now the error "csv content has no header record";
`ColumnAndRowSize` now reports the column count remembered by `SetColumnAndRowSize`), so the
no-panic and dimension clauses are proved at full strength (`load_no_panic`, `dims`).  One remains
(kept by a baseline test that expects boolean cells):

  D20   `csv:bool-cell-loses-text`    a non-numeric field spelling a boolean becomes a `bool` cell,
                                      which `CellString` reads back as ""   (`bool_cell_reads_back_empty`)

for which the file carries the full statement (in a comment), the `_partial` theorem under the
excluding hypothesis (a decidable predicate of the model), the characterisation of exactly where it
fails, and the refuting `example` at the witness the harness also replays.
-/
namespace Crem.Csv

/-! ## the record reader -/

/-- Every record the reader returns has at least one field and exactly as many fields as the
first record (ragged input is an error, never a ragged result). -/
theorem readAll_uniform (text : Bytes) (rs : List (List Bytes)) (h : readAll text = .ok rs) :
    ∀ r ∈ rs, r ≠ [] ∧ ∀ hd ∈ rs.head?, r.length = hd.length :=
  readAll_good h

/-- The reader returns no record at all exactly for the texts made of empty lines. -/
theorem readAll_nil_iff_noRecords (text : Bytes) : readAll text = .ok [] ↔ noRecords text = true :=
  readAll_nil_iff text

/-! ## totality: the three-way characterisation for all byte strings -/

/-- **load_total.**  For every byte string, loading is exactly one of
1. an error — the reader's error, passed on;
2. the error "no header record", and that exactly for a text without any record;
3. a table whose header is the first record verbatim and whose cells are, position by position,
   the casts of the fields of the other records, all of which have the header's length. -/
theorem load_total (text : Bytes) :
    (∃ e, readAll text = .error e ∧ load text = .error e) ∨
    (noRecords text = true ∧ readAll text = .ok [] ∧ load text = .error .noRecords) ∨
    (∃ hdr rows, readAll text = .ok (hdr :: rows) ∧ hdr ≠ [] ∧ (∀ r ∈ rows, r.length = hdr.length) ∧
      load text = .ok { header := hdr, cells := rows.map (·.map cast) }) := by
  unfold load
  cases hr : readAll text with
  | error e => exact Or.inl ⟨e, rfl, rfl⟩
  | ok rs =>
    cases rs with
    | nil => exact Or.inr (Or.inl ⟨(readAll_nil_iff text).mp hr, rfl, rfl⟩)
    | cons hdr rows =>
      have hg := readAll_good hr
      exact Or.inr (Or.inr ⟨hdr, rows, rfl, (good_cons hg).1, (good_cons hg).2, deriveTable_good hg⟩)

/-- **No input makes the loader panic** (C20, full strength): the unguarded `records[row][col]`
of `assignTableContent` is never out of range — the reader's field-count rule protects it — and
the record-free texts are rejected by the guard. -/
theorem load_no_panic (text : Bytes) (p : PanicSite) : load text ≠ .panic p := by
  rcases load_total text with ⟨e, _, h⟩ | ⟨_, _, h⟩ | ⟨hdr, rows, _, _, _, h⟩ <;> rw [h] <;> simp

/-- Exactly the record-free texts get the "no header record" error. -/
theorem load_noRecords_iff (text : Bytes) : load text = .error .noRecords ↔ noRecords text = true := by
  constructor
  · intro hp
    rcases load_total text with ⟨e, he, h⟩ | ⟨hn, _, _⟩ | ⟨hdr, rows, _, _, _, h⟩
    · rw [h] at hp
      simp only [Load.error.injEq] at hp
      subst hp
      -- the reader itself never reports `noRecords`
      exact absurd he (readAll_ne_noRecords text)
    · exact hn
    · rw [h] at hp; simp at hp
  · intro hn
    unfold load
    rw [(readAll_nil_iff text).mpr hn]
    rfl

example : load [] = .error .noRecords := by decide
example : load [0x0A] = .error .noRecords := by decide
example : load [0x0D, 0x0A, 0x0D, 0x0A] = .error .noRecords := by decide

/-! ## shape of a loaded table -/

/-- A loaded table has the first record as its header, is rectangular with the header's width, has
one row per further record, and cell (i,j) is the cast of field j of record i+1 (stated with `?`
indexing: both sides are `none` together outside the table). -/
theorem load_ok_shape (text : Bytes) (t : Table) (h : load text = .ok t) :
    ∃ hdr rows, readAll text = .ok (hdr :: rows) ∧ t.header = hdr ∧ hdr ≠ [] ∧
      t.cells.length = rows.length ∧ rectangular hdr.length t.cells = true ∧
      ∀ i j : Nat, (t.cells[i]?.bind (fun (row : List Cell) => row[j]?)) =
        (rows[i]?.bind (fun (r : List Bytes) => r[j]?)).map cast := by
  rcases load_total text with ⟨e, _, h'⟩ | ⟨_, _, h'⟩ | ⟨hdr, rows, hr, hne, hlen, h'⟩
  · rw [h'] at h; simp at h
  · rw [h'] at h; simp at h
  · rw [h'] at h
    simp only [Load.ok.injEq] at h
    subst h
    refine ⟨hdr, rows, hr, rfl, hne, by simp, ?_, ?_⟩
    · simp only [rectangular, List.all_map, List.all_eq_true]
      intro r hr'
      simp [hlen r hr']
    · intro i j
      simp only [List.getElem?_map]
      cases rows[i]? <;> simp [List.getElem?_map]

/-! ## dimensions -/

/-- **Dimensions** (C20, full strength): what `ColumnAndRowSize` reports after a load is the number
of header columns and the number of data rows (records − 1) of the text — header-only texts
included. -/
theorem dims (text : Bytes) (t : Table) (hdr : List Bytes) (rows : List (List Bytes))
    (h : load text = .ok t) (hr : readAll text = .ok (hdr :: rows)) :
    columnAndRowSize t = (hdr.length, rows.length) := by
  rw [load_of_readAll hr] at h
  simp only [Load.ok.injEq] at h
  subst h
  simp [columnAndRowSize]

/-- header-only `"a,b\n"`: dimensions (2,0) -/
example : (match load [0x61, 0x2C, 0x62, 0x0A] with
    | .ok t => some (columnAndRowSize t) | _ => none) = some (2, 0) := by decide
/-- `"a,b\n1,x\n"` has dimensions (2,1) -/
example : (match load [0x61, 0x2C, 0x62, 0x0A, 0x31, 0x2C, 0x78, 0x0A] with
    | .ok t => some (columnAndRowSize t) | _ => none) = some (2, 1) := by decide

/-! ## cells: numeric fields as numbers, all others as text -/

/-
FULL STATEMENT (C20 "cells correspond one-to-one to the fields, numeric fields as numbers, all
others as text"), false for today's code:

    theorem cells_faithful (text t hdr rows) (h : load text = .ok t)
        (hr : readAll text = .ok (hdr :: rows)) : t.cells = rows.map (·.map specCell)

Proved under the excluding hypothesis that no data field spells a boolean; missing: `Cast` tries
`ParseBool` after `ParseFloat` (defect D20).
-/
theorem cells_faithful_partial (text : Bytes) (t : Table) (hdr : List Bytes) (rows : List (List Bytes))
    (h : load text = .ok t) (hr : readAll text = .ok (hdr :: rows))
    (hb : ∀ r ∈ rows, ∀ f ∈ r, boolSpelled f = false) :
    t.cells = rows.map (·.map specCell) := by
  have hg := readAll_good hr
  rw [load_of_readAll hr] at h
  simp only [Load.ok.injEq] at h
  subst h
  simp only
  apply List.map_congr_left
  intro r hr'
  apply List.map_congr_left
  intro f hf
  exact cast_eq_specCell f (hb r hr' f hf)

/-- a field is cast to what the property asks for, unless it spells a boolean -/
theorem cast_faithful_partial (f : Bytes) (h : boolSpelled f = false) : cast f = specCell f :=
  cast_eq_specCell f h

/-- exactly the boolean spellings become `bool` cells -/
theorem cast_bool_iff_boolSpelled (f : Bytes) : (∃ b, cast f = .bool b) ↔ boolSpelled f = true :=
  cast_bool_iff f

/-- a numeric field becomes a number cell holding ParseFloat's value, and reads back through
`CellFloat64` as that value -/
theorem numeric_cell (f : Bytes) (h : isNumeric f = true) :
    ∃ bits, parseFloat f = some bits ∧ cast f = .num bits ∧ cellFloat64 (cast f) = some bits := by
  unfold isNumeric at h
  cases hp : parseFloat f with
  | none => simp [hp] at h
  | some bits => exact ⟨bits, rfl, by simp [cast, hp], by simp [cast, hp, cellFloat64]⟩

/-- a field that is neither numeric nor a boolean spelling is kept byte for byte and reads back
through `CellString` unchanged -/
theorem text_cell_reads_back (f : Bytes) (hn : isNumeric f = false) (hb : boolSpelled f = false) :
    cast f = .text f ∧ cellString (cast f) = .str f := by
  have h1 : cast f = .text f := by
    rw [cast_eq_specCell f hb]
    unfold isNumeric at hn
    unfold specCell
    cases hp : parseFloat f with
    | none => rfl
    | some b => simp [hp] at hn
  exact ⟨h1, by rw [h1]; rfl⟩

/-- a text cell always holds exactly the field's bytes -/
theorem text_cell_is_field (f s : Bytes) (h : cast f = .text s) : s = f := cast_text f s h

/-- the defect D20 as a fact about today's code: a boolean spelling reads back as the empty string -/
theorem bool_cell_reads_back_empty (f : Bytes) (h : boolSpelled f = true) :
    cellString (cast f) = .str [] ∧ cellFloat64 (cast f) = none := by
  obtain ⟨b, hb⟩ := (cast_bool_iff f).mpr h
  rw [hb]
  exact ⟨rfl, rfl⟩

/-- the full statement is refuted by `"a\ntrue\n"`: the cell is a bool, not the text `true`,
and `CellString` returns "" -/
example : load [0x61, 0x0A, 0x74, 0x72, 0x75, 0x65, 0x0A] = .ok ⟨[[0x61]], [[.bool true]]⟩ ∧
    specCell [0x74, 0x72, 0x75, 0x65] = .text [0x74, 0x72, 0x75, 0x65] ∧
    cellString (.bool true) = .str [] := by decide
example : boolSpelled [0x46] = true := by decide                -- `F`
example : boolSpelled [0x31] = false := by decide               -- `1` is numeric, not a boolean spelling
/-- the hypothesis is satisfiable: `"a,b\n1.5,x\n"` -/
example : load [0x61, 0x2C, 0x62, 0x0A, 0x31, 0x2E, 0x35, 0x2C, 0x78, 0x0A] =
    .ok ⟨[[0x61], [0x62]], [[.num 0x3FF8000000000000, .text [0x78]]]⟩ := by decide

/-! ## round trips (used by C13) -/

/-- **render_parse.**  Parsing what crem's own marshalers write (`", "`-joined rows, nothing quoted)
gives back the same records, for every table whose rows all have `n ≥ 1` fields, whose fields
contain none of `, " \n \r` and do not start with a Unicode space, and which has no row consisting
of the single empty field. -/
theorem render_parse (n : Nat) (rows : List (List Bytes)) (h : wellFormedRows n rows = true) :
    readAll (render rows) = .ok rows := by
  simp only [wellFormedRows, Bool.and_eq_true, decide_eq_true_eq, List.all_eq_true, beq_iff_eq,
    bne_iff_ne] at h
  obtain ⟨hn, hw⟩ := h
  have hplain : ∀ r ∈ rows, ∀ f ∈ r, ∀ b ∈ f, b ≠ bCR := by
    intro r hr f hf b hb
    have := ((plainField_iff f).mp ((hw r hr).1.2 f hf)).1 b hb
    exact this.2.2.2
  unfold readAll
  rw [normalize_noCR _ (render_noCR rows hplain)]
  have := scan_rows_of_row render renderRow rfl (fun _ _ => rfl) n rows
    (fun r => (∀ f ∈ r, plainField f = true) ∧ r ≠ [[]] ∧ r ≠ [])
    (fun r hp recs rest => by
      have := scan_row r hp.1 true [] recs rest hp.2.2 (fun _ => hp.2.1)
      simpa using this)
    (fun r hr => by
      obtain ⟨⟨hl, hp⟩, hne⟩ := hw r hr
      refine ⟨hl, hp, hne, ?_⟩
      intro h0
      rw [h0] at hl
      simp at hl
      omega)
    [] (by simp)
  simpa using this

/-- … and so loads as the table with that header and the casts of those fields. -/
theorem render_load (n : Nat) (hdr : List Bytes) (rows : List (List Bytes))
    (h : wellFormedRows n (hdr :: rows) = true) :
    load (render (hdr :: rows)) = .ok { header := hdr, cells := rows.map (·.map cast) } := by
  exact load_of_readAll (render_parse n (hdr :: rows) h)

/-- **renderQ_parse.**  The quoted-field path of the reader: a table rendered with every field
quoted (quotes doubled) parses back to the same records, whatever the fields contain — commas,
quotes, line feeds, leading spaces, arbitrary bytes — except `\r` (which the reader rewrites). -/
theorem renderQ_parse (n : Nat) (rows : List (List Bytes)) (h : wellFormedRowsQ n rows = true) :
    readAll (renderQ rows) = .ok rows := by
  simp only [wellFormedRowsQ, Bool.and_eq_true, decide_eq_true_eq, List.all_eq_true, beq_iff_eq,
    bne_iff_ne] at h
  obtain ⟨hn, hw⟩ := h
  unfold readAll
  rw [normalize_noCR _ (renderQ_noCR rows (fun r hr f hf b hb => (hw r hr).2 f hf b hb))]
  have := scan_rows_of_row renderQ renderRowQ rfl (fun _ _ => rfl) n rows (fun r => r ≠ [])
    (fun r hp recs rest => by
      have := scan_rowQ r true [] recs rest hp
      simpa using this)
    (fun r hr => by
      refine ⟨(hw r hr).1, ?_⟩
      intro h0
      have hl := (hw r hr).1
      rw [h0] at hl
      simp at hl
      omega)
    [] (by simp)
  simpa using this

/-! non-vacuity and necessity of the round-trip hypotheses (tests, labelled as such) -/

-- `Solution, Actions` / `As-Is, 1ABC` in crem's format
example : wellFormedRows 2 [[[0x53], [0x41]], [[0x41, 0x73, 0x2D, 0x49, 0x73], [0x31, 0x41, 0x42, 0x43]]] = true := by decide
example : render [[[0x53], [0x41]], [[0x78], [0x79]]] = [0x53, 0x2C, 0x20, 0x41, 0x0A, 0x78, 0x2C, 0x20, 0x79, 0x0A] := by decide
example : readAll (render [[[0x53], [0x41]], [[0x78], []]]) = .ok [[[0x53], [0x41]], [[0x78], []]] := by decide
-- a leading space is lost (so `plainField` excludes it) …
example : readAll (render [[[0x20, 0x61]]]) = .ok [[[0x61]]] := by decide
-- … a row that is one empty field vanishes (so `wellFormedRows` excludes it) …
example : readAll (render [[[0x61]], [[]]]) = .ok [[[0x61]]] := by decide
-- … and an unquoted comma splits the field
example : readAll (render [[[0x61, 0x2C, 0x62]]]) = .ok [[[0x61], [0x62]]] := by decide
-- the quoted writer carries all of those: `" a"`, `""`, `"a,b"`, `"q""q"`, a line feed
example : wellFormedRowsQ 1 [[[0x20, 0x61]], [[]], [[0x61, 0x2C, 0x62]], [[0x71, 0x22, 0x71]], [[0x0A]]] = true := by decide
example : readAll (renderQ [[[0x20, 0x61]], [[]], [[0x61, 0x2C, 0x62]], [[0x71, 0x22, 0x71]], [[0x0A]]]) =
    .ok [[[0x20, 0x61]], [[]], [[0x61, 0x2C, 0x62]], [[0x71, 0x22, 0x71]], [[0x0A]]] := by decide
-- `\r\n` inside quotes comes back as `\n` (so `wellFormedRowsQ` excludes `\r`)
example : readAll (renderQ [[[0x0D, 0x0A]]]) = .ok [[[0x0A]]] := by decide

/-! sanity examples of the reader and the cast grammar (tests, labelled as such) -/

example : readAll [0x61, 0x2C, 0x62, 0x0A, 0x63, 0x0A] = .error .fieldCount := by decide      -- a,b / c
example : readAll [0x61, 0x22, 0x62] = .error .bareQuote := by decide                          -- a"b
example : readAll [0x22, 0x61] = .error .quote := by decide                                    -- "a
example : readAll [0x22, 0x61, 0x22, 0x20, 0x2C, 0x62] = .error .quote := by decide            -- "a" ,b
example : readAll [0xC2, 0xA0, 0x78, 0x2C, 0xE2, 0x80, 0x83, 0x79, 0x0A] = .ok [[[0x78], [0x79]]] := by decide  -- NBSP x , EM-SPACE y
example : readAll [0x20, 0x0A] = .ok [[[]]] := by decide                                       -- " \n" is a record
example : cast [0x31, 0x45, 0x35] = .num 0x40F86A0000000000 := by decide                       -- 1E5 = 100000
example : cast [0x30, 0x78, 0x31, 0x70, 0x2D, 0x32] = .num 0x3FD0000000000000 := by decide     -- 0x1p-2
example : cast [0x31, 0x5F, 0x30, 0x2E, 0x35] = .num 0x4025000000000000 := by decide           -- 1_0.5
example : cast [0x2D, 0x69, 0x6E, 0x66] = .num 0xFFF0000000000000 := by decide                 -- -inf
example : cast [0x31, 0x65, 0x34, 0x30, 0x30] = .text [0x31, 0x65, 0x34, 0x30, 0x30] := by decide  -- 1e400: ErrRange, stays text
example : cast [0x30, 0x78, 0x31, 0x65, 0x35] = .text [0x30, 0x78, 0x31, 0x65, 0x35] := by decide  -- 0x1e5: no p exponent

end Crem.Csv
