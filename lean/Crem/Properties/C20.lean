import Crem.Proofs.Csv
import Crem.Proofs.CsvFloat
/-!
# C20 — CSV text is parsed totally and faithfully into tables

Theorems about the model `Crem/Model/Csv.lean` of
`csv.DataSet.ParseCsvTextIntoTable` (encoding/csv reader as configured -> `deriveTableFromRecords`
-> `BaseCaster.Cast`) and `baseTable.ColumnAndRowSize/CellString/CellFloat64`.
All quantifiers range over **all byte strings** (`Bytes = List UInt8`), no length bound.
Every `theorem` in this file is audited by `./check C20` (`#print axioms`).

The property, at full strength, for every text:

    load text = error e
  ∨ (load text = ok t ∧ t.header = first record ∧ rectangular t
       ∧ cells = the other records' fields, numeric ones as numbers, all others as text
       ∧ ColumnAndRowSize t = (|first record|, records − 1))
  and never a panic.

Three of the four defects found here were repaired in /repo (the guard in
`deriveTableFromRecords`: a record-free text is now the error "csv content has no header record";
`ColumnAndRowSize` now reports the column count remembered by `SetColumnAndRowSize`; `AddTable`'s
refusal of a name already in use is now recorded in the data set's errors), so the no-panic, the
dimension and the error-xor-table clauses are proved at full strength (`load_no_panic`, `dims`,
`parseInto_error_xor_table`).  One remains (kept by a baseline test that expects boolean cells):

  D20   `csv:bool-cell-loses-text`    a non-numeric field spelling a boolean becomes a `bool` cell,
                                      which `CellString` reads back as ""   (`bool_cell_reads_back_empty`)

for which the file carries the full statement (in a comment), the `_partial` theorem under the
excluding hypothesis (a decidable predicate of the model), the characterisation of exactly where it
fails, and the refuting `example` at the witness the harness also replays.

Sections: the record reader · totality · shape · dimensions (`colNum`) · cells · round trips
(`render`, `renderQ`) · ragged rows · mixed quoting and where the quote errors arise · text columns
(`ParseCsvTextIntoTableWithTextColumns`) · a data set loaded into more than once · the VALUE of a
number cell (independent IEEE-754 specification; scope `mantDigits ≤ 800`).

"Field" throughout means what Go's `encoding/csv` reader returns for the text (with the rewriting it
does: `\r\n` → `\n` also inside quotes, a trailing `\r` dropped, leading space trimmed).
-/
namespace Crem.Csv

/-! ## the record reader -/

/-- Every record the reader returns has at least one field and exactly as many fields as the
first record (ragged input is an error, never a ragged result). -/
theorem readAll_uniform (text : Bytes) (rs : List (List Bytes)) (h : readAll text = .ok rs) :
    ∀ r ∈ rs, r ≠ [] ∧ ∀ hd ∈ rs.head?, r.length = hd.length :=
  readAll_good h

/-- The reader returns no record at all exactly for the texts made of empty lines. -/
theorem readAll_nil_iff_noRecords (text : Bytes) : readAll text = .ok [] ↔ noRecords text = true :=
  readAll_nil_iff text

/-! ## totality: the three-way characterisation for all byte strings -/

/-- **load_total.**  For every byte string, loading is exactly one of
1. an error — the reader's error, passed on;
2. the error "no header record", and that exactly for a text without any record;
3. a table whose header is the first record verbatim and whose cells are, position by position,
   the casts of the fields of the other records, all of which have the header's length. -/
theorem load_total (text : Bytes) :
    (∃ e, readAll text = .error e ∧ load text = .error e) ∨
    (noRecords text = true ∧ readAll text = .ok [] ∧ load text = .error .noRecords) ∨
    (∃ hdr rows, readAll text = .ok (hdr :: rows) ∧ hdr ≠ [] ∧ (∀ r ∈ rows, r.length = hdr.length) ∧
      load text = .ok { header := hdr, cells := rows.map (·.map cast) }) := by
  unfold load
  cases hr : readAll text with
  | error e => exact Or.inl ⟨e, rfl, rfl⟩
  | ok rs =>
    cases rs with
    | nil => exact Or.inr (Or.inl ⟨(readAll_nil_iff text).mp hr, rfl, rfl⟩)
    | cons hdr rows =>
      have hg := readAll_good hr
      exact Or.inr (Or.inr ⟨hdr, rows, rfl, (good_cons hg).1, (good_cons hg).2, deriveTable_good hg⟩)

/-- **No input makes the loader panic** (C20, full strength): the unguarded `records[row][col]`
of `assignTableContent` is never out of range — the reader's field-count rule protects it — and
the record-free texts are rejected by the guard. -/
theorem load_no_panic (text : Bytes) (p : PanicSite) : load text ≠ .panic p := by
  rcases load_total text with ⟨e, _, h⟩ | ⟨_, _, h⟩ | ⟨hdr, rows, _, _, _, h⟩ <;> rw [h] <;> simp

/-- Exactly the record-free texts get the "no header record" error. -/
theorem load_noRecords_iff (text : Bytes) : load text = .error .noRecords ↔ noRecords text = true := by
  constructor
  · intro hp
    rcases load_total text with ⟨e, he, h⟩ | ⟨hn, _, _⟩ | ⟨hdr, rows, _, _, _, h⟩
    · rw [h] at hp
      simp only [Load.error.injEq] at hp
      subst hp
      -- the reader itself never reports `noRecords`
      exact absurd he (readAll_ne_noRecords text)
    · exact hn
    · rw [h] at hp; simp at hp
  · intro hn
    unfold load
    rw [(readAll_nil_iff text).mpr hn]
    rfl

example : load [] = .error .noRecords := by decide
example : load [0x0A] = .error .noRecords := by decide
example : load [0x0D, 0x0A, 0x0D, 0x0A] = .error .noRecords := by decide

/-! ## shape of a loaded table -/

/-- A loaded table has the first record as its header, is rectangular with the header's width, has
one row per further record, and cell (i,j) is the cast of field j of record i+1 (stated with `?`
indexing: both sides are `none` together outside the table). -/
theorem load_ok_shape (text : Bytes) (t : Table) (h : load text = .ok t) :
    ∃ hdr rows, readAll text = .ok (hdr :: rows) ∧ t.header = hdr ∧ hdr ≠ [] ∧
      t.cells.length = rows.length ∧ rectangular hdr.length t.cells = true ∧
      ∀ i j : Nat, (t.cells[i]?.bind (fun (row : List Cell) => row[j]?)) =
        (rows[i]?.bind (fun (r : List Bytes) => r[j]?)).map cast := by
  rcases load_total text with ⟨e, _, h'⟩ | ⟨_, _, h'⟩ | ⟨hdr, rows, hr, hne, hlen, h'⟩
  · rw [h'] at h; simp at h
  · rw [h'] at h; simp at h
  · rw [h'] at h
    simp only [Load.ok.injEq] at h
    subst h
    refine ⟨hdr, rows, hr, rfl, hne, by simp, ?_, ?_⟩
    · simp only [rectangular, List.all_map, List.all_eq_true]
      intro r hr'
      simp [hlen r hr']
    · intro i j
      simp only [List.getElem?_map]
      cases rows[i]? <;> simp [List.getElem?_map]

/-! ## dimensions

The model's `Table` keeps `colNum` (what `SetColumnAndRowSize` remembered; what `ColumnAndRowSize`
reports) apart from the header, as `baseTable` does, so a table whose reported column count
disagrees with its header is expressible (`⟨[[0x61]], [], 7⟩`); that a load never produces one is
`load_colNum`. -/

/-- **load invariant**: the column count a loaded table reports is the length of its header -/
theorem load_colNum (text : Bytes) (t : Table) (h : load text = .ok t) : t.colNum = t.header.length := by
  rcases load_total text with ⟨e, _, h'⟩ | ⟨_, _, h'⟩ | ⟨hdr, rows, _, _, _, h'⟩
  · rw [h'] at h; simp at h
  · rw [h'] at h; simp at h
  · rw [h'] at h
    simp only [Load.ok.injEq] at h
    subst h
    rfl

/-- the invariant is not a property of the type: here is a table that violates it -/
example : (⟨[[0x61]], [], 7⟩ : Table).colNum ≠ (⟨[[0x61]], [], 7⟩ : Table).header.length := by decide

/-- **Dimensions** (C20, full strength): what `ColumnAndRowSize` reports after a load is the number
of header columns and the number of data rows (records − 1) of the text — header-only texts
included. -/
theorem dims (text : Bytes) (t : Table) (hdr : List Bytes) (rows : List (List Bytes))
    (h : load text = .ok t) (hr : readAll text = .ok (hdr :: rows)) :
    columnAndRowSize t = (hdr.length, rows.length) := by
  rw [load_of_readAll hr] at h
  simp only [Load.ok.injEq] at h
  subst h
  simp [columnAndRowSize]

/-- header-only `"a,b\n"`: dimensions (2,0) -/
example : (match load [0x61, 0x2C, 0x62, 0x0A] with
    | .ok t => some (columnAndRowSize t) | _ => none) = some (2, 0) := by decide
/-- `"a,b\n1,x\n"` has dimensions (2,1) -/
example : (match load [0x61, 0x2C, 0x62, 0x0A, 0x31, 0x2C, 0x78, 0x0A] with
    | .ok t => some (columnAndRowSize t) | _ => none) = some (2, 1) := by decide

/-! ## cells: numeric fields as numbers, all others as text -/

/-
FULL STATEMENT (C20 "cells correspond one-to-one to the fields, numeric fields as numbers, all
others as text"), false for today's code:

    theorem cells_faithful (text t hdr rows) (h : load text = .ok t)
        (hr : readAll text = .ok (hdr :: rows)) : t.cells = rows.map (·.map specCell)

Proved under the excluding hypothesis that no data field spells a boolean; missing: `Cast` tries
`ParseBool` after `ParseFloat` (defect D20).
-/
theorem cells_faithful_partial (text : Bytes) (t : Table) (hdr : List Bytes) (rows : List (List Bytes))
    (h : load text = .ok t) (hr : readAll text = .ok (hdr :: rows))
    (hb : ∀ r ∈ rows, ∀ f ∈ r, boolSpelled f = false) :
    t.cells = rows.map (·.map specCell) := by
  have hg := readAll_good hr
  rw [load_of_readAll hr] at h
  simp only [Load.ok.injEq] at h
  subst h
  simp only
  apply List.map_congr_left
  intro r hr'
  apply List.map_congr_left
  intro f hf
  exact cast_eq_specCell f (hb r hr' f hf)

/-- a field is cast to what the property asks for, unless it spells a boolean -/
theorem cast_faithful_partial (f : Bytes) (h : boolSpelled f = false) : cast f = specCell f :=
  cast_eq_specCell f h

/-- exactly the boolean spellings become `bool` cells -/
theorem cast_bool_iff_boolSpelled (f : Bytes) : (∃ b, cast f = .bool b) ↔ boolSpelled f = true :=
  cast_bool_iff f

/-- a numeric field becomes a number cell holding `parseFloat`'s result, and reads back through
`CellFloat64` as that.  (By itself this says nothing about WHICH number: `isNumeric` is defined with
the same `parseFloat`.  The value is pinned down in the last section: `parseFloat_small_nat`,
`numeric_value_dec`, `numeric_value_hex`.) -/
theorem numeric_cell (f : Bytes) (h : isNumeric f = true) :
    ∃ bits, parseFloat f = some bits ∧ cast f = .num bits ∧ cellFloat64 (cast f) = some bits := by
  unfold isNumeric at h
  cases hp : parseFloat f with
  | none => simp [hp] at h
  | some bits => exact ⟨bits, rfl, by simp [cast, hp], by simp [cast, hp, cellFloat64]⟩

/-- a field that is neither numeric nor a boolean spelling is kept byte for byte and reads back
through `CellString` unchanged -/
theorem text_cell_reads_back (f : Bytes) (hn : isNumeric f = false) (hb : boolSpelled f = false) :
    cast f = .text f ∧ cellString (cast f) = .str f := by
  have h1 : cast f = .text f := by
    rw [cast_eq_specCell f hb]
    unfold isNumeric at hn
    unfold specCell
    cases hp : parseFloat f with
    | none => rfl
    | some b => simp [hp] at hn
  exact ⟨h1, by rw [h1]; rfl⟩

/-- a text cell always holds exactly the field's bytes -/
theorem text_cell_is_field (f s : Bytes) (h : cast f = .text s) : s = f := cast_text f s h

/-- the defect D20 as a fact about today's code: a boolean spelling reads back as the empty string -/
theorem bool_cell_reads_back_empty (f : Bytes) (h : boolSpelled f = true) :
    cellString (cast f) = .str [] ∧ cellFloat64 (cast f) = none := by
  obtain ⟨b, hb⟩ := (cast_bool_iff f).mpr h
  rw [hb]
  exact ⟨rfl, rfl⟩

/-- the full statement is refuted by `"a\ntrue\n"`: the cell is a bool, not the text `true`,
and `CellString` returns "" -/
example : load [0x61, 0x0A, 0x74, 0x72, 0x75, 0x65, 0x0A] = .ok ⟨[[0x61]], [[.bool true]], 1⟩ ∧
    specCell [0x74, 0x72, 0x75, 0x65] = .text [0x74, 0x72, 0x75, 0x65] ∧
    cellString (.bool true) = .str [] := by decide
example : boolSpelled [0x46] = true := by decide                -- `F`
example : boolSpelled [0x31] = false := by decide               -- `1` is numeric, not a boolean spelling
/-- the hypothesis is satisfiable: `"a,b\n1.5,x\n"` -/
example : load [0x61, 0x2C, 0x62, 0x0A, 0x31, 0x2E, 0x35, 0x2C, 0x78, 0x0A] =
    .ok ⟨[[0x61], [0x62]], [[.num 0x3FF8000000000000, .text [0x78]]], 2⟩ := by decide

/-! ## round trips (used by C13) -/

/-- **render_parse.**  Parsing what crem's own marshalers write (`", "`-joined rows, nothing quoted)
gives back the same records, for every table whose rows all have `n ≥ 1` fields, whose fields
contain none of `, " \n \r` and do not start with a Unicode space, and which has no row consisting
of the single empty field. -/
theorem render_parse (n : Nat) (rows : List (List Bytes)) (h : wellFormedRows n rows = true) :
    readAll (render rows) = .ok rows := by
  simp only [wellFormedRows, Bool.and_eq_true, decide_eq_true_eq, List.all_eq_true, beq_iff_eq,
    bne_iff_ne] at h
  obtain ⟨hn, hw⟩ := h
  have hplain : ∀ r ∈ rows, ∀ f ∈ r, ∀ b ∈ f, b ≠ bCR := by
    intro r hr f hf b hb
    have := ((plainField_iff f).mp ((hw r hr).1.2 f hf)).1 b hb
    exact this.2.2.2
  unfold readAll
  rw [normalize_noCR _ (render_noCR rows hplain)]
  have := scan_rows_of_row render renderRow rfl (fun _ _ => rfl) n rows
    (fun r => (∀ f ∈ r, plainField f = true) ∧ r ≠ [[]] ∧ r ≠ [])
    (fun r hp recs rest => by
      have := scan_row r hp.1 true [] recs rest hp.2.2 (fun _ => hp.2.1)
      simpa using this)
    (fun r hr => by
      obtain ⟨⟨hl, hp⟩, hne⟩ := hw r hr
      refine ⟨hl, hp, hne, ?_⟩
      intro h0
      rw [h0] at hl
      simp at hl
      omega)
    [] (by simp)
  simpa using this

/-- … and so loads as the table with that header and the casts of those fields. -/
theorem render_load (n : Nat) (hdr : List Bytes) (rows : List (List Bytes))
    (h : wellFormedRows n (hdr :: rows) = true) :
    load (render (hdr :: rows)) = .ok { header := hdr, cells := rows.map (·.map cast) } := by
  exact load_of_readAll (render_parse n (hdr :: rows) h)

/-- **renderQ_parse.**  The quoted-field path of the reader: a table rendered with every field
quoted (quotes doubled) parses back to the same records, whatever the fields contain — commas,
quotes, line feeds, leading spaces, arbitrary bytes — except `\r` (which the reader rewrites). -/
theorem renderQ_parse (n : Nat) (rows : List (List Bytes)) (h : wellFormedRowsQ n rows = true) :
    readAll (renderQ rows) = .ok rows := by
  simp only [wellFormedRowsQ, Bool.and_eq_true, decide_eq_true_eq, List.all_eq_true, beq_iff_eq,
    bne_iff_ne] at h
  obtain ⟨hn, hw⟩ := h
  unfold readAll
  rw [normalize_noCR _ (renderQ_noCR rows (fun r hr f hf b hb => (hw r hr).2 f hf b hb))]
  have := scan_rows_of_row renderQ renderRowQ rfl (fun _ _ => rfl) n rows (fun r => r ≠ [])
    (fun r hp recs rest => by
      have := scan_rowQ r true [] recs rest hp
      simpa using this)
    (fun r hr => by
      refine ⟨(hw r hr).1, ?_⟩
      intro h0
      have hl := (hw r hr).1
      rw [h0] at hl
      simp at hl
      omega)
    [] (by simp)
  simpa using this

/-! ## ragged rows are rejected -/

/-- **render_ragged_rejected.**  In a text of crem's own format, the first row whose field count
differs from the header's makes the whole text an error — whatever follows it (`rest` is ANY byte
string): a reader that padded, truncated or dropped the row would not satisfy this. -/
theorem render_ragged_rejected (n : Nat) (pre : List (List Bytes)) (r' : List Bytes) (rest : Bytes)
    (hpre : wellFormedRows n pre = true) (hne : pre ≠ [])
    (hr' : ∀ f ∈ r', plainField f = true) (hr'ne : r' ≠ []) (hr'1 : r' ≠ [[]]) (hlen : r'.length ≠ n) :
    readAll (render pre ++ renderRow r' ++ bNL :: rest) = .error .fieldCount := by
  simp only [wellFormedRows, Bool.and_eq_true, decide_eq_true_eq, List.all_eq_true, beq_iff_eq,
    bne_iff_ne] at hpre
  obtain ⟨hn, hw⟩ := hpre
  have hplain : ∀ r ∈ pre, ∀ f ∈ r, ∀ b ∈ f, b ≠ bCR := by
    intro r hr f hf b hb
    exact (((plainField_iff f).mp ((hw r hr).1.2 f hf)).1 b hb).2.2.2
  have hplain' : ∀ f ∈ r', ∀ b ∈ f, b ≠ bCR := by
    intro f hf b hb
    exact (((plainField_iff f).mp (hr' f hf)).1 b hb).2.2.2
  have hnoCR : ∀ b ∈ render pre ++ renderRow r', b ≠ bCR := by
    intro b hb
    rcases List.mem_append.mp hb with hb | hb
    · exact render_noCR pre hplain b hb
    · exact renderRow_noCR r' hplain' b hb
  unfold readAll
  rw [normalize_append_noCR _ hnoCR]
  have hnl : normalize (bNL :: rest) = bNL :: normalize rest := by
    have : (bNL == bCR) = false := by decide
    simp [normalize, this]
  rw [hnl, List.append_assoc]
  have := scan_rows_prefix render renderRow rfl (fun _ _ => rfl) n pre
    (fun r => (∀ f ∈ r, plainField f = true) ∧ r ≠ [[]] ∧ r ≠ [])
    (fun r hp recs rest => by
      have := scan_row r hp.1 true [] recs rest hp.2.2 (fun _ => hp.2.1)
      simpa using this)
    (fun r hr => by
      obtain ⟨⟨hl, hp⟩, hne⟩ := hw r hr
      refine ⟨hl, hp, hne, ?_⟩
      intro h0
      rw [h0] at hl
      simp at hl
      omega)
    [] (renderRow r' ++ bNL :: normalize rest) (by simp)
  rw [this]
  have h2 := scan_row r' hr' true [] ([] ++ pre) (normalize rest) hr'ne (fun _ => hr'1)
  rw [h2]
  cases pre with
  | nil => exact absurd rfl hne
  | cons first tl =>
    have hfl : first.length = n := (hw first (by simp)).1.1
    rw [endRec_ragged (first := first) (by simp) (by simpa [hfl] using hlen)]
    rfl

/-- the same, said about whole tables: rows `pre` (at least the header), the ragged row, any rows `post` -/
theorem render_ragged_rejected_table (n : Nat) (pre post : List (List Bytes)) (r' : List Bytes)
    (hpre : wellFormedRows n pre = true) (hne : pre ≠ [])
    (hr' : ∀ f ∈ r', plainField f = true) (hr'ne : r' ≠ []) (hr'1 : r' ≠ [[]]) (hlen : r'.length ≠ n) :
    readAll (render (pre ++ r' :: post)) = .error .fieldCount := by
  have := render_ragged_rejected n pre r' (render post) hpre hne hr' hr'ne hr'1 hlen
  simpa [render_append, render] using this

-- `a, b / c / d, e`: the short second row is an error, not a short row
example : readAll (render [[[0x61], [0x62]], [[0x63]], [[0x64], [0x65]]]) = .error .fieldCount := by decide

/-! ## mixed quoting; where the quote errors arise -/


/-- **renderM_parse.**  Quoted and unquoted fields side by side, each with or without a space
before it: every table whose fields are free of `\r`, whose unquoted fields are plain, and which
has no row written as an empty line parses back to exactly its records. -/
theorem renderM_parse (q sp : Bytes → Bool) (n : Nat) (rows : List (List Bytes))
    (h : wellFormedRowsM q sp n rows = true) : readAll (renderM q sp rows) = .ok rows := by
  obtain ⟨hn, hw⟩ := (wellFormedRowsM_iff q sp n rows).mp h
  unfold readAll
  rw [normalize_noCR _ (renderM_noCR q sp rows (fun r hr f hf => ((hw r hr).2.1 f hf).1))]
  have := scan_rows_of_row (renderM q sp) (renderRowM q sp) rfl (fun _ _ => rfl) n rows
    (fun r => (∀ f ∈ r, q f = true ∨ plainField f = true) ∧ r ≠ [] ∧ (r = [[]] → q [] = false → sp [] = true))
    (fun r hp recs rest => by
      have := scan_rowM q sp r hp.1 true [] recs rest hp.2.1 (fun _ => hp.2.2)
      simpa using this)
    (fun r hr => by
      obtain ⟨hl, hf, hb⟩ := hw r hr
      refine ⟨hl, fun f hf' => (hf f hf').2, ?_, hb⟩
      intro h0
      rw [h0] at hl
      simp at hl
      omega)
    [] (by simp)
  simpa using this

/-- **Where `ErrBareQuote` arises**: after any well-formed rows and any complete fields of the
current row, a `"` that follows a non-empty run of plain bytes — whatever comes after it. -/
theorem bareQuote_arises (q sp : Bytes → Bool) (n : Nat) (pre : List (List Bytes)) (fs : List Bytes)
    (g rest : Bytes) (hpre : wellFormedRowsM q sp n pre = true)
    (hfs : ∀ f ∈ fs, (∀ b ∈ f, b ≠ bCR) ∧ (q f = true ∨ plainField f = true))
    (hg : plainField g = true) (hgne : g ≠ []) :
    readAll (renderM q sp pre ++ fieldsM q sp fs ++ g ++ bQuote :: rest) = .error .bareQuote := by
  have hgCR : ∀ b ∈ g, b ≠ bCR := fun b hb => (((plainField_iff g).mp hg).1 b hb).2.2.2
  rw [readAll_after_prefix q sp n pre fs g (bQuote :: rest) hpre hfs hgCR]
  have hq : normalize (bQuote :: rest) = bQuote :: normalize rest := by
    have : (bQuote == bCR) = false := by decide
    simp [normalize, this]
  rw [hq]
  cases g with
  | nil => exact absurd rfl hgne
  | cons b g' => exact scan_start_plain_quote _ _ b g' _ hg

/-- **Where `ErrQuote` arises (1)**: a quoted field whose closing quote is followed by anything
but `"` `,` or a line end. -/
theorem quote_arises_after_closing (q sp : Bytes → Bool) (n : Nat) (pre : List (List Bytes)) (fs : List Bytes)
    (g : Bytes) (c : UInt8) (rest : Bytes) (hpre : wellFormedRowsM q sp n pre = true)
    (hfs : ∀ f ∈ fs, (∀ b ∈ f, b ≠ bCR) ∧ (q f = true ∨ plainField f = true))
    (hg : ∀ b ∈ g, b ≠ bCR) (hc : c ≠ bQuote ∧ c ≠ bComma ∧ c ≠ bNL ∧ c ≠ bCR) :
    readAll (renderM q sp pre ++ fieldsM q sp fs ++ quoteField g ++ c :: rest) = .error .quote := by
  have hqCR : ∀ b ∈ quoteField g, b ≠ bCR := by
    have := fieldM_noCR (fun _ => true) (fun _ => false) g hg
    simpa [fieldM] using this
  rw [readAll_after_prefix q sp n pre fs (quoteField g) (c :: rest) hpre hfs hqCR]
  have hn : normalize (c :: rest) = c :: normalize rest := by
    have : (c == bCR) = false := by simpa using hc.2.2.2
    simp [normalize, this]
  rw [hn]
  simp only [quoteField, List.cons_append, List.append_assoc, List.nil_append]
  rw [scan_start_quote, scan_quoted_run, scan]
  simp only [beq_self_eq_true, ↓reduceIte]
  rw [scan]
  have h1 : (c == bQuote) = false := by simpa using hc.1
  have h2 : (c == bComma) = false := by simpa using hc.2.1
  have h3 : (c == bNL) = false := by simpa using hc.2.2.1
  simp [h1, h2, h3]

/-- **Where `ErrQuote` arises (2)**: a quoted field that is still open when the text ends. -/
theorem quote_arises_unterminated (q sp : Bytes → Bool) (n : Nat) (pre : List (List Bytes)) (fs : List Bytes)
    (g : Bytes) (hpre : wellFormedRowsM q sp n pre = true)
    (hfs : ∀ f ∈ fs, (∀ b ∈ f, b ≠ bCR) ∧ (q f = true ∨ plainField f = true))
    (hg : ∀ b ∈ g, b ≠ bCR) :
    readAll (renderM q sp pre ++ fieldsM q sp fs ++ (bQuote :: escapeQ g) ++ []) = .error .quote := by
  have hqCR : ∀ b ∈ bQuote :: escapeQ g, b ≠ bCR := by
    intro b hb
    simp only [List.mem_cons] at hb
    rcases hb with hb | hb
    · subst hb; decide
    · exact escapeQ_noCR g hg b hb
  rw [readAll_after_prefix q sp n pre fs (bQuote :: escapeQ g) [] hpre hfs hqCR]
  simp only [normalize, List.append_nil]
  rw [scan_start_quote]
  have := scan_quoted_run g { field := [], fields := fs, recs := pre } []
  simp only [List.append_nil] at this
  rw [this, scan]

/-- **No quote, no quote error**: `ErrQuote` and `ErrBareQuote` arise only in texts containing `"`.
So a text without `"` is read into records, or has a row of the wrong field count. -/
theorem quote_error_needs_quote (text : Bytes)
    (h : readAll text = .error .quote ∨ readAll text = .error .bareQuote) : bQuote ∈ text := by
  by_cases hq : bQuote ∈ text
  · exact hq
  · exfalso
    have hfree : ∀ b ∈ normalize text, b ≠ bQuote := by
      intro b hb hbq
      subst hbq
      exact hq (mem_normalize text _ hb)
    have := scan_quoteFree (.start true) {} (normalize text) rfl hfree
    unfold readAll at h
    rcases h with h | h
    · exact this.1 h
    · exact this.2 h

theorem no_quote_ok_or_fieldCount (text : Bytes) (hq : bQuote ∉ text) :
    (∃ rs, readAll text = .ok rs) ∨ readAll text = .error .fieldCount := by
  cases hr : readAll text with
  | ok rs => exact Or.inl ⟨rs, rfl⟩
  | error e =>
    right
    cases e with
    | fieldCount => rfl
    | quote => exact absurd (quote_error_needs_quote text (Or.inl hr)) hq
    | bareQuote => exact absurd (quote_error_needs_quote text (Or.inr hr)) hq
    | noRecords => exact absurd hr (readAll_ne_noRecords text)

/-! non-vacuity and necessity of the round-trip hypotheses (tests, labelled as such) -/

-- `Solution, Actions` / `As-Is, 1ABC` in crem's format
example : wellFormedRows 2 [[[0x53], [0x41]], [[0x41, 0x73, 0x2D, 0x49, 0x73], [0x31, 0x41, 0x42, 0x43]]] = true := by decide
example : render [[[0x53], [0x41]], [[0x78], [0x79]]] = [0x53, 0x2C, 0x20, 0x41, 0x0A, 0x78, 0x2C, 0x20, 0x79, 0x0A] := by decide
example : readAll (render [[[0x53], [0x41]], [[0x78], []]]) = .ok [[[0x53], [0x41]], [[0x78], []]] := by decide
-- a leading space is lost (so `plainField` excludes it) …
example : readAll (render [[[0x20, 0x61]]]) = .ok [[[0x61]]] := by decide
-- … a row that is one empty field vanishes (so `wellFormedRows` excludes it) …
example : readAll (render [[[0x61]], [[]]]) = .ok [[[0x61]]] := by decide
-- … and an unquoted comma splits the field
example : readAll (render [[[0x61, 0x2C, 0x62]]]) = .ok [[[0x61], [0x62]]] := by decide
-- the quoted writer carries all of those: `" a"`, `""`, `"a,b"`, `"q""q"`, a line feed
example : wellFormedRowsQ 1 [[[0x20, 0x61]], [[]], [[0x61, 0x2C, 0x62]], [[0x71, 0x22, 0x71]], [[0x0A]]] = true := by decide
example : readAll (renderQ [[[0x20, 0x61]], [[]], [[0x61, 0x2C, 0x62]], [[0x71, 0x22, 0x71]], [[0x0A]]]) =
    .ok [[[0x20, 0x61]], [[]], [[0x61, 0x2C, 0x62]], [[0x71, 0x22, 0x71]], [[0x0A]]] := by decide
-- `\r\n` inside quotes comes back as `\n` (so `wellFormedRowsQ` excludes `\r`)
example : readAll (renderQ [[[0x0D, 0x0A]]]) = .ok [[[0x0A]]] := by decide

/-! non-vacuity of the mixed-quoting and error theorems (tests, labelled as such) -/

/-- quote a field iff it is not plain; a space before every field that starts with `x` -/
def qNeeded (f : Bytes) : Bool := !plainField f
def spX (f : Bytes) : Bool := f.head? == some 0x78
-- `a,"b,c", x` / `"",d,e`: quoted and unquoted side by side, a quoted empty field, a trimmed space
example : wellFormedRowsM qNeeded spX 3 [[[0x61], [0x62, 0x2C, 0x63], [0x78]], [[0x22], [0x64], [0x65]]] = true := by decide
example : renderM qNeeded spX [[[0x61], [0x62, 0x2C, 0x63], [0x78]]] =
    [0x61, 0x2C, 0x22, 0x62, 0x2C, 0x63, 0x22, 0x2C, 0x20, 0x78, 0x0A] := by decide
example : readAll (renderM qNeeded spX [[[0x61], [0x62, 0x2C, 0x63], [0x78]], [[0x22], [0x64], [0x65]]]) =
    .ok [[[0x61], [0x62, 0x2C, 0x63], [0x78]], [[0x22], [0x64], [0x65]]] := by decide
-- a space before a quoted field: ` "a b"` (the case `"a" ,b` — space AFTER the quote — is ErrQuote, below)
example : readAll (renderM (fun _ => true) (fun _ => true) [[[0x61, 0x20, 0x62]]]) = .ok [[[0x61, 0x20, 0x62]]] := by decide
-- bareQuote_arises at `h\na,b"…`, quote_arises_after_closing at `h\n"a" ,b`, unterminated at `h\n"a`
example : readAll ([0x68, 0x0A] ++ [0x61, 0x2C] ++ [0x62] ++ bQuote :: [0x7A]) = .error .bareQuote := by decide
example : readAll ([0x68, 0x0A] ++ [] ++ quoteField [0x61] ++ 0x20 :: [0x2C, 0x62]) = .error .quote := by decide
example : readAll ([0x68, 0x0A] ++ [] ++ (bQuote :: escapeQ [0x61]) ++ []) = .error .quote := by decide
-- a quote at the START of an unquoted-looking field opens a quoted field instead (no bare quote): `"a"b`
example : readAll [0x22, 0x61, 0x22, 0x62] = .error .quote := by decide

/-! ## text columns (`ParseCsvTextIntoTableWithTextColumns`) -/

/-- `ParseCsvTextIntoTable` is the text-column loader without headings -/
theorem loadT_nil (text : Bytes) : loadT [] text = load text := by
  unfold loadT load
  cases readAll text with
  | error e => rfl
  | ok rs => exact deriveTableT_nil rs

/-- **loadT_total.**  `load_total` with text columns: same errors, same header, same shape; the
cell under heading `h` holding field `f` is `castIn ths h f`. -/
theorem loadT_total (ths : List Bytes) (text : Bytes) :
    (∃ e, readAll text = .error e ∧ loadT ths text = .error e) ∨
    (noRecords text = true ∧ readAll text = .ok [] ∧ loadT ths text = .error .noRecords) ∨
    (∃ hdr rows, readAll text = .ok (hdr :: rows) ∧ hdr ≠ [] ∧ (∀ r ∈ rows, r.length = hdr.length) ∧
      loadT ths text = .ok { header := hdr, cells := rows.map (List.zipWith (castIn ths) hdr) }) := by
  unfold loadT
  cases hr : readAll text with
  | error e => exact Or.inl ⟨e, rfl, rfl⟩
  | ok rs =>
    cases rs with
    | nil => exact Or.inr (Or.inl ⟨(readAll_nil_iff text).mp hr, rfl, rfl⟩)
    | cons hdr rows =>
      have hg := readAll_good hr
      exact Or.inr (Or.inr ⟨hdr, rows, rfl, (good_cons hg).1, (good_cons hg).2, deriveTableT_good ths hg⟩)

theorem loadT_no_panic (ths : List Bytes) (text : Bytes) (p : PanicSite) : loadT ths text ≠ .panic p := by
  rcases loadT_total ths text with ⟨e, _, h⟩ | ⟨_, _, h⟩ | ⟨hdr, rows, _, _, _, h⟩ <;> rw [h] <;> simp

/-- whether a text is accepted, and with which error it is rejected, does not depend on the text headings -/
theorem loadT_error_iff (ths : List Bytes) (text : Bytes) (e : CsvErr) :
    loadT ths text = .error e ↔ load text = .error e := by
  rcases loadT_total ths text with ⟨e', he, h⟩ | ⟨_, he, h⟩ | ⟨hdr, rows, he, _, _, h⟩ <;>
  rcases load_total text with ⟨e'', he', h'⟩ | ⟨_, he', h'⟩ | ⟨hdr', rows', he', _, _, h'⟩ <;>
  rw [h, h'] <;> rw [he] at he' <;> simp_all

/-- a cell of a text column holds exactly the field's bytes and reads back through `CellString`
unchanged — whatever the field looks like (`1E5`, `F`, `inf`); a cell of any other column is the cast -/
theorem text_column_cell (ths : List Bytes) (h f : Bytes) :
    (isTextColumn ths h = true → castIn ths h f = .text f ∧ cellString (castIn ths h f) = .str f) ∧
    (isTextColumn ths h = false → castIn ths h f = cast f) := by
  constructor <;> intro hh <;> simp [castIn, hh, cellString]

/-- `Solution,Actions` / `x,1E5` with text heading `Actions`: the encoding stays text (C13's repair), the
same text without headings gives the number 100000 -/
example : loadT [[0x41]] [0x53, 0x2C, 0x41, 0x0A, 0x78, 0x2C, 0x31, 0x45, 0x35, 0x0A] =
    .ok ⟨[[0x53], [0x41]], [[.text [0x78], .text [0x31, 0x45, 0x35]]], 2⟩ := by decide
example : load [0x53, 0x2C, 0x41, 0x0A, 0x78, 0x2C, 0x31, 0x45, 0x35, 0x0A] =
    .ok ⟨[[0x53], [0x41]], [[.text [0x78], .num 0x40F86A0000000000]], 2⟩ := by decide
-- two columns with the same heading are both text columns; a heading that does not occur changes nothing
example : loadT [[0x41], [0x5A]] [0x41, 0x2C, 0x41, 0x0A, 0x31, 0x2C, 0x46, 0x0A] =
    .ok ⟨[[0x41], [0x41]], [[.text [0x31], .text [0x46]]], 2⟩ := by decide

/-! ## a data set that is loaded into more than once

"Either a table or an error" is two observations in Go, `Errors()` and `Table(name)`, on a data set
that may have a history.  `ds.errors` only grows, so the clause is about what ONE load adds.  The
code as found dropped `AddTable`'s refusal of a used name: the second text then gave neither
(`csv:duplicate-table-neither-error-nor-table`; repaired in /repo, `reportDuplicate = true`). -/

theorem parseInto_no_panic (rd : Bool) (ds : DataSet) (name : Bytes) (ths : List Bytes) (text : Bytes) :
    DataSet.parseInto rd ds name ths text ≠ none := by
  unfold DataSet.parseInto
  have := loadT_no_panic ths text
  split
  · simp
  · rename_i p hp; exact absurd hp (this p)
  · split <;> simp

/-- **Error xor table, on any data set** (repaired code): one load either adds exactly one error and
leaves every table as it was, or adds no error and puts exactly the table of this text under the
name — which was free — leaving every other name as it was. -/
theorem parseInto_error_xor_table (ds ds' : DataSet) (name : Bytes) (ths : List Bytes) (text : Bytes)
    (h : DataSet.parseInto true ds name ths text = some ds') :
    (ds'.errors.length = ds.errors.length + 1 ∧ ds'.tables = ds.tables) ∨
    (ds'.errors = ds.errors ∧ ds.table? name = none ∧ ∃ t, loadT ths text = .ok t ∧ ds'.table? name = some t ∧
      ∀ other, other ≠ name → ds'.table? other = ds.table? other) := by
  unfold DataSet.parseInto at h
  split at h
  · simp only [Option.some.injEq] at h; subst h; left; simp
  · simp at h
  · rename_i t ht
    split at h
    · simp only [↓reduceIte, Option.some.injEq] at h; subst h; left; simp
    · rename_i hfree
      simp only [Option.some.injEq] at h
      subst h
      right
      refine ⟨rfl, hfree, t, ht, table?_append_new ds name t hfree, ?_⟩
      intro other hne
      unfold DataSet.table?
      simp only [List.find?_append]
      have : (List.find? (fun p => p.1 == other) [(name, t)]) = none := by
        have hb : (name == other) = false := by simpa using Ne.symm hne
        simp [List.find?, hb]
      rw [this]
      simp

/-- … and which of the two happens: an error exactly when the text is malformed or the name is taken -/
theorem parseInto_error_iff (ds ds' : DataSet) (name : Bytes) (ths : List Bytes) (text : Bytes)
    (h : DataSet.parseInto true ds name ths text = some ds') :
    ds'.errors.length = ds.errors.length + 1 ↔ ((∃ e, load text = .error e) ∨ ds.table? name ≠ none) := by
  unfold DataSet.parseInto at h
  split at h
  · rename_i e he
    simp only [Option.some.injEq] at h; subst h
    simp [(loadT_error_iff ths text e).mp he]
  · simp at h
  · rename_i t ht
    have hne : ¬ ∃ e, load text = .error e := by
      rintro ⟨e, he⟩
      rw [(loadT_error_iff ths text e).mpr he] at ht
      simp at ht
    split at h
    · rename_i t' hsome
      simp only [↓reduceIte, Option.some.injEq] at h; subst h
      simp [hsome]
    · rename_i hfree
      simp only [Option.some.injEq] at h; subst h
      simp [hfree, hne]

/-- the code as found, refuted: `b\n2\n` loaded under the name already used for `a\n1\n` leaves no error
and not its table … -/
example :
    ((DataSet.parseInto false {} [0x74] [] [0x61, 0x0A, 0x31, 0x0A]).bind
      (fun ds => DataSet.parseInto false ds [0x74] [] [0x62, 0x0A, 0x32, 0x0A])) =
    some { errors := [], tables := [([0x74], ⟨[[0x61]], [[.num 0x3FF0000000000000]], 1⟩)] } := by decide
/-- … the repaired code reports it -/
example :
    ((DataSet.parseInto true {} [0x74] [] [0x61, 0x0A, 0x31, 0x0A]).bind
      (fun ds => DataSet.parseInto true ds [0x74] [] [0x62, 0x0A, 0x32, 0x0A])) =
    some { errors := [.duplicateTable], tables := [([0x74], ⟨[[0x61]], [[.num 0x3FF0000000000000]], 1⟩)] } := by decide
/-- errors are sticky: a good text after a bad one still loads, and `Errors()` keeps reporting the bad one -/
example :
    ((DataSet.parseInto true {} [0x74] [] [0x22]).bind
      (fun ds => DataSet.parseInto true ds [0x74] [] [0x62, 0x0A])) =
    some { errors := [.csv .quote], tables := [([0x74], ⟨[[0x62]], [], 1⟩)] } := by decide

/-! ## the VALUE of a number cell

`isNumeric` / `specCell` / `numeric_cell` above say *which* fields become numbers and that the cell
holds `parseFloat`'s result; what that result IS, is pinned down here against a specification that
does not mention the parsing code: `natOf` (the number a digit string denotes), `bitsOfNat` (the
binary64 pattern of a small integer), `decodePos` (the rational a pattern denotes) and `NearestEven`
(IEEE 754 round-to-nearest, ties to even).

Scope.  The model's rounding follows mathematics.  `strconv.ParseFloat` (go1.23 and go1.26) does
not for some decimal literals with more than 800 significant mantissa digits: its multiprecision
fallback stores 800 digits and, when the decimal point comes after more than 800 of them (or is
absent), takes the position of the point from the stored digits, so the value comes out too small
by the factor 10^(d−800), d = digits before the point (an 850-digit integer mantissa with `e-845`:
about 3.5e-46 instead of 35075.4).  The fallback is reached only when the Eisel-Lemire fast path
gives up (a few inputs in a thousand).  That is a defect of Go's strconv, not of crem — crem stores
exactly what `ParseFloat` returns — but it bounds what the MODEL may be claimed to describe.  The
theorems about decimal literals therefore carry the decidable hypothesis `mantDigits f ≤ 800`: the
proofs do not need it (the model rounds correctly everywhere), the tie to the Go code does.  The
corpus keeps one such literal (`corpus/C20/long-mantissa.ops`, op `castgo`), judged on the Go side
against `strconv.ParseFloat` only. -/

/-- **Integers below 2^53 are parsed exactly**: a non-empty string of decimal digits denoting
`n < 2^53` becomes the number cell with the binary64 pattern of `n` … -/
theorem parseFloat_small_nat (ds : Bytes) (hne : ds ≠ []) (h : allDigits ds = true) (hlt : natOf ds < 2 ^ 53) :
    parseFloat ds = some (bitsOfNat (natOf ds)) ∧ cast ds = .num (bitsOfNat (natOf ds)) := by
  have := parseFloat_digits ds hne h hlt
  exact ⟨this, by simp [cast, this]⟩

/-- … and that pattern denotes `n` -/
theorem bitsOfNat_value (n : Nat) (h : n < 2 ^ 53) : decodePos (bitsOfNat n) = n := by
  unfold bitsOfNat
  split
  · rename_i h0; subst h0; simp [decodePos]
  · rename_i hn
    have hL : n.log2 < 53 := (Nat.log2_lt hn).mpr h
    have h2 : 2 ^ n.log2 ≤ n := Nat.log2_self_le hn
    have h3 : n < 2 ^ (n.log2 + 1) := Nat.lt_log2_self
    have hpow : 2 ^ n.log2 * 2 ^ (52 - n.log2) = 2 ^ 52 := by
      rw [← Nat.pow_add]; congr 1; omega
    have hpow' : 2 ^ (n.log2 + 1) * 2 ^ (52 - n.log2) = 2 ^ 53 := by
      rw [← Nat.pow_add]; congr 1; omega
    have hge : 2 ^ 52 ≤ n * 2 ^ (52 - n.log2) := by
      rw [← hpow]; exact Nat.mul_le_mul_right _ h2
    have hlt : n * 2 ^ (52 - n.log2) < 2 ^ 53 := by
      rw [← hpow']; exact Nat.mul_lt_mul_of_pos_right h3 (Nat.pow_pos (by decide))
    have hshape : (1023 + n.log2) * 2 ^ 52 + (n * 2 ^ (52 - n.log2) - 2 ^ 52) =
        (1022 + n.log2) * 2 ^ 52 + n * 2 ^ (52 - n.log2) := by omega
    rw [hshape, decodePos_enc _ _ hlt.le (fun _ => hge)]
    push_cast
    have : ((1022 : ℤ) + (n.log2 : ℤ) - 1074) = -((52 - n.log2 : ℕ) : ℤ) := by omega
    rw [this, zpow_neg, zpow_natCast, mul_assoc, mul_inv_cancel₀ (by positivity), mul_one]

example : natOf [0x34, 0x32] = 42 ∧ bitsOfNat 42 = 0x4045000000000000 := by decide
example : parseFloat [0x30, 0x30, 0x37] = some (bitsOfNat 7) := by decide     -- `007`
-- 2^53 + 1 = 9007199254740993 is outside: it is not representable and rounds to 2^53
example : natOf [0x39, 0x30, 0x30, 0x37, 0x31, 0x39, 0x39, 0x32, 0x35, 0x34, 0x37, 0x34, 0x30, 0x39, 0x39, 0x33] = 2 ^ 53 + 1 ∧
    parseFloat [0x39, 0x30, 0x30, 0x37, 0x31, 0x39, 0x39, 0x32, 0x35, 0x34, 0x37, 0x34, 0x30, 0x39, 0x39, 0x33] = some 0x4340000000000000 := by decide

/-- the nearest-even pattern of a value is unique: `NearestEven` pins the cell down -/
theorem value_unique (x : ℚ) (b₁ b₂ : Nat) (h₁ : NearestEven x b₁) (h₂ : NearestEven x b₂) : b₁ = b₂ :=
  nearestEven_unique x b₁ b₂ h₁ h₂

/-- **Decimal literals are correctly rounded** (C20 "numeric fields as numbers", full strength for the
literals `± digits [. digits] [e ± digits]` with at most 800 significant digits).  If the grammar
reads the field as `± m × 10^e` with `m ≠ 0`, then
* below `2^1024 − 2^970` (MaxFloat64 plus half an ulp) the field is numeric and its cell is THE
  binary64 number nearest to `m × 10^e`, ties to even (unique by `value_unique`), with the sign;
* from there on `ParseFloat` reports a range error and the field is not numeric (it stays text). -/
theorem numeric_value_dec (f : Bytes) (neg : Bool) (m nd : Nat) (e : Int)
    (hl : parseLit f = some (.dec neg m nd e)) (hm : m ≠ 0) (_h800 : mantDigits f ≤ 800) :
    (decValue m e < 2 ^ 1024 - 2 ^ 970 →
      ∃ b, b < bitsInf ∧ NearestEven (decValue m e) b ∧ parseFloat f = some (withSign neg b) ∧
        cast f = .num (withSign neg b)) ∧
    (2 ^ 1024 - 2 ^ 970 ≤ decValue m e → parseFloat f = none ∧ isNumeric f = false) := by
  have hnd : 0 < nd ∧ 10 ^ (nd - 1) ≤ m ∧ m < 10 ^ nd := by
    rcases parseLit_dec_ndOk f neg m nd e hl with ⟨h0, _⟩ | h
    · exact absurd h0 hm
    · exact h
  have hpf : parseFloat f = (Lit.dec neg m nd e).bits := by simp [parseFloat, hl]
  obtain ⟨h1, h2⟩ := dec_bits_spec neg m nd e hnd
  constructor
  · intro hx
    obtain ⟨b, hb, hne, hbits⟩ := h1 hx
    exact ⟨b, hb, hne, by rw [hpf, hbits], by simp [cast, hpf, hbits]⟩
  · intro hx
    have := h2 hx
    exact ⟨by rw [hpf, this], by simp [isNumeric, hpf, this]⟩

/-- a literal with mantissa zero is the zero of its sign -/
theorem numeric_value_zero (f : Bytes) (neg : Bool) (nd : Nat) (e : Int)
    (hl : parseLit f = some (.dec neg 0 nd e)) : parseFloat f = some (withSign neg 0) := by
  simp [parseFloat, hl, Lit.bits]

/-- **Hexadecimal literals are correctly rounded** (`0x… p ±…`): as `numeric_value_dec`, for `± m × 2^e` -/
theorem numeric_value_hex (f : Bytes) (neg : Bool) (m : Nat) (e : Int)
    (hl : parseLit f = some (.hex neg m e)) (hm : m ≠ 0) :
    (hexValue m e < 2 ^ 1024 - 2 ^ 970 →
      ∃ b, b < bitsInf ∧ NearestEven (hexValue m e) b ∧ parseFloat f = some (withSign neg b) ∧
        cast f = .num (withSign neg b)) ∧
    (2 ^ 1024 - 2 ^ 970 ≤ hexValue m e → parseFloat f = none ∧ isNumeric f = false) := by
  have hpf : parseFloat f = (Lit.hex neg m e).bits := by simp [parseFloat, hl]
  obtain ⟨h1, h2⟩ := hex_bits_spec neg m e hm
  constructor
  · intro hx
    obtain ⟨b, hb, hne, hbits⟩ := h1 hx
    exact ⟨b, hb, hne, by rw [hpf, hbits], by simp [cast, hpf, hbits]⟩
  · intro hx
    have := h2 hx
    exact ⟨by rw [hpf, this], by simp [isNumeric, hpf, this]⟩

/-- the grammar on a plain digit string: mantissa = the number, exponent 0 (so `numeric_value_dec`
speaks about `natOf ds`), `mantDigits` = its number of digits without leading zeros -/
theorem digits_literal (ds : Bytes) (hne : ds ≠ []) (h : allDigits ds = true) :
    parseLit ds = some (.dec false (natOf ds) (mantDigits ds) 0) := by
  obtain ⟨nd, hl, _⟩ := parseLit_digits ds hne h
  have : mantDigits ds = nd := by simp [mantDigits, hl]
  rw [this]; exact hl

/- non-vacuity: `0.1` is `1 × 10^-1`, one mantissa digit, cell 0x3FB999999999999A; `1e400` is out of range -/
example : parseLit [0x30, 0x2E, 0x31] = some (.dec false 1 1 (-1)) ∧ mantDigits [0x30, 0x2E, 0x31] = 1 ∧
    parseFloat [0x30, 0x2E, 0x31] = some 0x3FB999999999999A := by decide
example : parseLit [0x31, 0x65, 0x34, 0x30, 0x30] = some (.dec false 1 1 400) ∧ parseFloat [0x31, 0x65, 0x34, 0x30, 0x30] = none := by decide
example : parseLit [0x2D, 0x30, 0x78, 0x31, 0x2E, 0x38, 0x70, 0x31] = some (.hex true 0x18 (-3)) := by decide   -- -0x1.8p1

/-- the literal kept in `corpus/C20/long-mantissa.ops`: 850 mantissa digits and `e-845` -/
def longMantissaWitness : Bytes := [
  0x33, 0x35, 0x30, 0x37, 0x35, 0x34, 0x34, 0x35, 0x34, 0x38, 0x30, 0x31, 0x36, 0x36, 0x30, 0x34, 0x33, 0x31,
  0x32, 0x30, 0x36, 0x38, 0x33, 0x33, 0x36, 0x32, 0x37, 0x31, 0x37, 0x32, 0x30, 0x37, 0x31, 0x38, 0x36, 0x35,
  0x33, 0x33, 0x39, 0x32, 0x32, 0x34, 0x39, 0x39, 0x31, 0x31, 0x38, 0x30, 0x38, 0x34, 0x33, 0x38, 0x39, 0x32,
  0x35, 0x33, 0x36, 0x34, 0x36, 0x30, 0x36, 0x30, 0x38, 0x34, 0x32, 0x37, 0x33, 0x34, 0x36, 0x32, 0x38, 0x32,
  0x34, 0x38, 0x33, 0x39, 0x31, 0x37, 0x38, 0x31, 0x37, 0x39, 0x37, 0x37, 0x36, 0x37, 0x38, 0x38, 0x31, 0x38,
  0x32, 0x36, 0x31, 0x38, 0x38, 0x31, 0x30, 0x30, 0x35, 0x35, 0x31, 0x35, 0x33, 0x38, 0x38, 0x36, 0x32, 0x34,
  0x35, 0x38, 0x36, 0x38, 0x30, 0x30, 0x37, 0x30, 0x33, 0x37, 0x35, 0x32, 0x37, 0x39, 0x35, 0x30, 0x34, 0x35,
  0x34, 0x38, 0x32, 0x33, 0x33, 0x30, 0x39, 0x36, 0x38, 0x37, 0x38, 0x32, 0x30, 0x36, 0x38, 0x32, 0x32, 0x37,
  0x39, 0x30, 0x36, 0x31, 0x30, 0x37, 0x39, 0x39, 0x38, 0x35, 0x32, 0x34, 0x37, 0x32, 0x37, 0x38, 0x37, 0x38,
  0x31, 0x38, 0x37, 0x37, 0x37, 0x37, 0x31, 0x30, 0x34, 0x39, 0x30, 0x33, 0x30, 0x30, 0x37, 0x31, 0x37, 0x36,
  0x30, 0x36, 0x33, 0x32, 0x30, 0x37, 0x39, 0x34, 0x35, 0x32, 0x37, 0x30, 0x36, 0x33, 0x37, 0x30, 0x32, 0x30,
  0x37, 0x30, 0x33, 0x34, 0x30, 0x38, 0x39, 0x34, 0x38, 0x38, 0x32, 0x34, 0x37, 0x33, 0x32, 0x34, 0x37, 0x31,
  0x37, 0x32, 0x35, 0x32, 0x37, 0x30, 0x34, 0x39, 0x37, 0x33, 0x30, 0x36, 0x32, 0x39, 0x36, 0x33, 0x39, 0x38,
  0x34, 0x37, 0x36, 0x35, 0x39, 0x31, 0x36, 0x32, 0x36, 0x36, 0x33, 0x31, 0x39, 0x33, 0x39, 0x39, 0x33, 0x38,
  0x39, 0x31, 0x30, 0x36, 0x34, 0x32, 0x34, 0x35, 0x33, 0x33, 0x34, 0x31, 0x34, 0x35, 0x39, 0x30, 0x35, 0x35,
  0x33, 0x35, 0x38, 0x39, 0x37, 0x37, 0x33, 0x33, 0x31, 0x38, 0x37, 0x31, 0x32, 0x35, 0x33, 0x34, 0x33, 0x36,
  0x31, 0x31, 0x34, 0x36, 0x32, 0x38, 0x39, 0x37, 0x31, 0x30, 0x39, 0x30, 0x39, 0x37, 0x31, 0x33, 0x33, 0x38,
  0x38, 0x37, 0x31, 0x30, 0x35, 0x36, 0x38, 0x35, 0x35, 0x32, 0x38, 0x38, 0x32, 0x34, 0x37, 0x38, 0x37, 0x32,
  0x32, 0x32, 0x39, 0x30, 0x38, 0x35, 0x35, 0x38, 0x33, 0x37, 0x33, 0x36, 0x32, 0x35, 0x36, 0x38, 0x33, 0x30,
  0x30, 0x31, 0x34, 0x32, 0x36, 0x30, 0x30, 0x35, 0x35, 0x34, 0x36, 0x39, 0x36, 0x38, 0x38, 0x39, 0x38, 0x36,
  0x34, 0x35, 0x39, 0x31, 0x31, 0x31, 0x34, 0x35, 0x31, 0x32, 0x33, 0x38, 0x32, 0x34, 0x36, 0x31, 0x35, 0x37,
  0x33, 0x37, 0x31, 0x33, 0x31, 0x33, 0x31, 0x31, 0x39, 0x31, 0x37, 0x31, 0x36, 0x33, 0x33, 0x36, 0x38, 0x39,
  0x39, 0x39, 0x39, 0x37, 0x37, 0x35, 0x35, 0x36, 0x36, 0x38, 0x33, 0x36, 0x34, 0x38, 0x36, 0x31, 0x35, 0x35,
  0x37, 0x35, 0x31, 0x33, 0x31, 0x31, 0x39, 0x37, 0x32, 0x35, 0x31, 0x36, 0x37, 0x39, 0x36, 0x30, 0x30, 0x39,
  0x34, 0x34, 0x33, 0x31, 0x34, 0x33, 0x39, 0x35, 0x30, 0x32, 0x37, 0x39, 0x31, 0x33, 0x39, 0x30, 0x31, 0x36,
  0x37, 0x37, 0x30, 0x31, 0x39, 0x30, 0x33, 0x30, 0x31, 0x31, 0x36, 0x31, 0x38, 0x38, 0x34, 0x30, 0x36, 0x33,
  0x36, 0x30, 0x34, 0x33, 0x32, 0x30, 0x39, 0x30, 0x31, 0x39, 0x34, 0x36, 0x31, 0x33, 0x30, 0x33, 0x32, 0x39,
  0x30, 0x34, 0x33, 0x37, 0x35, 0x35, 0x35, 0x34, 0x36, 0x38, 0x34, 0x31, 0x31, 0x36, 0x38, 0x38, 0x34, 0x34,
  0x34, 0x30, 0x31, 0x32, 0x30, 0x34, 0x30, 0x39, 0x32, 0x35, 0x37, 0x30, 0x34, 0x33, 0x32, 0x37, 0x33, 0x34,
  0x38, 0x38, 0x38, 0x39, 0x36, 0x30, 0x38, 0x31, 0x37, 0x36, 0x31, 0x37, 0x32, 0x30, 0x33, 0x38, 0x37, 0x37,
  0x32, 0x37, 0x38, 0x36, 0x32, 0x38, 0x37, 0x37, 0x35, 0x36, 0x35, 0x31, 0x38, 0x38, 0x32, 0x39, 0x34, 0x33,
  0x33, 0x30, 0x35, 0x36, 0x38, 0x38, 0x30, 0x39, 0x32, 0x33, 0x34, 0x37, 0x32, 0x33, 0x30, 0x39, 0x32, 0x30,
  0x34, 0x34, 0x31, 0x37, 0x37, 0x31, 0x32, 0x37, 0x37, 0x34, 0x39, 0x36, 0x39, 0x30, 0x35, 0x37, 0x32, 0x33,
  0x37, 0x34, 0x30, 0x35, 0x35, 0x37, 0x36, 0x34, 0x37, 0x35, 0x34, 0x36, 0x36, 0x36, 0x31, 0x34, 0x34, 0x33,
  0x34, 0x38, 0x36, 0x35, 0x30, 0x34, 0x33, 0x32, 0x39, 0x32, 0x39, 0x38, 0x37, 0x38, 0x30, 0x35, 0x37, 0x31,
  0x32, 0x34, 0x39, 0x32, 0x37, 0x38, 0x36, 0x31, 0x30, 0x37, 0x34, 0x39, 0x38, 0x39, 0x31, 0x33, 0x37, 0x30,
  0x38, 0x36, 0x37, 0x37, 0x30, 0x30, 0x36, 0x31, 0x37, 0x34, 0x30, 0x31, 0x34, 0x33, 0x36, 0x32, 0x37, 0x31,
  0x36, 0x37, 0x32, 0x30, 0x34, 0x32, 0x37, 0x31, 0x31, 0x31, 0x39, 0x36, 0x33, 0x37, 0x37, 0x39, 0x37, 0x38,
  0x30, 0x35, 0x38, 0x34, 0x37, 0x31, 0x30, 0x30, 0x30, 0x30, 0x35, 0x33, 0x33, 0x34, 0x35, 0x39, 0x30, 0x36,
  0x31, 0x30, 0x39, 0x31, 0x31, 0x34, 0x37, 0x39, 0x33, 0x38, 0x33, 0x34, 0x37, 0x34, 0x37, 0x30, 0x31, 0x30,
  0x32, 0x39, 0x39, 0x33, 0x36, 0x36, 0x33, 0x38, 0x31, 0x38, 0x31, 0x37, 0x39, 0x30, 0x32, 0x31, 0x33, 0x38,
  0x30, 0x35, 0x32, 0x34, 0x37, 0x34, 0x36, 0x35, 0x36, 0x30, 0x32, 0x33, 0x37, 0x36, 0x38, 0x37, 0x34, 0x33,
  0x31, 0x32, 0x39, 0x38, 0x30, 0x36, 0x32, 0x34, 0x37, 0x33, 0x35, 0x35, 0x37, 0x38, 0x32, 0x38, 0x34, 0x36,
  0x35, 0x37, 0x37, 0x39, 0x32, 0x32, 0x36, 0x33, 0x35, 0x37, 0x31, 0x30, 0x34, 0x30, 0x39, 0x38, 0x36, 0x35,
  0x35, 0x35, 0x31, 0x34, 0x30, 0x38, 0x31, 0x32, 0x34, 0x35, 0x34, 0x31, 0x36, 0x31, 0x30, 0x35, 0x35, 0x33,
  0x37, 0x36, 0x33, 0x31, 0x38, 0x31, 0x31, 0x31, 0x32, 0x39, 0x32, 0x32, 0x39, 0x35, 0x35, 0x36, 0x30, 0x39,
  0x31, 0x39, 0x33, 0x33, 0x33, 0x37, 0x34, 0x31, 0x39, 0x38, 0x35, 0x32, 0x32, 0x31, 0x35, 0x31, 0x38, 0x31,
  0x31, 0x38, 0x34, 0x33, 0x65, 0x2D, 0x38, 0x34, 0x35]

/- outside the scope hypothesis: the model gives the correctly rounded 35075.44548016604
(`0x40E1206E415F9F05`); go1.23 / go1.26 `strconv.ParseFloat` return 3.507544548016604e-46
(`0x3680050692F610E5`) for this literal — off by 10^50 = 10^(850−800). -/
set_option maxRecDepth 100000 in
set_option exponentiation.threshold 1000 in
example : mantDigits longMantissaWitness = 850 ∧ parseFloat longMantissaWitness = some 0x40E1206E415F9F05 := by decide

/-! sanity examples of the reader and the cast grammar (tests, labelled as such) -/

example : readAll [0x61, 0x2C, 0x62, 0x0A, 0x63, 0x0A] = .error .fieldCount := by decide      -- a,b / c
example : readAll [0x61, 0x22, 0x62] = .error .bareQuote := by decide                          -- a"b
example : readAll [0x22, 0x61] = .error .quote := by decide                                    -- "a
example : readAll [0x22, 0x61, 0x22, 0x20, 0x2C, 0x62] = .error .quote := by decide            -- "a" ,b
example : readAll [0xC2, 0xA0, 0x78, 0x2C, 0xE2, 0x80, 0x83, 0x79, 0x0A] = .ok [[[0x78], [0x79]]] := by decide  -- NBSP x , EM-SPACE y
example : readAll [0x20, 0x0A] = .ok [[[]]] := by decide                                       -- " \n" is a record
example : cast [0x31, 0x45, 0x35] = .num 0x40F86A0000000000 := by decide                       -- 1E5 = 100000
example : cast [0x30, 0x78, 0x31, 0x70, 0x2D, 0x32] = .num 0x3FD0000000000000 := by decide     -- 0x1p-2
example : cast [0x31, 0x5F, 0x30, 0x2E, 0x35] = .num 0x4025000000000000 := by decide           -- 1_0.5
example : cast [0x2D, 0x69, 0x6E, 0x66] = .num 0xFFF0000000000000 := by decide                 -- -inf
example : cast [0x31, 0x65, 0x34, 0x30, 0x30] = .text [0x31, 0x65, 0x34, 0x30, 0x30] := by decide  -- 1e400: ErrRange, stays text
example : cast [0x30, 0x78, 0x31, 0x65, 0x35] = .text [0x30, 0x78, 0x31, 0x65, 0x35] := by decide  -- 0x1e5: no p exponent

end Crem.Csv
