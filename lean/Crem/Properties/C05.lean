import Crem.Proofs.Archive
/-!
# C05 — the multi-objective solution set is a duplicate-free Pareto front of the offers

Theorems about the model of `NonDominanceModelArchive` (`Crem/Model/Archive.lean`)
instantiated with the model of `Float64Vector.Dominates` (C17).  All theorems hold for
every archive / offer sequence of any size, any dimension `d` (all vectors of one
history have the same dimension: they are the model's decision variables), ties, equal
vectors and repeated action sets.

`Consistent` = equal action sets carry equal vectors.  In the real system this is C01
(the valuation depends only on the active action set); where it is needed it is an
explicit hypothesis.

That the explorer's own archive after every iteration IS the protocol step `offer` applied to the
iteration's candidate, and hence satisfies `Inv` after every iteration of every run, is
`iterate_archive_eq_offer` / `run_archive_inv` in `Properties/C06.lean` (audited by `./check C05` too).

The last sentence of the property ("each reported member's objective values are those
of the model evaluated at that member's action set") is not a statement about the
archive alone: inside a run it is `ExOk.arch` of `run_archive_inv` (every member is the compressed
form of a state the model went through, and the values are a function of the action set); for what
is written / served it is `saved_row_is_run_valuation` in `Properties/Compose.lean` (C09 ∘ C01,
audited by `./check C05` too); and the correspondence suite `suppa-runs` re-evaluates every final
member on a fresh model.
-/
namespace Crem.Archive
open Crem.Dominance

/-- the archive invariant: no member dominated by another, no two members with one action set -/
def Inv (a : List Entry) : Prop := NonDom dominates a ∧ NoDup a

/-- an offer keeps the invariant -/
theorem attempt_inv (d : Nat) (a : List Entry) (c : Entry) (ha : Dim d a) (hc : c.vec.length = d)
    (h : Inv a) : Inv (Real.attempt a c).2 := by
  have hd : Dim d (attempt (domN d) a c).2 := Dim.attempt ha hc
  unfold Real.attempt
  rw [attempt_real_eq d a c ha hc]
  refine ⟨?_, attempt_noDup a c h.2⟩
  rw [nonDom_real_iff d _ hd]
  exact attempt_nonDom (domN_strictPO d) a c ((nonDom_real_iff d a ha).mp h.1)

/-- a candidate is refused only because a member dominates it or has the same action set, and a
refusal leaves the archive unchanged; the reported reason is truthful -/
theorem attempt_refused_reason (a : List Entry) (c : Entry) :
    ((Real.attempt a c).1 = .rejDominated → (∃ m ∈ a, dominates m.vec c.vec = true) ∧ (Real.attempt a c).2 = a) ∧
    ((Real.attempt a c).1 = .rejDuplicate → (∃ m ∈ a, m.act = c.act) ∧ (Real.attempt a c).2 = a) ∧
    ((Real.attempt a c).1 ≠ .forced) := by
  unfold Real.attempt
  rcases attempt_res_cases (dom := dominates) a c with ⟨_, h | h⟩ | ⟨hc, h2⟩ | ⟨hc, h2⟩
  · simp [h]
  · simp [h]
  · rw [h2]; simp; exact cannot_rejDominated a c hc
  · rw [h2]; simp; exact cannot_rejDuplicate a c hc

/-- nothing blocks ⇒ stored: the candidate is present afterwards (last), the evicted members are
exactly those it dominates, survivors keep their order, and `storedNoDom` is reported exactly when
nothing was evicted -/
theorem attempt_stored (a : List Entry) (c : Entry)
    (h : ∀ m ∈ a, dominates m.vec c.vec = false ∧ m.act ≠ c.act) :
    (Real.attempt a c).2 = a.filter (fun m => !dominates c.vec m.vec) ++ [c] ∧
    ((Real.attempt a c).1 = .storedNoDom ↔ ∀ m ∈ a, dominates c.vec m.vec = false) ∧
    ((Real.attempt a c).1 = .storedNoDom ∨ (Real.attempt a c).1 = .storedReplacing) := by
  have hc := (cannot_none_iff (dom := dominates) a c).mpr h
  refine ⟨(attempt_of_cannot_none a c hc).1, ?_, (attempt_of_cannot_none a c hc).2⟩
  unfold Real.attempt attempt
  rw [hc]
  simp only
  have hf := filter_length_eq_iff a (fun m => !dominates c.vec m.vec)
  simp only [Bool.not_eq_true'] at hf
  rw [← hf]
  constructor
  · intro h'
    split at h'
    · assumption
    · simp at h'
  · intro h'; simp [h']

/-- conversely: a result of `stored…` means nothing blocked -/
theorem attempt_stored_iff (a : List Entry) (c : Entry) :
    ((Real.attempt a c).1 = .storedNoDom ∨ (Real.attempt a c).1 = .storedReplacing) ↔
      ∀ m ∈ a, dominates m.vec c.vec = false ∧ m.act ≠ c.act := by
  rw [← cannot_none_iff (dom := dominates) a c]
  unfold Real.attempt
  rcases attempt_res_cases (dom := dominates) a c with ⟨hc, h⟩ | ⟨hc, h2⟩ | ⟨hc, h2⟩
  · simp [hc, h]
  · rw [h2, hc]; simp
  · rw [h2, hc]; simp

/-- a forced store evicts exactly the members that dominate the candidate and appends it -/
theorem force_spec (a : List Entry) (c : Entry) :
    Real.force a c = (.forced, a.filter (fun m => !dominates m.vec c.vec) ++ [c]) := rfl

/-- a forced store of a candidate that was just refused as dominated keeps the invariant
(transitivity and irreflexivity of dominance are used here) -/
theorem force_inv_after_refusal (d : Nat) (a : List Entry) (c : Entry) (ha : Dim d a) (hc : c.vec.length = d)
    (h : Inv a) (hr : (Real.attempt a c).1 = .rejDominated)
    (hcons : ∀ m ∈ a, m.act = c.act → m.vec = c.vec) : Inv (Real.force a c).2 := by
  obtain ⟨⟨w, hw, hwd⟩, _⟩ := (attempt_refused_reason a c).1 hr
  have hd : Dim d (force (domN d) a c).2 := by
    intro e he
    rcases mem_force_of_mem a c e he with h' | h'
    · exact ha e h'
    · rw [h']; exact hc
  have hnd := (nonDom_real_iff d a ha).mp h.1
  have hw' : ∃ m ∈ a, domN d m.vec c.vec = true := ⟨w, hw, by rw [domN_eq d _ _ (ha w hw) hc]; exact hwd⟩
  unfold Real.force
  rw [force_real_eq d a c ha hc]
  refine ⟨?_, force_noDup a c h.2 hnd hw' hcons⟩
  rw [nonDom_real_iff d _ hd]
  exact force_nonDom (domN_strictPO d) a c hnd hw'

/-- without forced stores the archive equals the Pareto-optimal subset of all candidates offered so
far — for every offer sequence -/
theorem pareto_front (d : Nat) (cs : List Entry) (hd : Dim d cs) (hcons : Consistent cs) (e : Entry) :
    e ∈ Real.offers cs ↔ (e ∈ cs ∧ ¬ ∃ x ∈ cs, dominates x.vec e.vec = true) := by
  have heq : Real.offers cs = offers (domN d) cs :=
    offers_real_eq d cs [] (by intro m hm; simp at hm) hd
  rw [heq, pareto_front_generic (domN_strictPO d) cs hcons e]
  constructor
  · rintro ⟨he, hn⟩
    refine ⟨he, ?_⟩
    rintro ⟨x, hx, hxe⟩
    exact hn ⟨x, hx, by rw [domN_eq d _ _ (hd x hx) (hd e he)]; exact hxe⟩
  · rintro ⟨he, hn⟩
    refine ⟨he, ?_⟩
    rintro ⟨x, hx, hxe⟩
    exact hn ⟨x, hx, by rw [← domN_eq d _ _ (hd x hx) (hd e he)]; exact hxe⟩

/-- the explorer's protocol (every candidate is offered; a candidate refused as dominated may be
forced): after every history the archive satisfies the invariant and holds only offered candidates -/
theorem protocol_inv (d : Nat) (steps : List (Bool × Entry)) (hd : Dim d (steps.map (·.2)))
    (hcons : Consistent (steps.map (·.2))) :
    Inv (runProtocol dominates [] steps) ∧ ∀ e ∈ runProtocol dominates [] steps, e ∈ steps.map (·.2) := by
  have hnil : Dim d ([] : List Entry) := by intro m hm; simp at hm
  rw [runProtocol_real_eq d steps [] hnil hd]
  have inv := runProtocol_inv (domN_strictPO d) steps [] [] (by simpa using hcons)
    ⟨by simp, by intro m hm; simp at hm, by simp [NoDup]⟩
  simp only [List.nil_append] at inv
  have hdim : Dim d (runProtocol (domN d) [] steps) := fun e he => hd e (inv.sub e he)
  exact ⟨⟨(nonDom_real_iff d _ hdim).mpr inv.nd, inv.nodup⟩, inv.sub⟩

/-- non-dominance alone survives the forced store after a refusal — no consistency needed (only
duplicate-freedom needs it, see `force_inv_after_refusal`) -/
theorem force_nonDom_after_refusal (d : Nat) (a : List Entry) (c : Entry) (ha : Dim d a) (hc : c.vec.length = d)
    (h : NonDom dominates a) (hr : (Real.attempt a c).1 = .rejDominated) :
    NonDom dominates (Real.force a c).2 := by
  obtain ⟨⟨w, hw, hwd⟩, _⟩ := (attempt_refused_reason a c).1 hr
  have hd : Dim d (force (domN d) a c).2 := by
    intro e he
    rcases mem_force_of_mem a c e he with h' | h'
    · exact ha e h'
    · rw [h']; exact hc
  have hw' : ∃ m ∈ a, domN d m.vec c.vec = true := ⟨w, hw, by rw [domN_eq d _ _ (ha w hw) hc]; exact hwd⟩
  unfold Real.force
  rw [force_real_eq d a c ha hc, nonDom_real_iff d _ hd]
  exact force_nonDom (domN_strictPO d) a c ((nonDom_real_iff d a ha).mp h) hw'

/-- **a held action set is recognised as held.**  If the archive satisfies the invariant and every
member carrying the candidate's action set carries the candidate's vector (C01: the values depend
only on the action set), a candidate whose action set some member holds is refused with the verdict
*duplicate* (never *dominated*) and the archive is unchanged.  Without the consistency hypothesis
this is false: see the example below. -/
theorem held_is_duplicate (a : List Entry) (c : Entry) (h : Inv a)
    (hcons : ∀ m ∈ a, m.act = c.act → m.vec = c.vec) (hheld : ∃ m ∈ a, m.act = c.act) :
    Real.attempt a c = (.rejDuplicate, a) :=
  attempt_of_cannot_some a c _ (cannot_of_held a c h.1 hcons hheld)

/-- the verdict of an offer, decided by the archive's contents alone (under the invariant and
consistency): duplicate ⇔ the action set is held; dominated ⇔ not held and some member dominates;
stored ⇔ neither -/
theorem attempt_verdict_iff (a : List Entry) (c : Entry) (h : Inv a)
    (hcons : ∀ m ∈ a, m.act = c.act → m.vec = c.vec) :
    ((Real.attempt a c).1 = .rejDuplicate ↔ ∃ m ∈ a, m.act = c.act) ∧
    ((Real.attempt a c).1 = .rejDominated ↔
      (¬ ∃ m ∈ a, m.act = c.act) ∧ ∃ m ∈ a, dominates m.vec c.vec = true) := by
  refine ⟨⟨fun hr => ((attempt_refused_reason a c).2.1 hr).1, fun hh => by rw [held_is_duplicate a c h hcons hh]⟩,
    ⟨fun hr => ⟨fun hh => ?_, ((attempt_refused_reason a c).1 hr).1⟩, fun ⟨hnh, hdom⟩ => ?_⟩⟩
  · rw [held_is_duplicate a c h hcons hh] at hr; simp at hr
  · unfold Real.attempt
    rcases attempt_res_cases (dom := dominates) a c with ⟨hc, _⟩ | ⟨_, h2⟩ | ⟨hc, _⟩
    · obtain ⟨m, hm, hmd⟩ := hdom
      have := ((cannot_none_iff a c).mp hc m hm).1
      rw [hmd] at this; simp at this
    · rw [h2]
    · exact absurd (cannot_rejDuplicate a c hc) hnh

/-- **one step of the explorer's protocol keeps the invariant, from any archive satisfying it**:
offer the candidate; when it was refused as dominated, it may be forced (`b`) -/
theorem offer_inv (d : Nat) (b : Bool) (a : List Entry) (c : Entry) (ha : Dim d a) (hc : c.vec.length = d)
    (h : Inv a) (hcons : ∀ m ∈ a, m.act = c.act → m.vec = c.vec) : Inv (Real.offer b a c) := by
  have hatt := attempt_inv d a c ha hc h
  unfold Real.offer offer
  split
  · rename_i a' heq
    have hr : (Real.attempt a c).1 = .rejDominated := by unfold Real.attempt; rw [heq]
    have ha' : a' = a := by
      have := ((attempt_refused_reason a c).1 hr).2
      unfold Real.attempt at this; rw [heq] at this; exact this
    subst ha'
    split
    · exact force_inv_after_refusal d a' c ha hc h hr hcons
    · exact h
  · rename_i r a' hne heq
    unfold Real.attempt at hatt; rw [heq] at hatt; exact hatt

/-- the invariant does not depend on the storage order (`SelectRandomIsolatedModel` sorts the archive
in place with `sort.Sort`, whose contract — the result is a permutation — is all that is used) -/
theorem inv_perm {a b : List Entry} (hp : a.Perm b) (h : Inv a) : Inv b :=
  ⟨NonDom.perm hp h.1, NoDup.perm hp h.2⟩

/-- the archive's own self-check `IsNonDominant` (transcribed with its off-by-one: it never looks at
the last entry) answers *true* on every archive satisfying the invariant; so the explorer's
`CheckNonDominance` panic is unreachable wherever the invariant holds -/
theorem inv_passes_selfcheck (a : List Entry) (h : Inv a) : isNonDominantAsWritten dominates a = true :=
  isNonDominantAsWritten_of_nonDom a h.1

/-- … the converse fails: the self-check is weaker than the invariant (it accepts a dominated last
entry), which is why the check evaluates the invariant itself and not `IsNonDominant` -/
theorem selfcheck_weaker_than_inv :
    ∃ a : List Entry, isNonDominantAsWritten dominates a = true ∧ ¬ Inv a :=
  ⟨[⟨[1, 1], [true]⟩, ⟨[2, 2], [false]⟩], by decide, fun h => by
    have := h.1 ⟨[1, 1], [true]⟩ (by simp) ⟨[2, 2], [false]⟩ (by simp)
    revert this; decide⟩

/-! ### examples: non-vacuity, and why the hypotheses are there (tests, labelled as such) -/

private def e1 : Entry := ⟨[1, 5], [true, false]⟩
private def e2 : Entry := ⟨[2, 4], [false, true]⟩
private def e3 : Entry := ⟨[1, 4], [true, true]⟩   -- dominates e1 and e2
private def e4 : Entry := ⟨[3, 6], [false, false]⟩ -- dominated by all

example : Real.offers [e1, e2, e4, e3] = [e3] := by decide
example : Real.offers [e4, e1, e2] = [e1, e2] := by decide
example : (Real.attempt [e1, e2] e4).1 = .rejDominated := by decide
example : (Real.attempt [e1, e2] ⟨[0, 9], [true, false]⟩).1 = .rejDuplicate := by decide
example : (Real.attempt [e1, e2] e3) = (.storedReplacing, [e3]) := by decide
example : runProtocol dominates [] [(true, e1), (true, e2), (true, e4)] = [e4] := by decide
-- the hypotheses of `protocol_inv` hold of this history
example : Dim 2 ([(true, e1), (true, e2), (true, e4)].map (·.2)) := by
  intro m hm; simp at hm; rcases hm with rfl | rfl | rfl <;> rfl
/-- an *arbitrary* forced store (not preceded by a refusal-as-dominated) can break the invariant:
forcing `e1` into `[e4]` keeps `e4` (it does not dominate `e1`) although `e1` dominates it.  The
explorer only forces candidates the archive has just refused as dominated (`protocol_inv`), and the
correspondence suite checks that the real explorer obeys that protocol. -/
example : (Real.force [e4] e1).2 = [e4, e1] ∧ dominates e1.vec e4.vec = true := by decide
/-- `held_is_duplicate` needs consistency: here the second member holds the candidate's action set
`[false]` (with another vector), yet the first member decides the refusal — *dominated*.  The draw
would then decide a candidate the property says is accepted with certainty, and a forced store would
put a second member with action set `[false]` into the archive. -/
example : (Real.attempt [⟨[1, 1], [true]⟩, ⟨[0, 5], [false]⟩] ⟨[5, 1], [false]⟩).1 = .rejDominated ∧
    (Real.offer true [⟨[1, 1], [true]⟩, ⟨[0, 5], [false]⟩] ⟨[5, 1], [false]⟩).map (·.act) = [[false], [false]] := by
  decide
-- `held_is_duplicate` / `offer_inv` are not vacuous: a consistent archive holding the candidate's set
example : Real.attempt [e1, e2] e1 = (.rejDuplicate, [e1, e2]) := by decide
example : Inv [e1, e2] := by
  refine ⟨?_, ?_⟩
  · intro m hm n hn
    simp at hm hn
    rcases hm with rfl | rfl <;> rcases hn with rfl | rfl <;> decide
  · simp [NoDup, e1, e2]
example : [e2, e1].Perm [e1, e2] := List.Perm.swap e1 e2 []

end Crem.Archive
