import Crem.Proofs.EngineSummary
import Crem.Properties.C09
/-!
# C13 — every summary the explorer can write loads in the engine, label by label

Theorems about the model `Crem/Model/EngineSummary.lean` of the engine's summary intake
(`POST /api/v1/solutions`: `loadSummary`), of `GET /api/v1/solutions/<label>` (`lookup`, `served`)
and of the `ParetoFrontMember` attribute after `PATCH /api/v1/model` (`paretoMember`), composed with
the byte-level CSV model of C20 (`render`, `readAll`, `cast`) and the BooleanArchive model of C09
(`decode`, `encode`, `decodeC`).  The quantifiers range over **all** well-formed summaries: any number
of rows, one or more decision-variable columns, encodings of any word count.  Every `theorem` in
this file is audited by `./check C13` (`#print axioms`).

`wellFormed sc names rows` (decidable; the driver evaluates it on every summary the real explorer
code produced in the correspondence run) says the summary is one the explorer writes for the
scenario: header `Solution, <the scenario's variables>, Actions, Summary`; first row `As-Is` with the
scenario's as-is values and the empty action set; pairwise distinct labels; numeric value cells;
labels and notes that are no number / boolean spellings; labels the engine's route accepts (letters,
digits, `_`, `-`); every encoding the canonical text of a set of the scenario's actions.

The code the property was written against fails it in three ways; each is a `Variant` flag so that
the same theorem covers the code before and after each repair:

  D9   `colsFromEnd = false`  `getSolutionDetail` reads the encoding and the note from the FIXED columns
                              6 and 7; a catchment summary has six variable columns, so column 6 is
                              `TotalNitrogen` and column 7 the encoding   (`enginesummary:encoding-read-from-wrong-column`)
  D10  `rawActions = false`   the loader type-casts every cell: an encoding that `ParseFloat` accepts
                              (`1E5`, `1000000`) comes back as `%v` of the float, one spelling a boolean
                              (`F`) as ""; the summary is even rejected when the `%v` text leaves the
                              hexadecimal alphabet (`1E21` -> `1e+21`)     (`enginesummary:encoding-text-lost-by-cast`, `enginesummary:summary-rejected`)
  D28  `poolReset = false`    the solution pool is keyed by label and never emptied: after a second
                              summary is posted, labels served before still return the OLD rows
                              (`enginesummary:stale-pool-after-repost`).  The single-request functions
                              (`loadSummary`, `lookup`, `paretoMember`) never read this flag; it lives in the
                              engine STATE of the model (`Engine`, `step`, §8) and in the `history` theorems,
                              which need it and are refuted without it

`roundtrip`, `decoded_set`, `pareto_flag` are the property for ONE POST followed by ONE GET / PATCH, at
full strength for `Variant.fixed`; `history` / `history_sequence` are the property over request
sequences (any earlier state, repeated and interleaved requests).  `wellFormed_scenario` states what
`wellFormed` requires of the scenario (at least one action, at least one variable);
`Properties/C13Explorer.lean` proves that what the explorer writes IS well-formed.  For `Variant.current` the full statements are false (refuting `example`s below at
`1E5`, `F`, `1E21` and at a nine-column summary); `roundtrip_partial`, `decoded_set_partial`,
`pareto_flag_partial` prove them under the two excluding hypotheses, both decidable predicates of the
model that the driver evaluates:

  `layoutOk v names`          `names.length = 5`  (eight columns: the layout the fixed indexes fit)
  `encodingsReadBack v rows`  every encoding reads back from the cast unchanged (`readsBack`); implied
                              by `noCastCollision` (neither `ParseFloat` nor a boolean spelling accepts
                              it), and strictly weaker: `12` is cast to a float and printed as `12` again.
-/
namespace Crem.EngineSummary
open Crem.Csv

/-! ## the tie to C20: without the D10 repair the engine's table is exactly C20's `load` -/

/-- as long as the `Actions` column is not kept as text, the table the engine works on is the table
`csv.DataSet.ParseCsvTextIntoTable` yields (C20's `load`), for every byte string -/
theorem loadTable_eq_load (v : Variant) (hv : v.rawActions = false) (text : Bytes) :
    loadTable v text = load text := by
  unfold loadTable
  rcases load_total text with ⟨e, he, hl⟩ | ⟨_, he, hl⟩ | ⟨hdr, rows, he, _, _, hl⟩
  · rw [he, hl]
  · rw [he, hl]
  · rw [he, hl]
    simp [castRecord, hv]

/-! ## the general statements, for every combination of repairs -/

/-- **roundtrip, any variant.**  A well-formed summary is accepted; `As-Is` is served from the pool's
own as-is solution; every other label is served with exactly its row's encoding and note —
provided the variant reads the right columns for this layout and keeps the encodings' text. -/
theorem roundtrip_of_variant (v : Variant) (sc : Scenario) (names : List Bytes) (rows : List Row)
    (h : wellFormed sc names rows = true) (hl : layoutOk v names = true)
    (hc : encodingsReadBack v rows = true) :
    ∃ t, loadSummary v sc (renderSummary names rows) = .ok t ∧
      lookup v sAsIs t = .asIs ∧
      ∀ row ∈ rows.tail, lookup v row.label t = .found row.encoding row.note :=
  roundtrip_core v sc names rows h hl hc

/-- every row of a well-formed summary denotes a set of the scenario's actions, canonically -/
theorem encoding_denotes (sc : Scenario) (names : List Bytes) (rows : List Row)
    (h : wellFormed sc names rows = true) (row : Row) (hrow : row ∈ rows) :
    ∃ flags, BoolArchive.decode sc.nActions (toChars row.encoding) = .ok flags ∧
      ofChars (BoolArchive.encode flags) = row.encoding :=
  encoding_denotes_core sc names rows h row hrow

/-- **decoded_set, any variant.**  The solution served for a row's label has exactly the active
actions the row's encoding denotes (composition with C09: `AddSolution`'s Compress / Decode /
Decompress on a clone of the as-is model).  With C01 (the values are a function of the active set)
its decision-variable values are the row's. -/
theorem decoded_set_of_variant (v : Variant) (sc : Scenario) (names : List Bytes) (rows : List Row)
    (h : wellFormed sc names rows = true) (hl : layoutOk v names = true)
    (hc : encodingsReadBack v rows = true) :
    ∃ t, loadSummary v sc (renderSummary names rows) = .ok t ∧
      ∀ row ∈ rows, ∀ flags, BoolArchive.decode sc.nActions (toChars row.encoding) = .ok flags →
        served v sc row.label t = some flags := by
  obtain ⟨t, ht, hasis, hrest⟩ := roundtrip_of_variant v sc names rows h hl hc
  refine ⟨t, ht, ?_⟩
  intro row hrow flags hf
  obtain ⟨r0, rest, hrows, hlab, _, hdec, _⟩ := (wfacts h).first
  subst hrows
  rcases List.mem_cons.mp hrow with rfl | hr
  · rw [hdec] at hf
    simp only [Except.ok.injEq] at hf
    simp [served, hlab, hasis, hf]
  · simp only [served, hrest row (by simpa using hr)]
    exact poolActive_of_decode _ _ _ hf

/-- **pareto_flag, any variant that keeps the encodings' text.**  Setting the engine's model from the
encoding of any row other than the first (as-is) row decodes, and the model is reported as a member
of the loaded solution set.  (The membership search reads column `colSize - 2` in every variant, so
no layout hypothesis is needed.) -/
theorem pareto_flag_of_variant (v : Variant) (sc : Scenario) (names : List Bytes) (rows : List Row)
    (h : wellFormed sc names rows = true) (hc : encodingsReadBack v rows = true) :
    ∃ t, loadSummary v sc (renderSummary names rows) = .ok t ∧
      ∀ row ∈ rows.tail, paretoMember sc t row.encoding = some true :=
  pareto_core v sc names rows h hc

/-! ## the property at full strength: the repaired engine -/

/-- **roundtrip** (C13, full strength; `Variant.fixed`): every well-formed summary — any number of
rows, one or more variable columns, any encodings (any word count; decimal-, exponent- or
boolean-looking or not) — is accepted, and every label is served with its row's encoding and note. -/
theorem roundtrip (sc : Scenario) (names : List Bytes) (rows : List Row)
    (h : wellFormed sc names rows = true) :
    ∃ t, loadSummary .fixed sc (renderSummary names rows) = .ok t ∧
      lookup .fixed sAsIs t = .asIs ∧
      ∀ row ∈ rows.tail, lookup .fixed row.label t = .found row.encoding row.note :=
  roundtrip_of_variant .fixed sc names rows h rfl rfl

/-- **decoded_set** (full strength): the served solution's active actions are the row's, for every row
(the As-Is row included: the pool's as-is solution has no active action, and that is what the row's
encoding denotes). -/
theorem decoded_set (sc : Scenario) (names : List Bytes) (rows : List Row)
    (h : wellFormed sc names rows = true) :
    ∃ t, loadSummary .fixed sc (renderSummary names rows) = .ok t ∧
      ∀ row ∈ rows, ∀ flags, BoolArchive.decode sc.nActions (toChars row.encoding) = .ok flags →
        served .fixed sc row.label t = some flags :=
  decoded_set_of_variant .fixed sc names rows h rfl rfl

/-- the same with the encoding given as what the explorer's `BooleanArchive.Encoding()` produced for
a set `flags` of the scenario's `n ≥ 1` actions (C09's `decode_encode`) -/
theorem decoded_set_encode (sc : Scenario) (names : List Bytes) (rows : List Row)
    (h : wellFormed sc names rows = true) (hn : 1 ≤ sc.nActions) :
    ∃ t, loadSummary .fixed sc (renderSummary names rows) = .ok t ∧
      ∀ row ∈ rows, ∀ flags : List Bool, flags.length = sc.nActions →
        row.encoding = ofChars (BoolArchive.encode flags) → served .fixed sc row.label t = some flags := by
  obtain ⟨t, ht, hs⟩ := decoded_set sc names rows h
  refine ⟨t, ht, ?_⟩
  intro row hrow flags hlen henc
  apply hs row hrow flags
  rw [henc, toChars_ofChars _ (encode_ascii flags)]
  exact BoolArchive.decode_encode sc.nActions flags hn hlen

/-- **pareto_flag** (full strength): every non-as-is row's encoding is reported as a Pareto-front member. -/
theorem pareto_flag (sc : Scenario) (names : List Bytes) (rows : List Row)
    (h : wellFormed sc names rows = true) :
    ∃ t, loadSummary .fixed sc (renderSummary names rows) = .ok t ∧
      ∀ row ∈ rows.tail, paretoMember sc t row.encoding = some true :=
  pareto_flag_of_variant .fixed sc names rows h rfl

/-! ## the PATCH decodes onto the served model, whatever that model holds -/

/-- `paretoMember` (and `poolActive`) decode an encoding with the abstract `decode n`.  The Go code decodes it INTO
`modelCompressor.Compress(m.model)`, the compressed state of whatever action set `cur` the served model holds at
that moment (`v1PatchModelHandler`, `reInitialiseModelWithEncoding`), and then `Decompress`es.  That makes no
difference (C09): for every current set `cur` of the scenario's size the concrete `Decode` reports exactly the error
class `decode n` assigns to the text, and on success decompression yields exactly the decoded set. -/
theorem patch_decode_independent_of_model_state (n : Nat) (cur : List Bool) (hcur : cur.length = n) (enc : Bytes) :
    ∃ a, BoolArchive.compress cur = some a ∧
      (BoolArchive.decodeC a (toChars enc)).2
        = (match BoolArchive.decode n (toChars enc) with | .ok _ => none | .error e => some e) ∧
      ∀ flags, BoolArchive.decode n (toChars enc) = .ok flags →
        BoolArchive.decompress (BoolArchive.decodeC a (toChars enc)).1 = some flags := by
  obtain ⟨a, ha1, ha2, ha3, _⟩ := BoolArchive.compress_spec cur
  have hs : a.size = n := by rw [ha3, hcur]
  refine ⟨a, ha1, ?_, ?_⟩
  · rw [BoolArchive.decodeC_class a ha2.len (toChars enc), hs]
    cases BoolArchive.decode n (toChars enc) <;> rfl
  · intro flags hf
    obtain ⟨_, _, d3, _⟩ := BoolArchive.decodeC_ok a ha2 (toChars enc) flags (by rw [hs]; exact hf)
    rw [BoolArchive.decompress_spec, d3]

example : ∃ a, BoolArchive.compress [true, false, true] = some a ∧
    BoolArchive.decompress (BoolArchive.decodeC a (toChars (ascii "2"))).1 = some [false, true, false] := by
  obtain ⟨a, h1, _, h3⟩ := patch_decode_independent_of_model_state 3 [true, false, true] rfl (ascii "2")
  exact ⟨a, h1, h3 _ (by decide)⟩

/-! ## what `wellFormed` silently requires of the scenario -/

/-- **A well-formed summary exists only for a scenario with at least one management action and at least one
decision variable.**  With no action no encoding text decodes (`BooleanArchive.Decode` wants at least one word, the
archive of zero actions has none), with no variable the writer's rows have one field more than its header
(`Row.fields`): in both cases `wellFormed` is false, so every theorem of this file is about
`1 ≤ sc.nActions ∧ sc.vars ≠ []` — stated here so that the restriction is visible.  (crem's catchment scenarios have
six variables; a data set without any action row is rejected by the explorer and the engine before a summary could
exist.) -/
theorem wellFormed_scenario (sc : Scenario) (names : List Bytes) (rows : List Row)
    (h : wellFormed sc names rows = true) : 1 ≤ sc.nActions ∧ sc.vars ≠ [] := by
  constructor
  · rcases Nat.eq_zero_or_pos sc.nActions with h0 | h0
    · rw [wellFormed_zero_actions sc names rows h0] at h; cases h
    · exact h0
  · have w := wfacts h
    intro hv
    apply w.nne
    apply List.eq_nil_of_length_eq_zero
    rw [w.nlen, hv]; rfl

/-! ## histories: the property over request SEQUENCES

The statements above speak of ONE `POST` and ONE `GET` / `PATCH` on the table it left.  The engine is a server:
labels are pooled lazily, summaries are re-posted, scenarios replaced.  `Crem/Model/EngineSummary.lean` §8 models
the state (`Engine`: scenario, table, pool, membership flag) and one request (`step`).  `Quiet v e later` says that
no request of `later` replaces the summary or the scenario: each is a `GET`, a `PATCH`, or a `POST` the engine
rejects when it arrives. -/

/-- **history, any variant that resets the pool.**  Let the engine be in ANY state `e₀` (whatever was posted,
served and pooled before), let a well-formed summary of `e₀`'s scenario be posted, and let any quiet request
sequence `later` follow (labels fetched in any order and any number of times, encodings patched, malformed
summaries posted and rejected).  Then the POST was accepted, and in the state reached EVERY label is served with
exactly its row's encoding, note, membership flag and decoded action set — `As-Is` from the pool's own entry —
and EVERY non-as-is encoding is reported as a Pareto-front member. -/
theorem history_of_variant (v : Variant) (hp : v.poolReset = true) (e₀ : Engine) (names : List Bytes)
    (rows : List Row) (h : wellFormed e₀.sc names rows = true) (hl : layoutOk v names = true)
    (hc : encodingsReadBack v rows = true) (later : List Req)
    (hq : Quiet v (step v e₀ (.post (renderSummary names rows))).1 later) :
    (step v e₀ (.post (renderSummary names rows))).2 = .ok ∧
    (step v (exec v (step v e₀ (.post (renderSummary names rows))).1 later) (.get sAsIs)).2
      = .found (asIsCached e₀.sc) ∧
    (∀ row ∈ rows.tail, ∀ flags, BoolArchive.decode e₀.sc.nActions (toChars row.encoding) = .ok flags →
      (step v (exec v (step v e₀ (.post (renderSummary names rows))).1 later) (.get row.label)).2
        = .found ⟨row.encoding, some row.note, true, some flags⟩) ∧
    (∀ row ∈ rows.tail,
      (step v (exec v (step v e₀ (.post (renderSummary names rows))).1 later) (.patch row.encoding)).2
        = .member (some true)) := by
  obtain ⟨hok, H⟩ := holds_after_post v hp e₀ names rows h hc
  have H' := holds_exec v e₀.sc names rows h hl hc later _ H hq
  exact ⟨hok, getAsIs_of_holds v e₀.sc names rows h hl hc _ H',
    fun row hrow flags hf => get_of_holds v e₀.sc names rows h hl hc _ H' row hrow flags hf,
    fun row hrow => patch_of_holds v e₀.sc names rows h hc _ H' row hrow⟩

/-- **history** (C13 over request sequences, full strength; `Variant.fixed`): after ANY request sequence whose
last accepted `POST /api/v1/solutions` carried a well-formed summary S of the engine's scenario (and no scenario
was posted since), every `GET /api/v1/solutions/<label>` of a row of S answers with that row and every
`PATCH /api/v1/model` with a non-as-is encoding of S reports a Pareto-front member.  `e₀` is the state in which
that POST arrives: it is universally quantified, so everything that happened before is covered. -/
theorem history (e₀ : Engine) (names : List Bytes) (rows : List Row)
    (h : wellFormed e₀.sc names rows = true) (later : List Req)
    (hq : Quiet .fixed (step .fixed e₀ (.post (renderSummary names rows))).1 later) :
    (step .fixed e₀ (.post (renderSummary names rows))).2 = .ok ∧
    (step .fixed (exec .fixed (step .fixed e₀ (.post (renderSummary names rows))).1 later) (.get sAsIs)).2
      = .found (asIsCached e₀.sc) ∧
    (∀ row ∈ rows.tail, ∀ flags, BoolArchive.decode e₀.sc.nActions (toChars row.encoding) = .ok flags →
      (step .fixed (exec .fixed (step .fixed e₀ (.post (renderSummary names rows))).1 later) (.get row.label)).2
        = .found ⟨row.encoding, some row.note, true, some flags⟩) ∧
    (∀ row ∈ rows.tail,
      (step .fixed (exec .fixed (step .fixed e₀ (.post (renderSummary names rows))).1 later) (.patch row.encoding)).2
        = .member (some true)) :=
  history_of_variant .fixed rfl e₀ names rows h rfl rfl later hq

/-- the same in sequence form: any engine, any requests `before`, the POST of S, any quiet requests `later` -/
theorem history_sequence (e : Engine) (before later : List Req) (names : List Bytes) (rows : List Row)
    (h : wellFormed (exec .fixed e before).sc names rows = true)
    (hq : Quiet .fixed (exec .fixed e (before ++ [.post (renderSummary names rows)])) later) :
    ∀ row ∈ rows.tail, ∀ flags,
      BoolArchive.decode (exec .fixed e before).sc.nActions (toChars row.encoding) = .ok flags →
      (step .fixed (exec .fixed e (before ++ .post (renderSummary names rows) :: later)) (.get row.label)).2
        = .found ⟨row.encoding, some row.note, true, some flags⟩ ∧
      (step .fixed (exec .fixed e (before ++ .post (renderSummary names rows) :: later)) (.patch row.encoding)).2
        = .member (some true) := by
  have e1 : exec .fixed e (before ++ [.post (renderSummary names rows)])
      = (step .fixed (exec .fixed e before) (.post (renderSummary names rows))).1 := by
    simp [exec, List.foldl_append]
  have e2 : exec .fixed e (before ++ .post (renderSummary names rows) :: later)
      = exec .fixed (step .fixed (exec .fixed e before) (.post (renderSummary names rows))).1 later := by
    simp [exec, List.foldl_append]
  rw [e1] at hq
  obtain ⟨_, _, hg, hpch⟩ := history (exec .fixed e before) names rows h later hq
  intro row hrow flags hf
  rw [e2]
  exact ⟨hg row hrow flags hf, hpch row hrow⟩

/-! ## the code as it stood: `_partial` versions under the two excluding hypotheses

FULL STATEMENTS (false for `Variant.current`, refuted below):

    theorem roundtrip_current (h : wellFormed sc names rows = true) :
        ∃ t, loadSummary .current sc (renderSummary names rows) = .ok t ∧ lookup .current sAsIs t = .asIs ∧
          ∀ row ∈ rows.tail, lookup .current row.label t = .found row.encoding row.note
    theorem decoded_set_current …   theorem pareto_flag_current …   (likewise)

Missing: D9 (fixed columns 6 / 7) and D10 (type-cast cells). -/

/-- five variable columns: the eight-column layout the fixed indexes 6 / 7 were written for -/
def EightColumns (names : List Bytes) : Prop := names.length = 5

instance (names : List Bytes) : Decidable (EightColumns names) := by unfold EightColumns; infer_instance

/-- no encoding of the summary is changed by the loader's cast -/
def NoEncodingLostByCast (rows : List Row) : Prop := ∀ row ∈ rows, readsBack row.encoding = true

instance (rows : List Row) : Decidable (NoEncodingLostByCast rows) := by
  unfold NoEncodingLostByCast; infer_instance

theorem roundtrip_partial (sc : Scenario) (names : List Bytes) (rows : List Row)
    (h : wellFormed sc names rows = true) (h8 : EightColumns names) (hrb : NoEncodingLostByCast rows) :
    ∃ t, loadSummary .current sc (renderSummary names rows) = .ok t ∧
      lookup .current sAsIs t = .asIs ∧
      ∀ row ∈ rows.tail, lookup .current row.label t = .found row.encoding row.note :=
  roundtrip_of_variant .current sc names rows h (by have h5 : names.length = 5 := h8; simp [layoutOk, h5])
    (by simp only [encodingsReadBack, Bool.or_eq_true, List.all_eq_true]; exact Or.inr hrb)

theorem decoded_set_partial (sc : Scenario) (names : List Bytes) (rows : List Row)
    (h : wellFormed sc names rows = true) (h8 : EightColumns names) (hrb : NoEncodingLostByCast rows) :
    ∃ t, loadSummary .current sc (renderSummary names rows) = .ok t ∧
      ∀ row ∈ rows, ∀ flags, BoolArchive.decode sc.nActions (toChars row.encoding) = .ok flags →
        served .current sc row.label t = some flags :=
  decoded_set_of_variant .current sc names rows h (by have h5 : names.length = 5 := h8; simp [layoutOk, h5])
    (by simp only [encodingsReadBack, Bool.or_eq_true, List.all_eq_true]; exact Or.inr hrb)

/-- the membership search already reads column `colSize - 2`: only the cast hypothesis is needed -/
theorem pareto_flag_partial (sc : Scenario) (names : List Bytes) (rows : List Row)
    (h : wellFormed sc names rows = true) (hrb : NoEncodingLostByCast rows) :
    ∃ t, loadSummary .current sc (renderSummary names rows) = .ok t ∧
      ∀ row ∈ rows.tail, paretoMember sc t row.encoding = some true :=
  pareto_flag_of_variant .current sc names rows h
    (by simp only [encodingsReadBack, Bool.or_eq_true, List.all_eq_true]; exact Or.inr hrb)

/-- `NoCastCollision` (the encoding is accepted neither by `ParseFloat` nor as a boolean spelling)
implies the cast hypothesis; the converse fails (`12`, below) -/
theorem noEncodingLostByCast_of_noCastCollision (rows : List Row)
    (h : ∀ row ∈ rows, noCastCollision row.encoding = true) : NoEncodingLostByCast rows :=
  fun row hrow => readsBack_of_noCastCollision _ (h row hrow)

/-- with only D9 repaired (`colsFromEnd`), every layout is served, the cast hypothesis remains -/
theorem roundtrip_colsFromEnd (sc : Scenario) (names : List Bytes) (rows : List Row) (pr g : Bool)
    (h : wellFormed sc names rows = true) (hrb : NoEncodingLostByCast rows) :
    ∃ t, loadSummary ⟨true, false, pr, g⟩ sc (renderSummary names rows) = .ok t ∧
      lookup ⟨true, false, pr, g⟩ sAsIs t = .asIs ∧
      ∀ row ∈ rows.tail, lookup ⟨true, false, pr, g⟩ row.label t = .found row.encoding row.note :=
  roundtrip_of_variant _ sc names rows h rfl
    (by simp only [encodingsReadBack, Bool.or_eq_true, List.all_eq_true]; exact Or.inr hrb)

/-! ## what the loader's cast does to an encoding (D10, exactly) -/

/-- an encoding that stays a string cell reads back unchanged -/
theorem readsBack_text (e : Bytes) (h : noCastCollision e = true) : readsBack e = true :=
  readsBack_of_noCastCollision e h

/-- an encoding spelling a boolean (`F` is the only hexadecimal one) reads back as the empty text -/
theorem bool_encoding_reads_back_empty (e : Bytes) (h : boolSpelled e = true) :
    cellText (cast e) = [] := by
  obtain ⟨b, hb⟩ := (cast_bool_iff_boolSpelled e).mpr h
  rw [hb]; rfl

/-- an encoding `ParseFloat` accepts reads back as `%v` of the float -/
theorem numeric_encoding_reads_back_fmtV (e : Bytes) (bits : Nat) (h : parseFloat e = some bits) :
    cellText (cast e) = fmtV bits := by
  simp [Csv.cast, h, cellText]

/-! ## non-vacuity, and the refutations of the full statements for the code as it stood
(tests, labelled as such; the harness replays the same witnesses against the real engine) -/

/-- a scenario with five decision variables `a`..`e` (as-is values 0) and 13 actions: eight columns -/
def sc5 : Scenario :=
  { nActions := 13, vars := [(ascii "a", 0), (ascii "b", 0), (ascii "c", 0), (ascii "d", 0), (ascii "e", 0)] }
def names5 : List Bytes := [ascii "a", ascii "b", ascii "c", ascii "d", ascii "e"]
def asIs5 : Row := ⟨sAsIs, List.replicate 5 (ascii "0.000"), ascii "0", ascii "As-is state; zero active management actions"⟩
def row5 (label enc : String) : Row :=
  ⟨ascii label, List.replicate 5 (ascii "2.500"), ascii enc, ascii "Pareto front member 1 of 1"⟩

/-- … and one with six (as the catchment model has): nine columns; 70 actions = two-word encodings -/
def sc6 : Scenario :=
  { nActions := 70, vars := [(ascii "a", 0), (ascii "b", 0), (ascii "c", 0), (ascii "d", 0), (ascii "e", 0), (ascii "f", 0)] }
def names6 : List Bytes := [ascii "a", ascii "b", ascii "c", ascii "d", ascii "e", ascii "f"]
def asIs6 : Row := ⟨sAsIs, List.replicate 6 (ascii "0.000"), ascii "0:0", ascii "As-is state; zero active management actions"⟩
def row6 (label last enc : String) : Row :=
  ⟨ascii label, List.replicate 5 (ascii "2.500") ++ [ascii last], ascii enc, ascii "Pareto front member 1 of 1"⟩

/-- what is served for `label` after posting the summary -/
def serve (v : Variant) (sc : Scenario) (names : List Bytes) (rows : List Row) (label : String) : Lookup :=
  match loadSummary v sc (renderSummary names rows) with
  | .ok t => lookup v (ascii label) t
  | _ => .notFound

-- the hypotheses are satisfiable: eight and nine columns, one- and two-word encodings, labels of both families
set_option maxRecDepth 100000 in
example : wellFormed sc5 names5 [asIs5, row5 "1-of-2" "1ABC", row5 "2-of-2" "12"] = true ∧
    EightColumns names5 ∧ NoEncodingLostByCast [asIs5, row5 "1-of-2" "1ABC", row5 "2-of-2" "12"] := by decide
set_option maxRecDepth 100000 in
example : wellFormed sc5 names5 [asIs5, row5 "Optimised" "1E5"] = true := by decide
set_option maxRecDepth 100000 in
example : wellFormed sc6 names6 [asIs6, row6 "1-of-2" "3.500" "A:1F", row6 "2-of-2" "12.000" "FFFFFFFFFFFFFFFF:3F"] = true := by
  decide
-- the repaired engine on the witnesses below: served as written
set_option maxRecDepth 100000 in
example : serve .fixed sc5 names5 [asIs5, row5 "x" "1E5", row5 "y" "F"] "x"
      = .found (ascii "1E5") (ascii "Pareto front member 1 of 1") ∧
    serve .fixed sc5 names5 [asIs5, row5 "x" "1E5", row5 "y" "F"] "y"
      = .found (ascii "F") (ascii "Pareto front member 1 of 1") ∧
    serve .fixed sc6 names6 [asIs6, row6 "x" "3.500" "A:1F"] "x"
      = .found (ascii "A:1F") (ascii "Pareto front member 1 of 1") := by decide

-- D10, `1E5`: well-formed, eight columns, but the encoding comes back as `%v` of 100000.0 …
set_option maxRecDepth 100000 in
example : wellFormed sc5 names5 [asIs5, row5 "x" "1E5"] = true ∧ EightColumns names5 ∧
    readsBack (ascii "1E5") = false ∧
    serve .current sc5 names5 [asIs5, row5 "x" "1E5"] "x"
      = .found (ascii "100000") (ascii "Pareto front member 1 of 1") := by decide
-- … so another action set is served (0x100000 has no bit below 13: the as-is state) and the row's own
-- encoding is not reported as a Pareto-front member
set_option maxRecDepth 100000 in
example : (match loadSummary .current sc5 (renderSummary names5 [asIs5, row5 "x" "1E5"]) with
    | .ok t => (served .current sc5 (ascii "x") t, paretoMember sc5 t (ascii "1E5"),
                BoolArchive.decode 13 "1E5".toList)
    | _ => (none, none, .error .count))
    = (some (List.replicate 13 false), some false,
       .ok [true, false, true, false, false, true, true, true, true, false, false, false, false]) := by decide
-- D10, `F`: the bool cell reads back as the empty text (which fails to decode: the as-is state is served)
set_option maxRecDepth 100000 in
example : wellFormed sc5 names5 [asIs5, row5 "x" "F"] = true ∧ readsBack (ascii "F") = false ∧
    serve .current sc5 names5 [asIs5, row5 "x" "F"] "x" = .found [] (ascii "Pareto front member 1 of 1") := by
  decide
-- D10, `1E21`: `%v` gives `1e+21`, which the engine's own hexadecimal pattern rejects: HTTP 400 for the whole summary
set_option maxRecDepth 100000 in
example : wellFormed sc5 names5 [asIs5, row5 "x" "1E21"] = true ∧
    loadSummary .current sc5 (renderSummary names5 [asIs5, row5 "x" "1E21"]) = .rejected .invalid := by decide
-- `12` is cast to a float too (`noCastCollision` fails) but `%v` prints `12` again: `readsBack` holds, the
-- row is served correctly: `NoEncodingLostByCast` is the exact hypothesis, `noCastCollision` a sufficient one
set_option maxRecDepth 100000 in
example : noCastCollision (ascii "12") = false ∧ readsBack (ascii "12") = true ∧
    serve .current sc5 names5 [asIs5, row5 "x" "12"] "x"
      = .found (ascii "12") (ascii "Pareto front member 1 of 1") := by decide
-- … whereas seven decimal digits already leave the alphabet (`1e+06`)
example : cellText (cast (ascii "1000000")) = ascii "1e+06" := by decide

-- D9, a nine-column summary (no cast collision anywhere): the encoding handed to the pool is the text of
-- the LAST VARIABLE cell, the note is the encoding
set_option maxRecDepth 100000 in
example : wellFormed sc6 names6 [asIs6, row6 "x" "3.500" "A:1F"] = true ∧
    NoEncodingLostByCast [asIs6, row6 "x" "3.500" "A:1F"] ∧ ¬ EightColumns names6 ∧
    serve .current sc6 names6 [asIs6, row6 "x" "3.500" "A:1F"] "x" = .found (ascii "3.5") (ascii "A:1F") := by
  decide
-- with a whole-numbered last variable the pool even decodes it: `12.000` -> `12`; on the 13-action
-- scenario this serves actions 1 and 4 instead of the row's
def sc6' : Scenario := { sc6 with nActions := 13 }
def asIs6' : Row := { asIs6 with encoding := ascii "0" }
set_option maxRecDepth 100000 in
example : wellFormed sc6' names6 [asIs6', row6 "x" "12.000" "1ABC"] = true ∧
    (match loadSummary .current sc6' (renderSummary names6 [asIs6', row6 "x" "12.000" "1ABC"]) with
     | .ok t => served .current sc6' (ascii "x") t
     | _ => none)
    = some [false, true, false, false, true, false, false, false, false, false, false, false, false] ∧
    BoolArchive.decode 13 "1ABC".toList
    = .ok [false, false, true, true, true, true, false, true, false, true, false, true, true] := by decide
-- with D9 repaired alone the nine-column summary is served as written
set_option maxRecDepth 100000 in
example : serve ⟨true, false, false, false⟩ sc6 names6 [asIs6, row6 "x" "3.500" "A:1F"] "x"
    = .found (ascii "A:1F") (ascii "Pareto front member 1 of 1") := by decide

-- malformed input (outside `wellFormed`), transcribed panics: a label that exists only in row 0,
-- a one-column summary
set_option maxRecDepth 100000 in
example : serve .current sc5 names5 [{ asIs5 with label := ascii "first" }] "first" = .panic .labelInRowZero ∧
    loadSummary .current sc5 (ascii "Solution\nx\n") = .panic .headerIndex := by decide

/-! ## histories: non-vacuity of `history`, and the refutation for an engine that does not reset its pool -/

/-- the third repair under the microscope: with every other repair applied but the pool NOT reset -/
def vNoPoolReset : Variant := ⟨true, true, false, true⟩

-- non-vacuity of `history`: a non-trivial quiet sequence (repeated GETs, PATCHes, a rejected POST) exists …
set_option maxRecDepth 100000 in
example : wellFormed sc5 names5 [asIs5, row5 "x" "1ABC", row5 "y" "12"] = true ∧
    Quiet .fixed (step .fixed { sc := sc5 } (.post (renderSummary names5 [asIs5, row5 "x" "1ABC", row5 "y" "12"]))).1
      [.get (ascii "y"), .patch (ascii "1ABC"), .post (ascii "Solution\nx\n"), .get (ascii "y"), .get (ascii "nope"),
       .patch (ascii "zz")] := by
  simp only [Quiet]
  decide
-- … and a later POST that IS accepted breaks `Quiet`
set_option maxRecDepth 100000 in
example : ¬ Quiet .fixed (step .fixed { sc := sc5 } (.post (renderSummary names5 [asIs5, row5 "x" "1ABC"]))).1
    [.post (renderSummary names5 [asIs5, row5 "x" "12"])] := by
  simp only [Quiet]
  decide

-- **refutation for `poolReset = false`** (all other repairs applied): post S₁ (row `x` = `1ABC`), fetch `x`, post the
-- well-formed S₂ (row `x` = `12`), fetch `x` again: the engine still serves S₁'s row, and yet reports S₂'s encoding as
-- a Pareto-front member.  The repaired engine serves S₂'s row.  So the history statement is FALSE without the third
-- repair, whereas the single-request theorems above hold for it verbatim (they never look at the pool).
set_option maxRecDepth 100000 in
example :
    wellFormed sc5 names5 [asIs5, row5 "x" "12"] = true ∧
    (step vNoPoolReset (exec vNoPoolReset { sc := sc5 }
        [.post (renderSummary names5 [asIs5, row5 "x" "1ABC"]), .get (ascii "x"),
         .post (renderSummary names5 [asIs5, row5 "x" "12"])]) (.get (ascii "x"))).2
      = .found (cachedOf sc5 (ascii "1ABC") (ascii "Pareto front member 1 of 1")) ∧
    (step vNoPoolReset (exec vNoPoolReset { sc := sc5 }
        [.post (renderSummary names5 [asIs5, row5 "x" "1ABC"]), .get (ascii "x"),
         .post (renderSummary names5 [asIs5, row5 "x" "12"])]) (.patch (ascii "12"))).2 = .member (some true) ∧
    (step .fixed (exec .fixed { sc := sc5 }
        [.post (renderSummary names5 [asIs5, row5 "x" "1ABC"]), .get (ascii "x"),
         .post (renderSummary names5 [asIs5, row5 "x" "12"])]) (.get (ascii "x"))).2
      = .found (cachedOf sc5 (ascii "12") (ascii "Pareto front member 1 of 1")) := by decide

end Crem.EngineSummary
