import Crem.Proofs.EngineSummary
import Crem.Properties.C09
/-!
# C13 — every summary the explorer can write loads in the engine, label by label

Theorems about the model `Crem/Model/EngineSummary.lean` of the engine's summary intake
(`POST /api/v1/solutions`: `loadSummary`), of `GET /api/v1/solutions/<label>` (`lookup`, `served`)
and of the `ParetoFrontMember` attribute after `PATCH /api/v1/model` (`paretoMember`), composed with
the byte-level CSV model of C20 (`render`, `readAll`, `cast`) and the BooleanArchive model of C09
(`decode`, `encode`, `decodeC`).  The quantifiers range over **all** well-formed summaries: any number
of rows, any number of decision-variable columns, encodings of any word count.  Every `theorem` in
this file is audited by `./check C13` (`#print axioms`).

`wellFormed sc names rows` (decidable; the driver evaluates it on every summary the real explorer
code produced in the correspondence run) says the summary is one the explorer writes for the
scenario: header `Solution, <the scenario's variables>, Actions, Summary`; first row `As-Is` with the
scenario's as-is values and the empty action set; pairwise distinct labels; numeric value cells;
labels and notes that are no number / boolean spellings; labels the engine's route accepts (letters,
digits, `_`, `-`); every encoding the canonical text of a set of the scenario's actions.

The code the property was written against fails it in three ways; each is a `Variant` flag so that
the same theorem covers the code before and after each repair:

  D9   `colsFromEnd = false`  `getSolutionDetail` reads the encoding and the note from the FIXED columns
                              6 and 7; a catchment summary has six variable columns, so column 6 is
                              `TotalNitrogen` and column 7 the encoding   (`enginesummary:encoding-read-from-wrong-column`)
  D10  `rawActions = false`   the loader type-casts every cell: an encoding that `ParseFloat` accepts
                              (`1E5`, `1000000`) comes back as `%v` of the float, one spelling a boolean
                              (`F`) as ""; the summary is even rejected when the `%v` text leaves the
                              hexadecimal alphabet (`1E21` -> `1e+21`)     (`enginesummary:encoding-text-lost-by-cast`, `enginesummary:summary-rejected`)
  new  `poolReset = false`    the solution pool is keyed by label and never emptied: after a second
                              summary is posted, labels served before still return the OLD rows
                              (not part of the pure functions below; modelled in the driver's engine
                              state, `enginesummary:stale-pool-after-repost`)

`roundtrip`, `decoded_set`, `pareto_flag` are the property at full strength, proved for
`Variant.fixed`.  For `Variant.current` the full statements are false (refuting `example`s below at
`1E5`, `F`, `1E21` and at a nine-column summary); `roundtrip_partial`, `decoded_set_partial`,
`pareto_flag_partial` prove them under the two excluding hypotheses, both decidable predicates of the
model that the driver evaluates:

  `layoutOk v names`          `names.length = 5`  (eight columns: the layout the fixed indexes fit)
  `encodingsReadBack v rows`  every encoding reads back from the cast unchanged (`readsBack`); implied
                              by `noCastCollision` (neither `ParseFloat` nor a boolean spelling accepts
                              it), and strictly weaker: `12` is cast to a float and printed as `12` again.
-/
namespace Crem.EngineSummary
open Crem.Csv

/-! ## the tie to C20: without the D10 repair the engine's table is exactly C20's `load` -/

/-- as long as the `Actions` column is not kept as text, the table the engine works on is the table
`csv.DataSet.ParseCsvTextIntoTable` yields (C20's `load`), for every byte string -/
theorem loadTable_eq_load (v : Variant) (hv : v.rawActions = false) (text : Bytes) :
    loadTable v text = load text := by
  unfold loadTable
  rcases load_total text with ⟨e, he, hl⟩ | ⟨_, he, hl⟩ | ⟨hdr, rows, he, _, _, hl⟩
  · rw [he, hl]
  · rw [he, hl]
  · rw [he, hl]
    simp [castRecord, hv]

/-! ## the general statements, for every combination of repairs -/

/-- **roundtrip, any variant.**  A well-formed summary is accepted; `As-Is` is served from the pool's
own as-is solution; every other label is served with exactly its row's encoding and note —
provided the variant reads the right columns for this layout and keeps the encodings' text. -/
theorem roundtrip_of_variant (v : Variant) (sc : Scenario) (names : List Bytes) (rows : List Row)
    (h : wellFormed sc names rows = true) (hl : layoutOk v names = true)
    (hc : encodingsReadBack v rows = true) :
    ∃ t, loadSummary v sc (renderSummary names rows) = .ok t ∧
      lookup v sAsIs t = .asIs ∧
      ∀ row ∈ rows.tail, lookup v row.label t = .found row.encoding row.note := by
  have w := wfacts h
  refine ⟨expectedTable v names rows, loadSummary_render v sc names rows w hc, ?_, ?_⟩
  · obtain ⟨r0, rest, hrows, hlab, _⟩ := w.first
    have hcont := containsLabel_expected v sc names rows w r0 (by rw [hrows]; simp)
    rw [hlab] at hcont
    have hroute : routableLabel sAsIs = true := by decide
    simp [lookup, hcont, hroute]
  · intro row hrow
    have hmem : row ∈ rows := List.mem_of_mem_tail hrow
    have hcont := containsLabel_expected v sc names rows w row hmem
    obtain ⟨r0, rest, hrows, hlab0, _, _, hrest⟩ := w.first
    subst hrows
    have hne : (row.label == sAsIs) = false := by simpa using hrest row (by simpa using hrow)
    have hcont' : containsLabel row.label
        { header := header names, cells := rowCells v r0 :: List.map (rowCells v) rest } = true := by
      simpa [expectedTable] using hcont
    have hroute := (rowFacts (w.shape row hmem)).route
    simp only [lookup, expectedTable, List.map_cons, List.tail_cons, hcont', hroute, Bool.not_true,
      Bool.false_eq_true, if_false, hne]
    simp only [List.tail_cons] at hrow
    -- with `getSolutionDetail` repaired the search covers row 0 too: the As-Is row is skipped (its label differs)
    have hskip : findDetail v { header := header names, cells := rowCells v r0 :: List.map (rowCells v) rest } row.label
        (if v.guards = true then rowCells v r0 :: List.map (rowCells v) rest else List.map (rowCells v) rest)
        = findDetail v { header := header names, cells := rowCells v r0 :: List.map (rowCells v) rest } row.label
            (List.map (rowCells v) rest) := by
      split
      · have rf0 := rowFacts (w.shape r0 (by simp))
        simp only [findDetail, labelOf_rowCells v r0 rf0.label]
        have hdiff : (some r0.label == some row.label) = false := by
          rw [hlab0]
          have : row.label ≠ sAsIs := hrest row hrow
          simp [beq_eq_false_iff_ne, Ne.symm this]
        rw [hdiff]
        simp
      · rfl
    rw [hskip]
    apply findDetail_rows v _ names sc rest (fun r hr => w.shape r (by simp [hr]))
      (mem_of_allDistinct_cons (by simpa using w.distinct)).2 _ _ _ row hrow
    · simp only [encodingIndex, header, List.length_cons, List.length_append, List.length_nil]
      simp only [layoutOk, Bool.or_eq_true, beq_iff_eq] at hl
      rcases Bool.eq_false_or_eq_true v.colsFromEnd with hv | hv
      · simp [hv]
      · rcases hl with hl | hl
        · rw [hv] at hl; cases hl
        · simp [hv, hl]
    · simp only [noteIndex, header, List.length_cons, List.length_append, List.length_nil]
      simp only [layoutOk, Bool.or_eq_true, beq_iff_eq] at hl
      rcases Bool.eq_false_or_eq_true v.colsFromEnd with hv | hv
      · simp [hv]
      · rcases hl with hl | hl
        · rw [hv] at hl; cases hl
        · simp [hv, hl]
    · simp only [encodingsReadBack, Bool.or_eq_true, List.all_eq_true] at hc
      rcases hc with hc | hc
      · exact Or.inl hc
      · exact Or.inr (fun r hr => hc r (by simp [hr]))

/-- every row of a well-formed summary denotes a set of the scenario's actions, canonically -/
theorem encoding_denotes (sc : Scenario) (names : List Bytes) (rows : List Row)
    (h : wellFormed sc names rows = true) (row : Row) (hrow : row ∈ rows) :
    ∃ flags, BoolArchive.decode sc.nActions (toChars row.encoding) = .ok flags ∧
      ofChars (BoolArchive.encode flags) = row.encoding := by
  have hc := (rowFacts ((wfacts h).shape row hrow)).canon
  unfold canonicalEncoding at hc
  cases hd : BoolArchive.decode sc.nActions (toChars row.encoding) with
  | error e => simp [hd] at hc
  | ok flags => exact ⟨flags, rfl, by simpa [hd] using hc⟩

/-- **decoded_set, any variant.**  The solution served for a row's label has exactly the active
actions the row's encoding denotes (composition with C09: `AddSolution`'s Compress / Decode /
Decompress on a clone of the as-is model).  With C01 (the values are a function of the active set)
its decision-variable values are the row's. -/
theorem decoded_set_of_variant (v : Variant) (sc : Scenario) (names : List Bytes) (rows : List Row)
    (h : wellFormed sc names rows = true) (hl : layoutOk v names = true)
    (hc : encodingsReadBack v rows = true) :
    ∃ t, loadSummary v sc (renderSummary names rows) = .ok t ∧
      ∀ row ∈ rows, ∀ flags, BoolArchive.decode sc.nActions (toChars row.encoding) = .ok flags →
        served v sc row.label t = some flags := by
  obtain ⟨t, ht, hasis, hrest⟩ := roundtrip_of_variant v sc names rows h hl hc
  refine ⟨t, ht, ?_⟩
  intro row hrow flags hf
  obtain ⟨r0, rest, hrows, hlab, _, hdec, _⟩ := (wfacts h).first
  subst hrows
  rcases List.mem_cons.mp hrow with rfl | hr
  · rw [hdec] at hf
    simp only [Except.ok.injEq] at hf
    simp [served, hlab, hasis, hf]
  · simp only [served, hrest row (by simpa using hr)]
    exact poolActive_of_decode _ _ _ hf

/-- **pareto_flag, any variant that keeps the encodings' text.**  Setting the engine's model from the
encoding of any row other than the first (as-is) row decodes, and the model is reported as a member
of the loaded solution set.  (The membership search reads column `colSize - 2` in every variant, so
no layout hypothesis is needed.) -/
theorem pareto_flag_of_variant (v : Variant) (sc : Scenario) (names : List Bytes) (rows : List Row)
    (h : wellFormed sc names rows = true) (hc : encodingsReadBack v rows = true) :
    ∃ t, loadSummary v sc (renderSummary names rows) = .ok t ∧
      ∀ row ∈ rows.tail, paretoMember sc t row.encoding = some true := by
  have w := wfacts h
  refine ⟨expectedTable v names rows, loadSummary_render v sc names rows w hc, ?_⟩
  intro row hrow
  have hmem : row ∈ rows := List.mem_of_mem_tail hrow
  obtain ⟨flags, hd, he⟩ := encoding_denotes sc names rows h row hmem
  have rf := rowFacts (w.shape row hmem)
  simp only [paretoMember, hd, he, Option.some.injEq]
  simp only [encodingPresent, expectedTable, List.any_eq_true]
  refine ⟨rowCells v row, ?_, ?_⟩
  · rw [← List.map_tail]
    exact List.mem_map.mpr ⟨row, hrow, rfl⟩
  · have hidx : (header names).length - 2 = row.values.length + 1 := by
      simp [header, rf.vlen]
    rw [hidx, getElem?_rowCells_enc]
    simp only [Option.map_some, beq_iff_eq, Option.some.injEq]
    apply cellText_encCell
    simp only [encodingsReadBack, Bool.or_eq_true, List.all_eq_true] at hc
    rcases hc with hc | hc
    · exact Or.inl hc
    · exact Or.inr (hc row hmem)

/-! ## the property at full strength: the repaired engine -/

/-- **roundtrip** (C13, full strength; `Variant.fixed`): every well-formed summary — any number of
rows, any number of variable columns, any encodings (any word count; decimal-, exponent- or
boolean-looking or not) — is accepted, and every label is served with its row's encoding and note. -/
theorem roundtrip (sc : Scenario) (names : List Bytes) (rows : List Row)
    (h : wellFormed sc names rows = true) :
    ∃ t, loadSummary .fixed sc (renderSummary names rows) = .ok t ∧
      lookup .fixed sAsIs t = .asIs ∧
      ∀ row ∈ rows.tail, lookup .fixed row.label t = .found row.encoding row.note :=
  roundtrip_of_variant .fixed sc names rows h rfl rfl

/-- **decoded_set** (full strength): the served solution's active actions are the row's, for every row
(the As-Is row included: the pool's as-is solution has no active action, and that is what the row's
encoding denotes). -/
theorem decoded_set (sc : Scenario) (names : List Bytes) (rows : List Row)
    (h : wellFormed sc names rows = true) :
    ∃ t, loadSummary .fixed sc (renderSummary names rows) = .ok t ∧
      ∀ row ∈ rows, ∀ flags, BoolArchive.decode sc.nActions (toChars row.encoding) = .ok flags →
        served .fixed sc row.label t = some flags :=
  decoded_set_of_variant .fixed sc names rows h rfl rfl

/-- the same with the encoding given as what the explorer's `BooleanArchive.Encoding()` produced for
a set `flags` of the scenario's `n ≥ 1` actions (C09's `decode_encode`) -/
theorem decoded_set_encode (sc : Scenario) (names : List Bytes) (rows : List Row)
    (h : wellFormed sc names rows = true) (hn : 1 ≤ sc.nActions) :
    ∃ t, loadSummary .fixed sc (renderSummary names rows) = .ok t ∧
      ∀ row ∈ rows, ∀ flags : List Bool, flags.length = sc.nActions →
        row.encoding = ofChars (BoolArchive.encode flags) → served .fixed sc row.label t = some flags := by
  obtain ⟨t, ht, hs⟩ := decoded_set sc names rows h
  refine ⟨t, ht, ?_⟩
  intro row hrow flags hlen henc
  apply hs row hrow flags
  rw [henc, toChars_ofChars _ (encode_ascii flags)]
  exact BoolArchive.decode_encode sc.nActions flags hn hlen

/-- **pareto_flag** (full strength): every non-as-is row's encoding is reported as a Pareto-front member. -/
theorem pareto_flag (sc : Scenario) (names : List Bytes) (rows : List Row)
    (h : wellFormed sc names rows = true) :
    ∃ t, loadSummary .fixed sc (renderSummary names rows) = .ok t ∧
      ∀ row ∈ rows.tail, paretoMember sc t row.encoding = some true :=
  pareto_flag_of_variant .fixed sc names rows h rfl

/-! ## the code as it stood: `_partial` versions under the two excluding hypotheses

FULL STATEMENTS (false for `Variant.current`, refuted below):

    theorem roundtrip_current (h : wellFormed sc names rows = true) :
        ∃ t, loadSummary .current sc (renderSummary names rows) = .ok t ∧ lookup .current sAsIs t = .asIs ∧
          ∀ row ∈ rows.tail, lookup .current row.label t = .found row.encoding row.note
    theorem decoded_set_current …   theorem pareto_flag_current …   (likewise)

Missing: D9 (fixed columns 6 / 7) and D10 (type-cast cells). -/

/-- five variable columns: the eight-column layout the fixed indexes 6 / 7 were written for -/
def EightColumns (names : List Bytes) : Prop := names.length = 5

instance (names : List Bytes) : Decidable (EightColumns names) := by unfold EightColumns; infer_instance

/-- no encoding of the summary is changed by the loader's cast -/
def NoEncodingLostByCast (rows : List Row) : Prop := ∀ row ∈ rows, readsBack row.encoding = true

instance (rows : List Row) : Decidable (NoEncodingLostByCast rows) := by
  unfold NoEncodingLostByCast; infer_instance

theorem roundtrip_partial (sc : Scenario) (names : List Bytes) (rows : List Row)
    (h : wellFormed sc names rows = true) (h8 : EightColumns names) (hrb : NoEncodingLostByCast rows) :
    ∃ t, loadSummary .current sc (renderSummary names rows) = .ok t ∧
      lookup .current sAsIs t = .asIs ∧
      ∀ row ∈ rows.tail, lookup .current row.label t = .found row.encoding row.note :=
  roundtrip_of_variant .current sc names rows h (by have h5 : names.length = 5 := h8; simp [layoutOk, h5])
    (by simp only [encodingsReadBack, Bool.or_eq_true, List.all_eq_true]; exact Or.inr hrb)

theorem decoded_set_partial (sc : Scenario) (names : List Bytes) (rows : List Row)
    (h : wellFormed sc names rows = true) (h8 : EightColumns names) (hrb : NoEncodingLostByCast rows) :
    ∃ t, loadSummary .current sc (renderSummary names rows) = .ok t ∧
      ∀ row ∈ rows, ∀ flags, BoolArchive.decode sc.nActions (toChars row.encoding) = .ok flags →
        served .current sc row.label t = some flags :=
  decoded_set_of_variant .current sc names rows h (by have h5 : names.length = 5 := h8; simp [layoutOk, h5])
    (by simp only [encodingsReadBack, Bool.or_eq_true, List.all_eq_true]; exact Or.inr hrb)

/-- the membership search already reads column `colSize - 2`: only the cast hypothesis is needed -/
theorem pareto_flag_partial (sc : Scenario) (names : List Bytes) (rows : List Row)
    (h : wellFormed sc names rows = true) (hrb : NoEncodingLostByCast rows) :
    ∃ t, loadSummary .current sc (renderSummary names rows) = .ok t ∧
      ∀ row ∈ rows.tail, paretoMember sc t row.encoding = some true :=
  pareto_flag_of_variant .current sc names rows h
    (by simp only [encodingsReadBack, Bool.or_eq_true, List.all_eq_true]; exact Or.inr hrb)

/-- `NoCastCollision` (the encoding is accepted neither by `ParseFloat` nor as a boolean spelling)
implies the cast hypothesis; the converse fails (`12`, below) -/
theorem noEncodingLostByCast_of_noCastCollision (rows : List Row)
    (h : ∀ row ∈ rows, noCastCollision row.encoding = true) : NoEncodingLostByCast rows :=
  fun row hrow => readsBack_of_noCastCollision _ (h row hrow)

/-- with only D9 repaired (`colsFromEnd`), every layout is served, the cast hypothesis remains -/
theorem roundtrip_colsFromEnd (sc : Scenario) (names : List Bytes) (rows : List Row) (pr g : Bool)
    (h : wellFormed sc names rows = true) (hrb : NoEncodingLostByCast rows) :
    ∃ t, loadSummary ⟨true, false, pr, g⟩ sc (renderSummary names rows) = .ok t ∧
      lookup ⟨true, false, pr, g⟩ sAsIs t = .asIs ∧
      ∀ row ∈ rows.tail, lookup ⟨true, false, pr, g⟩ row.label t = .found row.encoding row.note :=
  roundtrip_of_variant _ sc names rows h rfl
    (by simp only [encodingsReadBack, Bool.or_eq_true, List.all_eq_true]; exact Or.inr hrb)

/-! ## what the loader's cast does to an encoding (D10, exactly) -/

/-- an encoding that stays a string cell reads back unchanged -/
theorem readsBack_text (e : Bytes) (h : noCastCollision e = true) : readsBack e = true :=
  readsBack_of_noCastCollision e h

/-- an encoding spelling a boolean (`F` is the only hexadecimal one) reads back as the empty text -/
theorem bool_encoding_reads_back_empty (e : Bytes) (h : boolSpelled e = true) :
    cellText (cast e) = [] := by
  obtain ⟨b, hb⟩ := (cast_bool_iff_boolSpelled e).mpr h
  rw [hb]; rfl

/-- an encoding `ParseFloat` accepts reads back as `%v` of the float -/
theorem numeric_encoding_reads_back_fmtV (e : Bytes) (bits : Nat) (h : parseFloat e = some bits) :
    cellText (cast e) = fmtV bits := by
  simp [Csv.cast, h, cellText]

/-! ## non-vacuity, and the refutations of the full statements for the code as it stood
(tests, labelled as such; the harness replays the same witnesses against the real engine) -/

/-- a scenario with five decision variables `a`..`e` (as-is values 0) and 13 actions: eight columns -/
def sc5 : Scenario :=
  { nActions := 13, vars := [(ascii "a", 0), (ascii "b", 0), (ascii "c", 0), (ascii "d", 0), (ascii "e", 0)] }
def names5 : List Bytes := [ascii "a", ascii "b", ascii "c", ascii "d", ascii "e"]
def asIs5 : Row := ⟨sAsIs, List.replicate 5 (ascii "0.000"), ascii "0", ascii "As-is state; zero active management actions"⟩
def row5 (label enc : String) : Row :=
  ⟨ascii label, List.replicate 5 (ascii "2.500"), ascii enc, ascii "Pareto front member 1 of 1"⟩

/-- … and one with six (as the catchment model has): nine columns; 70 actions = two-word encodings -/
def sc6 : Scenario :=
  { nActions := 70, vars := [(ascii "a", 0), (ascii "b", 0), (ascii "c", 0), (ascii "d", 0), (ascii "e", 0), (ascii "f", 0)] }
def names6 : List Bytes := [ascii "a", ascii "b", ascii "c", ascii "d", ascii "e", ascii "f"]
def asIs6 : Row := ⟨sAsIs, List.replicate 6 (ascii "0.000"), ascii "0:0", ascii "As-is state; zero active management actions"⟩
def row6 (label last enc : String) : Row :=
  ⟨ascii label, List.replicate 5 (ascii "2.500") ++ [ascii last], ascii enc, ascii "Pareto front member 1 of 1"⟩

/-- what is served for `label` after posting the summary -/
def serve (v : Variant) (sc : Scenario) (names : List Bytes) (rows : List Row) (label : String) : Lookup :=
  match loadSummary v sc (renderSummary names rows) with
  | .ok t => lookup v (ascii label) t
  | _ => .notFound

-- the hypotheses are satisfiable: eight and nine columns, one- and two-word encodings, labels of both families
set_option maxRecDepth 100000 in
example : wellFormed sc5 names5 [asIs5, row5 "1-of-2" "1ABC", row5 "2-of-2" "12"] = true ∧
    EightColumns names5 ∧ NoEncodingLostByCast [asIs5, row5 "1-of-2" "1ABC", row5 "2-of-2" "12"] := by decide
set_option maxRecDepth 100000 in
example : wellFormed sc5 names5 [asIs5, row5 "Optimised" "1E5"] = true := by decide
set_option maxRecDepth 100000 in
example : wellFormed sc6 names6 [asIs6, row6 "1-of-2" "3.500" "A:1F", row6 "2-of-2" "12.000" "FFFFFFFFFFFFFFFF:3F"] = true := by
  decide
-- the repaired engine on the witnesses below: served as written
set_option maxRecDepth 100000 in
example : serve .fixed sc5 names5 [asIs5, row5 "x" "1E5", row5 "y" "F"] "x"
      = .found (ascii "1E5") (ascii "Pareto front member 1 of 1") ∧
    serve .fixed sc5 names5 [asIs5, row5 "x" "1E5", row5 "y" "F"] "y"
      = .found (ascii "F") (ascii "Pareto front member 1 of 1") ∧
    serve .fixed sc6 names6 [asIs6, row6 "x" "3.500" "A:1F"] "x"
      = .found (ascii "A:1F") (ascii "Pareto front member 1 of 1") := by decide

-- D10, `1E5`: well-formed, eight columns, but the encoding comes back as `%v` of 100000.0 …
set_option maxRecDepth 100000 in
example : wellFormed sc5 names5 [asIs5, row5 "x" "1E5"] = true ∧ EightColumns names5 ∧
    readsBack (ascii "1E5") = false ∧
    serve .current sc5 names5 [asIs5, row5 "x" "1E5"] "x"
      = .found (ascii "100000") (ascii "Pareto front member 1 of 1") := by decide
-- … so another action set is served (0x100000 has no bit below 13: the as-is state) and the row's own
-- encoding is not reported as a Pareto-front member
set_option maxRecDepth 100000 in
example : (match loadSummary .current sc5 (renderSummary names5 [asIs5, row5 "x" "1E5"]) with
    | .ok t => (served .current sc5 (ascii "x") t, paretoMember sc5 t (ascii "1E5"),
                BoolArchive.decode 13 "1E5".toList)
    | _ => (none, none, .error .count))
    = (some (List.replicate 13 false), some false,
       .ok [true, false, true, false, false, true, true, true, true, false, false, false, false]) := by decide
-- D10, `F`: the bool cell reads back as the empty text (which fails to decode: the as-is state is served)
set_option maxRecDepth 100000 in
example : wellFormed sc5 names5 [asIs5, row5 "x" "F"] = true ∧ readsBack (ascii "F") = false ∧
    serve .current sc5 names5 [asIs5, row5 "x" "F"] "x" = .found [] (ascii "Pareto front member 1 of 1") := by
  decide
-- D10, `1E21`: `%v` gives `1e+21`, which the engine's own hexadecimal pattern rejects: HTTP 400 for the whole summary
set_option maxRecDepth 100000 in
example : wellFormed sc5 names5 [asIs5, row5 "x" "1E21"] = true ∧
    loadSummary .current sc5 (renderSummary names5 [asIs5, row5 "x" "1E21"]) = .rejected .invalid := by decide
-- `12` is cast to a float too (`noCastCollision` fails) but `%v` prints `12` again: `readsBack` holds, the
-- row is served correctly: `NoEncodingLostByCast` is the exact hypothesis, `noCastCollision` a sufficient one
set_option maxRecDepth 100000 in
example : noCastCollision (ascii "12") = false ∧ readsBack (ascii "12") = true ∧
    serve .current sc5 names5 [asIs5, row5 "x" "12"] "x"
      = .found (ascii "12") (ascii "Pareto front member 1 of 1") := by decide
-- … whereas seven decimal digits already leave the alphabet (`1e+06`)
example : cellText (cast (ascii "1000000")) = ascii "1e+06" := by decide

-- D9, a nine-column summary (no cast collision anywhere): the encoding handed to the pool is the text of
-- the LAST VARIABLE cell, the note is the encoding
set_option maxRecDepth 100000 in
example : wellFormed sc6 names6 [asIs6, row6 "x" "3.500" "A:1F"] = true ∧
    NoEncodingLostByCast [asIs6, row6 "x" "3.500" "A:1F"] ∧ ¬ EightColumns names6 ∧
    serve .current sc6 names6 [asIs6, row6 "x" "3.500" "A:1F"] "x" = .found (ascii "3.5") (ascii "A:1F") := by
  decide
-- with a whole-numbered last variable the pool even decodes it: `12.000` -> `12`; on the 13-action
-- scenario this serves actions 1 and 4 instead of the row's
def sc6' : Scenario := { sc6 with nActions := 13 }
def asIs6' : Row := { asIs6 with encoding := ascii "0" }
set_option maxRecDepth 100000 in
example : wellFormed sc6' names6 [asIs6', row6 "x" "12.000" "1ABC"] = true ∧
    (match loadSummary .current sc6' (renderSummary names6 [asIs6', row6 "x" "12.000" "1ABC"]) with
     | .ok t => served .current sc6' (ascii "x") t
     | _ => none)
    = some [false, true, false, false, true, false, false, false, false, false, false, false, false] ∧
    BoolArchive.decode 13 "1ABC".toList
    = .ok [false, false, true, true, true, true, false, true, false, true, false, true, true] := by decide
-- with D9 repaired alone the nine-column summary is served as written
set_option maxRecDepth 100000 in
example : serve ⟨true, false, false, false⟩ sc6 names6 [asIs6, row6 "x" "3.500" "A:1F"] "x"
    = .found (ascii "A:1F") (ascii "Pareto front member 1 of 1") := by decide

-- malformed input (outside `wellFormed`), transcribed panics: a label that exists only in row 0,
-- a one-column summary
set_option maxRecDepth 100000 in
example : serve .current sc5 names5 [{ asIs5 with label := ascii "first" }] "first" = .panic .labelInRowZero ∧
    loadSummary .current sc5 (ascii "Solution\nx\n") = .panic .headerIndex := by decide

end Crem.EngineSummary
