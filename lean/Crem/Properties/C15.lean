import Crem.Proofs.Engine
/-!
# C15 — the engine answers every request with a well-formed response and never panics  (partial)

Theorems about the engine spec `Crem.Engine.step` (`Crem/Model/Engine.lean`) and the admin multiplexer
`stepAdmin`.  Requests are *classified*: method, URL path (classified inside the model by `classifyPath`),
content-type header value, and the facts the engine's decoders deliver about the body (`BodyFacts`: TOML and
JSON parsing are NOT modelled, which is why the property is labelled partial; CSV bodies arrive as the typed
table `ParseCsvTextIntoTable` builds — that reader is property C20's model — and are classified here by the
total functions `classifyTable` / `classifySols`).  Every function of the model is total (structural recursion
only), which is the Lean counterpart of "the handler returns": there is no input on which `step` is undefined.
The code as it stands does panic on some classified inputs (D13); the `engine-raw` / `engine-seq` suites report
each site directly and tell the driver (`obs = panic`).
Every `theorem` in this file is audited by `./check C15` (`#print axioms`).
-/
namespace Crem.Engine

/-- the documented status codes -/
def documented : List Nat := [200, 400, 404, 405, 415, 500, 503]

/-- For every state and every classified request — any method, any path, any content type, any body facts —
the status is one of the documented ones. -/
theorem status_documented (W : World) (s : State) (r : Request) :
    (step Quirks.spec W s r).1.status ∈ documented := by
  rcases step_good W s r with h | ⟨h | h | h | h, _⟩ <;> simp [h, documented, err]

/-- Every answer other than 200 is the JSON error document `{Type: "ERROR", Message, Time}`. -/
theorem error_has_document (W : World) (s : State) (r : Request)
    (h : (step Quirks.spec W s r).1.status ≠ 200) :
    (step Quirks.spec W s r).1.body = .error ∧
    (step Quirks.spec W s r).1.ctype = .json ∧
    (step Quirks.spec W s r).1.body.toJson = some (messageDoc "ERROR") := by
  rcases step_good W s r with h200 | ⟨hc | hc | hc | hc, _⟩
  · exact absurd h200 h
  all_goals (rw [hc]; simp [err, Response.ctype, Body.ctype, Body.toJson])

/-- Malformed or semantically wrong input is a client error: whatever is not answered 200 is answered 4xx
(never 5xx, never nothing), and leaves the engine as it was. -/
theorem errors_are_client_errors (W : World) (s : State) (r : Request)
    (h : (step Quirks.spec W s r).1.status ≠ 200) :
    (step Quirks.spec W s r).1.status ∈ [400, 404, 405, 415] ∧ (step Quirks.spec W s r).2 = s := by
  rcases step_good W s r with h200 | ⟨hc | hc | hc | hc, hs⟩
  · exact absurd h200 h
  all_goals (rw [hc]; exact ⟨by simp [err], hs⟩)

/-- Wherever JSON is declared the body is built from the JSON value type `JVal`, whose rendering `JVal.render`
is a total function; the only non-JSON bodies are the two text resources, declared as TOML / CSV. -/
theorem declared_json_is_json (q : Quirks) (W : World) (s : State) (r : Request)
    (h : (step q W s r).1.ctype = .json) : ∃ j : JVal, (step q W s r).1.body.toJson = some j := by
  generalize (step q W s r).1 = resp at h
  cases hb : resp.body <;> simp_all [Response.ctype, Body.ctype, Body.toJson]
  rename_i tt _ _
  cases tt <;> simp [TextType.ctype] at h

/-- … and conversely a text body is declared with the content type of its resource. -/
theorem text_is_declared_text (q : Quirks) (W : World) (s : State) (r : Request) (tt : TextType) (t : Bytes) (m : Bool)
    (h : (step q W s r).1.body = .text tt t m) : (step q W s r).1.ctype = tt.ctype ∧ tt.ctype ≠ .json := by
  refine ⟨by simp [Response.ctype, h, Body.ctype], ?_⟩
  cases tt <;> simp [TextType.ctype]

/-- The admin multiplexer (`/status`, `/shutdown`): documented statuses, JSON throughout. -/
theorem admin_status_documented (down : Bool) (method : Method) (path : String) :
    (stepAdmin down method path).1.status ∈ documented ∧ (stepAdmin down method path).1.ctype = .json := by
  unfold stepAdmin
  split <;> (try split) <;> simp [documented, ok, err, Response.ctype, Body.ctype]

/-- The route patterns are pairwise disjoint and exhaustive by construction: `classifyPath` is a function, so
the handler chosen does not depend on the iteration order of the Go map of compiled patterns.  What is checked
here is that the literal routes classify as themselves. -/
theorem literal_routes :
    classifyPath "/api/v1/scenario" = .scenario ∧ classifyPath "/api/v1/solutions" = .solutions ∧
    classifyPath "/api/v1/model" = .model ∧ classifyPath "/api/v1/model/actions/active" = .active ∧
    classifyPath "/api/v1/model/actions/applicable" = .applicable ∧ classifyPath "/" = .root := by decide

/-! ## CSV bodies: every typed table is classified, and only well-formed ones are accepted -/

/-- A table PUT is accepted only if its first heading is `SubCatchment` and every other cell is the number 0 or 1
(and, when there is more than one column, every first cell is a number): nothing else gets through. -/
theorem table_accepted_only_if_wellformed (header : List String) (rows : List (List Cell))
    (types : List String) (rs : List (Option Nat × List Bool))
    (h : classifyTable (.table header rows) = .ok types rs) :
    header.head? = some "SubCatchment" ∧ (∀ row ∈ rows, ∀ c ∈ row.drop 1, isFlagCell c = true) ∧
    (header.length ≥ 2 → ∀ row ∈ rows, firstIsNum row = true) := by
  simp only [classifyTable] at h
  split at h
  · cases h
  · rename_i h1
    split at h
    · cases h
    · rename_i h2
      split at h
      · cases h
      · rename_i h3
        have a2 : (rows.all fun row => (row.drop 1).all isFlagCell) = true := by
          cases hx : (rows.all fun row => (row.drop 1).all isFlagCell)
          · rw [hx] at h2; simp at h2
          · rfl
        refine ⟨Decidable.of_not_not h1, ?_, ?_⟩
        · intro row hrow c hc
          exact List.all_eq_true.mp (List.all_eq_true.mp a2 row hrow) c hc
        · intro hl row hrow
          have a3 : rows.all firstIsNum = true := by
            cases hx : rows.all firstIsNum
            · rw [hx] at h3; simp [hl] at h3
            · rfl
          exact List.all_eq_true.mp a3 row hrow

/-! ## Non-vacuity and sanity examples (tests, labelled as such) -/

example : (step Quirks.spec ⟨fun _ _ => true⟩ State.init (getReq "/api/v1/model")).1 = err 404 := by decide
example : (step Quirks.spec ⟨fun _ _ => true⟩ State.init (getReq "/nowhere")).1 = err 404 := by decide
example : (step Quirks.spec ⟨fun _ _ => true⟩ State.init { getReq "/api/v1/model" with method := .delete }).1 = err 405 := by
  decide
/-- a 30-digit subcatchment identifier is a client error, not a panic -/
example : classifyPath "/api/v1/model/subcatchment/123456789012345678901234567890" =
    .sub "123456789012345678901234567890" ∧ atoi? "123456789012345678901234567890" = none := by decide
/-- an empty CSV body, a header-only one, a one-column one, a textual first column: all classified -/
example : classifyTable .error = .csvError := rfl
example : classifyTable (.table ["SubCatchment", "GullyRestoration"] []) = .ok ["GullyRestoration"] [] := by decide
example : classifyTable (.table ["SubCatchment"] [[.text "abc"]]) = .ok [] [(none, [])] := by decide
example : classifyTable (.table ["SubCatchment", "GullyRestoration"] [[.text "abc", .num bitsOne "1"]]) = .badFirstColumn := by
  decide
example : classifySols [] (.table ["Solution"] [[.text "As-Is"]]) = .oneColumn := by decide
example : (JVal.obj [("Type", .str "ERROR"), ("Message", .str "a \"quoted\" word")]).render =
    "{\"Type\":\"ERROR\",\"Message\":\"a \\\"quoted\\\" word\"}" := by decide

end Crem.Engine
