import Crem.Proofs.Engine
import Crem.Proofs.EngineGo
/-!
# C15 — the engine answers every request with a well-formed response and never panics  (partial)

Two transcriptions of the engine's API multiplexer are used here.

* `Crem.Engine.step` (`Crem/Model/Engine.lean`), the SPEC: a total function in which every partial Go operation is
  fused with its guard into a total classifier.  "Every function is total" is NOT a statement about panics: it cannot
  fail, and removing a Go guard breaks nothing in it.
* `Crem.EngineGo.stepGo` (`Crem/Model/EngineGo.lean`), the Go-SHAPED transcription: outcome `Except Panic`, every
  partial Go operation (`x.(T)`, `xs[i]`, nil dereference, `panic(variableMissing)`, `uint` subtraction) a primitive
  that can answer `.error` at its use site, every Go guard its own function evaluated first.  The driver of the
  `engine-seq` / `engine-raw` suites runs `stepGo` (a `.error` is printed as `panic`), so the correspondence with the
  code is with this transcription.

"Never panics" is `stepGo_eq_step` / `never_panics` below, proved from one lemma per guard; the `example`s at the end
run the code behind each guard on an input the guard rejects and get a panic, so a removed guard is a failed proof.
"Client error rather than silent acceptance" is the five `…_accepted_iff` theorems (200 exactly when …).
"Syntactically valid JSON" is `declared_json_renders_to_json`, about the structured document type `JDoc` (no raw
constructor) of `Crem/Model/EngineGo.lean` and the grammar `JsonText`.

Requests are *classified*: method, URL path (classified inside the model by `classifyPath`), content-type header
value, and the facts the engine's decoders deliver about the body (`BodyFacts`: TOML and JSON parsing are NOT
modelled, which is why the property is labelled partial; CSV bodies arrive as the typed table
`ParseCsvTextIntoTable` builds — that reader is property C20's model).
Every `theorem` in this file is audited by `./check C15` (`#print axioms`).
-/
namespace Crem.Engine
open Crem.EngineGo

/-! ## Status codes and error documents -/

/-- the status codes the engine's documentation lists (500 and 503 are listed there; neither the spec nor the code's
handlers produce them: see `status_is_one_of_five`) -/
def documented : List Nat := [200, 400, 404, 405, 415, 500, 503]

/-- For every state and every classified request — any method, any path, any content type, any body facts —
the status is one of the documented ones.  (Weaker than `status_is_one_of_five`; kept for its name.) -/
theorem status_documented (W : World) (s : State) (r : Request) :
    (step Quirks.spec W s r).1.status ∈ documented := by
  rcases step_good W s r with h | ⟨h | h | h | h, _⟩ <;> simp [h, documented, err]

/-- The status is one of 200, 400, 404, 405, 415: never 5xx.  As the code has it (sic): a wrong content type on
POST /api/v1/scenario is 405 (not 415), and POST /api/v1/solutions before any scenario is loaded is 405 (not 404 / 409). -/
theorem status_is_one_of_five (W : World) (s : State) (r : Request) :
    (step Quirks.spec W s r).1.status ∈ [200, 400, 404, 405, 415] := by
  rcases step_good W s r with h | ⟨h | h | h | h, _⟩ <;> simp [h, err]

/-- Every answer other than 200 has the body `Body.error`, declared JSON; the third conjunct only unfolds
`Body.toJson` on `Body.error` (the message text of the real document is not modelled: `messageDoc` carries a
placeholder). -/
theorem error_has_document (W : World) (s : State) (r : Request)
    (h : (step Quirks.spec W s r).1.status ≠ 200) :
    (step Quirks.spec W s r).1.body = .error ∧
    (step Quirks.spec W s r).1.ctype = .json ∧
    (step Quirks.spec W s r).1.body.toJson = some (messageDoc "ERROR") := by
  rcases step_good W s r with h200 | ⟨hc | hc | hc | hc, _⟩
  · exact absurd h200 h
  all_goals (rw [hc]; simp [err, Response.ctype, Body.ctype, Body.toJson])

/-- Whatever is not answered 200 is answered 400 / 404 / 405 / 415 and leaves the engine's state as it was.
This says NOTHING about which requests are refused (a spec answering 200 to everything would satisfy it): that is
what the acceptance theorems `…_accepted_iff` below are for. -/
theorem non_200_is_4xx_and_changes_nothing (W : World) (s : State) (r : Request)
    (h : (step Quirks.spec W s r).1.status ≠ 200) :
    (step Quirks.spec W s r).1.status ∈ [400, 404, 405, 415] ∧ (step Quirks.spec W s r).2 = s := by
  rcases step_good W s r with h200 | ⟨hc | hc | hc | hc, hs⟩
  · exact absurd h200 h
  all_goals (rw [hc]; exact ⟨by simp [err], hs⟩)

/-- the former name of `non_200_is_4xx_and_changes_nothing` (cited elsewhere); same statement, same caveat -/
theorem errors_are_client_errors (W : World) (s : State) (r : Request)
    (h : (step Quirks.spec W s r).1.status ≠ 200) :
    (step Quirks.spec W s r).1.status ∈ [400, 404, 405, 415] ∧ (step Quirks.spec W s r).2 = s :=
  non_200_is_4xx_and_changes_nothing W s r h

/-- Wherever JSON is declared, `Body.toJson` is defined.  This is a fact about the RESPONSE TYPE (the only bodies
without a `toJson` are the two text resources), NOT a proof that the rendered text is syntactically valid JSON:
`JVal.raw` holds any string (attribute values, `repr:<key>`), so `JVal.render` of a reachable response need not be
JSON.  Kept for its name; the statement about JSON syntax is `declared_json_renders_to_json` below. -/
theorem declared_json_is_json (q : Quirks) (W : World) (s : State) (r : Request)
    (h : (step q W s r).1.ctype = .json) : ∃ j : JVal, (step q W s r).1.body.toJson = some j := by
  generalize (step q W s r).1 = resp at h
  cases hb : resp.body <;> simp_all [Response.ctype, Body.ctype, Body.toJson]
  rename_i tt _ _
  cases tt <;> simp [TextType.ctype] at h

/-- Every document of the structured type `JDoc` (no raw constructor: null, Booleans, decimal numbers, strings,
arrays, objects) renders to a text of the JSON value grammar `JsonText` (RFC 8259, no white space): strings and
object keys are escaped, numerals have no leading zero. -/
theorem every_document_renders_to_json (d : JDoc) : JsonText d.render := render_valid d

/-- Wherever JSON is declared the body has a document (`bodyDoc`) and its rendering is a JSON text — for EVERY
interpretation `dv`, `av` of the two parts the spec keeps abstract (the decision-variable block of a model, the values
of attributes) as JSON values.  What this covers: the document structure and the escaping of every string the engine
writes (ids, names, labels, planning-unit keys, action types).  What it does not: that Go's encoder produces THIS text
(the harness checks the real bytes with `json.Valid`), and JSON/TOML request parsing. -/
theorem declared_json_renders_to_json (q : Quirks) (W : World) (s : State) (r : Request)
    (dv : Universe → ActiveSet → JDoc) (av : Tok → JDoc) (h : (step q W s r).1.ctype = .json) :
    ∃ d : JDoc, bodyDoc dv av (step q W s r).1.body = some d ∧ JsonText d.render := by
  have hs := bodyDoc_isSome dv av (step q W s r).1.body
  have hj : (step q W s r).1.body.ctype = .json := h
  rw [hj] at hs
  cases hd : bodyDoc dv av (step q W s r).1.body with
  | none => simp [hd] at hs
  | some d => exact ⟨d, rfl, render_valid d⟩

/-- The grammar is not vacuous: the text `}{` (what splicing a raw attribute token into a document could produce) is
not a JSON text. -/
theorem json_grammar_rejects_braces : ¬ JsonText ['}', '{'] := by
  intro h
  cases h with
  | num hn =>
    obtain ⟨m, e, heq, hm, _⟩ := hn
    cases m with
    | nil => simp at heq
    | cons a m' =>
      simp only [List.cons_append, List.cons.injEq] at heq
      obtain ⟨ha, heq'⟩ := heq
      subst ha
      rcases hm with hm | ⟨ds, hds, _⟩
      · have := hm.2.1 '}' (by simp)
        revert this; decide
      · simp at hds

/-- … and conversely a text body is declared with the content type of its resource. -/
theorem text_is_declared_text (q : Quirks) (W : World) (s : State) (r : Request) (tt : TextType) (t : Bytes) (m : Bool)
    (h : (step q W s r).1.body = .text tt t m) : (step q W s r).1.ctype = tt.ctype ∧ tt.ctype ≠ .json := by
  refine ⟨by simp [Response.ctype, h, Body.ctype], ?_⟩
  cases tt <;> simp [TextType.ctype]

/-! ### The admin multiplexer (`/status`, `/shutdown`)

`stepAdmin` has a state: has a shutdown been requested.  "The handler returns" for the shutdown handler is a
statement about the code (it must not wait for a receiver of its signal while it holds the request lock); the
`engine-raw` suite watches the goroutine and reports a blocked handler as `engine:admin-handler-blocks`. -/

/-- Every admin answer is 200 with the status document of the state it leaves, or the error document (404 unknown
path, 405 wrong method) with the state as it was. -/
theorem admin_step_cases (down : Bool) (method : Method) (path : String) :
    (stepAdmin down method path).1 = ok (.adminStatus (stepAdmin down method path).2) ∨
    (((stepAdmin down method path).1 = err 404 ∨ (stepAdmin down method path).1 = err 405) ∧
      (stepAdmin down method path).2 = down) := by
  unfold stepAdmin
  split <;> (try split) <;> simp

/-- Documented statuses, JSON declared and a JSON document throughout. -/
theorem admin_status_documented (down : Bool) (method : Method) (path : String) :
    (stepAdmin down method path).1.status ∈ documented ∧ (stepAdmin down method path).1.ctype = .json ∧
    ∃ j : JVal, (stepAdmin down method path).1.body.toJson = some j := by
  rcases admin_step_cases down method path with h | ⟨h | h, _⟩ <;>
    (rw [h]; simp [documented, ok, err, Response.ctype, Body.ctype, Body.toJson])

/-- A shutdown request is answered 200 with SHUTTING_DOWN in every state, and asking again is answered the same
way and changes nothing. -/
theorem shutdown_idempotent (down : Bool) :
    stepAdmin down .post "/shutdown" = (ok (.adminStatus true), true) ∧
    stepAdmin (stepAdmin down .post "/shutdown").2 .post "/shutdown" = stepAdmin down .post "/shutdown" := by
  simp [stepAdmin, classifyAdminPath]

/-- A request changes the state only by being a shutdown request that is answered 200. -/
theorem admin_state_step (down : Bool) (method : Method) (path : String) :
    ((stepAdmin down method path).2 = true ↔
      down = true ∨ ((method, path) = (Method.post, "/shutdown") ∧ (stepAdmin down method path).1.status = 200)) := by
  unfold stepAdmin classifyAdminPath
  by_cases h1 : path = "/status"
  · subst h1; by_cases hm : method = .get <;> simp [hm, ok, err]
  · by_cases h2 : path = "/shutdown"
    · subst h2; by_cases hm : method = .post <;> simp [hm, ok, err]
    · simp [h1, h2, err]

/-- … hence, over any sequence of requests from any state. -/
theorem runAdmin_state (down : Bool) (rs : List (Method × String)) :
    ((runAdmin down rs).2 = true ↔
      down = true ∨ ∃ p ∈ rs.zip (runAdmin down rs).1, p.1 = (Method.post, "/shutdown") ∧ p.2.status = 200) := by
  induction rs generalizing down with
  | nil => simp [runAdmin]
  | cons r rs ih =>
    obtain ⟨m, p⟩ := r
    simp only [runAdmin, List.zip_cons_cons, List.mem_cons]
    rw [ih, admin_state_step]
    constructor
    · rintro ((h | h) | ⟨q, hq, hh⟩)
      · exact Or.inl h
      · exact Or.inr ⟨_, Or.inl rfl, h⟩
      · exact Or.inr ⟨q, Or.inr hq, hh⟩
    · rintro (h | ⟨q, hq | hq, hh⟩)
      · exact Or.inl (Or.inl h)
      · subst hq; exact Or.inl (Or.inr hh)
      · exact Or.inr ⟨q, hq, hh⟩

/-- After ANY sequence of admin requests to a running server, `GET /status` is answered 200 with a status document
whose `Status` word is SHUTTING_DOWN if and only if some earlier request was a `POST /shutdown` answered 200
(otherwise it is RUNNING: `statusWord`). -/
theorem status_reports_shutdown (rs : List (Method × String)) :
    ∃ d, (stepAdmin (runAdmin false rs).2 .get "/status").1 = ok (.adminStatus d) ∧
      (statusWord d = "SHUTTING_DOWN" ↔
        ∃ p ∈ rs.zip (runAdmin false rs).1, p.1 = (Method.post, "/shutdown") ∧ p.2.status = 200) := by
  refine ⟨(runAdmin false rs).2, by simp [stepAdmin, classifyAdminPath], ?_⟩
  have h := runAdmin_state false rs
  simp only [Bool.false_eq_true, false_or] at h
  rw [← h]
  cases (runAdmin false rs).2 <;> simp [statusWord]

/-- non-vacuity: both sides of the equivalence occur, a second shutdown request is answered, errors are errors -/
example : (runAdmin false [(.get, "/status"), (.post, "/shutdown"), (.get, "/status"), (.post, "/shutdown"),
      (.put, "/status"), (.get, "/shutdown"), (.get, "/nowhere"), (.get, "/status")]).1 =
    [ok (.adminStatus false), ok (.adminStatus true), ok (.adminStatus true), ok (.adminStatus true),
     err 405, err 405, err 404, ok (.adminStatus true)] := by decide
example : (runAdmin false [(.get, "/shutdown"), (.post, "/status"), (.get, "/status")]).1 =
    [err 405, err 405, ok (.adminStatus false)] := by decide
example : statusWord false = "RUNNING" ∧ statusWord true = "SHUTTING_DOWN" := by decide
example : (Body.adminStatus true).toJson.map JVal.render =
    some "{\"ServiceName\":\"…\",\"Version\":\"…\",\"Status\":\"SHUTTING_DOWN\",\"Time\":\"…\"}" := by decide

/-- The route patterns are pairwise disjoint and exhaustive by construction: `classifyPath` is a function, so
the handler chosen does not depend on the iteration order of the Go map of compiled patterns.  What is checked
here (by evaluation) is only that the literal routes classify as themselves. -/
theorem literal_routes :
    classifyPath "/api/v1/scenario" = .scenario ∧ classifyPath "/api/v1/solutions" = .solutions ∧
    classifyPath "/api/v1/model" = .model ∧ classifyPath "/api/v1/model/actions/active" = .active ∧
    classifyPath "/api/v1/model/actions/applicable" = .applicable ∧ classifyPath "/" = .root := by decide

/-! ## Acceptance: a writing request is answered 200 EXACTLY when …

"Malformed or semantically wrong input is a client error rather than silently accepted": for each of the five writing
endpoints, the status is 200 if and only if the listed conditions hold — so everything else is refused (with a 4xx and
no state change, by `non_200_is_4xx_and_changes_nothing`).  The statements are about `step`, not about the classifiers.

ACCEPTED BY THE SPEC (transcribed from the code), NOT REQUIRED BY THE PROPERTY — each of these is answered 200 because
the Go code answers 200, and the conditions below say so honestly:
  * PUT /model/actions/active: a textual or boolean FIRST column when the table has one column only
    (`!isNumber && colSize > 1`); headings that name no action type and first cells that name no planning unit of the
    model (ignored, with a log line); a first cell such as `17.9` (truncated to planning unit 17 by
    `planningunit.Id(float64)`), negative / NaN / huge first cells (match nothing); `-0` as a flag;
  * POST /solutions: row 0 of the table is never type- or pattern-checked (`rowIndex > 0`); a table WITHOUT an
    "As-Is" row is not verified against the scenario at all; `Actions` cells need only match `^[0-9A-Fa-f:]*$`
    (an undecodable encoding surfaces later, at GET /solutions/<label>, as a 200 with as-is actions);
  * PUT /model/subcatchment/<id>: the request's CONTENT TYPE IS NOT CHECKED (any value, or none, is accepted);
  * PATCH /model: any attribute names and JSON values besides `Encoding`; an empty list;
  * status codes (sic): wrong content type on POST /scenario = 405, POST /solutions without a scenario = 405.
-/

/-- PUT /api/v1/model/actions/active is answered 200 iff a model is loaded, the content type is `text/csv`, the body
parsed as CSV and `classifyTable` accepts the table (see `table_accepted_iff_guards` for what that means). -/
theorem put_active_accepted_iff (W : World) (s : State) (r : Request)
    (hp : classifyPath r.path = .active) (hm : r.method = .put) :
    (step Quirks.spec W s r).1.status = 200 ↔
      s.snap.isSome = true ∧ s.live.isSome = true ∧ r.ctype = csvMime ∧
      ∃ c types rows, r.facts = .csv c ∧ classifyTable c = .ok types rows := by
  rw [step_active_put _ _ _ _ hp hm]; exact putActive_200_iff _ W s r

/-- PUT /api/v1/model/subcatchment/<id> is answered 200 iff a model is loaded, `<id>` is an integer (`Atoi`) naming a
planning unit of the served model, the body parsed as a JSON attribute list, every entry names one of the four action
types with the value "Active" or "Inactive" (`subSyntaxOk`) and every named action exists at that planning unit
(`subSupported`).  NOTE: `r.ctype` does not occur — the content type is not checked, as in the Go code. -/
theorem put_subcatchment_accepted_iff (W : World) (s : State) (r : Request) (id : String)
    (hp : classifyPath r.path = .sub id) (hm : r.method = .put) :
    (step Quirks.spec W s r).1.status = 200 ↔
      ∃ sn m pu entries, s.snap = some sn ∧ s.live = some m ∧ atoi? id = some pu ∧ sn.u.pus.contains pu = true ∧
        r.facts = .sub (some entries) ∧ subSyntaxOk entries = true ∧ subSupported m.u pu entries = true := by
  rw [step_sub_put _ _ _ _ id hp hm]; exact putSub_200_iff W s r id

/-- PATCH /api/v1/model is answered 200 iff a model is loaded, the content type is `application/json`, the body parsed
as a JSON attribute list and EVERY `Encoding` entry is a string that decodes for the model's action count
(`decodeEntries … = some sets`). -/
theorem patch_model_accepted_iff (W : World) (s : State) (r : Request)
    (hp : classifyPath r.path = .model) (hm : r.method = .patch) :
    (step Quirks.spec W s r).1.status = 200 ↔
      ∃ m entries sets, s.snap.isSome = true ∧ s.live = some m ∧ r.ctype = jsonMime ∧
        r.facts = .patch (some entries) ∧ decodeEntries m.u.acts.length entries = some sets := by
  rw [step_model_patch _ _ _ _ hp hm]; exact patchModel_200_iff W s r

/-- POST /api/v1/solutions is answered 200 iff a scenario is loaded, the content type is `text/csv`, the body parsed
as CSV and `classifySols` accepts the table against the model's as-is decision variables (≥ 2 columns, headings
`Solution` … `Actions`, `Summary`, typed cells from row 1 on, every "As-Is" row equal to the model's as-is values). -/
theorem post_solutions_accepted_iff (W : World) (s : State) (r : Request)
    (hp : classifyPath r.path = .solutions) (hm : r.method = .post) :
    (step Quirks.spec W s r).1.status = 200 ↔
      ∃ m c t, s.scenText.isSome = true ∧ r.ctype = csvMime ∧ s.live = some m ∧ r.facts = .csv c ∧
        classifySols m.u.asIs c = .ok t := by
  rw [step_solutions_post _ _ _ _ hp hm]; exact postSolutions_200_iff W s r

/-- POST /api/v1/scenario is answered 200 iff the content type is `application/toml` and the body is a scenario the
engine can load (TOML decodes, the model type is the catchment model, its parameters and data set load). -/
theorem post_scenario_accepted_iff (W : World) (s : State) (r : Request)
    (hp : classifyPath r.path = .scenario) (hm : r.method = .post) :
    (step Quirks.spec W s r).1.status = 200 ↔ r.ctype = tomlMime ∧ ∃ name u, r.facts = .scen (.ok name u) := by
  rw [step_scenario_post _ _ _ _ hp hm]; exact postScenario_200_iff W s r

/-! ## CSV bodies: what `classifyTable` accepts -/

/-- A table PUT is accepted only if its first heading is `SubCatchment` and every other cell is the number 0 or 1
(and, when there is more than one column, every first cell is a number).  "Well-formed" here means exactly that and
no more — see the block "accepted by the spec, not required by the property" above for what still gets through. -/
theorem table_accepted_only_if_wellformed (header : List String) (rows : List (List Cell))
    (types : List String) (rs : List (Option Nat × List Bool))
    (h : classifyTable (.table header rows) = .ok types rs) :
    header.head? = some "SubCatchment" ∧ (∀ row ∈ rows, ∀ c ∈ row.drop 1, isFlagCell c = true) ∧
    (header.length ≥ 2 → ∀ row ∈ rows, firstIsNum row = true) := by
  simp only [classifyTable] at h
  split at h
  · cases h
  · rename_i h1
    split at h
    · cases h
    · rename_i h2
      split at h
      · cases h
      · rename_i h3
        have a2 : (rows.all fun row => (row.drop 1).all isFlagCell) = true := by
          cases hx : (rows.all fun row => (row.drop 1).all isFlagCell)
          · rw [hx] at h2; simp at h2
          · rfl
        refine ⟨Decidable.of_not_not h1, ?_, ?_⟩
        · intro row hrow c hc
          exact List.all_eq_true.mp (List.all_eq_true.mp a2 row hrow) c hc
        · intro hl row hrow
          have a3 : rows.all firstIsNum = true := by
            cases hx : rows.all firstIsNum
            · rw [hx] at h3; simp [hl] at h3
            · rfl
          exact List.all_eq_true.mp a3 row hrow

/-- … and exactly then: the spec's classifier IS the three guards of `deriveSolutionTable` (first heading, cell type
switch, first-column test), and what it hands on is the headings after the first and `rowOf` of every row. -/
theorem table_accepted_iff_guards (header : List String) (rows : List (List Cell))
    (types : List String) (rs : List (Option Nat × List Bool)) :
    classifyTable (.table header rows) = .ok types rs ↔
      header[0]? = some "SubCatchment" ∧ cellGuard rows = true ∧ firstColumnGuard header rows = true ∧
      types = header.drop 1 ∧ rs = rows.map rowOf := by
  rw [classifyTable_guards]
  by_cases h1 : header[0]? = some "SubCatchment"
  · rcases Bool.eq_false_or_eq_true (cellGuard rows) with h2 | h2
    · rcases Bool.eq_false_or_eq_true (firstColumnGuard header rows) with h3 | h3
      · simp only [h1, h2, h3, ne_eq, not_true_eq_false, ↓reduceIte, Bool.true_eq_false, TableBody.ok.injEq, true_and]
        constructor
        · rintro ⟨a, b⟩; exact ⟨a.symm, b.symm⟩
        · rintro ⟨a, b⟩; exact ⟨a.symm, b.symm⟩
      · simp [h1, h2, h3]
    · simp [h1, h2]
  · simp [h1]

/-! ## Never panics: the Go-shaped transcription, one theorem per guard

Each theorem says: the guard the Go code evaluates first (or, where the code has no guard, the stated fact about the
engine's state) makes the partial operation that follows answer `.ok`.  Sites are named as in
`Crem/Model/EngineGo.lean`. -/

/-- v1activeActionslHandler.go, `deriveSolutionTable`'s type switch over columns 1.. (`cellGuard`) protects
`CellFloat64(colIndex,rowIndex).(float64)` in `deriveSuppliedActionState`. -/
theorem cell_guard_protects_cellFloat64 {row : List Cell} {col : Nat} {c : Cell} (hc : row[col]? = some c)
    (hflag : isFlagCell c = true) : deriveSuppliedActionState row col = .ok (flagOf c) :=
  Crem.EngineGo.cell_guard_protects_cellFloat64 hc hflag

/-- `deriveSolutionTable`'s first-column test (`firstColumnGuard`: a number whenever there is more than one column)
and the loop bound `colIndex < colSize = len(Header())` protect `CellFloat64(0,rowIndex).(float64)` and
`Header()[colIndex]`, evaluated once per model action in `processTableCell`. -/
theorem first_column_guard_protects_cellFloat64 {header : List String} {row : List Cell} {col : Nat} {bits : Nat}
    {str ty : String} (h0 : row[0]? = some (.num bits str)) (hty : header[col]? = some ty) (state : Bool)
    (acts : List (Nat × String)) (set : ActiveSet) :
    forActions header row col state acts set =
      .ok (List.zipWith (fun (a : Nat × String) x => if floatToId bits = some a.1 ∧ a.2 = ty then state else x) acts set) :=
  Crem.EngineGo.first_column_guard_protects_cellFloat64 h0 hty state acts set

/-- … and for a model WITHOUT actions (or a one-column table) nothing is evaluated, whatever the cells are: this is
why the code may accept a textual first column there. -/
theorem no_action_no_cell_read (header : List String) (row : List Cell) (col : Nat) (state : Bool) (set : ActiveSet) :
    forActions header row col state [] set = .ok [] :=
  forActions_nil header row col state set

/-- The three guards of `deriveSolutionTable` together: `processRequestTable` runs to its end and computes the spec's
`applyTable`. -/
theorem put_active_guards_protect_table_loop (u : Universe) (header : List String) (rows : List (List Cell)) (set : ActiveSet)
    (hrect : csvRect (.table header rows) = true)
    (hcells : cellGuard rows = true) (hfirst : firstColumnGuard header rows = true)
    (hlen : set.length = u.acts.length) :
    processRequestTable u header rows set = .ok (applyTable u (header.drop 1) (rows.map rowOf) set) :=
  processRequestTable_eq u header rows set (csvRect_iff.mp hrect).1 (csvRect_iff.mp hrect).2 hcells hfirst hlen

/-- v1solutionSetHandler.go, `deriveSolutionsRequestTable`: the guard `headerLength < 2 ⇒ reject` protects
`Header()[headerLength-2]` (and `[0]`, `[headerLength-1]`). -/
theorem header_length_guard_protects_headings (header : List String) (h2 : 2 ≤ header.length) :
    solHeadingsOk header =
      .ok (decide (header.head? = some "Solution" ∧ header[header.length - 2]? = some "Actions" ∧
                   header[header.length - 1]? = some "Summary")) :=
  Crem.EngineGo.header_length_guard_protects_headings header h2

/-- `verifySolutionSummaryMatchesScenario`: the guard `colIndex >= colSize ⇒ mismatch` protects `Header()[colIndex]`
(and `Cell(colIndex,rowIndex)`). -/
theorem as_is_column_guard_protects_header_index (asIs : List (String × Nat)) (header : List String) (row : List Cell)
    (hrect : row.length = header.length) (col : Nat) (hlt : col < header.length) :
    ∃ b, asIsCellMatches asIs header row col = .ok b :=
  ⟨_, Crem.EngineGo.as_is_column_guard_protects_header_index asIs header row hrect col hlt⟩

/-- `verifySolutionSummaryMatchesScenario`: the `NameMappedVariables` look-up (`isModelVariable`) protects
`asIsModel.DecisionVariable(name)`, which panics for an unknown name. -/
theorem as_is_variable_guard_protects_decisionVariable (asIs : List (String × Nat)) (name : String) (tableValue : Nat)
    (h : asIs.any (fun v => decide (v.1 = name)) = true) :
    ∃ b, asIsValueMatches asIs name tableValue = .ok b := by
  obtain ⟨v, _, hm⟩ := Crem.EngineGo.as_is_variable_guard_protects_decisionVariable asIs name tableValue h
  exact ⟨_, hm⟩

/-- Both guards: the whole verification of a rectangular table answers, with the spec's verdict. -/
theorem as_is_guards_protect_verification (asIs : List (String × Nat)) (header : List String) (rows : List (List Cell))
    (hrect : csvRect (.table header rows) = true) :
    verifySummary asIs header rows = .ok (isFine (checkAsIs asIs header rows)) :=
  verifySummary_eq asIs header rows (csvRect_iff.mp hrect).1 (csvRect_iff.mp hrect).2

/-- MuxSupport.go, `encodingPresentInSolutionSummaryParetoFront` has NO guard of its own for `colSize - 2` (a `uint`):
what protects it is that the loaded table was accepted by `deriveSolutionsRequestTable` (≥ 2 columns) … -/
theorem accepted_table_protects_encoding_index (t : SolTable) (enc : String) (h : tableWf t = true) :
    encodingPresentInParetoFront t enc = .ok (paretoHas t enc) :=
  Crem.EngineGo.accepted_table_protects_encoding_index t enc h

/-- … which holds of every table `classifySols` accepts from a table as the CSV reader builds it … -/
theorem accepted_table_has_two_columns {asIs : List (String × Nat)} {c : Csv} {t : SolTable} (hrect : csvRect c = true)
    (h : classifySols asIs c = .ok t) : tableWf t = true :=
  classifySols_ok_wf hrect h

/-- … hence of the loaded table in every state the engine reaches. -/
theorem loaded_table_has_two_columns (W : World) (rs : List Request) (hrs : ∀ r ∈ rs, reqWf r = true) :
    TableWf (exec Quirks.spec W State.init rs) :=
  tableWf_exec W State.init rs tableWf_init hrs

/-- v1solutionHandler.go: the guard `solutionSetTableContainsEntry(label)` protects the dereference of what
`getSolutionDetail` returns (nil when no row carries the label) and, with the table's shape, its `colSize-2` /
`colSize-1` cell reads. -/
theorem containment_guard_protects_detail (t : SolTable) (label : String) (hwf : tableWf t = true)
    (hfound : containsEntry label t.rows = .ok true) : ∃ d, solutionDetailOf t label = .ok d :=
  Crem.EngineGo.containment_guard_protects_detail t label hwf hfound

/-- v1modelHandler.go: the pre-validation loop protects the UNCHECKED `entry.Value.(string)` of the second loop, and
makes the second loop's 400 (`updateModelWithEncoding` failing after `JoiningAttributes`) unreachable: the loop ends
`fine`.  Pre-validation and application use the same decoder on a model with the same action list. -/
theorem prevalidation_protects_type_assertion (q : Quirks) (W : World) (tbl : Option SolTable)
    (hwf : ∀ t, tbl = some t → tableWf t = true) (m joined : Mdl) (hu : joined.u = m.u) (snap : Option Mdl)
    (es : List PatchEntry) (hpre : prevalidate (some m) es = .ok true) :
    ∃ l, applyEncodings q W tbl joined snap false es = .ok l ∧ l.fine = true :=
  Crem.EngineGo.prevalidation_protects_type_assertion q W tbl hwf m joined hu snap es hpre

/-- The second-loop 400 of PATCH /model is dead code: once pre-validation has passed, the rest of the handler answers
200 (no panic, no 400), whatever the variant. -/
theorem patch_second_loop_400_unreachable (q : Quirks) (W : World) (s : State) (m : Mdl) (entries : List PatchEntry)
    (hlive : s.live = some m) (hwf : TableWf s) (hpre : prevalidate s.live entries = .ok true) :
    ∃ s', patchApply q W s entries = .ok (ok .success, s') :=
  patchApply_ok q W s m entries hlive hwf hpre

/-- `m.Attribute(scenarioNameKey).(string)` — in every GET of a model resource, GET /scenario, GET and POST /solutions,
PUT subcatchment — is NOT protected by the guard in front of it (`m.modelSolution == nil`, resp.
`HasAttribute(scenarioTextKey)`): it needs the INVARIANT that snapshot, scenario text and scenario name exist together. -/
theorem scenario_name_present (W : World) (s : State) (h : Inv W s)
    (hs : s.snap.isSome = true ∨ s.scenText.isSome = true) (site : String) :
    ∃ n, attrString s.scenName site = .ok n := by
  have hn : s.scenName.isSome = true := by
    rcases hs with hs | hs
    · rw [h.name_iff, ← h.snap_eq]; exact hs
    · rw [h.name_iff, ← h.text_iff]; exact hs
  obtain ⟨n, _, hok⟩ := attrString_isSome hn site
  exact ⟨n, hok⟩

/-- `m.model.…` after the guard `m.modelSolution == nil` (PATCH, PUT active, PUT subcatchment) or
`HasAttribute(scenarioTextKey)` (POST /solutions): needs the invariant too. -/
theorem model_pointer_present (W : World) (s : State) (h : Inv W s)
    (hs : s.snap.isSome = true ∨ s.scenText.isSome = true) (site : String) :
    ∃ m, deref s.live site = .ok m := by
  have hl : s.live.isSome = true := by
    rcases hs with hs | hs
    · rw [← h.snap_eq]; exact hs
    · rw [← h.text_iff]; exact hs
  cases hlive : s.live with
  | none => simp [hlive] at hl
  | some m => exact ⟨m, rfl⟩

/-! ## Never panics: the multiplexer -/

/-- What the handlers need of the state beyond their own guards, whatever the variant `q`: `GoInv s` (each field is
documented with the handlers that use it; handlers without a partial operation need nothing).  The Go-shaped
transcription then answers — no panic — and answers what the total spec says. -/
theorem stepGo_eq_step_of_facts (q : Quirks) (W : World) (s : State) (r : Request) (h : GoInv s) (hr : reqWf r = true) :
    stepGo q W s r = .ok (step q W s r) :=
  stepGo_eq_of_goInv q W s r h hr

/-- In every state satisfying the invariant of the demanded behaviour (`Inv`, preserved by every request:
`inv_step`) whose loaded table has the accepted shape (`TableWf`, preserved too: `loaded_table_has_two_columns`), on
every request whose CSV facts are a table as `deriveTableFromRecords` builds it (`reqWf`: non-empty header, every row
as long as the header), the Go-shaped handlers do not panic and compute exactly the spec's response and next state. -/
theorem stepGo_eq_step (W : World) (s : State) (r : Request) (h : Inv W s) (ht : TableWf s) (hr : reqWf r = true) :
    stepGo Quirks.spec W s r = .ok (step Quirks.spec W s r) :=
  stepGo_eq_of_goInv Quirks.spec W s r (goInv_of_inv h ht) hr

/-- NEVER PANICS.  From the empty engine, after ANY sequence of requests (any methods, paths, content types, body
facts; CSV facts rectangular), every request is answered: the whole run of the Go-shaped transcription is `.ok` with
the spec's responses, and whatever request comes next is answered too. -/
theorem never_panics (W : World) (rs : List Request) (hrs : ∀ r ∈ rs, reqWf r = true) :
    runGo Quirks.spec W State.init rs = .ok (run Quirks.spec W State.init rs) ∧
    ∀ r, reqWf r = true → ∀ p, stepGo Quirks.spec W (exec Quirks.spec W State.init rs) r ≠ .error p := by
  refine ⟨runGo_eq_run W rs State.init (inv_init W) tableWf_init hrs, ?_⟩
  intro r hr p
  rw [stepGo_eq_step W _ r (inv_exec W State.init rs (inv_init W)) (tableWf_exec W State.init rs tableWf_init hrs) hr]
  exact fun h => by cases h

/-! ## Each guard is NEEDED: the code behind it panics on an input the guard rejects (tests, labelled as such)

The left-hand sides are the named continuations of `Crem/Model/EngineGo.lean` — the code that runs AFTER the guard —
applied to an input the guard would have refused.  Were a guard removed from the Go-shaped handler, these inputs would
reach the continuation and `stepGo_eq_step` would be false. -/

def uGully : Universe := { key := "k", acts := [(1, "GullyRestoration")], pus := [1], asIs := [("SedimentProduced", 0)] }
def mGully : Mdl := { u := uGully, id := "s", active := [false], attrs := [] }

/-- `cellGuard` removed: a text cell in an action column → `CellFloat64(col,row).(float64)` panics -/
example : processRequestTable uGully ["SubCatchment", "GullyRestoration"] [[.num bitsOne "1", .text "yes"]] [false] =
    .error (.typeAssertion "deriveSuppliedActionState: CellFloat64(colIndex,rowIndex).(float64)") := by decide
/-- `firstColumnGuard` removed: a textual first cell in a two-column table → `CellFloat64(0,row).(float64)` panics … -/
example : processRequestTable uGully ["SubCatchment", "GullyRestoration"] [[.text "one", .num bitsOne "1"]] [false] =
    .error (.typeAssertion "processTableCell: CellFloat64(0,rowIndex).(float64)") := by decide
/-- … but only if the model has an action (the read sits in the action loop) -/
example : processRequestTable { uGully with acts := [] } ["SubCatchment", "GullyRestoration"] [[.text "one", .num bitsOne "1"]] [] =
    .ok [] := by decide
/-- a header without a field (impossible for `encoding/csv`; excluded by `reqWf`) → `Header()[0]` panics -/
example : headingIsSubCatchment [] = .error (.indexOutOfRange "deriveSolutionTable: Header()[0]") := by decide
/-- `headerLength < 2` removed: a one-column solutions table → `Header()[headerLength-2]` panics -/
example : solHeadingsOk ["Solution"] =
    .error (.indexOutOfRange "deriveSolutionsRequestTable: Header()[headerLength-2]") := by decide
/-- `colIndex >= colSize` removed: more decision variables than columns → `Header()[colIndex]` panics -/
example : asIsCellMatches uGully.asIs ["Solution", "Actions"] [.text "As-Is", .text "0"] 2 =
    .error (.indexOutOfRange "verifySolutionSummaryMatchesScenario: Header()[colIndex]") := by decide
/-- `isModelVariable` removed: a heading that is no decision variable → `DecisionVariable(name)` panics -/
example : asIsValueMatches uGully.asIs "NoSuchVariable" 0 =
    .error (.explicitPanic "verifySolutionSummaryMatchesScenario: asIsModel.DecisionVariable(name)") := by decide
/-- a one-column table in the state (what `headerLength < 2` keeps out) → `colSize - 2` wraps, `CellString` panics -/
example : encodingPresentInParetoFront { colSize := 1, rows := [["As-Is"], ["S1"]] } "0" =
    .error (.indexOutOfRange "encodingPresentInSolutionSummaryParetoFront: CellString(colSize-2,row)") := by decide
/-- `solutionSetTableContainsEntry` removed: an unknown label → `getSolutionDetail` returns nil, `detail.encoding` panics -/
example : solutionDetailOf { colSize := 3, rows := [["As-Is", "0", "x"]] } "S9" =
    .error (.nilDereference "v1GetSolutionHandler: detail.encoding") := by decide
/-- pre-validation removed: a non-string `Encoding` → `entry.Value.(string)` panics … -/
example : applyEncodings Quirks.spec ⟨fun _ _ => true⟩ none mGully none false [⟨"Encoding", "7", .nonString⟩] =
    .error (.typeAssertion "v1PatchModelHandler: entry.Value.(string)") := by decide
/-- … and an undecodable one reaches the second-loop 400 (the branch exists; it is dead only behind pre-validation) -/
example : (applyEncodings Quirks.spec ⟨fun _ _ => true⟩ none mGully none false [⟨"Encoding", "\"zz\"", .text "zz"⟩]).map (·.fine) =
    .ok false := by decide
/-- the invariant is needed: a snapshot without a scenario name (not reachable) → `Attribute(scenarioNameKey).(string)` panics -/
example : getModelGo { snap := some mGully } =
    .error (.typeAssertion "v1GetModelHandler: m.Attribute(scenarioNameKey).(string)") := by decide
/-- … and a snapshot without a live model (not reachable) → `m.model.JoiningAttributes` panics -/
example : patchApply Quirks.spec ⟨fun _ _ => true⟩ { snap := some mGully, scenName := some "s" } [] =
    .error (.nilDereference "v1PatchModelHandler: m.model.JoiningAttributes") := by decide

/-! ## Non-vacuity and sanity examples (tests, labelled as such) -/

example : (step Quirks.spec ⟨fun _ _ => true⟩ State.init (getReq "/api/v1/model")).1 = err 404 := by decide
example : (step Quirks.spec ⟨fun _ _ => true⟩ State.init (getReq "/nowhere")).1 = err 404 := by decide
example : (step Quirks.spec ⟨fun _ _ => true⟩ State.init { getReq "/api/v1/model" with method := .delete }).1 = err 405 := by
  decide
/-- a 30-digit subcatchment identifier is a client error, not a panic -/
example : classifyPath "/api/v1/model/subcatchment/123456789012345678901234567890" =
    .sub "123456789012345678901234567890" ∧ atoi? "123456789012345678901234567890" = none := by decide
/-- an empty CSV body, a header-only one, a one-column one, a textual first column: all classified -/
example : classifyTable .error = .csvError := rfl
example : classifyTable (.table ["SubCatchment", "GullyRestoration"] []) = .ok ["GullyRestoration"] [] := by decide
example : classifyTable (.table ["SubCatchment"] [[.text "abc"]]) = .ok [] [(none, [])] := by decide
example : classifyTable (.table ["SubCatchment", "GullyRestoration"] [[.text "abc", .num bitsOne "1"]]) = .badFirstColumn := by
  decide
example : classifySols [] (.table ["Solution"] [[.text "As-Is"]]) = .oneColumn := by decide
example : (JVal.obj [("Type", .str "ERROR"), ("Message", .str "a \"quoted\" word")]).render =
    "{\"Type\":\"ERROR\",\"Message\":\"a \\\"quoted\\\" word\"}" := by decide

/-- structured documents: an attribute value is a VALUE, never spliced text; control characters are escaped -/
example : (attrsDocOf (fun t => .str t) [⟨"a\n", "}{"⟩]).text = "[{\"Name\":\"a\\u000a\",\"Value\":\"}{\"}]" := by decide
example : (JDoc.num (-12) 3).text = "-12e3" := by decide

/-- a state with a scenario loaded (reached by one accepted POST /scenario) -/
def sLoaded : State :=
  (step Quirks.spec ⟨fun _ _ => true⟩ State.init
    { method := .post, path := "/api/v1/scenario", ctype := tomlMime, text := [], facts := .scen (.ok "s" uGully) }).2

/-- the acceptance theorems are not vacuous: each endpoint has an accepted request … -/
example : (step Quirks.spec ⟨fun _ _ => true⟩ State.init
    { method := .post, path := "/api/v1/scenario", ctype := tomlMime, text := [], facts := .scen (.ok "s" uGully) }).1.status = 200 := by
  decide
example : (step Quirks.spec ⟨fun _ _ => true⟩ sLoaded
    { method := .put, path := "/api/v1/model/actions/active", ctype := csvMime, text := [],
      facts := .csv (.table ["SubCatchment", "GullyRestoration"] [[.num bitsOne "1", .num bitsOne "1"]]) }).1.status = 200 := by
  decide
example : (step Quirks.spec ⟨fun _ _ => true⟩ sLoaded
    { method := .put, path := "/api/v1/model/subcatchment/1", ctype := "anything/at-all", text := [],
      facts := .sub (some [⟨"GullyRestoration", .active⟩]) }).1.status = 200 := by decide
example : (step Quirks.spec ⟨fun _ _ => true⟩ sLoaded
    { method := .patch, path := "/api/v1/model", ctype := jsonMime, text := [],
      facts := .patch (some [⟨"Encoding", "\"1\"", .text "1"⟩]) }).1.status = 200 := by decide
example : (step Quirks.spec ⟨fun _ _ => true⟩ sLoaded
    { method := .post, path := "/api/v1/solutions", ctype := csvMime, text := [],
      facts := .csv (.table ["Solution", "SedimentProduced", "Actions", "Summary"]
        [[.text "As-Is", .num 0 "0", .text "0", .text "as is"]]) }).1.status = 200 := by decide
/-- … and a refused one -/
example : (step Quirks.spec ⟨fun _ _ => true⟩ sLoaded
    { method := .put, path := "/api/v1/model/actions/active", ctype := csvMime, text := [],
      facts := .csv (.table ["SubCatchment", "GullyRestoration"] [[.num bitsOne "1", .text "yes"]]) }).1 = err 400 := by
  decide
example : (step Quirks.spec ⟨fun _ _ => true⟩ sLoaded
    { method := .patch, path := "/api/v1/model", ctype := jsonMime, text := [],
      facts := .patch (some [⟨"Encoding", "7", .nonString⟩]) }).1 = err 400 := by decide
/-- the Go-shaped transcription on the same requests: answered, identically (`stepGo_eq_step` is not vacuous) -/
example : stepGo Quirks.spec ⟨fun _ _ => true⟩ sLoaded
    { method := .put, path := "/api/v1/model/actions/active", ctype := csvMime, text := [],
      facts := .csv (.table ["SubCatchment", "GullyRestoration"] [[.num bitsOne "1", .text "yes"]]) } =
    .ok (err 400, sLoaded) := by decide

end Crem.Engine
