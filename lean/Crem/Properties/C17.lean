import Crem.Proofs.Dominance
/-!
# C17 — dominance is the strict Pareto order

Property theorems about the model of `Float64Vector.Dominates` and its
companions (`Crem/Model/Dominance.lean`).  All lengths, all values.
Every `theorem` in this file is audited by `./check C17` (`#print axioms`).
-/
namespace Crem.Dominance

/-- `Dominates` returns true exactly when the first vector is no greater than the
second in every objective and strictly smaller in at least one. -/
theorem dominates_iff (x y : List Int) (hl : x.length = y.length) :
    dominates x y = true ↔
      (∀ i (hx : i < x.length) (hy : i < y.length), x[i] ≤ y[i]) ∧
      (∃ i, ∃ (hx : i < x.length) (hy : i < y.length), x[i] < y[i]) := by
  rw [dominates_eq_true_iff, anyGreater_eq_false_iff x y hl, anyLess_eq_true_iff x y hl]

/-- irreflexive (any length) -/
theorem dominates_irrefl (x : List Int) : dominates x x = false := dominates_irrefl' x

/-- transitive -/
theorem dominates_trans (x y z : List Int) (hxy : x.length = y.length) (hyz : y.length = z.length)
    (h1 : dominates x y = true) (h2 : dominates y z = true) : dominates x z = true :=
  dominates_trans' x y z hxy hyz h1 h2

/-- asymmetric -/
theorem dominates_asymm (x y : List Int) (hl : x.length = y.length)
    (h : dominates x y = true) : dominates y x = false := by
  rcases Bool.eq_false_or_eq_true (dominates y x) with h' | h'
  · have := dominates_trans x y x hl hl.symm h h'
    rw [dominates_irrefl] at this
    exact absurd this (by simp)
  · exact h'

/-- 'is dominated by' is the converse -/
theorem isDominatedBy_iff (x y : List Int) : isDominatedBy x y = dominates y x := rfl

/-- 'no dominance present' is symmetric -/
theorem noDominancePresent_symm (x y : List Int) :
    noDominancePresent x y = noDominancePresent y x := by
  simp [noDominancePresent, dominancePresent, Bool.or_comm]

/-- and true for equal vectors -/
theorem noDominancePresent_self (x : List Int) : noDominancePresent x x = true := by
  simp [noDominancePresent, dominancePresent, dominates_irrefl]

/-- 'no dominance present' is the negation of domination either way -/
theorem noDominancePresent_iff (x y : List Int) :
    noDominancePresent x y = true ↔ dominates x y = false ∧ dominates y x = false := by
  simp [noDominancePresent, dominancePresent]

/-- `IsComparable` (between `Float64Vector`s) holds exactly for vectors of the same length — the
hypothesis `hl` of the theorems above -/
theorem isComparable_iff (x y : List Int) : isComparable x y = true ↔ x.length = y.length := by
  simp [isComparable]

/-- without comparability the model's zipped walk ignores the surplus components (the Go code indexes the
argument with the receiver's range instead and panics when the argument is shorter: outside the property,
which speaks of vectors of one length; the correspondence suite compares unequal lengths on
`IsComparable` only) -/
theorem dominates_ignores_surplus (x y s : List Int) (hl : x.length = y.length) :
    dominates x (y ++ s) = dominates x y ∧ dominates (x ++ s) y = dominates x y := by
  simp only [dominates, (anyGreater_append x y s hl).1, (anyGreater_append x y s hl).2,
    (anyLess_append x y s hl).1, (anyLess_append x y s hl).2, and_self]

/-! Non-vacuity and sanity examples (tests, labelled as such). -/
example : dominates [1, 2, 3] [1, 3, 3] = true := by decide
example : dominates [1, 2, 3] [1, 2, 3] = false := by decide
example : dominates [0, 5] [1, 4] = false ∧ dominates [1, 4] [0, 5] = false := by decide
example : noDominancePresent [0, 5] [1, 4] = true := by decide
example : isComparable [1, 2] [1, 2, 3] = false ∧ isComparable [] [] = true := by decide
example : dominates [1, 2] [1, 3, 0] = true := by decide

end Crem.Dominance
