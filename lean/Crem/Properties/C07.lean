import Crem.Proofs.Anneal
import Mathlib.Tactic.NormNum
/-!
# C07 — annealing loop contract: exact budget, ordered events, cooling, teardown

Property theorems about the model of `SimpleAnnealer.Anneal()` (`Crem/Model/Anneal.lean`;
`ElapsedTimeTrackingAnnealer.Anneal()` delegates to it).  `anneal N cur0 T0 a panicAt` is a run
with budget `N` entered with `currentIteration = cur0`; every run crem itself starts has
`cur0 = 0` (fresh clone), which is what the theorems are stated for (`rerun_single_iteration`
records what the code does otherwise).  All `N`, all starting temperatures and cooling factors
(in any monoid for the closed form, any ordered semiring for monotonicity), any number of
observers, a panic injected at any iteration.

Every `theorem` in this file is audited by `./check C07` (`#print axioms`).
-/
namespace Crem.Anneal

section shape
variable {α : Type} [Mul α]

/-- Shape of a run: the explorer is initialised, one start event, then for `k = 1..N` a
started-iteration event carrying `k` (and the temperature before the iteration), one
`TryRandomChange`, one `CoolDown`, a finished-iteration event carrying `k` (and the cooled
temperature), then one finish event carrying `N`, then the explorer is torn down; the call returns.
`iterations T0 a N` is by definition the concatenation over `k = 1..N` of
`[startedIteration k T_{k-1}, tryRandomChange, coolDown, finishedIteration k T_k]`. -/
theorem trace_shape (N : Nat) (T0 a : α) :
    (anneal N 0 T0 a none).events =
      [.explorerInitialise, .startedAnnealing T0] ++ iterations T0 a N ++
        [.finishedAnnealing N (temp T0 a N), .explorerTearDown] ∧
    (anneal N 0 T0 a none).outcome = .returned ∧
    (anneal N 0 T0 a none).currentIteration = N ∧
    (anneal N 0 T0 a none).temperature = temp T0 a N := by
  rw [anneal_complete N T0 a none (by simp) (by simp [fires])]
  simp

/-- ... and what `iterations` is, one step at a time (so the shape can be read without
unfolding `flatMap`). -/
theorem iterations_unfold (T0 a : α) (n : Nat) :
    iterations T0 a 0 = [] ∧
    iterations T0 a (n + 1) = iterations T0 a n ++
      [.startedIteration (n + 1) (temp T0 a n), .tryRandomChange, .coolDown,
       .finishedIteration (n + 1) (temp T0 a (n + 1))] := by
  refine ⟨by simp [iterations], ?_⟩
  rw [iterations_succ]; rfl

/-- No iteration for a zero budget: start event, finish event, teardown — nothing else. -/
theorem zero_budget (T0 a : α) :
    (anneal 0 0 T0 a none).events =
      [.explorerInitialise, .startedAnnealing T0, .finishedAnnealing 0 T0, .explorerTearDown] ∧
    (anneal 0 0 T0 a none).outcome = .returned := by
  simp [anneal]

/-- Exactly `N` iterations: `N` calls of `TryRandomChange`, `N` started-iteration and `N`
finished-iteration events, one finish event. -/
theorem exact_budget (N : Nat) (T0 a : α) :
    (anneal N 0 T0 a none).events.countP Event.isTry = N ∧
    (anneal N 0 T0 a none).events.countP Event.isStartedIteration = N ∧
    (anneal N 0 T0 a none).events.countP Event.isFinishedIteration = N ∧
    (anneal N 0 T0 a none).events.countP Event.isFinishedAnnealing = 1 := by
  obtain ⟨h1, h2, h3, h4⟩ := countP_iterations T0 a N
  rw [(trace_shape N T0 a).1]
  simp [List.countP_append, List.countP_cons, h1, h2, h3, h4, Event.isTry, Event.isStartedIteration,
    Event.isFinishedIteration, Event.isFinishedAnnealing]

/-- The fuel that makes the loop's recursion structural is never exhausted (any entry counter,
any panic site). -/
theorem anneal_fuel_sufficient (N cur0 : Nat) (T0 a : α) (p : Option PanicSite) :
    (anneal N cur0 T0 a p).outcome ≠ .outOfFuel := by
  unfold anneal
  split
  · simp
  · split
    · simp
    · rename_i hinit hN
      -- decide which of the three loop lemmas applies
      by_cases hlt : cur0 < N
      · -- at least one iteration is within budget
        by_cases hf : ∃ k, 1 ≤ k ∧ k ≤ N - cur0 ∧ fires p k
        · obtain ⟨k, hk1, hk2, hk | hk⟩ := hf
          · subst hk
            rw [loop_panic_try N a k (k - 1) (N - cur0 + 1) 0 cur0 T0 (by omega) (by omega) (by omega)]
            simp
          · subst hk
            rw [loop_panic_cool N a k (k - 1) (N - cur0 + 1) 0 cur0 T0 (by omega) (by omega) (by omega)]
            simp
        · rw [loop_complete N a p (N - cur0 - 1) (N - cur0 + 1) 0 cur0 T0 (by omega) (by omega)
            (fun k hk1 hk2 hk => hf ⟨k, by omega, by omega, hk⟩)]
          simp
      · -- counter already at/beyond the budget: one iteration (or a panic in it)
        have hfuel : N - cur0 + 1 = 0 + 1 := by omega
        rw [hfuel]
        by_cases h1 : p = some (.tryRandomChange 1)
        · subst h1; simp [loop]
        · by_cases h2 : p = some (.coolDown 1)
          · subst h2; simp [loop]
          · have h3 : cur0 + 1 ≥ N := by omega
            simp [loop, h1, h2, h3]

/-- A panic in `TryRandomChange` of iteration `j` (`1 ≤ j ≤ N`): the complete iterations
`1..j-1`, the started-iteration event of `j`, the failing call, then the explorer is torn down
and the panic is re-raised; no finished-iteration event for `j`, no finish event. -/
theorem panic_trace (N j : Nat) (T0 a : α) (hj1 : 1 ≤ j) (hjN : j ≤ N) :
    (anneal N 0 T0 a (some (.tryRandomChange j))).events =
      [.explorerInitialise, .startedAnnealing T0] ++ iterations T0 a (j - 1) ++
        [.startedIteration j (temp T0 a (j - 1)), .tryRandomChange, .explorerTearDown] ∧
    (anneal N 0 T0 a (some (.tryRandomChange j))).outcome = .repanicked ∧
    (anneal N 0 T0 a (some (.tryRandomChange j))).events.countP Event.isFinishedAnnealing = 0 ∧
    (anneal N 0 T0 a (some (.tryRandomChange j))).events.countP Event.isFinishedIteration = j - 1 := by
  have hN : N ≠ 0 := by omega
  have hl := loop_panic_try N a j (j - 1) (N - 0 + 1) 0 0 T0 (by omega) (by omega) (by omega)
  have hj : 0 + (j - 1) + 1 = j := by omega
  obtain ⟨-, -, h3, h4⟩ := countP_iterations T0 a (j - 1)
  simp only [anneal, hN, if_false, hl, ← iterations_eq_from, hj]
  simp [List.countP_append, h3, h4, Event.isFinishedAnnealing, Event.isFinishedIteration]

/-- The same for a panic in `CoolDown` of iteration `j`. -/
theorem panic_trace_coolDown (N j : Nat) (T0 a : α) (hj1 : 1 ≤ j) (hjN : j ≤ N) :
    (anneal N 0 T0 a (some (.coolDown j))).events =
      [.explorerInitialise, .startedAnnealing T0] ++ iterations T0 a (j - 1) ++
        [.startedIteration j (temp T0 a (j - 1)), .tryRandomChange, .coolDown, .explorerTearDown] ∧
    (anneal N 0 T0 a (some (.coolDown j))).outcome = .repanicked ∧
    (anneal N 0 T0 a (some (.coolDown j))).events.countP Event.isFinishedAnnealing = 0 := by
  have hN : N ≠ 0 := by omega
  have hl := loop_panic_cool N a j (j - 1) (N - 0 + 1) 0 0 T0 (by omega) (by omega) (by omega)
  have hj : 0 + (j - 1) + 1 = j := by omega
  obtain ⟨-, -, -, h4⟩ := countP_iterations T0 a (j - 1)
  simp only [anneal, hN, if_false, hl, ← iterations_eq_from, hj]
  simp [List.countP_append, h4, Event.isFinishedAnnealing]

/-- A panic site beyond the budget (or "iteration 0") never fires: the run is the normal one. -/
theorem panic_beyond_budget (N j : Nat) (T0 a : α) (hj : j = 0 ∨ N < j) :
    anneal N 0 T0 a (some (.tryRandomChange j)) = anneal N 0 T0 a none ∧
    anneal N 0 T0 a (some (.coolDown j)) = anneal N 0 T0 a none := by
  rw [anneal_complete N T0 a none (by simp) (by simp [fires])]
  constructor
  · exact anneal_complete N T0 a _ (by simp) (by intro k h1 h2; simp [fires]; omega)
  · exact anneal_complete N T0 a _ (by simp) (by intro k h1 h2; simp [fires]; omega)

/-- Quirk recorded, not claimed as intended: if `Initialise()` of the explorer itself panics the
panic is re-raised *without* a teardown (the `defer TearDown()` is registered after it). -/
theorem panic_in_initialise (N cur0 : Nat) (T0 a : α) :
    (anneal N cur0 T0 a (some .initialise)).events = [.explorerInitialise] ∧
    (anneal N cur0 T0 a (some .initialise)).outcome = .repanicked := by
  simp [anneal]

/-- Quirk recorded: `Anneal()` does not reset `currentIteration`, so a second `Anneal()` on the
same annealer object (counter already at the budget `N > 0`) performs exactly one iteration,
numbered `cur0 + 1`. -/
theorem rerun_single_iteration (N cur0 : Nat) (T0 a : α) (hN : N ≠ 0) (h : N ≤ cur0) :
    (anneal N cur0 T0 a none).events =
      [.explorerInitialise, .startedAnnealing T0, .startedIteration (cur0 + 1) T0, .tryRandomChange,
       .coolDown, .finishedIteration (cur0 + 1) (T0 * a), .finishedAnnealing (cur0 + 1) (T0 * a),
       .explorerTearDown] := by
  have hfuel : N - cur0 + 1 = 0 + 1 := by omega
  simp only [anneal, hN, if_false, hfuel, reduceCtorEq, loop_overrun N a 0 0 cur0 T0 (by omega)]
  simp [iterationEvents]

end shape

section observers
variable {α : Type}

/-- Any number of observers: each of the `n` observers receives exactly the observable events of
the run, in order (events being immutable values in the model — see finding D21 for the Go
notifier, whose observers share the event's attribute array). -/
theorem every_observer_same_trace (n i : Nat) (hi : i < n) (evs : List (Event α)) :
    receivedBy i (deliveries n evs) = evs.filter Event.observable :=
  receivedBy_deliveries_aux n i hi _

/-- with no observer nothing is delivered -/
theorem no_observer_no_delivery (evs : List (Event α)) : deliveries 0 evs = [] := by
  simp [deliveries]

end observers

section temperature

/-- The temperature is multiplied by the cooling factor exactly once per iteration: after `k`
iterations it is `T0 * a^k` (any monoid). -/
theorem temperature_k {α : Type} [Monoid α] (T0 a : α) (k : Nat) : temp T0 a k = T0 * a ^ k :=
  temp_eq_mul_pow T0 a k

/-- ... as carried by the events of a run: the started-iteration event of iteration `k` carries
`T0 * a^(k-1)`, its finished-iteration event `T0 * a^k`, the finish event `T0 * a^N`. -/
theorem event_temperatures {α : Type} [Monoid α] (N : Nat) (T0 a : α) :
    ∀ e ∈ (anneal N 0 T0 a none).events,
      (∀ k T, e = .startedIteration k T → 1 ≤ k ∧ k ≤ N ∧ T = T0 * a ^ (k - 1)) ∧
      (∀ k T, e = .finishedIteration k T → 1 ≤ k ∧ k ≤ N ∧ T = T0 * a ^ k) ∧
      (∀ k T, e = .finishedAnnealing k T → k = N ∧ T = T0 * a ^ N) ∧
      (∀ T, e = .startedAnnealing T → T = T0) := by
  intro e he
  rw [(trace_shape N T0 a).1] at he
  simp only [List.mem_append, List.mem_cons, List.not_mem_nil, or_false] at he
  rcases he with ((rfl | rfl) | he) | rfl | rfl
  · simp
  · simp
  · obtain ⟨j, hj, hmem⟩ := mem_iterations he
    simp only [iterationEvents, List.mem_cons, List.not_mem_nil, or_false] at hmem
    rcases hmem with rfl | rfl | rfl | rfl
    · refine ⟨?_, by simp, by simp, by simp⟩
      intro k T h
      simp only [Event.startedIteration.injEq] at h
      obtain ⟨rfl, rfl⟩ := h
      exact ⟨by omega, by omega, by simpa using temp_eq_mul_pow T0 a j⟩
    · simp
    · simp
    · refine ⟨by simp, ?_, by simp, by simp⟩
      intro k T h
      simp only [Event.finishedIteration.injEq] at h
      obtain ⟨rfl, rfl⟩ := h
      exact ⟨by omega, by omega, temp_eq_mul_pow T0 a (j + 1)⟩
  · refine ⟨by simp, by simp, ?_, by simp⟩
    intro k T h
    simp only [Event.finishedAnnealing.injEq] at h
    obtain ⟨rfl, rfl⟩ := h
    exact ⟨rfl, temp_eq_mul_pow T0 a _⟩
  · simp

variable {α : Type} [Semiring α] [PartialOrder α] [IsOrderedRing α]

/-- The temperature never increases: for `0 ≤ T0` and `0 ≤ a ≤ 1`, one more iteration never
raises it. -/
theorem temperature_antitone (T0 a : α) (hT : 0 ≤ T0) (ha : 0 ≤ a) (ha1 : a ≤ 1) (k : Nat) :
    temp T0 a (k + 1) ≤ temp T0 a k :=
  temp_succ_le T0 a hT ha ha1 k

/-- ... along the whole event stream of a run: of any two events, the later never carries a
higher temperature than the earlier. -/
theorem trace_temperatures_antitone (N : Nat) (T0 a : α) (hT : 0 ≤ T0) (ha : 0 ≤ a) (ha1 : a ≤ 1) :
    ((anneal N 0 T0 a none).events.filterMap Event.temperature?).Pairwise (fun earlier later => later ≤ earlier) := by
  rw [(trace_shape N T0 a).1]
  simp only [List.filterMap_append, List.filterMap_cons, Event.temperature?, List.filterMap_nil,
    List.nil_append, List.cons_append]
  rw [List.pairwise_cons, List.pairwise_append]
  refine ⟨?_, pairwise_temps_iterations T0 a hT ha ha1 N, by simp, ?_⟩
  · intro x hx
    rw [List.mem_append] at hx
    rcases hx with hx | hx
    · obtain ⟨j, -, rfl⟩ := mem_temps_iterations T0 a N x hx
      exact temp_antitone T0 a hT ha ha1 (Nat.zero_le j)
    · simp only [List.mem_cons, List.not_mem_nil, or_false] at hx
      subst hx
      exact temp_antitone T0 a hT ha ha1 (Nat.zero_le N)
  · intro x hx y hy
    obtain ⟨j, hj, rfl⟩ := mem_temps_iterations T0 a N x hx
    simp only [List.mem_cons, List.not_mem_nil, or_false] at hy
    subst hy
    exact temp_antitone T0 a hT ha ha1 hj

end temperature

/-! Non-vacuity and sanity examples (tests, labelled as such). -/

example : (anneal 2 0 (8 : Nat) 3 none).events =
    [.explorerInitialise, .startedAnnealing 8,
     .startedIteration 1 8, .tryRandomChange, .coolDown, .finishedIteration 1 24,
     .startedIteration 2 24, .tryRandomChange, .coolDown, .finishedIteration 2 72,
     .finishedAnnealing 2 72, .explorerTearDown] := by decide
example : (anneal 3 0 (8 : Nat) 1 (some (.tryRandomChange 2))).events =
    [.explorerInitialise, .startedAnnealing 8,
     .startedIteration 1 8, .tryRandomChange, .coolDown, .finishedIteration 1 8,
     .startedIteration 2 8, .tryRandomChange, .explorerTearDown] := by decide
example : (anneal 3 0 (8 : Nat) 1 (some (.tryRandomChange 2))).outcome = .repanicked := by decide
/-- the antitone hypotheses are satisfiable with a strict decrease … -/
example : temp (8 : ℚ) (1/2) 3 = 1 := by norm_num [temp]
/-- … and needed: with a cooling factor above 1 the temperature rises -/
example : ¬ temp (8 : ℚ) 2 1 ≤ temp (8 : ℚ) 2 0 := by norm_num [temp]
example : receivedBy 1 (deliveries 3 (anneal 1 0 (8 : Nat) 1 none).events) =
    [.startedAnnealing 8, .startedIteration 1 8, .finishedIteration 1 8, .finishedAnnealing 1 8] := by decide

end Crem.Anneal
