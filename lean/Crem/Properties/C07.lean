import Crem.Proofs.Anneal
import Mathlib.Tactic.NormNum
/-!
# C07 — annealing loop contract: exact budget, ordered events, cooling, teardown

Property theorems about the model of `SimpleAnnealer.Anneal()` (`Crem/Model/Anneal.lean`;
`ElapsedTimeTrackingAnnealer.Anneal()` delegates to it).  `anneal N cur0 T0 a panicAt` is a run
with budget `N` entered with `currentIteration = cur0`; every run crem itself starts has
`cur0 = 0` (fresh clone), which is what the theorems are stated for (`rerun_single_iteration`
records what the code does otherwise).  All `N`, all starting temperatures and cooling factors
(in any monoid for the closed form, any ordered semiring for monotonicity), any number of
observers, a panic injected wherever foreign code runs: in the explorer's `Initialise`,
`TryRandomChange`, `CoolDown` (before or after the temperature was multiplied), `TearDown`, while
the finish event's attributes are built, or in the callback of any observer at any of the four
notify points.

How "a finish event carrying the result" is modelled: `Event.finishedAnnealing k T` carries the
iteration counter and the temperature; by `trace_shape` it is sent after exactly `N`
`TryRandomChange`/`CoolDown` pairs and before the teardown.  The payload crem attaches to it (the
compressed final model of the Kirkpatrick explorer, the solution archive of the Suppapitnarm
explorer) is the explorer's state at that moment; that part is outside the model (the explorer is
abstract here) and is checked directly on the implementation by the `anneal-trace` suite.

Every `theorem` in this file is audited by `./check C07` (`#print axioms`).
-/
namespace Crem.Anneal

section shape
variable {α : Type} [Mul α]

/-- Shape of a run: the explorer is initialised, one start event, then for `k = 1..N` a
started-iteration event carrying `k` (and the temperature before the iteration), one
`TryRandomChange`, one `CoolDown`, a finished-iteration event carrying `k` (and the cooled
temperature), then one finish event carrying `N`, then the explorer is torn down; the call returns.
`iterations T0 a N` is by definition the concatenation over `k = 1..N` of
`[startedIteration k T_{k-1}, tryRandomChange, coolDown, finishedIteration k T_k]`. -/
theorem trace_shape (N : Nat) (T0 a : α) :
    (anneal N 0 T0 a none).events =
      [.explorerInitialise, .startedAnnealing T0] ++ iterations T0 a N ++
        [.finishedAnnealing N (temp T0 a N), .explorerTearDown] ∧
    (anneal N 0 T0 a none).outcome = .returned ∧
    (anneal N 0 T0 a none).currentIteration = N ∧
    (anneal N 0 T0 a none).temperature = temp T0 a N := by
  rw [anneal_complete N T0 a none (Or.inl rfl)]
  simp

/-- ... and what `iterations` is, one step at a time (so the shape can be read without
unfolding `flatMap`). -/
theorem iterations_unfold (T0 a : α) (n : Nat) :
    iterations T0 a 0 = [] ∧
    iterations T0 a (n + 1) = iterations T0 a n ++
      [.startedIteration (n + 1) (temp T0 a n), .tryRandomChange, .coolDown,
       .finishedIteration (n + 1) (temp T0 a (n + 1))] := by
  refine ⟨by simp [iterations], ?_⟩
  rw [iterations_succ]; rfl

/-- No iteration for a zero budget: start event, finish event, teardown — nothing else. -/
theorem zero_budget (T0 a : α) :
    (anneal 0 0 T0 a none).events =
      [.explorerInitialise, .startedAnnealing T0, .finishedAnnealing 0 T0, .explorerTearDown] ∧
    (anneal 0 0 T0 a none).outcome = .returned := by
  simp [anneal, observerAt, finish]

/-- Exactly `N` iterations: `N` calls of `TryRandomChange`, `N` started-iteration and `N`
finished-iteration events, one finish event. -/
theorem exact_budget (N : Nat) (T0 a : α) :
    (anneal N 0 T0 a none).events.countP Event.isTry = N ∧
    (anneal N 0 T0 a none).events.countP Event.isStartedIteration = N ∧
    (anneal N 0 T0 a none).events.countP Event.isFinishedIteration = N ∧
    (anneal N 0 T0 a none).events.countP Event.isFinishedAnnealing = 1 := by
  obtain ⟨h1, h2, h3, h4⟩ := countP_iterations T0 a N
  rw [(trace_shape N T0 a).1]
  simp [List.countP_append, List.countP_cons, h1, h2, h3, h4, Event.isTry, Event.isStartedIteration,
    Event.isFinishedIteration, Event.isFinishedAnnealing]

/-- The fuel that makes the loop's recursion structural is never exhausted (any entry counter,
any panic site). -/
theorem anneal_fuel_sufficient (N cur0 : Nat) (T0 a : α) (p : Option PanicSite) :
    (anneal N cur0 T0 a p).outcome ≠ .outOfFuel := by
  have hfin : ∀ pre cur T, (finish p pre cur T : Result α).outcome ≠ .outOfFuel := by
    intro pre cur T
    unfold finish
    split
    · simp
    · split
      · simp
      · dsimp only; split <;> simp
  unfold anneal
  split
  · simp
  · split
    · simp
    · split
      · exact hfin _ _ _
      · have hf := loop_not_outOfFuel N a p (N - cur0 + 1) 0 cur0 T0 (by omega) (by omega)
        rcases hloop : loop N a p (N - cur0 + 1) 0 cur0 T0 with ⟨evs, ⟨cur, T⟩ | ⟨cur, T⟩ | ⟨cur, T⟩⟩
        · exact hfin _ _ _
        · simp [conclude]
        · rw [hloop] at hf; exact absurd rfl (hf cur T)

/-- A panic in `TryRandomChange` of iteration `j` (`1 ≤ j ≤ N`): the complete iterations
`1..j-1`, the started-iteration event of `j`, the failing call, then the explorer is torn down
and the panic is re-raised; no finished-iteration event for `j`, no finish event. -/
theorem panic_trace (N j : Nat) (T0 a : α) (hj1 : 1 ≤ j) (hjN : j ≤ N) :
    (anneal N 0 T0 a (some (.tryRandomChange j))).events =
      [.explorerInitialise, .startedAnnealing T0] ++ iterations T0 a (j - 1) ++
        [.startedIteration j (temp T0 a (j - 1)), .tryRandomChange, .explorerTearDown] ∧
    (anneal N 0 T0 a (some (.tryRandomChange j))).outcome = .repanicked ∧
    (anneal N 0 T0 a (some (.tryRandomChange j))).events.countP Event.isFinishedAnnealing = 0 ∧
    (anneal N 0 T0 a (some (.tryRandomChange j))).events.countP Event.isFinishedIteration = j - 1 := by
  obtain ⟨-, -, h3, h4⟩ := countP_iterations T0 a (j - 1)
  rw [anneal_iteration_panic N j T0 a (some (.tryRandomChange j)) _ _ hj1 hjN (if_pos rfl)]
  simp [List.countP_append, h3, h4, Event.isFinishedAnnealing, Event.isFinishedIteration]

/-- The same for a panic in `CoolDown` of iteration `j` *before* the coolant multiplied the
temperature: the coolant is left at the temperature of the start of the iteration. -/
theorem panic_trace_coolDown (N j : Nat) (T0 a : α) (hj1 : 1 ≤ j) (hjN : j ≤ N) :
    (anneal N 0 T0 a (some (.coolDown j))).events =
      [.explorerInitialise, .startedAnnealing T0] ++ iterations T0 a (j - 1) ++
        [.startedIteration j (temp T0 a (j - 1)), .tryRandomChange, .coolDown, .explorerTearDown] ∧
    (anneal N 0 T0 a (some (.coolDown j))).outcome = .repanicked ∧
    (anneal N 0 T0 a (some (.coolDown j))).events.countP Event.isFinishedAnnealing = 0 ∧
    (anneal N 0 T0 a (some (.coolDown j))).temperature = temp T0 a (j - 1) := by
  obtain ⟨-, -, -, h4⟩ := countP_iterations T0 a (j - 1)
  rw [anneal_iteration_panic N j T0 a (some (.coolDown j)) _ _ hj1 hjN (if_pos rfl)]
  simp [List.countP_append, h4, Event.isFinishedAnnealing]

/-- … and for a panic in `CoolDown` of iteration `j` *after* the multiplication (what the
Kirkpatrick explorer's `CoolDown` does when one of its own observers panics on the "Cooling"
event): the same events, but the coolant is left at the cooled temperature `T_j`. -/
theorem panic_trace_coolDownAfter (N j : Nat) (T0 a : α) (hj1 : 1 ≤ j) (hjN : j ≤ N) :
    (anneal N 0 T0 a (some (.coolDownAfter j))).events =
      [.explorerInitialise, .startedAnnealing T0] ++ iterations T0 a (j - 1) ++
        [.startedIteration j (temp T0 a (j - 1)), .tryRandomChange, .coolDown, .explorerTearDown] ∧
    (anneal N 0 T0 a (some (.coolDownAfter j))).outcome = .repanicked ∧
    (anneal N 0 T0 a (some (.coolDownAfter j))).events.countP Event.isFinishedAnnealing = 0 ∧
    (anneal N 0 T0 a (some (.coolDownAfter j))).temperature = temp T0 a j := by
  obtain ⟨j', rfl⟩ : ∃ j', j = j' + 1 := ⟨j - 1, by omega⟩
  obtain ⟨-, -, -, h4⟩ := countP_iterations T0 a j'
  rw [anneal_iteration_panic N (j' + 1) T0 a (some (.coolDownAfter (j' + 1))) _ _ hj1 hjN (if_pos rfl)]
  simp only [Nat.add_sub_cancel]
  simp [List.countP_append, h4, Event.isFinishedAnnealing, temp]

/-- A panic site beyond the budget (or "iteration 0") never fires: the run is the normal one. -/
theorem panic_beyond_budget (N j : Nat) (T0 a : α) (hj : j = 0 ∨ N < j) :
    anneal N 0 T0 a (some (.tryRandomChange j)) = anneal N 0 T0 a none ∧
    anneal N 0 T0 a (some (.coolDown j)) = anneal N 0 T0 a none ∧
    anneal N 0 T0 a (some (.coolDownAfter j)) = anneal N 0 T0 a none ∧
    (∀ i, anneal N 0 T0 a (some (.notify (.startedIteration j) i)) = anneal N 0 T0 a none) ∧
    (∀ i, anneal N 0 T0 a (some (.notify (.finishedIteration j) i)) = anneal N 0 T0 a none) := by
  rw [anneal_complete N T0 a none (Or.inl rfl)]
  refine ⟨?_, ?_, ?_, fun i => ?_, fun i => ?_⟩ <;>
    exact anneal_complete N T0 a _ (Or.inr ⟨j, by simp [fires, PanicSite.iteration?], hj⟩)

/-- Quirk recorded, not claimed as intended: if `Initialise()` of the explorer itself panics the
panic is re-raised *without* a teardown (the `defer TearDown()` is registered after it). -/
theorem panic_in_initialise (N cur0 : Nat) (T0 a : α) :
    (anneal N cur0 T0 a (some .initialise)).events = [.explorerInitialise] ∧
    (anneal N cur0 T0 a (some .initialise)).outcome = .repanicked := by
  simp [anneal]

/-- An observer (number `i` in the notifier's list) panics on the start event: observers up to
`i` were handed the event (marker `observerPanic i`), no iteration happens, the explorer is
still torn down, the panic is re-raised.  Any budget, any entry counter. -/
theorem observer_panic_started_annealing (N cur0 i : Nat) (T0 a : α) :
    anneal N cur0 T0 a (some (.notify .startedAnnealing i)) =
      ⟨[.explorerInitialise, .startedAnnealing T0, .observerPanic i, .explorerTearDown],
        .repanicked, cur0, T0⟩ := by
  simp [anneal, observerAt]

/-- An observer panics on the started-iteration event of iteration `j` (`1 ≤ j ≤ N`): complete
iterations `1..j-1`, the event, the marker, teardown, re-panic; `TryRandomChange` of iteration `j`
is not called, no finish event. -/
theorem observer_panic_started_iteration (N j i : Nat) (T0 a : α) (hj1 : 1 ≤ j) (hjN : j ≤ N) :
    (anneal N 0 T0 a (some (.notify (.startedIteration j) i))).events =
      [.explorerInitialise, .startedAnnealing T0] ++ iterations T0 a (j - 1) ++
        [.startedIteration j (temp T0 a (j - 1)), .observerPanic i, .explorerTearDown] ∧
    (anneal N 0 T0 a (some (.notify (.startedIteration j) i))).outcome = .repanicked ∧
    (anneal N 0 T0 a (some (.notify (.startedIteration j) i))).events.countP Event.isFinishedAnnealing = 0 ∧
    (anneal N 0 T0 a (some (.notify (.startedIteration j) i))).events.countP Event.isTry = j - 1 := by
  obtain ⟨h1, -, -, h4⟩ := countP_iterations T0 a (j - 1)
  rw [anneal_iteration_panic N j T0 a (some (.notify (.startedIteration j) i)) _ _ hj1 hjN (if_pos rfl)]
  simp [List.countP_append, h1, h4, Event.isFinishedAnnealing, Event.isTry]

/-- An observer panics on the finished-iteration event of iteration `j`: the iteration's two
explorer calls happened (the coolant is at `T_j`), the event, the marker, teardown, re-panic; no
further iteration, no finish event. -/
theorem observer_panic_finished_iteration (N j i : Nat) (T0 a : α) (hj1 : 1 ≤ j) (hjN : j ≤ N) :
    (anneal N 0 T0 a (some (.notify (.finishedIteration j) i))).events =
      [.explorerInitialise, .startedAnnealing T0] ++ iterations T0 a j ++
        [.observerPanic i, .explorerTearDown] ∧
    (anneal N 0 T0 a (some (.notify (.finishedIteration j) i))).outcome = .repanicked ∧
    (anneal N 0 T0 a (some (.notify (.finishedIteration j) i))).events.countP Event.isFinishedAnnealing = 0 ∧
    (anneal N 0 T0 a (some (.notify (.finishedIteration j) i))).events.countP Event.isTry = j ∧
    (anneal N 0 T0 a (some (.notify (.finishedIteration j) i))).temperature = temp T0 a j := by
  obtain ⟨j', rfl⟩ : ∃ j', j = j' + 1 := ⟨j - 1, by omega⟩
  obtain ⟨h1, -, -, h4⟩ := countP_iterations T0 a j'
  rw [anneal_iteration_panic N (j' + 1) T0 a (some (.notify (.finishedIteration (j' + 1)) i)) _ _ hj1 hjN
    (if_pos rfl)]
  simp only [Nat.add_sub_cancel]
  refine ⟨?_, ?_, ?_, ?_, ?_⟩
  · simp [iterations_succ, iterationEvents]
  · simp
  · simp [List.countP_append, h4, Event.isFinishedAnnealing]
  · simp [List.countP_append, List.countP_cons, h1, Event.isTry]
  · simp [temp]

/-- An observer panics on the finish event: all `N` iterations happened, the finish event was
sent (observers up to `i` have it), teardown, re-panic. -/
theorem observer_panic_finished_annealing (N i : Nat) (T0 a : α) :
    anneal N 0 T0 a (some (.notify .finishedAnnealing i)) =
      ⟨[.explorerInitialise, .startedAnnealing T0] ++ iterations T0 a N ++
          [.finishedAnnealing N (temp T0 a N), .observerPanic i, .explorerTearDown],
        .repanicked, N, temp T0 a N⟩ := by
  rw [anneal_loop_complete N T0 a _ (by simp) (by simp [observerAt])
    (by intro k _ _; simp [fires, PanicSite.iteration?])]
  simp [finish, observerAt]

/-- The explorer panics while the attributes of the finish event are put together
(`EventAttributes(FinishedAnnealing)` compresses the model): all `N` iterations happened, NO finish
event reaches anybody, teardown, re-panic. -/
theorem panic_finish_attributes (N : Nat) (T0 a : α) :
    anneal N 0 T0 a (some .finishAttributes) =
      ⟨[.explorerInitialise, .startedAnnealing T0] ++ iterations T0 a N ++ [.explorerTearDown],
        .repanicked, N, temp T0 a N⟩ ∧
    (anneal N 0 T0 a (some .finishAttributes)).events.countP Event.isFinishedAnnealing = 0 := by
  obtain ⟨-, -, -, h4⟩ := countP_iterations T0 a N
  rw [anneal_loop_complete N T0 a _ (by simp) (by simp [observerAt])
    (by intro k _ _; simp [fires, PanicSite.iteration?])]
  simp [finish, List.countP_append, h4, Event.isFinishedAnnealing]

/-- `TearDown()` itself panics (it is a deferred call, so this is after the finish event): the
events are those of the normal run; `handlePanicRecovery` re-raises the panic. -/
theorem panic_in_teardown (N : Nat) (T0 a : α) :
    (anneal N 0 T0 a (some .tearDown)).events = (anneal N 0 T0 a none).events ∧
    (anneal N 0 T0 a (some .tearDown)).outcome = .repanicked := by
  rw [anneal_complete N T0 a none (Or.inl rfl),
    anneal_loop_complete N T0 a _ (by simp) (by simp [observerAt])
      (by intro k _ _; simp [fires, PanicSite.iteration?])]
  simp [finish, observerAt]

/-- Teardown still runs, exactly once and as the very last thing, in EVERY run in which the
explorer's `Initialise()` returned: any budget, any entry counter, any panic site. -/
theorem teardown_always (N cur0 : Nat) (T0 a : α) (p : Option PanicSite) (hp : p ≠ some .initialise) :
    (anneal N cur0 T0 a p).events.getLast? = some .explorerTearDown ∧
    (anneal N cur0 T0 a p).events.countP Event.isTearDown = 1 :=
  anneal_teardown N cur0 T0 a p hp

/-- A run without an injected panic returns — any budget, any entry counter (panics come from
foreign code only: `Anneal()` itself never raises one). -/
theorem no_panic_returns (N cur0 : Nat) (T0 a : α) :
    (anneal N cur0 T0 a none).outcome = .returned := by
  have h := anneal_fuel_sufficient N cur0 T0 a none
  have hn := anneal_eq N cur0 T0 a (p := none) (by simp) rfl
  rw [hn] at h ⊢
  split
  · simp [finish, observerAt]
  · rename_i hN
    simp only [hN, if_false] at h
    rcases hloop : loop N a none (N - cur0 + 1) 0 cur0 T0 with ⟨evs, ⟨cur, T⟩ | ⟨cur, T⟩ | ⟨cur, T⟩⟩
    · simp [conclude, finish, observerAt]
    · have hnp := loop_none_not_panicked N a (N - cur0 + 1) 0 cur0 T0 cur T
      rw [hloop] at hnp; exact absurd rfl hnp
    · rw [hloop] at h; simp [conclude] at h

/-- Quirk recorded: `Anneal()` does not reset `currentIteration`, so a second `Anneal()` on the
same annealer object (counter already at the budget `N > 0`) performs exactly one iteration,
numbered `cur0 + 1`. -/
theorem rerun_single_iteration (N cur0 : Nat) (T0 a : α) (hN : N ≠ 0) (h : N ≤ cur0) :
    (anneal N cur0 T0 a none).events =
      [.explorerInitialise, .startedAnnealing T0, .startedIteration (cur0 + 1) T0, .tryRandomChange,
       .coolDown, .finishedIteration (cur0 + 1) (T0 * a), .finishedAnnealing (cur0 + 1) (T0 * a),
       .explorerTearDown] := by
  have hfuel : N - cur0 + 1 = 0 + 1 := by omega
  rw [anneal_eq N cur0 T0 a (p := none) (by simp) rfl]
  simp only [hN, if_false, hfuel, loop_overrun N a none 0 0 cur0 T0 (by omega) (by simp [fires])]
  simp [conclude, finish, observerAt, iterationEvents]

/-- … and a re-entry in mid-run (`0 < cur0 < N`, e.g. a second `Anneal()` after a panicking
one): the run resumes the count, performs the remaining `N - cur0` iterations numbered
`cur0+1 … N`, cooling from whatever temperature the coolant was left at, and finishes with `N`.
(`iterationsFrom a cur0 T0 m` = iterations `cur0+1 … cur0+m` entered at temperature `T0`.) -/
theorem reentry_midrun (N cur0 : Nat) (T0 a : α) (h : cur0 < N) :
    anneal N cur0 T0 a none =
      ⟨[.explorerInitialise, .startedAnnealing T0] ++ iterationsFrom a cur0 T0 (N - cur0) ++
          [.finishedAnnealing N (temp T0 a (N - cur0)), .explorerTearDown],
        .returned, N, temp T0 a (N - cur0)⟩ ∧
    (iterationsFrom a cur0 T0 (N - cur0)).countP Event.isTry = N - cur0 := by
  have hN : N ≠ 0 := by omega
  obtain ⟨m, hm⟩ : ∃ m, N - cur0 = m + 1 := ⟨N - cur0 - 1, by omega⟩
  have hl := loop_complete N a none m (N - cur0 + 1) 0 cur0 T0 (by omega) (by omega)
    (by intro k _ _; simp [fires])
  refine ⟨?_, countP_isTry_iterationsFrom a cur0 T0 _⟩
  rw [anneal_eq N cur0 T0 a (p := none) (by simp) rfl]
  simp only [hN, if_false]
  rw [hl, hm]
  simp [conclude, finish, observerAt]

/-- Prefix theorem: whatever the injected panic (any site, `Initialise` included), what the run
sends to the observers is an initial part of what the undisturbed run with the same budget, entry
counter, starting temperature and cooling factor sends.  Hence every clause about the events of
a normal run that is inherited by initial parts — the order of the events, the iteration numbers,
the temperature each event carries, "never increases" — holds of panicking runs too
(`panicking_run_event_temperatures`, `panicking_run_temperatures_antitone`). -/
theorem panicking_run_prefix (N cur0 : Nat) (T0 a : α) (p : Option PanicSite) :
    (anneal N cur0 T0 a p).events.filter Event.observable <+:
      (anneal N cur0 T0 a none).events.filter Event.observable :=
  anneal_prefix N cur0 T0 a p

end shape

section observers
variable {α : Type}

/-- Any number of observers: each of the `n` observers receives exactly the observable events, in
order, of any event list in which no delivery was cut short by a panicking observer (events being
immutable values in the model — see finding D21 for the Go notifier, whose observers share the
event's attribute array).  This is a statement about the notifier's loop alone; the run-level
statements are `every_observer_same_trace_run` and `observer_panic_delivery`. -/
theorem every_observer_same_trace (n i : Nat) (hi : i < n) (evs : List (Event α))
    (h : ∀ e ∈ evs, e.isObserverPanic = false) :
    receivedBy i (deliveries n evs) = evs.filter Event.observable :=
  receivedBy_deliveries_markerFree n i hi evs h

/-- … and they receive them interleaved as the notifier's loop dictates: event by event, each
event to observers `0, 1, …, n-1` in that order (this is the sequence the correspondence suite
compares with the order in which its recorders are actually called). -/
theorem delivery_order (n : Nat) (evs : List (Event α)) (h : ∀ e ∈ evs, e.isObserverPanic = false) :
    deliveries n evs =
      (evs.filter Event.observable).flatMap (fun e => (List.range n).map (fun i => (i, e))) :=
  deliveries_markerFree n evs h

/-- with no observer nothing is delivered -/
theorem no_observer_no_delivery (evs : List (Event α)) : deliveries 0 evs = [] := by
  induction evs with
  | nil => rfl
  | cons e l ih =>
    have : reach 0 l = 0 := by
      cases l with
      | nil => rfl
      | cons x l => cases x <;> simp [reach]
    simp [deliveries, this, ih]

variable [Mul α]

/-- Run level: in every run (any budget, any entry counter) whose injected panic — if any — is
not inside an observer, each of the `n` observers receives exactly the observable events of the
run, in order; in particular all observers receive the same trace, also in runs that panic in the
explorer. -/
theorem every_observer_same_trace_run (N cur0 : Nat) (T0 a : α) (p : Option PanicSite)
    (hp : ∀ pt j, p ≠ some (.notify pt j)) (n i : Nat) (hi : i < n) :
    receivedBy i (deliveries n (anneal N cur0 T0 a p).events) =
      (anneal N cur0 T0 a p).events.filter Event.observable :=
  receivedBy_deliveries_markerFree n i hi _ (anneal_markerFree N cur0 T0 a hp)

/-- Run level, observer `j` panics at notify point `pt` (any budget, any entry counter, any
number `n` of observers): observers `0 … j` — the panicking one included, its callback was entered —
received every observable event of the run; observers after `j` received all of them but the
last one (the event on which `j` panicked).  If the point is never reached the run returns and
everybody received everything. -/
theorem observer_panic_delivery (N cur0 : Nat) (T0 a : α) (pt : NotifyPoint) (j n i : Nat) (hi : i < n) :
    receivedBy i (deliveries n (anneal N cur0 T0 a (some (.notify pt j))).events) =
      if (anneal N cur0 T0 a (some (.notify pt j))).outcome = .repanicked ∧ j < i then
        ((anneal N cur0 T0 a (some (.notify pt j))).events.filter Event.observable).dropLast
      else (anneal N cur0 T0 a (some (.notify pt j))).events.filter Event.observable := by
  rcases anneal_notify N cur0 T0 a pt j with ⟨h1, h2⟩ | ⟨h1, pre, e, h2, h3, h4⟩
  · rw [receivedBy_deliveries_markerFree n i hi _ h2, h1]
    simp
  · have hpost : MarkerFree ([.explorerTearDown] : List (Event α)) := by
      simp [MarkerFree, Event.isObserverPanic]
    have hevs : pre ++ [e, .observerPanic j, .explorerTearDown] =
        pre ++ e :: .observerPanic j :: [.explorerTearDown] := rfl
    rw [h2, h1, hevs, receivedBy_deliveries_panic n i j hi e _ h4 hpost pre h3]
    have hm : (Event.observerPanic j : Event α).observable = false := rfl
    have hd : (Event.explorerTearDown : Event α).observable = false := rfl
    have hf : (pre ++ e :: .observerPanic j :: [.explorerTearDown]).filter Event.observable =
        pre.filter Event.observable ++ [e] := by
      simp [List.filter_append, h4, hm, hd]
    rw [hf]
    by_cases hji : j < i
    · have : ¬ i ≤ j := by omega
      simp [hji, this, hd]
    · have : i ≤ j := by omega
      simp [hji, this, hd]

/-- … and an observer that does not exist cannot panic: with `n` observers attached a notify
site for observer `j ≥ n` is no site at all (this is how the driver reads a site). -/
theorem absent_observer_never_panics (n j : Nat) (pt : NotifyPoint) (h : n ≤ j) :
    effectiveSite n (some (.notify pt j)) = none := by
  have : ¬ j < n := by omega
  simp [effectiveSite, this]

end observers

section temperature

/-- The temperature is multiplied by the cooling factor exactly once per iteration: after `k`
iterations it is `T0 * a^k` (any monoid). -/
theorem temperature_k {α : Type} [Monoid α] (T0 a : α) (k : Nat) : temp T0 a k = T0 * a ^ k :=
  temp_eq_mul_pow T0 a k

/-- ... as carried by the events of a run: the started-iteration event of iteration `k` carries
`T0 * a^(k-1)`, its finished-iteration event `T0 * a^k`, the finish event `T0 * a^N`. -/
theorem event_temperatures {α : Type} [Monoid α] (N : Nat) (T0 a : α) :
    ∀ e ∈ (anneal N 0 T0 a none).events,
      (∀ k T, e = .startedIteration k T → 1 ≤ k ∧ k ≤ N ∧ T = T0 * a ^ (k - 1)) ∧
      (∀ k T, e = .finishedIteration k T → 1 ≤ k ∧ k ≤ N ∧ T = T0 * a ^ k) ∧
      (∀ k T, e = .finishedAnnealing k T → k = N ∧ T = T0 * a ^ N) ∧
      (∀ T, e = .startedAnnealing T → T = T0) := by
  intro e he
  rw [(trace_shape N T0 a).1] at he
  simp only [List.mem_append, List.mem_cons, List.not_mem_nil, or_false] at he
  rcases he with ((rfl | rfl) | he) | rfl | rfl
  · simp
  · simp
  · obtain ⟨j, hj, hmem⟩ := mem_iterations he
    simp only [iterationEvents, List.mem_cons, List.not_mem_nil, or_false] at hmem
    rcases hmem with rfl | rfl | rfl | rfl
    · refine ⟨?_, by simp, by simp, by simp⟩
      intro k T h
      simp only [Event.startedIteration.injEq] at h
      obtain ⟨rfl, rfl⟩ := h
      exact ⟨by omega, by omega, by simpa using temp_eq_mul_pow T0 a j⟩
    · simp
    · simp
    · refine ⟨by simp, ?_, by simp, by simp⟩
      intro k T h
      simp only [Event.finishedIteration.injEq] at h
      obtain ⟨rfl, rfl⟩ := h
      exact ⟨by omega, by omega, temp_eq_mul_pow T0 a (j + 1)⟩
  · refine ⟨by simp, by simp, ?_, by simp⟩
    intro k T h
    simp only [Event.finishedAnnealing.injEq] at h
    obtain ⟨rfl, rfl⟩ := h
    exact ⟨rfl, temp_eq_mul_pow T0 a _⟩
  · simp

variable {α : Type} [Semiring α] [PartialOrder α] [IsOrderedRing α]

/-- The temperature never increases: for `0 ≤ T0` and `0 ≤ a ≤ 1`, one more iteration never
raises it. -/
theorem temperature_antitone (T0 a : α) (hT : 0 ≤ T0) (ha : 0 ≤ a) (ha1 : a ≤ 1) (k : Nat) :
    temp T0 a (k + 1) ≤ temp T0 a k :=
  temp_succ_le T0 a hT ha ha1 k

/-- ... along the whole event stream of a run: of any two events, the later never carries a
higher temperature than the earlier. -/
theorem trace_temperatures_antitone (N : Nat) (T0 a : α) (hT : 0 ≤ T0) (ha : 0 ≤ a) (ha1 : a ≤ 1) :
    ((anneal N 0 T0 a none).events.filterMap Event.temperature?).Pairwise (fun earlier later => later ≤ earlier) := by
  rw [(trace_shape N T0 a).1]
  simp only [List.filterMap_append, List.filterMap_cons, Event.temperature?, List.filterMap_nil,
    List.nil_append, List.cons_append]
  rw [List.pairwise_cons, List.pairwise_append]
  refine ⟨?_, pairwise_temps_iterations T0 a hT ha ha1 N, by simp, ?_⟩
  · intro x hx
    rw [List.mem_append] at hx
    rcases hx with hx | hx
    · obtain ⟨j, -, rfl⟩ := mem_temps_iterations T0 a N x hx
      exact temp_antitone T0 a hT ha ha1 (Nat.zero_le j)
    · simp only [List.mem_cons, List.not_mem_nil, or_false] at hx
      subst hx
      exact temp_antitone T0 a hT ha ha1 (Nat.zero_le N)
  · intro x hx y hy
    obtain ⟨j, hj, rfl⟩ := mem_temps_iterations T0 a N x hx
    simp only [List.mem_cons, List.not_mem_nil, or_false] at hy
    subst hy
    exact temp_antitone T0 a hT ha ha1 hj

/-- … and in a run with an injected panic at any site: the temperatures carried by the events
that were sent never increase either. -/
theorem panicking_run_temperatures_antitone (N : Nat) (T0 a : α) (p : Option PanicSite)
    (hT : 0 ≤ T0) (ha : 0 ≤ a) (ha1 : a ≤ 1) :
    ((anneal N 0 T0 a p).events.filterMap Event.temperature?).Pairwise
      (fun earlier later => later ≤ earlier) := by
  have h := trace_temperatures_antitone N T0 a hT ha ha1
  rw [filterMap_temperature_filter] at h ⊢
  exact h.sublist ((anneal_prefix N 0 T0 a p).sublist.filterMap _)

end temperature

/-- Every event a run with an injected panic (at any site) sends carries the iteration number and
the temperature `T0 * a^k` the normal run's event carries: the clauses of `event_temperatures`,
transferred by the prefix theorem. -/
theorem panicking_run_event_temperatures {α : Type} [Monoid α] (N : Nat) (T0 a : α) (p : Option PanicSite) :
    ∀ e ∈ (anneal N 0 T0 a p).events, e.observable = true →
      (∀ k T, e = .startedIteration k T → 1 ≤ k ∧ k ≤ N ∧ T = T0 * a ^ (k - 1)) ∧
      (∀ k T, e = .finishedIteration k T → 1 ≤ k ∧ k ≤ N ∧ T = T0 * a ^ k) ∧
      (∀ k T, e = .finishedAnnealing k T → k = N ∧ T = T0 * a ^ N) ∧
      (∀ T, e = .startedAnnealing T → T = T0) := by
  intro e he hobs
  have hmem : e ∈ (anneal N 0 T0 a none).events :=
    (List.mem_filter.mp ((anneal_prefix N 0 T0 a p).subset (List.mem_filter.mpr ⟨he, hobs⟩))).1
  exact event_temperatures N T0 a e hmem

/-! Non-vacuity and sanity examples (tests, labelled as such). -/

example : (anneal 2 0 (8 : Nat) 3 none).events =
    [.explorerInitialise, .startedAnnealing 8,
     .startedIteration 1 8, .tryRandomChange, .coolDown, .finishedIteration 1 24,
     .startedIteration 2 24, .tryRandomChange, .coolDown, .finishedIteration 2 72,
     .finishedAnnealing 2 72, .explorerTearDown] := by decide
example : (anneal 3 0 (8 : Nat) 1 (some (.tryRandomChange 2))).events =
    [.explorerInitialise, .startedAnnealing 8,
     .startedIteration 1 8, .tryRandomChange, .coolDown, .finishedIteration 1 8,
     .startedIteration 2 8, .tryRandomChange, .explorerTearDown] := by decide
example : (anneal 3 0 (8 : Nat) 1 (some (.tryRandomChange 2))).outcome = .repanicked := by decide
/-- the antitone hypotheses are satisfiable with a strict decrease … -/
example : temp (8 : ℚ) (1/2) 3 = 1 := by norm_num [temp]
/-- … and needed: with a cooling factor above 1 the temperature rises -/
example : ¬ temp (8 : ℚ) 2 1 ≤ temp (8 : ℚ) 2 0 := by norm_num [temp]
example : receivedBy 1 (deliveries 3 (anneal 1 0 (8 : Nat) 1 none).events) =
    [.startedAnnealing 8, .startedIteration 1 8, .finishedIteration 1 8, .finishedAnnealing 1 8] := by decide

/-- observer 1 of 3 panics on the started-iteration event of iteration 2 … -/
example : (anneal 3 0 (8 : Nat) 1 (some (.notify (.startedIteration 2) 1))).events =
    [.explorerInitialise, .startedAnnealing 8,
     .startedIteration 1 8, .tryRandomChange, .coolDown, .finishedIteration 1 8,
     .startedIteration 2 8, .observerPanic 1, .explorerTearDown] := by decide
/-- … observers 0 and 1 were handed that event, observer 2 was not -/
example :
    let evs := (anneal 3 0 (8 : Nat) 1 (some (.notify (.startedIteration 2) 1))).events
    receivedBy 0 (deliveries 3 evs) =
      [.startedAnnealing 8, .startedIteration 1 8, .finishedIteration 1 8, .startedIteration 2 8] ∧
    receivedBy 1 (deliveries 3 evs) = receivedBy 0 (deliveries 3 evs) ∧
    receivedBy 2 (deliveries 3 evs) =
      [.startedAnnealing 8, .startedIteration 1 8, .finishedIteration 1 8] := by decide
/-- the interleaving the shared sequence log of the suite is compared with -/
example : deliveries 2 (anneal 1 0 (8 : Nat) 1 none).events =
    [(0, .startedAnnealing 8), (1, .startedAnnealing 8), (0, .startedIteration 1 8), (1, .startedIteration 1 8),
     (0, .finishedIteration 1 8), (1, .finishedIteration 1 8),
     (0, .finishedAnnealing 1 8), (1, .finishedAnnealing 1 8)] := by decide
/-- a `CoolDown` panic before / after the multiplication leaves different temperatures behind -/
example : (anneal 3 0 (8 : Nat) 2 (some (.coolDown 2))).temperature = 16 ∧
    (anneal 3 0 (8 : Nat) 2 (some (.coolDownAfter 2))).temperature = 32 := by decide
/-- a panic while the finish attributes are built: no finish event, teardown, re-panic -/
example : (anneal 1 0 (8 : Nat) 1 (some .finishAttributes)).events =
    [.explorerInitialise, .startedAnnealing 8, .startedIteration 1 8, .tryRandomChange, .coolDown,
     .finishedIteration 1 8, .explorerTearDown] ∧
    (anneal 1 0 (8 : Nat) 1 (some .finishAttributes)).outcome = .repanicked := by decide
/-- re-entry in mid-run: counter 2 of budget 5, three more iterations numbered 3, 4, 5 -/
example : (anneal 5 2 (8 : Nat) 1 none).events.filter Event.isStartedIteration =
    [.startedIteration 3 8, .startedIteration 4 8, .startedIteration 5 8] := by decide
/-- the prefix theorem is about a proper prefix when the panic fires -/
example : (anneal 2 0 (8 : Nat) 1 (some (.tryRandomChange 2))).events.filter Event.observable =
    [.startedAnnealing 8, .startedIteration 1 8, .finishedIteration 1 8, .startedIteration 2 8] ∧
    (anneal 2 0 (8 : Nat) 1 none).events.filter Event.observable =
    [.startedAnnealing 8, .startedIteration 1 8, .finishedIteration 1 8, .startedIteration 2 8,
     .finishedIteration 2 8, .finishedAnnealing 2 8] := by decide

end Crem.Anneal
