import Crem.Proofs.Naming
/-!
# C12 — saved results are faithful, complete and deterministically named and labelled

Property theorems about the models `Crem/Model/Naming.lean` (run ids, solution ids, labels,
`Summary.Id`, `Summary.FileNameSafeId`, the JSON set name - each taking THE KEY THE GO MAP HAPPENED
TO YIELD as an explicit argument) and `Crem/Model/SummaryCsv.lean` (the summary map, its sorting and
CSV rendering - taking THE ORDER IN WHICH THE MAP WAS ITERATED as an explicit argument).

The naming theorems are stated for the REPAIRED code (`Variant.fixed`: the as-is solution of a
solution set is called `<run id> Solution (As-Is)` like the single-objective one, and a label is
the LAST `\d+/\d+` match of the solution id), for every scenario name over the clean alphabet
`Clean` (none of `/ ( )`, no newline, neither `As-Is` nor `Solution` as a substring - `Solution`
also not after removing blanks), EVERY run number / run count, EVERY set size and both annealer
families.  The code as found (`Variant.current`) FAILS them: the refuting witnesses are the
`example`s at the end (defects D6, D7, D8 of DESIGN.md section 6).  `rows_are_asis_then_members`
holds for both variants and for every run id.

Every `theorem` in this file is audited by `./check C12` (`#print axioms`).
-/
namespace Crem.C12
open Crem.Naming Crem.SummaryCsv

/-! ## labels -/

/-- the as-is row is labelled `As-Is` -/
theorem label_asIs (name : Str) (hc : Clean name) (r R : Nat) (f : Family) :
    labelFixed (asIsKey .fixed f (runId name r R)) = sAsIs :=
  label_asIs_fixed hc r R f

/-- solution k of n of run r of R is labelled `k-of-n` (`Optimised` for the only solution), whatever r and R are -/
theorem label_member (name : Str) (hc : Clean name) (r R k n : Nat) :
    labelFixed (memberKey (runId name r R) k n) =
      if k = 1 ∧ n = 1 then sOptimised else natStr k ++ sOf ++ natStr n :=
  label_member_fixed hc r R k n

/-- Row labels are unique within one summary: any run count, any run, any set size, both families. -/
theorem labels_unique (name : Str) (hc : Clean name) (r R n : Nat) (f : Family) :
    ((keys .fixed f (runId name r R) n).map labelFixed).Nodup := by
  have hAO : sAsIs ≠ sOptimised := by decide
  have hAd : ∀ k m : Nat, sAsIs ≠ natStr k ++ sOf ++ natStr m := by
    intro k m h
    cases hk : natStr k with
    | nil => exact natStr_ne_nil k hk
    | cons d ds =>
      have hd : d.isDigit = true := digits_natStr k d (by simp [hk])
      rw [hk] at h
      simp [sAsIs] at h
      rw [← h.1] at hd
      exact absurd hd (by decide)
  simp only [keys, List.map_cons, List.nodup_cons, label_asIs name hc r R f]
  cases f with
  | single =>
    simp only [memberKeys, List.map_cons, List.map_nil, label_member name hc r R 1 1]
    simp [hAO]
  | multi =>
    simp only [memberKeys, List.map_map]
    constructor
    · intro hmem
      obtain ⟨i, _, hi⟩ := List.mem_map.mp hmem
      simp only [Function.comp, label_member name hc r R (i + 1) n] at hi
      split at hi
      · exact hAO hi.symm
      · exact hAd _ _ hi.symm
    · rw [List.Nodup, List.pairwise_map]
      refine List.Pairwise.imp_of_mem ?_ (List.nodup_range (n := n))
      intro i j hi hj hij heq
      simp only [Function.comp, label_member name hc r R _ n] at heq
      have hi' := List.mem_range.mp hi
      have hj' := List.mem_range.mp hj
      by_cases hn : n = 1
      · omega
      · rw [if_neg (by omega), if_neg (by omega), List.append_assoc, List.append_assoc] at heq
        have := natStr_inj (List.append_cancel_right heq)
        omega

/-! ## file name, set id, JSON set name -/

/-- Whichever key of the summary map is yielded, the summary's file name, its id and the JSON set
name are the stated functions of (scenario name, run number, number of runs, output type). -/
theorem name_independent_of_key (name : Str) (hc : Clean name) (r R n : Nat) (f : Family) (ot : OutputType)
    (key : Str) (hk : key ∈ keys .fixed f (runId name r R) n) :
    summaryFileName ot key = intendedFileName ot name r R ∧
    setIdOfKey key = intendedSetId name r R ∧
    jsonSetNameOfKey key = some (runId name r R) := by
  obtain ⟨T, hT, rfl⟩ := fixed_key_shape hk
  refine ⟨?_, ?_, ?_⟩
  · unfold summaryFileName intendedFileName
    rw [fileSafeId_keyOf (rid_stripped_no_newline hc r R) (rid_stripped_no_Solution hc r R) hT,
      rid_fileStem hc r R]
  · unfold intendedSetId
    exact setId_keyOf (rid_no_newline hc r R) (rid_no_Solution hc r R) hT
  · exact jsonSetName_keyOf (rid_no_newline hc r R) hT

/-- the same, as "no dependence on the key" -/
theorem name_same_for_all_keys (name : Str) (hc : Clean name) (r R n : Nat) (f : Family) (ot : OutputType)
    (k₁ k₂ : Str) (h₁ : k₁ ∈ keys .fixed f (runId name r R) n) (h₂ : k₂ ∈ keys .fixed f (runId name r R) n) :
    summaryFileName ot k₁ = summaryFileName ot k₂ ∧ setIdOfKey k₁ = setIdOfKey k₂ ∧
      jsonSetNameOfKey k₁ = jsonSetNameOfKey k₂ := by
  obtain ⟨a₁, b₁, c₁⟩ := name_independent_of_key name hc r R n f ot k₁ h₁
  obtain ⟨a₂, b₂, c₂⟩ := name_independent_of_key name hc r R n f ot k₂ h₂
  exact ⟨a₁.trans a₂.symm, b₁.trans b₂.symm, c₁.trans c₂.symm⟩

/-- No key makes the JSON set-name derivation fail (the index panic on a nil regexp match). -/
theorem setName_total (name : Str) (hc : Clean name) (r R n : Nat) (f : Family)
    (key : Str) (hk : key ∈ keys .fixed f (runId name r R) n) : (jsonSetNameOfKey key).isSome = true := by
  rw [(name_independent_of_key name hc r R n f .json key hk).2.2]; rfl

/-- different runs of one scenario write different files (run numbers within 1..R are not even needed) -/
theorem file_names_of_runs_differ (name : Str) (r₁ r₂ R : Nat) (hR : R > 1) (ot : OutputType)
    (h : intendedFileName ot name r₁ R = intendedFileName ot name r₂ R) : r₁ = r₂ := by
  unfold intendedFileName runFileStem at h
  rw [if_pos hR, if_pos hR] at h
  have h1 := List.append_cancel_right (List.append_cancel_right h)
  simp only [List.append_assoc] at h1
  have h2 := List.append_cancel_left h1
  have h3 : natStr r₁ ++ '_' :: (['o', 'f', '_'] ++ natStr R ++ [')']) =
      natStr r₂ ++ '_' :: (['o', 'f', '_'] ++ natStr R ++ [')']) := by simpa [sUOf] using h2
  exact natStr_inj (append_cons_unique ((digits_natStr r₁).not_mem (by decide))
    ((digits_natStr r₂).not_mem (by decide)) h3).1

/-! ## rows -/

/-- The rows of the written summary are exactly the as-is state followed by each member in archive
order - for EVERY order `iter` in which Go iterates the summary map, every run id (clean or not),
both variants, both families, every set size. -/
theorem rows_are_asis_then_members (v : Variant) (f : Family) (rid : Str) (asIs : Row) (members : List Row)
    (iter : List Entry) (hiter : iter.Perm (buildSummary v f rid asIs members)) :
    sortedRows iter =
      asIsEntry v f rid asIs :: memberEntries v f rid members.length 0 members := by
  rw [buildSummary_eq] at hiter
  exact sortedRows_of_perm (entriesInOrder_sorted v f rid asIs members) hiter

/-- one row per solution: nothing is lost in the map (ids never collide) -/
theorem row_count (v : Variant) (f : Family) (rid : Str) (asIs : Row) (members : List Row)
    (iter : List Entry) (hiter : iter.Perm (buildSummary v f rid asIs members)) :
    (sortedRows iter).length = 1 + members.length := by
  rw [rows_are_asis_then_members v f rid asIs members iter hiter]
  have : ∀ i (ms : List Row), (memberEntries v f rid members.length i ms).length = ms.length := by
    intro i ms
    induction ms generalizing i with
    | nil => rfl
    | cons m ms ih => simp [memberEntries, ih]
  simp [this]; omega

/-- hence the CSV text does not depend on the iteration order -/
theorem csv_independent_of_iteration (v : Variant) (f : Family) (rid : Str) (asIs : Row) (members : List Row)
    (iter₁ iter₂ : List Entry) (h₁ : iter₁.Perm (buildSummary v f rid asIs members))
    (h₂ : iter₂.Perm (buildSummary v f rid asIs members)) (y : Option Entry) :
    renderCsv iter₁ y = renderCsv iter₂ y := by
  unfold renderCsv
  rw [rows_are_asis_then_members v f rid asIs members iter₁ h₁,
    rows_are_asis_then_members v f rid asIs members iter₂ h₂]

/-! ## non-vacuity: the hypotheses are satisfiable, and the statements say something -/

/-- `My Run 7` -/
def exName : Str := ['M', 'y', ' ', 'R', 'u', 'n', ' ', '7']

example : Clean exName := by decide
example : Clean ['K', 'i', 'r', 'k', ' ', '-', ' ', 'B', 'l', 'a', 'c', 'k', ' ', 'B', 'o', 'x'] := by decide

/-- run 2 of 3, three solutions: labels `As-Is, 1-of-3, 2-of-3, 3-of-3` -/
example : (keys .fixed .multi (runId exName 2 3) 3).map labelFixed =
    [sAsIs, ['1'] ++ sOf ++ ['3'], ['2'] ++ sOf ++ ['3'], ['3'] ++ sOf ++ ['3']] := by decide

/-- every key of that summary gives the file `MyRun7(2_of_3)-Summary.csv` and the set name `My Run 7 (2/3)` -/
example : (keys .fixed .multi (runId exName 2 3) 3).map (summaryFileName .csv) =
    List.replicate 4 (['M', 'y', 'R', 'u', 'n', '7', '(', '2', '_', 'o', 'f', '_', '3', ')'] ++ sDashSummary ++ ext .csv) := by
  decide
example : (keys .fixed .multi (runId exName 2 3) 3).map jsonSetNameOfKey =
    List.replicate 4 (some (exName ++ [' ', '(', '2', '/', '3', ')'])) := by decide

/-- the hypothesis `Clean` is needed: a name holding `(1/1)` makes every row `Optimised` -/
example : ¬ ((keys .fixed .multi (runId ['A', '(', '1', '/', '1', ')'] 1 1) 2).map labelFixed).Nodup := by decide
/-- and so is its last clause: `Sol ution` becomes `Solution` once blanks are removed, and the file
names of run 1 and run 2 collapse -/
example : summaryFileName .csv (memberKey (runId ['S', 'o', 'l', ' ', 'u', 't', 'i', 'o', 'n'] 1 2) 1 1) =
    summaryFileName .csv (memberKey (runId ['S', 'o', 'l', ' ', 'u', 't', 'i', 'o', 'n'] 2 2) 1 1) := by decide

/-! ## the code as found fails the property (D6, D7, D8): refuting witnesses -/

/-- D6: scenario `X`, one run, one solution: the file is `XAs-Is-Summary.csv` or `X-Summary.csv`
depending on which of the two keys Go's map iteration yields -/
example : (keys .current .multi (runId ['X'] 1 1) 1).map (summaryFileName .csv) =
    [['X', 'A', 's', '-', 'I', 's'] ++ sDashSummary ++ ext .csv, ['X'] ++ sDashSummary ++ ext .csv] := by decide
example : ¬ ∀ k₁ ∈ keys .current .multi (runId ['X'] 1 1) 1, ∀ k₂ ∈ keys .current .multi (runId ['X'] 1 1) 1,
    summaryFileName .csv k₁ = summaryFileName .csv k₂ ∧ setIdOfKey k₁ = setIdOfKey k₂ := by decide

/-- D7: run 2 of 3 with two solutions: both rows are labelled `2-of-3` (the run's own `r/R` is the first match) -/
example : (keys .current .multi (runId ['X'] 2 3) 2).map labelCurrent =
    [sAsIs, ['2'] ++ sOf ++ ['3'], ['2'] ++ sOf ++ ['3']] := by decide
example : ¬ ((keys .current .multi (runId ['X'] 2 3) 2).map labelCurrent).Nodup := by decide

/-- D8: the as-is key of a solution set has no ` Solution` in it: the JSON set name derivation
indexes a nil match (`none` = the panic); the other key of the same map works -/
example : (keys .current .multi (runId ['X'] 1 1) 1).map jsonSetNameOfKey = [none, some ['X']] := by decide
example : ∃ key ∈ keys .current .multi (runId ['X'] 1 1) 1, (jsonSetNameOfKey key).isSome = false := by decide

/-- the single-objective family was never affected by D6/D8 -/
example : (keys .current .single (runId ['X'] 2 3) 1).map (fun k => (summaryFileName .json k, jsonSetNameOfKey k)) =
    List.replicate 2 (['X', '(', '2', '_', 'o', 'f', '_', '3', ')'] ++ sDashSummary ++ ext .json,
      some ['X', ' ', '(', '2', '/', '3', ')']) := by decide

end Crem.C12
